/-
  Lemmas about the fine-grained interleaving model `Cachelito.ConcDataFine` (C18 at the granularity of the
  nested store-lock sections of the sync `insert_with_memory`).

  §1  shape of `cstepFine`, lifting of invariants along schedules, the queue mutex (`holder_unique`)
  §2  shape of `microF`: coarse delegation / the five fine steps; store-only steps
  §3  values
  §4  the in-flight invariant `SyncInv` + the local facts a thread inside its queue section relies on
  §5  the entry bound with stores in flight and a queue section in progress
  §6  the memory bound (ghost "not yet past the final fitting read" keys)
  §7  well-formedness, quiescence
  §8  one thread alone computes `trackMemStep`; the coarse model is the uninterrupted fine model
-/
import Cachelito.ConcDataFine
import Cachelito.Lemmas.ConcData

set_option linter.unusedSectionVars false
set_option linter.unusedSimpArgs false
set_option linter.unusedVariables false

namespace Cachelito.ConcDataFine
open Cachelito Cachelito.ConcData

variable {K V S : Type} [DecidableEq K]

/-! ## §1 Shape of a step -/

/-- decomposition of the thread list around the stepping thread -/
theorem decomp {α : Type} {l : List α} {i : Nat} {t : α} (hi : l[i]? = some t) :
    ∃ l1 l2, l = l1 ++ t :: l2 ∧ l.eraseIdx i = l1 ++ l2 ∧ ∀ t', l.set i t' = l1 ++ t' :: l2 := by
  have hlt : i < l.length := by
    apply Classical.byContradiction; intro hn
    rw [List.getElem?_eq_none (by omega)] at hi; cases hi
  refine ⟨l.take i, l.drop (i + 1), ?_, List.eraseIdx_eq_take_drop_succ l i, ?_⟩
  · have hget : l[i] = t := by
      rw [List.getElem?_eq_getElem hlt] at hi; exact Option.some.inj hi
    rw [← hget]
    exact (List.take_append_drop i l).symm.trans (by rw [List.drop_eq_getElem_cons hlt])
  · intro t'; rw [List.set_eq_take_append_cons_drop, if_pos hlt]

/-- **Master shape lemma**: a step of the fine system = one micro-step of one thread `t` (at the head of
    its program) on the shared state; the thread list changes at that thread only; and if the micro-step
    needs the queue mutex, no OTHER thread is inside a queue section. -/
theorem cstepFine_cases {cfg : Cfg} {tl : Tlru S} {size : V → Nat} {c c' : FState K V} {i : Nat}
    (h : cstepFine cfg tl size c i = some c') :
    ∃ t op rs rest l1 l2, c.threads = l1 ++ t :: l2 ∧ t.prog = (op, rs) :: rest ∧
      (needsO cfg op t.pend = true → ∀ x, x ∈ l1 ++ l2 → holdsO x.pend = false) ∧
      c'.shared = (microF cfg tl size c.shared op rs t.pend).1 ∧
      ((∃ p, (microF cfg tl size c.shared op rs t.pend).2 = .more p ∧
          c'.threads = l1 ++ { t with pend := some p } :: l2) ∨
       (∃ op' o, (microF cfg tl size c.shared op rs t.pend).2 = .fin op' o ∧
          c'.threads = l1 ++ { prog := rest, pend := none, done := t.done ++ [(op', o)] } :: l2)) := by
  unfold cstepFine at h
  cases ht : c.threads[i]? with
  | none => rw [ht] at h; cases h
  | some t =>
    rw [ht] at h
    simp only at h
    cases hp : t.prog with
    | nil => rw [hp] at h; cases h
    | cons a rest =>
      obtain ⟨op, rs⟩ := a
      rw [hp] at h
      simp only at h
      obtain ⟨l1, l2, hl, her, hset⟩ := decomp ht
      refine ⟨t, op, rs, rest, l1, l2, hl, hp, ?_, ?_⟩
      · intro hn x hx
        by_cases hfree : othersFree c.threads i = true
        · unfold othersFree at hfree
          rw [her, List.all_eq_true] at hfree
          have := hfree x hx
          simpa using this
        · simp [hn, hfree] at h
      · split at h
        · cases h
        · generalize microF cfg tl size c.shared op rs t.pend = mr at h
          obtain ⟨s1, r⟩ := mr
          cases r with
          | more p =>
            simp only [Option.some.injEq] at h
            subst h
            refine ⟨rfl, Or.inl ⟨p, rfl, ?_⟩⟩
            show c.threads.set i _ = _
            rw [hset, hp]
          | fin op' o =>
            simp only [Option.some.injEq] at h
            subst h
            exact ⟨rfl, Or.inr ⟨op', o, rfl, hset _⟩⟩

/-- the short form used by most invariants: the stepping thread `t` becomes `t'` with local state
    `resPend (result)`; its program and records change as recorded in the master lemma -/
theorem cstepFine_pend {cfg : Cfg} {tl : Tlru S} {size : V → Nat} {c c' : FState K V} {i : Nat}
    (h : cstepFine cfg tl size c i = some c') :
    ∃ t op rs rest l1 l2 t', c.threads = l1 ++ t :: l2 ∧ t.prog = (op, rs) :: rest ∧
      (needsO cfg op t.pend = true → ∀ x, x ∈ l1 ++ l2 → holdsO x.pend = false) ∧
      c'.shared = (microF cfg tl size c.shared op rs t.pend).1 ∧
      c'.threads = l1 ++ t' :: l2 ∧ t'.pend = resPend (microF cfg tl size c.shared op rs t.pend).2 := by
  obtain ⟨t, op, rs, rest, l1, l2, hl, hprog, hfree, hsh, hth⟩ := cstepFine_cases h
  rcases hth with ⟨p, hr, hts⟩ | ⟨op', o, hr, hts⟩
  · exact ⟨t, op, rs, rest, l1, l2, _, hl, hprog, hfree, hsh, hts, by rw [hr]; rfl⟩
  · exact ⟨t, op, rs, rest, l1, l2, _, hl, hprog, hfree, hsh, hts, by rw [hr]; rfl⟩

/-- an invariant of the whole state kept by every enabled step is kept by every schedule -/
theorem crunFine_invariant {cfg : Cfg} {tl : Tlru S} {size : V → Nat} (P : FState K V → Prop)
    (hstep : ∀ c i c', P c → cstepFine cfg tl size c i = some c' → P c')
    (sch : List ThreadId) (c : FState K V) (h : P c) : P (crunFine cfg tl size sch c) := by
  induction sch generalizing c with
  | nil => exact h
  | cons i sch ih =>
    simp only [crunFine]
    cases hs : cstepFine cfg tl size c i with
    | none => exact ih c h
    | some c' => exact ih c' (hstep c i c' h hs)

theorem mem_mid {α : Type} {l1 l2 : List α} {t x : α} (hx : x ∈ l1 ++ l2) : x ∈ l1 ++ t :: l2 := by
  rcases List.mem_append.mp hx with h | h
  · exact List.mem_append_left _ h
  · exact List.mem_append_right _ (List.mem_cons_of_mem _ h)

theorem mem_mid_cases {α : Type} {l1 l2 : List α} {t x : α} (hx : x ∈ l1 ++ t :: l2) : x = t ∨ x ∈ l1 ++ l2 := by
  rcases List.mem_append.mp hx with h | h
  · exact Or.inr (List.mem_append_left _ h)
  · rcases List.mem_cons.mp h with h | h
    · exact Or.inl h
    · exact Or.inr (List.mem_append_right _ h)

theorem mem_mid_self {α : Type} {l1 l2 : List α} {t : α} : t ∈ l1 ++ t :: l2 :=
  List.mem_append_right _ List.mem_cons_self

/-! ### keys collected from the local states -/

theorem keysBy_append (g : Option (FPend K V) → List K) (l1 l2 : List (FThread K V)) :
    keysBy g (l1 ++ l2) = keysBy g l1 ++ keysBy g l2 := by simp [keysBy]

theorem keysBy_cons (g : Option (FPend K V) → List K) (t : FThread K V) (l : List (FThread K V)) :
    keysBy g (t :: l) = g t.pend ++ keysBy g l := by simp [keysBy]

theorem mem_keysBy_mid {g : Option (FPend K V) → List K} {l1 l2 : List (FThread K V)} {t : FThread K V} {x : K} :
    x ∈ keysBy g (l1 ++ t :: l2) ↔ x ∈ g t.pend ++ keysBy g (l1 ++ l2) := by
  rw [keysBy_append, keysBy_cons, keysBy_append]
  simp only [List.mem_append]
  constructor
  · rintro (h | h | h)
    · exact Or.inr (Or.inl h)
    · exact Or.inl h
    · exact Or.inr (Or.inr h)
  · rintro (h | h | h)
    · exact Or.inr (Or.inl h)
    · exact Or.inl h
    · exact Or.inr (Or.inr h)

theorem length_keysBy_mid (g : Option (FPend K V) → List K) (l1 l2 : List (FThread K V)) (t : FThread K V) :
    (keysBy g (l1 ++ t :: l2)).length = (g t.pend).length + (keysBy g (l1 ++ l2)).length := by
  rw [keysBy_append, keysBy_cons, keysBy_append]
  simp only [List.length_append]; omega

theorem sum_keysBy_mid (w : K → Nat) (g : Option (FPend K V) → List K) (l1 l2 : List (FThread K V)) (t : FThread K V) :
    ((keysBy g (l1 ++ t :: l2)).map w).sum = ((g t.pend).map w).sum + ((keysBy g (l1 ++ l2)).map w).sum := by
  rw [keysBy_append, keysBy_cons, keysBy_append]
  simp only [List.map_append, List.sum_append]; omega

theorem keysBy_eq_nil {g : Option (FPend K V) → List K} {l : List (FThread K V)}
    (h : ∀ t, t ∈ l → g t.pend = []) : keysBy g l = [] := by
  unfold keysBy
  rw [List.flatMap_eq_nil_iff]
  exact h

theorem hkeys_of_not_holds {p : Option (FPend K V)} (h : holdsO p = false) : hkeys p = [] := by
  cases p with
  | none => rfl
  | some fp => cases fp <;> first | rfl | (simp [holdsO] at h)

theorem holdsO_of_hkeys_nil {p : Option (FPend K V)} (h : hkeys p = []) : holdsO p = false := by
  cases p with
  | none => rfl
  | some fp => cases fp <;> first | rfl | (simp [hkeys] at h)

theorem holdKeys_free {l : List (FThread K V)} (h : ∀ x, x ∈ l → holdsO x.pend = false) : holdKeys l = [] :=
  keysBy_eq_nil (fun t ht => hkeys_of_not_holds (h t ht))

/-! ### the queue mutex -/

/-- number of threads inside a (multi-step) queue-mutex section -/
def holders (ts : List (FThread K V)) : Nat := (ts.filter (fun t => holdsO t.pend)).length

theorem holders_mid (l1 l2 : List (FThread K V)) (t : FThread K V) :
    holders (l1 ++ t :: l2) = (if holdsO t.pend then 1 else 0) + holders (l1 ++ l2) := by
  unfold holders
  simp only [List.filter_append, List.filter_cons, List.length_append]
  split <;> simp <;> omega

theorem holders_free {l : List (FThread K V)} (h : ∀ x, x ∈ l → holdsO x.pend = false) : holders l = 0 := by
  unfold holders
  rw [List.length_eq_zero_iff, List.filter_eq_nil_iff]
  intro x hx; simp [h x hx]

/-! ## §2 Shape of a micro-step -/

theorem holdsO_liftRes (r : Res K V) : holdsO (resPend (liftRes r)) = false := by cases r <;> rfl

theorem hkeys_liftRes (r : Res K V) : hkeys (resPend (liftRes r)) = [] := by cases r <;> rfl

theorem fkeys_liftRes (r : Res K V) : fkeys (resPend (liftRes r)) = resKeys r := by cases r <;> rfl

theorem fkeys_of_holds {p : Option (FPend K V)} (h : holdsO p = true) : fkeys p = [] := by
  cases p with
  | none => rfl
  | some fp => cases fp <;> first | rfl | (simp [holdsO] at h)

/-- the entry of the split queue section is taken exactly for a sync `insert_with_memory` in flight with
    a memory bound configured -/
theorem fineEntry_some {cfg : Cfg} {p : Pend K V} {k : K} {v : V} {rs : List Nat} {maxM : Nat}
    (h : fineEntry cfg p = some (k, v, rs, maxM)) :
    p = .trackMem k v rs ∧ isAsync cfg = false ∧ cfg.maxMem = some maxM := by
  cases p <;> simp only [fineEntry] at h <;> try (cases h)
  split at h
  · cases h
  · rename_i ha
    cases hm : cfg.maxMem with
    | none => rw [hm] at h; cases h
    | some m =>
      rw [hm] at h
      simp only [Option.some.injEq, Prod.mk.injEq] at h
      obtain ⟨rfl, rfl, rfl, rfl⟩ := h
      exact ⟨rfl, by simpa using ha, rfl⟩

theorem fineEntry_sync_mem {cfg : Cfg} (ha : isAsync cfg = false) {maxM : Nat} (hM : cfg.maxMem = some maxM)
    (k : K) (v : V) (rs : List Nat) : fineEntry cfg (.trackMem k v rs : Pend K V) = some (k, v, rs, maxM) := by
  simp [fineEntry, ha, hM]

theorem fineEntry_no_mem {cfg : Cfg} (hM : cfg.maxMem = none) (p : Pend K V) : fineEntry cfg p = none := by
  cases p <;> simp [fineEntry, hM]

theorem microF_none (cfg : Cfg) (tl : Tlru S) (size : V → Nat) (s : State K V) (op : Op K V) (rs : List Nat) :
    microF cfg tl size s op rs none = liftStep (micro false cfg tl size s op rs none) := rfl

theorem microF_base_coarse {cfg : Cfg} (tl : Tlru S) (size : V → Nat) (s : State K V) (op : Op K V) (rs : List Nat)
    {p : Pend K V} (h : fineEntry cfg p = none) :
    microF cfg tl size s op rs (some (.base p)) = liftStep (micro false cfg tl size s op rs (some p)) := by
  simp only [microF, h]

theorem microF_base_enter {cfg : Cfg} (tl : Tlru S) (size : V → Nat) (s : State K V) (op : Op K V) (rs : List Nat)
    {p : Pend K V} {k : K} {v : V} {rs' : List Nat} {maxM : Nat} (h : fineEntry cfg p = some (k, v, rs', maxM)) :
    microF cfg tl size s op rs (some (.base p)) = enterStep size maxM s k v rs' := by
  simp only [microF, h]

/-- a micro-step that ends inside a queue section needed the queue mutex -/
theorem needsO_of_res_holds (cfg : Cfg) (tl : Tlru S) (size : V → Nat) (s : State K V) (op : Op K V) (rs : List Nat)
    (pend : Option (FPend K V)) (h : holdsO (resPend (microF cfg tl size s op rs pend).2) = true) :
    needsO cfg op pend = true := by
  cases pend with
  | none => rw [microF_none] at h; simp only [liftStep, holdsO_liftRes] at h; cases h
  | some fp =>
    cases fp with
    | base p =>
      cases hfe : fineEntry cfg p with
      | none => rw [microF_base_coarse tl size s op rs hfe] at h; simp only [liftStep, holdsO_liftRes] at h; cases h
      | some x =>
        obtain ⟨k, v, rs', maxM⟩ := x
        rw [(fineEntry_some hfe).1]; rfl
    | oversize k v => rfl
    | loopRead k v rs' => rfl
    | loopEvict k v rs' => rfl
    | limit k v r => rfl

theorem needsO_of_holds (cfg : Cfg) (op : Op K V) {pend : Option (FPend K V)} (h : holdsO pend = true) :
    needsO cfg op pend = true := by
  cases pend with
  | none => cases h
  | some fp => cases fp <;> first | rfl | (simp [holdsO] at h)

/-- **The queue mutex is respected**: a step keeps "at most one thread is inside a queue section". -/
theorem cstepFine_holders {cfg : Cfg} {tl : Tlru S} {size : V → Nat} (c : FState K V) (i : Nat) (c' : FState K V)
    (hh : holders c.threads ≤ 1) (h : cstepFine cfg tl size c i = some c') : holders c'.threads ≤ 1 := by
  obtain ⟨t, op, rs, rest, l1, l2, t', hl, hprog, hfree, hsh, hts, hpend⟩ := cstepFine_pend h
  rw [hts, holders_mid]
  rw [hl, holders_mid] at hh
  by_cases hn : needsO cfg op t.pend = true
  · rw [holders_free (hfree hn)]; split <;> omega
  · have h1 : holdsO t'.pend = false := by
      cases hx : holdsO t'.pend with
      | false => rfl
      | true => rw [hpend] at hx; exact absurd (needsO_of_res_holds cfg tl size c.shared op rs t.pend hx) hn
    rw [h1]; simp only [Bool.false_eq_true, if_false]
    split at hh <;> omega

theorem holders_start (s : State K V) (progs : List (List (Op K V × List Nat))) :
    holders (FState.start s progs).threads = 0 := by
  apply holders_free
  intro x hx
  simp only [FState.start, List.mem_map] at hx
  obtain ⟨prog, _, rfl⟩ := hx
  rfl

/-- **Store-only micro-steps** (those that do not need the queue mutex): the queue is untouched, no stored
    key disappears, the thread is outside a queue section before and after, and the store grows by at most
    the one entry whose key becomes in-flight. -/
theorem storeOnly_spec (cfg : Cfg) (tl : Tlru S) (size : V → Nat) (s : State K V) (op : Op K V) (rs : List Nat)
    (pend : Option (FPend K V)) (h : needsO cfg op pend = false) :
    (microF cfg tl size s op rs pend).1.queue = s.queue ∧
    (∀ x, x ∈ keys s.store → x ∈ keys (microF cfg tl size s op rs pend).1.store) ∧
    holdsO pend = false ∧ holdsO (resPend (microF cfg tl size s op rs pend).2) = false ∧
    (microF cfg tl size s op rs pend).1.store.length + (fkeys pend).length
      ≤ s.store.length + (fkeys (resPend (microF cfg tl size s op rs pend).2)).length := by
  have hput : ∀ (k : K) (e : Entry V) (x : K), x ∈ keys s.store → x ∈ keys (Cachelito.put k e s.store) := by
    intro k e x hx
    rw [keys_put]
    by_cases hxk : x = k
    · subst hxk; exact List.mem_append_right _ (List.mem_singleton.mpr rfl)
    · exact List.mem_append_left _ (List.mem_filter.mpr ⟨hx, by simpa using hxk⟩)
  cases pend with
  | none =>
    rw [microF_none]
    simp only [liftStep, holdsO_liftRes, fkeys_liftRes, micro, true_and]
    refine ⟨?_, ?_, rfl, ?_⟩
    all_goals
      cases op with
      | get k =>
        simp only [first]
        cases hl : lookup k s.store with
        | none => first | rfl | (intro x hx; exact hx) | simp [fkeys, coarseOf, ownKeys, resKeys]
        | some e =>
          simp only
          split
          · first | rfl | (intro x hx; exact hx) | (split <;> simp [fkeys, coarseOf, ownKeys, resKeys, Pend.key?])
          · split
            · split <;> first | rfl | (intro x hx; split <;> simp [hx]) |
                (split <;> simp [fkeys, coarseOf, ownKeys, resKeys, Pend.key?, bumpHits])
            · split
              · first | rfl | (intro x hx; exact hx) | simp [fkeys, coarseOf, ownKeys, resKeys, Pend.key?]
              · split <;> first | rfl | (intro x hx; exact hx) | simp [fkeys, coarseOf, ownKeys, resKeys, Pend.key?]
      | insert k v =>
        have ha : isAsync cfg = false := h
        simp only [first, ha, Bool.false_eq_true, if_false]
        all_goals first | rfl | exact hput k _ |
          (have := length_put_le k (⟨v, stamp cfg s.now, 0⟩ : Entry V) s.store
           simp [fkeys, coarseOf, ownKeys, resKeys, Pend.key?]; omega)
      | insertMem k v =>
        have ha : isAsync cfg = false := h
        simp only [first, ha, Bool.false_eq_true, if_false]
        all_goals first | rfl | exact hput k _ |
          (have := length_put_le k (⟨v, stamp cfg s.now, 0⟩ : Entry V) s.store
           simp [fkeys, coarseOf, ownKeys, resKeys, Pend.key?]; omega)
      | clear => simp [needsO] at h
      | invalidateWith p =>
        have ha : isAsync cfg = true := by simpa [needsO] using h
        simp only [first, ha, if_true]
        all_goals first | rfl | (intro x hx; exact hx) | simp [fkeys, coarseOf, ownKeys, resKeys, Pend.key?]
      | tick ms =>
        first | rfl | (intro x hx; exact hx) | simp [first, fkeys, coarseOf, ownKeys, resKeys, Pend.key?]
  | some fp =>
    cases fp with
    | base p =>
      cases p <;> try (simp [needsO] at h)
      rename_i k v
      rw [microF_base_coarse tl size s op rs (by rfl)]
      simp only [liftStep, holdsO_liftRes, fkeys_liftRes, micro]
      refine ⟨?_, ?_, rfl, trivial, ?_⟩
      all_goals
        split
        · first | rfl | (intro x hx; exact hx) | simp [contAsync, noop, fkeys, coarseOf, ownKeys, resKeys, Pend.key?]
        · first | rfl | (intro x hx; simp only [contSync, keys_bumpHits]; exact hx) |
            simp [contSync, bumpHits, fkeys, coarseOf, ownKeys, resKeys, Pend.key?]
    | oversize k v => simp [needsO] at h
    | loopRead k v rs' => simp [needsO] at h
    | loopEvict k v rs' => simp [needsO] at h
    | limit k v r => simp [needsO] at h

/-! ## §3 Values -/

/-- a value carried by an operation in progress is the function's value for its key (the four new local
    states carry the value only to report the finished operation) -/
def FPendOK (f : K → V) : FPend K V → Prop
  | .base p => PendOK f p
  | _ => True

def FResOK (f : K → V) : FRes K V → Prop
  | .more p => FPendOK f p
  | .fin op o => RecOK f op o

theorem FResOK_liftRes {f : K → V} {r : Res K V} (h : ResOK f r) : FResOK f (liftRes r) := by
  cases r <;> exact h

theorem recOK_insertMem (f : K → V) (k : K) (v : V) : RecOK f (.insertMem k v) .unit := by
  intro k' v' hk; cases hk

/-- **Values, one micro-step of the fine model.** -/
theorem microF_val {f : K → V} (cfg : Cfg) (tl : Tlru S) (size : V → Nat) (s : State K V)
    (op : Op K V) (rs : List Nat) (pend : Option (FPend K V))
    (hs : ValOK f s.store) (hop : OpOK f op) (hp : ∀ p, pend = some (.base p) → PendOK f p) :
    ValOK f (microF cfg tl size s op rs pend).1.store ∧ FResOK f (microF cfg tl size s op rs pend).2 := by
  cases pend with
  | none =>
    have := micro_val false cfg tl size s op rs none hs hop (by intro p h; cases h)
    exact ⟨this.1, FResOK_liftRes this.2⟩
  | some fp =>
    cases fp with
    | base p =>
      cases hfe : fineEntry cfg p with
      | none =>
        rw [microF_base_coarse tl size s op rs hfe]
        have := micro_val false cfg tl size s op rs (some p) hs hop
          (by intro p' h; cases h; exact hp p rfl)
        exact ⟨this.1, FResOK_liftRes this.2⟩
      | some x =>
        obtain ⟨k, v, rs', maxM⟩ := x
        rw [microF_base_enter tl size s op rs hfe]
        unfold enterStep
        simp only
        split <;> exact ⟨hs, trivial⟩
    | oversize k v => exact ⟨hs.sublist (eraseKey_sublist k _), recOK_insertMem f k v⟩
    | loopRead k v rs' =>
      simp only [microF, loopReadStep]
      cases cfg.maxMem with
      | none => exact ⟨hs, trivial⟩
      | some maxM => simp only; split <;> exact ⟨hs, trivial⟩
    | loopEvict k v rs' =>
      simp only [microF, loopEvictStep]
      have hsub := (evictMem_shr cfg tl s.now (rs'.headD 0) s.store s.queue).store
      split <;> exact ⟨hs.sublist hsub, trivial⟩
    | limit k v r =>
      exact ⟨hs.sublist (limitStep_shr cfg tl s.now r s.store s.queue).store, recOK_insertMem f k v⟩

/-- the thread-local part of the values invariant -/
def FThreadOK (f : K → V) (t : FThread K V) : Prop :=
  (∀ x, x ∈ t.prog → OpOK f x.1) ∧ (∀ p, t.pend = some (.base p) → PendOK f p) ∧
  (∀ r, r ∈ t.done → RecOK f r.1 r.2)

/-- the values invariant of the fine interleaving model -/
def FValInv (f : K → V) (c : FState K V) : Prop :=
  ValOK f c.shared.store ∧ ∀ t, t ∈ c.threads → FThreadOK f t

theorem cstepFine_val {f : K → V} {cfg : Cfg} {tl : Tlru S} {size : V → Nat}
    (c : FState K V) (i : Nat) (c' : FState K V) (hv : FValInv f c)
    (h : cstepFine cfg tl size c i = some c') : FValInv f c' := by
  obtain ⟨t, op, rs, rest, l1, l2, hl, hprog, _, hsh, hth⟩ := cstepFine_cases h
  have htm : t ∈ c.threads := by rw [hl]; exact mem_mid_self
  obtain ⟨htp, htpend, htd⟩ := hv.2 t htm
  have hop : OpOK f op := htp (op, rs) (by rw [hprog]; exact List.mem_cons_self)
  have hm := microF_val cfg tl size c.shared op rs t.pend hv.1 hop htpend
  refine ⟨by rw [hsh]; exact hm.1, ?_⟩
  have hothers : ∀ x, x ∈ l1 ++ l2 → FThreadOK f x := fun x hx => hv.2 x (by rw [hl]; exact mem_mid hx)
  rcases hth with ⟨p, hr, hts⟩ | ⟨op', o, hr, hts⟩
  · intro x hx
    rw [hts] at hx
    rcases mem_mid_cases hx with hx | hx
    · subst hx
      refine ⟨htp, ?_, htd⟩
      intro p' hp'
      simp only [Option.some.injEq] at hp'
      have := hm.2; rw [hr, hp'] at this; exact this
    · exact hothers x hx
  · intro x hx
    rw [hts] at hx
    rcases mem_mid_cases hx with hx | hx
    · subst hx
      refine ⟨?_, ?_, ?_⟩
      · intro y hy; exact htp y (by rw [hprog]; exact List.mem_cons_of_mem _ hy)
      · intro p' hp'; cases hp'
      · intro r hr'
        rcases List.mem_append.mp hr' with h1 | h1
        · exact htd r h1
        · simp only [List.mem_singleton] at h1
          subst h1
          have := hm.2; rw [hr] at this; exact this
    · exact hothers x hx

theorem fvalInv_start {f : K → V} (s : State K V) (progs : List (List (Op K V × List Nat)))
    (hs : ValOK f s.store) (hp : ∀ prog, prog ∈ progs → ∀ x, x ∈ prog → OpOK f x.1) :
    FValInv f (FState.start s progs) := by
  refine ⟨hs, ?_⟩
  intro t ht
  simp only [FState.start, List.mem_map] at ht
  obtain ⟨prog, hprog, rfl⟩ := ht
  refine ⟨hp prog hprog, ?_, ?_⟩
  · intro p h; simp [FThread.start] at h
  · intro r h; simp [FThread.start] at h

/-! ## §4 Sync engine: the in-flight invariant -/

/-- what a thread inside its queue section relies on between two of its store-lock sections.  Only the
    `oversize` state needs something: the entry it measured is still stored (nobody but a queue-mutex holder
    removes entries) and its key is still the LAST queue slot (nobody else touches the queue) — so that
    `pop_back` removes exactly the slot of `k`. -/
def LocalOK (s : State K V) : Option (FPend K V) → Prop
  | some (.oversize k _) => k ∈ keys s.store ∧ ∃ q0, s.queue = q0 ++ [k]
  | _ => True

theorem localOK_of_not_holds {s : State K V} {p : Option (FPend K V)} (h : holdsO p = false) : LocalOK s p := by
  cases p with
  | none => trivial
  | some fp => cases fp <;> first | trivial | (simp [holdsO] at h)

theorem LocalOK.frame {s s' : State K V} {p : Option (FPend K V)} (hq : s'.queue = s.queue)
    (hk : ∀ x, x ∈ keys s.store → x ∈ keys s'.store) (h : LocalOK s p) : LocalOK s' p := by
  cases p with
  | none => trivial
  | some fp =>
    cases fp <;> try trivial
    exact ⟨hk _ h.1, by rw [hq]; exact h.2⟩

/-- `[M.w: remove k] ; pop_back` when `k` is the last queue slot: a shrinking step -/
theorem oversize_shr (m : Store K V) (q0 : List K) (k : K) : Shr m (q0 ++ [k]) (eraseKey k m) q0 := by
  refine Shr.eraseKey_of k (List.sublist_append_left _ _) ?_
  intro x hxk _ hxq
  rcases List.mem_append.mp hxq with h | h
  · exact h
  · exact absurd (List.mem_singleton.mp h) hxk

/-- **Sync, one micro-step of the fine model keeps the in-flight invariant** (and establishes the local
    facts of the state it leaves).  `others` = in-flight keys of the other threads. -/
theorem microF_sync_inv (cfg : Cfg) (tl : Tlru S) (size : V → Nat) (s : State K V)
    (op : Op K V) (rs : List Nat) (pend : Option (FPend K V)) (hf : cfg.flavour ≠ .async) (others : List K)
    (h : SyncInv s.store s.queue (fkeys pend ++ others)) (hloc : LocalOK s pend) :
    SyncInv (microF cfg tl size s op rs pend).1.store (microF cfg tl size s op rs pend).1.queue
      (fkeys (resPend (microF cfg tl size s op rs pend).2) ++ others) ∧
    LocalOK (microF cfg tl size s op rs pend).1 (resPend (microF cfg tl size s op rs pend).2) := by
  cases pend with
  | none =>
    rw [microF_none]
    simp only [liftStep, fkeys_liftRes]
    exact ⟨micro_sync_inv cfg tl size s op rs none hf others h, localOK_of_not_holds (holdsO_liftRes _)⟩
  | some fp =>
    cases fp with
    | base p =>
      cases hfe : fineEntry cfg p with
      | none =>
        rw [microF_base_coarse tl size s op rs hfe]
        simp only [liftStep, fkeys_liftRes]
        exact ⟨micro_sync_inv cfg tl size s op rs (some p) hf others h, localOK_of_not_holds (holdsO_liftRes _)⟩
      | some x =>
        obtain ⟨k, v, rs', maxM⟩ := x
        rw [microF_base_enter tl size s op rs hfe]
        obtain ⟨rfl, _, _⟩ := fineEntry_some hfe
        have h0 : SyncInv s.store (erasePush k s.queue) others := SyncInv.erasePush h
        unfold enterStep
        simp only
        split
        · rename_i hov
          exact ⟨h0, entrySize_pos_mem hov, s.queue.erase k, rfl⟩
        · exact ⟨h0, trivial⟩
    | oversize k v =>
      obtain ⟨_, q0, hq⟩ := hloc
      simp only [microF, oversizeStep, hq, List.dropLast_concat]
      rw [hq] at h
      exact ⟨h.shr (oversize_shr s.store q0 k), trivial⟩
    | loopRead k v rs' =>
      simp only [microF, loopReadStep]
      cases cfg.maxMem with
      | none => exact ⟨h, trivial⟩
      | some maxM => simp only; split <;> exact ⟨h, trivial⟩
    | loopEvict k v rs' =>
      simp only [microF, loopEvictStep]
      have hs := evictMem_shr cfg tl s.now (rs'.headD 0) s.store s.queue
      split <;> exact ⟨h.shr hs, trivial⟩
    | limit k v r =>
      exact ⟨h.shr (limitStep_shr cfg tl s.now r s.store s.queue), trivial⟩

/-- the sync invariant of the fine system -/
def FineSys (c : FState K V) : Prop :=
  SyncInv c.shared.store c.shared.queue (pendKeysF c.threads) ∧ ∀ t, t ∈ c.threads → LocalOK c.shared t.pend

theorem cstepFine_sync {cfg : Cfg} {tl : Tlru S} {size : V → Nat} (hf : cfg.flavour ≠ .async)
    (c : FState K V) (i : Nat) (c' : FState K V) (hs : FineSys c) (h : cstepFine cfg tl size c i = some c') :
    FineSys c' := by
  obtain ⟨t, op, rs, rest, l1, l2, t', hl, hprog, hfree, hsh, hts, hpend⟩ := cstepFine_pend h
  obtain ⟨hinv, hloc⟩ := hs
  unfold pendKeysF at hinv
  rw [hl] at hinv hloc
  have hs0 : SyncInv c.shared.store c.shared.queue (fkeys t.pend ++ keysBy fkeys (l1 ++ l2)) :=
    hinv.congr (fun x hx => mem_keysBy_mid.mp hx)
  have hm := microF_sync_inv cfg tl size c.shared op rs t.pend hf _ hs0 (hloc t mem_mid_self)
  refine ⟨?_, ?_⟩
  · unfold pendKeysF
    rw [hsh, hts]
    exact hm.1.congr (fun x hx => mem_keysBy_mid.mpr (by rw [hpend]; exact hx))
  · intro x hx
    rw [hts] at hx
    rw [hsh]
    rcases mem_mid_cases hx with hx | hx
    · subst hx; rw [hpend]; exact hm.2
    · by_cases hn : needsO cfg op t.pend = true
      · exact localOK_of_not_holds (hfree hn x hx)
      · have hso := storeOnly_spec cfg tl size c.shared op rs t.pend (by simpa using hn)
        exact LocalOK.frame hso.1 hso.2.1 (hloc x (mem_mid hx))

theorem keysBy_start (g : Option (FPend K V) → List K) (hg : g none = []) (s : State K V)
    (progs : List (List (Op K V × List Nat))) : keysBy g (FState.start s progs).threads = [] := by
  apply keysBy_eq_nil
  intro t ht
  simp only [FState.start, List.mem_map] at ht
  obtain ⟨prog, _, rfl⟩ := ht
  exact hg

theorem fineSys_start {s : State K V} (h0 : WeakInv s) (progs : List (List (Op K V × List Nat))) :
    FineSys (FState.start s progs) := by
  refine ⟨?_, ?_⟩
  · unfold pendKeysF; rw [keysBy_start fkeys rfl]; exact h0
  · intro t ht
    simp only [FState.start, List.mem_map] at ht
    obtain ⟨prog, _, rfl⟩ := ht
    trivial

theorem keysBy_of_quiescent (g : Option (FPend K V) → List K) (hg : g none = []) {c : FState K V}
    (hq : QuiescentF c) : keysBy g c.threads = [] :=
  keysBy_eq_nil (fun t ht => by rw [hq t ht]; exact hg)

/-! ## §5 The entry bound with stores in flight and a queue section in progress -/

/-- the two halves of the sync entry bound in the fine model.  `P` = number of in-flight keys (stored, not
    yet queued), `F` = number of threads inside the split queue section (their key is queued, their
    entry-limit step has not run): each of them may account for one extra entry AND one extra queue slot. -/
structure BoundF (cfg : Cfg) (n : Nat) (m : Store K V) (q : List K) (P F : Nat) : Prop where
  entries : cfg.policy ≠ .random → m.length ≤ n + P + F
  slots : PopsSlot cfg → q.length ≤ n + F

theorem BoundF.to_sync {cfg : Cfg} {n : Nat} {m : Store K V} {q : List K} {p : Nat} (P : List K)
    (hp : P.length = p) (h : BoundF cfg n m q p 0) : SyncBound cfg n m q P :=
  ⟨fun hr => by have := h.entries hr; omega, fun hs => by have := h.slots hs; omega⟩

theorem BoundF.of_sync {cfg : Cfg} {n : Nat} {m : Store K V} {q : List K} {P : List K} {p : Nat}
    (hp : P.length = p) (h : SyncBound cfg n m q P) : BoundF cfg n m q p 0 :=
  ⟨fun hr => by have := h.entries hr; omega, fun hs => by have := h.slots hs; omega⟩

/-- **Sync, one micro-step of the fine model keeps the entry bound.**  `Po`, `Fo` = in-flight keys /
    number of queue-section holders among the OTHER threads; a micro-step that needs the queue mutex finds
    no other holder. -/
theorem microF_bound (cfg : Cfg) (tl : Tlru S) (size : V → Nat) (s : State K V)
    (op : Op K V) (rs : List Nat) (pend : Option (FPend K V)) (hf : cfg.flavour ≠ .async)
    (Po : List K) (Fo : Nat) (n : Nat) (hl : cfg.limit = some n)
    (hfree : needsO cfg op pend = true → Fo = 0)
    (h : SyncInv s.store s.queue (fkeys pend ++ Po)) (hloc : LocalOK s pend)
    (hb : BoundF cfg n s.store s.queue ((fkeys pend).length + Po.length) ((hkeys pend).length + Fo)) :
    BoundF cfg n (microF cfg tl size s op rs pend).1.store (microF cfg tl size s op rs pend).1.queue
      ((fkeys (resPend (microF cfg tl size s op rs pend).2)).length + Po.length)
      ((hkeys (resPend (microF cfg tl size s op rs pend).2)).length + Fo) := by
  by_cases hn : needsO cfg op pend = true
  · have hFo := hfree hn
    subst hFo
    have hcoarse : ∀ cp : Option (Pend K V), fkeys pend = ownKeys cp → hkeys pend = [] →
        BoundF cfg n (micro false cfg tl size s op rs cp).1.store (micro false cfg tl size s op rs cp).1.queue
          ((fkeys (resPend (liftRes (micro false cfg tl size s op rs cp).2))).length + Po.length)
          ((hkeys (resPend (liftRes (micro false cfg tl size s op rs cp).2))).length + 0) := by
      intro cp hfk hhk
      rw [hfk] at h hb
      rw [hhk] at hb
      have hb' : SyncBound cfg n s.store s.queue (ownKeys cp ++ Po) :=
        ⟨fun hr => by have := hb.entries hr; simp only [List.length_append, List.length_nil] at this ⊢; omega,
         fun hs => by have := hb.slots hs; simp only [List.length_nil] at this; omega⟩
      have hres := micro_sync_bound cfg tl size s op rs cp hf Po n hl h hb'
      rw [fkeys_liftRes, hkeys_liftRes]
      exact ⟨fun hr => by have := hres.entries hr; simp only [List.length_append, List.length_nil] at this ⊢; omega,
             fun hs => by have := hres.slots hs; simp only [List.length_nil]; omega⟩
    cases pend with
    | none => rw [microF_none]; exact hcoarse none rfl rfl
    | some fp =>
      cases fp with
      | base p =>
        cases hfe : fineEntry cfg p with
        | none => rw [microF_base_coarse tl size s op rs hfe]; exact hcoarse (some p) rfl rfl
        | some x =>
          obtain ⟨k, v, rs', maxM⟩ := x
          rw [microF_base_enter tl size s op rs hfe]
          obtain ⟨rfl, _, _⟩ := fineEntry_some hfe
          have hlen := length_erasePush_le k s.queue
          have hres : ∀ b : Bool, BoundF cfg n s.store (erasePush k s.queue)
              ((fkeys (some (if b then FPend.oversize k v else FPend.loopRead k v rs'))).length + Po.length)
              ((hkeys (some (if b then FPend.oversize k v else FPend.loopRead k v rs'))).length + 0) := by
            intro b
            refine ⟨fun hr => ?_, fun hs => ?_⟩
            · have := hb.entries hr
              cases b <;> simp [fkeys, coarseOf, ownKeys, Pend.key?, hkeys] at this ⊢ <;> omega
            · have := hb.slots hs
              cases b <;> simp [fkeys, coarseOf, ownKeys, Pend.key?, hkeys] at this ⊢ <;> omega
          unfold enterStep
          simp only
          split
          · exact hres true
          · exact hres false
      | oversize k v =>
        obtain ⟨hk, q0, hq⟩ := hloc
        have hlen := length_eraseKey_of_mem h.keysNodup hk
        refine ⟨fun hr => ?_, fun hs => ?_⟩
        · have := hb.entries hr
          simp [microF, oversizeStep, resPend, fkeys, coarseOf, ownKeys, hkeys] at this ⊢; omega
        · have := hb.slots hs
          simp [microF, oversizeStep, resPend, fkeys, coarseOf, ownKeys, hkeys, hq] at this ⊢; omega
      | loopRead k v rs' =>
        simp only [microF, loopReadStep]
        cases cfg.maxMem with
        | none => exact hb
        | some maxM => simp only; split <;> exact hb
      | loopEvict k v rs' =>
        simp only [microF, loopEvictStep]
        have hs := evictMem_shr cfg tl s.now (rs'.headD 0) s.store s.queue
        have h1 := hs.length_le
        have h2 := hs.queue_length_le
        split <;> exact ⟨fun hr => Nat.le_trans h1 (hb.entries hr), fun hp => Nat.le_trans h2 (hb.slots hp)⟩
      | limit k v r =>
        have h0 : SyncInv s.store s.queue Po := h
        refine ⟨fun hr => ?_, fun hs => ?_⟩
        · have := hb.entries hr
          have := limit_tight hf tl s.now r n hl hr h0
            (by simp [fkeys, coarseOf, ownKeys, hkeys] at this ⊢; omega)
          simpa [microF, limitStepF, resPend, fkeys, coarseOf, ownKeys, hkeys] using this
        · have := hb.slots hs
          have := limitStep_slots hf tl s.now r n hl hs s.store s.queue
            (by simp [fkeys, coarseOf, ownKeys, hkeys] at this ⊢; omega)
          simpa [microF, limitStepF, resPend, fkeys, coarseOf, ownKeys, hkeys] using this
  · have hso := storeOnly_spec cfg tl size s op rs pend (by simpa using hn)
    obtain ⟨hq, _, hh1, hh2, hlen⟩ := hso
    rw [hkeys_of_not_holds hh1] at hb
    rw [hkeys_of_not_holds hh2, hq]
    refine ⟨fun hr => ?_, fun hs => ?_⟩
    · have := hb.entries hr; omega
    · exact hb.slots hs

/-- the entry bound of the fine system -/
def FBoundSys (cfg : Cfg) (n : Nat) (c : FState K V) : Prop :=
  BoundF cfg n c.shared.store c.shared.queue (pendKeysF c.threads).length (holdKeys c.threads).length

theorem cstepFine_bound {cfg : Cfg} {tl : Tlru S} {size : V → Nat} (hf : cfg.flavour ≠ .async)
    (n : Nat) (hl : cfg.limit = some n)
    (c : FState K V) (i : Nat) (c' : FState K V) (hs : FineSys c) (hb : FBoundSys cfg n c)
    (h : cstepFine cfg tl size c i = some c') : FBoundSys cfg n c' := by
  obtain ⟨t, op, rs, rest, l1, l2, t', hl', hprog, hfree, hsh, hts, hpend⟩ := cstepFine_pend h
  obtain ⟨hinv, hloc⟩ := hs
  unfold FBoundSys pendKeysF holdKeys at *
  rw [hl'] at hinv hloc hb
  have hs0 : SyncInv c.shared.store c.shared.queue (fkeys t.pend ++ keysBy fkeys (l1 ++ l2)) :=
    hinv.congr (fun x hx => mem_keysBy_mid.mp hx)
  rw [length_keysBy_mid, length_keysBy_mid] at hb
  have hm := microF_bound cfg tl size c.shared op rs t.pend hf (keysBy fkeys (l1 ++ l2))
    (keysBy hkeys (l1 ++ l2)).length n hl
    (fun hn => by
      have : keysBy hkeys (l1 ++ l2) = [] := holdKeys_free (hfree hn)
      rw [this]; rfl)
    hs0 (hloc t mem_mid_self) hb
  rw [hsh, hts, length_keysBy_mid, length_keysBy_mid, hpend]
  exact hm

theorem fboundSys_start {cfg : Cfg} {n : Nat} {s : State K V} (hb0 : WeakBound cfg n s)
    (progs : List (List (Op K V × List Nat))) : FBoundSys cfg n (FState.start s progs) := by
  unfold FBoundSys pendKeysF holdKeys
  rw [keysBy_start fkeys rfl, keysBy_start hkeys rfl]
  exact BoundF.of_sync rfl hb0

/-- what the invariant and the two-part bound give under EVERY policy (Random included): at most `n`
    entries plus one per store in flight plus one per queue section in progress -/
theorem fine_entries_le {cfg : Cfg} {n : Nat} {m : Store K V} {q P : List K} {F : Nat} (h : SyncInv m q P)
    (hb : BoundF cfg n m q P.length F) : m.length ≤ n + P.length + F := by
  have hb' : SyncBound cfg (n + F) m q P :=
    ⟨fun hr => by have := hb.entries hr; omega, fun hs => hb.slots hs⟩
  have := sync_entries_le h hb'
  omega

/-! ## §6 The memory bound -/

/-- ghost keys of the memory invariant: the key of a thread that has written the store and has NOT yet
    passed the point where its memory loop ends (a fitting `[M.r]` sum, or an eviction attempt that found
    nothing to evict), resp. its oversize removal.  A thread in the `limit` state is past that point. -/
def mkeys : Option (FPend K V) → List K
  | some (.base p) => ownKeys (some p)
  | some (.oversize k _) => [k]
  | some (.loopRead k _ _) => [k]
  | some (.loopEvict k _ _) => [k]
  | _ => []

theorem mkeys_liftRes (r : Res K V) : mkeys (resPend (liftRes r)) = resKeys r := by cases r <;> rfl

theorem fkeys_sub_mkeys {p : Option (FPend K V)} {x : K} (h : x ∈ fkeys p) : x ∈ mkeys p := by
  cases p with
  | none => exact h
  | some fp => cases fp <;> first | exact h | (simp [fkeys, coarseOf, ownKeys] at h)

theorem keysBy_sub {g g' : Option (FPend K V) → List K} (hg : ∀ p x, x ∈ g p → x ∈ g' p)
    {l : List (FThread K V)} {x : K} (h : x ∈ keysBy g l) : x ∈ keysBy g' l := by
  unfold keysBy at *
  rw [List.mem_flatMap] at h ⊢
  obtain ⟨t, ht, hx⟩ := h
  exact ⟨t, ht, hg _ _ hx⟩

/-- **Sync, one micro-step of the fine model keeps the memory invariant.**  `Po` = in-flight keys of the
    other threads, `PMo ⊇ Po` = their ghost keys. -/
theorem microF_mem (cfg : Cfg) (tl : Tlru S) (size : V → Nat) (s : State K V)
    (op : Op K V) (rs : List Nat) (pend : Option (FPend K V)) (hf : cfg.flavour ≠ .async) (Po PMo : List K)
    (f : K → V) (M : Nat) (hM : cfg.maxMem = some M) (hv : ValOK f s.store) (hop : OpOK f op)
    (hvia : op.viaMem = true) (hnt : ∀ k v r, pend ≠ some (.base (.track k v r)))
    (hsub : ∀ x, x ∈ Po → x ∈ PMo)
    (h : SyncInv s.store s.queue (fkeys pend ++ Po)) (hloc : LocalOK s pend)
    (hb : MemInv size f M s.store (mkeys pend ++ PMo)) :
    MemInv size f M (microF cfg tl size s op rs pend).1.store
      (mkeys (resPend (microF cfg tl size s op rs pend).2) ++ PMo) := by
  have hcoarse : ∀ cp : Option (Pend K V), fkeys pend = ownKeys cp → mkeys pend = ownKeys cp →
      (∀ k v r, cp ≠ some (.track k v r)) →
      MemInv size f M (micro false cfg tl size s op rs cp).1.store
        (mkeys (resPend (liftRes (micro false cfg tl size s op rs cp).2)) ++ PMo) := by
    intro cp hfk hmk hnt'
    rw [hfk] at h
    rw [hmk] at hb
    have h' : SyncInv s.store s.queue (ownKeys cp ++ PMo) := h.congr (fun x hx => by
      rcases List.mem_append.mp hx with hx | hx
      · exact List.mem_append_left _ hx
      · exact List.mem_append_right _ (hsub x hx))
    rw [mkeys_liftRes]
    exact micro_sync_mem cfg tl size s op rs cp hf PMo f M hM hv hop hvia hnt' h' hb
  cases pend with
  | none => rw [microF_none]; exact hcoarse none rfl rfl (by intro k v r hh; cases hh)
  | some fp =>
    cases fp with
    | base p =>
      cases hfe : fineEntry cfg p with
      | none =>
        rw [microF_base_coarse tl size s op rs hfe]
        exact hcoarse (some p) rfl rfl (by intro k v r hh; cases hh; exact hnt k v r rfl)
      | some x =>
        obtain ⟨k, v, rs', maxM⟩ := x
        rw [microF_base_enter tl size s op rs hfe]
        obtain ⟨rfl, _, _⟩ := fineEntry_some hfe
        unfold enterStep
        simp only
        split <;> exact hb
    | oversize k v =>
      obtain ⟨hk, _⟩ := hloc
      obtain ⟨e, hl⟩ := lookup_isSome_of_mem_keys hk
      have hev : e.val = f k := hv k e (lookup_mem hl)
      have := totalMem_eraseKey_of_lookup size h.keysNodup hl
      rw [hev] at this
      unfold MemInv at hb ⊢
      simp only [mkeys, List.cons_append, List.nil_append, List.map_cons, List.sum_cons] at hb
      simp only [microF, oversizeStep, resPend, mkeys, List.nil_append]
      omega
    | loopRead k v rs' =>
      simp only [microF, loopReadStep, hM]
      split
      · rename_i hfit
        unfold MemInv
        simp only [resPend, mkeys, List.nil_append]
        omega
      · exact hb
    | loopEvict k v rs' =>
      simp only [microF, loopEvictStep]
      have hs := evictMem_shr cfg tl s.now (rs'.headD 0) s.store s.queue
      have hc := evictMem_cases hf tl s.now (rs'.headD 0) s.store s.queue
      have hle := totalMem_sublist_le size hs.store
      split
      · unfold MemInv at hb ⊢
        simp only [resPend, mkeys] at hb ⊢
        omega
      · rename_i hev
        rcases hc with ⟨h1, _⟩ | ⟨_, h2, h3⟩
        · exact absurd h1 hev
        · unfold MemInv
          simp only [resPend, mkeys, List.nil_append, h2]
          rw [totalMem_eq_of_valOK size hv]
          have := sum_map_le_of_nodup_subset (fun x => size (f x)) h.keysNodup
            (fun x hx => hsub x (h.tracked x hx (fun hq => h3 x hq hx)))
          omega
    | limit k v r =>
      have hle := totalMem_sublist_le size (limitStep_shr cfg tl s.now r s.store s.queue).store
      unfold MemInv at hb ⊢
      simp only [mkeys, List.nil_append] at hb
      simp only [microF, limitStepF, resPend, mkeys, List.nil_append]
      omega

/-- every store goes through `insert_with_memory` (as the generated code does when `max_memory` is set) -/
def NoPlainF (c : FState K V) : Prop :=
  ∀ t, t ∈ c.threads → (∀ x, x ∈ t.prog → x.1.viaMem = true) ∧ ∀ k v r, t.pend ≠ some (.base (.track k v r))

/-- a micro-step of an operation other than the plain `insert` never leaves a plain store in flight -/
theorem microF_not_track (cfg : Cfg) (tl : Tlru S) (size : V → Nat) (s : State K V)
    (op : Op K V) (rs : List Nat) (pend : Option (FPend K V)) (hvia : op.viaMem = true)
    (hnt : ∀ k v r, pend ≠ some (.base (.track k v r))) :
    ∀ k v r, (microF cfg tl size s op rs pend).2 ≠ .more (.base (.track k v r)) := by
  intro k0 v0 r0
  have hlift : ∀ r : Res K V, r ≠ .more (.track k0 v0 r0) → liftRes r ≠ .more (.base (.track k0 v0 r0)) := by
    intro r hr hh
    cases r with
    | more p => simp only [liftRes, FRes.more.injEq, FPend.base.injEq] at hh; exact hr (by rw [hh])
    | fin op' o => cases hh
  cases pend with
  | none =>
    exact hlift _ (micro_not_track false cfg tl size s op rs none hvia (by intro k v r hh; cases hh) k0 v0 r0)
  | some fp =>
    cases fp with
    | base p =>
      cases hfe : fineEntry cfg p with
      | none =>
        rw [microF_base_coarse tl size s op rs hfe]
        exact hlift _ (micro_not_track false cfg tl size s op rs (some p) hvia
          (by intro k v r hh; cases hh; exact hnt k v r rfl) k0 v0 r0)
      | some x =>
        obtain ⟨k, v, rs', maxM⟩ := x
        rw [microF_base_enter tl size s op rs hfe]
        unfold enterStep
        simp only
        split <;> simp
    | oversize k v => simp [microF, oversizeStep]
    | loopRead k v rs' =>
      simp only [microF, loopReadStep]
      cases cfg.maxMem with
      | none => simp
      | some maxM => simp only; split <;> simp
    | loopEvict k v rs' => simp only [microF, loopEvictStep]; split <;> simp
    | limit k v r => simp [microF, limitStepF]

theorem cstepFine_noPlain {cfg : Cfg} {tl : Tlru S} {size : V → Nat} (c : FState K V) (i : Nat) (c' : FState K V)
    (hn : NoPlainF c) (h : cstepFine cfg tl size c i = some c') : NoPlainF c' := by
  obtain ⟨t, op, rs, rest, l1, l2, hl, hprog, _, hsh, hth⟩ := cstepFine_cases h
  have htm : t ∈ c.threads := by rw [hl]; exact mem_mid_self
  have hvia : op.viaMem = true := (hn t htm).1 (op, rs) (by rw [hprog]; exact List.mem_cons_self)
  have hnt := microF_not_track cfg tl size c.shared op rs t.pend hvia (hn t htm).2
  intro x hx
  rcases hth with ⟨p, hr, hts⟩ | ⟨op', o, hr, hts⟩ <;> rw [hts] at hx
  · rcases mem_mid_cases hx with hx | hx
    · subst hx
      refine ⟨(hn t htm).1, ?_⟩
      intro k v r hh
      simp only [Option.some.injEq] at hh
      exact hnt k v r (by rw [hr, hh])
    · exact hn x (by rw [hl]; exact mem_mid hx)
  · rcases mem_mid_cases hx with hx | hx
    · subst hx
      refine ⟨fun y hy => (hn t htm).1 y (by rw [hprog]; exact List.mem_cons_of_mem _ hy), ?_⟩
      intro k v r hh; cases hh
    · exact hn x (by rw [hl]; exact mem_mid hx)

/-- ghost keys of the whole system -/
def memKeys (ts : List (FThread K V)) : List K := keysBy mkeys ts

/-- the memory invariant of the fine system: the footprint exceeds `M` by at most the sizes of the values
    whose thread has not yet passed the end of its memory loop -/
def MemSysF (size : V → Nat) (f : K → V) (M : Nat) (c : FState K V) : Prop :=
  MemInv size f M c.shared.store (memKeys c.threads)

theorem cstepFine_mem {cfg : Cfg} {tl : Tlru S} {size : V → Nat} (hf : cfg.flavour ≠ .async)
    (f : K → V) (M : Nat) (hM : cfg.maxMem = some M)
    (c : FState K V) (i : Nat) (c' : FState K V) (hs : FineSys c) (hv : FValInv f c) (hn : NoPlainF c)
    (hb : MemSysF size f M c) (h : cstepFine cfg tl size c i = some c') : MemSysF size f M c' := by
  obtain ⟨t, op, rs, rest, l1, l2, t', hl, hprog, hfree, hsh, hts, hpend⟩ := cstepFine_pend h
  have htm : t ∈ c.threads := by rw [hl]; exact mem_mid_self
  obtain ⟨hinv, hloc⟩ := hs
  unfold MemSysF memKeys pendKeysF at *
  rw [hl] at hinv hb
  have hs0 : SyncInv c.shared.store c.shared.queue (fkeys t.pend ++ keysBy fkeys (l1 ++ l2)) :=
    hinv.congr (fun x hx => mem_keysBy_mid.mp hx)
  have hb0 : MemInv size f M c.shared.store (mkeys t.pend ++ keysBy mkeys (l1 ++ l2)) :=
    hb.congr (by rw [sum_keysBy_mid]; simp only [List.map_append, List.sum_append])
  have hop : OpOK f op := (hv.2 t htm).1 (op, rs) (by rw [hprog]; exact List.mem_cons_self)
  have hvia : op.viaMem = true := (hn t htm).1 (op, rs) (by rw [hprog]; exact List.mem_cons_self)
  have hm := microF_mem cfg tl size c.shared op rs t.pend hf _ _ f M hM hv.1 hop hvia (hn t htm).2
    (fun x hx => keysBy_sub (fun p y hy => fkeys_sub_mkeys hy) hx) hs0 (hloc t htm) hb0
  rw [hsh, hts]
  exact hm.congr (by rw [sum_keysBy_mid, hpend]; simp only [List.map_append, List.sum_append])

/-! ## §7 Well-formedness, quiescence -/

/-- a thread that is in the middle of an operation has that operation at the head of its program -/
def WFF (c : FState K V) : Prop := ∀ t, t ∈ c.threads → t.prog = [] → t.pend = none

theorem cstepFine_wf {cfg : Cfg} {tl : Tlru S} {size : V → Nat} (c : FState K V) (i : Nat)
    (c' : FState K V) (hw : WFF c) (h : cstepFine cfg tl size c i = some c') : WFF c' := by
  obtain ⟨t, op, rs, rest, l1, l2, hl, hprog, _, hsh, hth⟩ := cstepFine_cases h
  intro x hx
  rcases hth with ⟨p, _, hts⟩ | ⟨op', o, _, hts⟩ <;> rw [hts] at hx
  · rcases mem_mid_cases hx with hx | hx
    · subst hx
      intro hnil
      have hnil' : t.prog = [] := hnil
      rw [hprog] at hnil'; cases hnil'
    · exact hw x (by rw [hl]; exact mem_mid hx)
  · rcases mem_mid_cases hx with hx | hx
    · subst hx; intro _; rfl
    · exact hw x (by rw [hl]; exact mem_mid hx)

theorem wff_start (s : State K V) (progs : List (List (Op K V × List Nat))) : WFF (FState.start s progs) := by
  intro t ht _
  simp only [FState.start, List.mem_map] at ht
  obtain ⟨prog, _, rfl⟩ := ht
  rfl

theorem quiescentF_of_allDone {c : FState K V} (hw : WFF c) (hd : AllDoneF c) : QuiescentF c :=
  fun t ht => hw t ht (hd t ht)

theorem allDoneF_of_B {c : FState K V} (h : allDoneFB c = true) : AllDoneF c := by
  intro t ht
  have := (List.all_eq_true.mp h) t ht
  exact List.isEmpty_iff.mp this

theorem quiescentF_of_B {c : FState K V} (h : quiescentFB c = true) : QuiescentF c := by
  intro t ht
  have := (List.all_eq_true.mp h) t ht
  exact Option.isNone_iff_eq_none.mp this

/-! ## §8 One thread alone computes `trackMemStep`; the coarse model is the uninterrupted fine model -/

/-- `ReachF … s pend n s' r`: `n ≥ 1` consecutive micro-steps of ONE thread (operation `op`, draws `rs`),
    starting in the shared state `s` with local state `pend`, nobody else stepping in between: the first
    `n - 1` leave the operation in progress, the last one leaves the shared state `s'` and the result `r`. -/
inductive ReachF (cfg : Cfg) (tl : Tlru S) (size : V → Nat) (op : Op K V) (rs : List Nat) :
    State K V → Option (FPend K V) → Nat → State K V → FRes K V → Prop
  | one {s s' : State K V} {pend : Option (FPend K V)} {r : FRes K V} :
      microF cfg tl size s op rs pend = (s', r) → ReachF cfg tl size op rs s pend 1 s' r
  | step {s s1 s' : State K V} {pend : Option (FPend K V)} {p1 : FPend K V} {n : Nat} {r : FRes K V} :
      microF cfg tl size s op rs pend = (s1, .more p1) → ReachF cfg tl size op rs s1 (some p1) n s' r →
      ReachF cfg tl size op rs s pend (n + 1) s' r

/-- what the memory loop followed by the entry-limit step computes from the state `s` (queue already
    re-pushed), with `fuel` iterations allowed -/
def loopTarget (cfg : Cfg) (tl : Tlru S) (size : V → Nat) (maxM fuel : Nat) (rs : List Nat) (s : State K V) :
    State K V :=
  { s with
    store := (limitStep cfg tl s.now
      ((memLoop cfg tl size s.now maxM 0 fuel rs s.store s.queue).2.2.headD 0)
      (memLoop cfg tl size s.now maxM 0 fuel rs s.store s.queue).1
      (memLoop cfg tl size s.now maxM 0 fuel rs s.store s.queue).2.1).1,
    queue := (limitStep cfg tl s.now
      ((memLoop cfg tl size s.now maxM 0 fuel rs s.store s.queue).2.2.headD 0)
      (memLoop cfg tl size s.now maxM 0 fuel rs s.store s.queue).1
      (memLoop cfg tl size s.now maxM 0 fuel rs s.store s.queue).2.1).2 }

theorem memLoop_succ_fit (cfg : Cfg) (tl : Tlru S) (size : V → Nat) (now maxM fuel : Nat) (rs : List Nat)
    (m : Store K V) (q : List K) (h : totalMem size m ≤ maxM) :
    memLoop cfg tl size now maxM 0 (fuel + 1) rs m q = (m, q, rs) := by
  simp only [memLoop, Nat.add_zero, h, if_true]

theorem memLoop_succ_evict (cfg : Cfg) (tl : Tlru S) (size : V → Nat) (now maxM fuel : Nat) (rs : List Nat)
    (m : Store K V) (q : List K) (h : ¬ totalMem size m ≤ maxM) :
    memLoop cfg tl size now maxM 0 (fuel + 1) rs m q =
      if (evictMem cfg tl now (rs.headD 0) m q).2.2 then
        memLoop cfg tl size now maxM 0 fuel rs.tail (evictMem cfg tl now (rs.headD 0) m q).1
          (evictMem cfg tl now (rs.headD 0) m q).2.1
      else ((evictMem cfg tl now (rs.headD 0) m q).1, (evictMem cfg tl now (rs.headD 0) m q).2.1, rs.tail) := by
  simp only [memLoop, Nat.add_zero, h, if_false]

/-- **The memory loop, one thread alone**: from `loopRead` the thread reaches, in finitely many of its own
    micro-steps, exactly what `memLoop` (with any fuel exceeding the queue length) followed by the
    entry-limit step computes. -/
theorem reach_loop {cfg : Cfg} (hf : cfg.flavour ≠ .async) (tl : Tlru S) (size : V → Nat) (op : Op K V)
    (rs0 : List Nat) {maxM : Nat} (hM : cfg.maxMem = some maxM) (k : K) (v : V) :
    ∀ (fuel : Nat) (rs : List Nat) (s : State K V), s.queue.length < fuel →
      ∃ n, n ≤ 2 * fuel + 1 ∧ ReachF cfg tl size op rs0 s (some (.loopRead k v rs)) n
        (loopTarget cfg tl size maxM fuel rs s) (.fin (.insertMem k v) .unit) := by
  intro fuel
  induction fuel with
  | zero => intro rs s h; omega
  | succ fuel ih =>
    intro rs s hlen
    by_cases hfit : totalMem size s.store ≤ maxM
    · refine ⟨2, by omega, ReachF.step (p1 := .limit k v (rs.headD 0)) (s1 := s) ?_ (ReachF.one ?_)⟩
      · simp only [microF, loopReadStep, hM, hfit, if_true]
      · simp only [microF, limitStepF, loopTarget, memLoop_succ_fit cfg tl size s.now maxM fuel rs _ _ hfit]
    · have hc := evictMem_cases hf tl s.now (rs.headD 0) s.store s.queue
      have h1 : microF cfg tl size s op rs0 (some (.loopRead k v rs)) = (s, .more (.loopEvict k v rs)) := by
        simp only [microF, loopReadStep, hM, hfit, if_false]
      cases hev : (evictMem cfg tl s.now (rs.headD 0) s.store s.queue).2.2 with
      | true =>
        have hlt : (evictMem cfg tl s.now (rs.headD 0) s.store s.queue).2.1.length < s.queue.length := by
          rcases hc with ⟨_, h2⟩ | ⟨h2, _⟩
          · exact h2
          · rw [hev] at h2; cases h2
        have h2 : microF cfg tl size s op rs0 (some (.loopEvict k v rs)) =
            ({ s with store := (evictMem cfg tl s.now (rs.headD 0) s.store s.queue).1,
                      queue := (evictMem cfg tl s.now (rs.headD 0) s.store s.queue).2.1 },
             .more (.loopRead k v rs.tail)) := by
          simp only [microF, loopEvictStep, hev, if_true]
        obtain ⟨n, hnb, hn⟩ := ih rs.tail
          { s with store := (evictMem cfg tl s.now (rs.headD 0) s.store s.queue).1,
                   queue := (evictMem cfg tl s.now (rs.headD 0) s.store s.queue).2.1 } (by simp only; omega)
        refine ⟨n + 1 + 1, by omega, ReachF.step h1 (ReachF.step h2 ?_)⟩
        have htgt : loopTarget cfg tl size maxM (fuel + 1) rs s =
            loopTarget cfg tl size maxM fuel rs.tail
              { s with store := (evictMem cfg tl s.now (rs.headD 0) s.store s.queue).1,
                       queue := (evictMem cfg tl s.now (rs.headD 0) s.store s.queue).2.1 } := by
          simp only [loopTarget, memLoop_succ_evict cfg tl size s.now maxM fuel rs _ _ hfit, hev, if_true]
        rw [htgt]; exact hn
      | false =>
        have h2 : microF cfg tl size s op rs0 (some (.loopEvict k v rs)) =
            ({ s with store := (evictMem cfg tl s.now (rs.headD 0) s.store s.queue).1,
                      queue := (evictMem cfg tl s.now (rs.headD 0) s.store s.queue).2.1 },
             .more (.limit k v (rs.tail.headD 0))) := by
          simp only [microF, loopEvictStep, hev, Bool.false_eq_true, if_false]
        refine ⟨3, by omega, ReachF.step h1 (ReachF.step h2 (ReachF.one ?_))⟩
        simp only [microF, limitStepF, loopTarget, memLoop_succ_evict cfg tl size s.now maxM fuel rs _ _ hfit, hev,
          Bool.false_eq_true, if_false]

theorem flavour_of_isAsync_false {cfg : Cfg} (h : isAsync cfg = false) : cfg.flavour ≠ .async := by
  intro hf; rw [isAsync_of hf] at h; cases h

theorem trackMemStep_eq_loopTarget (cfg : Cfg) (tl : Tlru S) (size : V → Nat) (rs : List Nat) (s : State K V) (k : K)
    {maxM : Nat} (hM : cfg.maxMem = some maxM) (hov : ¬ entrySize size k s.store > maxM) :
    trackMemStep cfg tl size rs s k =
      loopTarget cfg tl size maxM ((erasePush k s.queue).length + 1) rs { s with queue := erasePush k s.queue } := by
  unfold trackMemStep loopTarget
  simp only [hM, hov, if_false]

/-- **`fine_single_thread_eq`** — for ONE thread the fine model computes exactly `trackMemStep`: a thread
    whose `insert_with_memory` is in flight (store written) and that runs its queue section without any
    other thread stepping in between reaches, after finitely many micro-steps, exactly the shared state of
    the single coarse micro-step `contSync (.trackMem k v rs)`, and reports the same finished operation. -/
theorem fine_single_thread_eq {cfg : Cfg} (hf : cfg.flavour ≠ .async) (tl : Tlru S) (size : V → Nat) (op : Op K V)
    (rs0 : List Nat) (s : State K V) (k : K) (v : V) (rs : List Nat) :
    ∃ n, n ≤ 2 * s.queue.length + 6 ∧ ReachF cfg tl size op rs0 s (some (.base (.trackMem k v rs))) n
      (trackMemStep cfg tl size rs s k) (.fin (.insertMem k v) .unit) := by
  have ha := isAsync_false_of hf
  cases hM : cfg.maxMem with
  | none =>
    refine ⟨1, by omega, ReachF.one ?_⟩
    rw [microF_base_coarse tl size s op rs0 (fineEntry_no_mem hM _)]
    simp only [liftStep, micro, ha, Bool.false_eq_true, if_false, contSync, liftRes]
  | some maxM =>
    have hent := microF_base_enter tl size s op rs0 (fineEntry_sync_mem ha hM k v rs)
    by_cases hov : entrySize size k s.store > maxM
    · refine ⟨2, by omega, ReachF.step (p1 := .oversize k v) (s1 := { s with queue := erasePush k s.queue }) ?_ (ReachF.one ?_)⟩
      · rw [hent]; simp only [enterStep, hov, if_true]
      · simp only [microF, oversizeStep, trackMemStep, hM, hov, if_true]
    · obtain ⟨n, hnb, hn⟩ := reach_loop hf tl size op rs0 hM k v ((erasePush k s.queue).length + 1) rs
        { s with queue := erasePush k s.queue } (Nat.lt_succ_self _)
      have hlen := length_erasePush_le k s.queue
      refine ⟨n + 1, by omega, ReachF.step (p1 := .loopRead k v rs) (s1 := { s with queue := erasePush k s.queue }) ?_ ?_⟩
      · rw [hent]; simp only [enterStep, hov, if_false]
      · rw [trackMemStep_eq_loopTarget cfg tl size rs s k hM hov]; exact hn

/-- **Every coarse micro-step is an uninterrupted block of fine micro-steps** (both engines). -/
theorem coarse_micro_reach (cfg : Cfg) (tl : Tlru S) (size : V → Nat) (s : State K V) (op : Op K V) (rs : List Nat)
    (cp : Option (Pend K V)) :
    ∃ n, ReachF cfg tl size op rs s (cp.map FPend.base) n (micro false cfg tl size s op rs cp).1
      (liftRes (micro false cfg tl size s op rs cp).2) := by
  cases cp with
  | none => exact ⟨1, ReachF.one rfl⟩
  | some p =>
    cases hfe : fineEntry cfg p with
    | none => exact ⟨1, ReachF.one (microF_base_coarse tl size s op rs hfe)⟩
    | some x =>
      obtain ⟨k, v, rs', maxM⟩ := x
      obtain ⟨rfl, ha, hM⟩ := fineEntry_some hfe
      obtain ⟨n, _, hn⟩ := fine_single_thread_eq (flavour_of_isAsync_false ha) tl size op rs s k v rs'
      refine ⟨n, ?_⟩
      simpa only [micro, ha, Bool.false_eq_true, if_false, contSync, liftRes, Option.map_some] using hn

/-- the stepping thread after a micro-step with result `r` -/
def applyRes (op : Op K V) (rs : List Nat) (rest : List (Op K V × List Nat)) (d : List (Op K V × Out V)) :
    FRes K V → FThread K V
  | .more p => ⟨(op, rs) :: rest, some p, d⟩
  | .fin op' o => ⟨rest, none, d ++ [(op', o)]⟩

/-- the step of the thread at position `|l1|` when no other thread is inside a queue section -/
theorem cstepFine_at {cfg : Cfg} {tl : Tlru S} {size : V → Nat} {s s' : State K V} {l1 l2 : List (FThread K V)}
    {op : Op K V} {rs : List Nat} {rest : List (Op K V × List Nat)} {pend : Option (FPend K V)}
    {d : List (Op K V × Out V)} {r : FRes K V}
    (hfree : ∀ x, x ∈ l1 ++ l2 → holdsO x.pend = false)
    (hm : microF cfg tl size s op rs pend = (s', r)) :
    cstepFine cfg tl size ⟨s, l1 ++ ⟨(op, rs) :: rest, pend, d⟩ :: l2⟩ l1.length =
      some ⟨s', l1 ++ applyRes op rs rest d r :: l2⟩ := by
  have hfreeB : othersFree (l1 ++ (⟨(op, rs) :: rest, pend, d⟩ : FThread K V) :: l2) l1.length = true := by
    unfold othersFree
    have : (l1 ++ (⟨(op, rs) :: rest, pend, d⟩ : FThread K V) :: l2).eraseIdx l1.length = l1 ++ l2 := by
      rw [List.eraseIdx_append_of_length_le (Nat.le_refl _)]
      simp
    rw [this, List.all_eq_true]
    intro x hx; simp [hfree x hx]
  unfold cstepFine
  simp only [List.getElem?_append_right (Nat.le_refl _), Nat.sub_self, List.getElem?_cons_zero, hfreeB,
    Bool.not_true, Bool.and_false, Bool.false_eq_true, if_false, hm]
  cases r <;> simp [applyRes]

/-- an uninterrupted block of `n` micro-steps of one thread, as a run of the fine system -/
theorem crunFine_reach {cfg : Cfg} {tl : Tlru S} {size : V → Nat} {l1 l2 : List (FThread K V)}
    {op : Op K V} {rs : List Nat} {rest : List (Op K V × List Nat)} {d : List (Op K V × Out V)}
    (hfree : ∀ x, x ∈ l1 ++ l2 → holdsO x.pend = false)
    {s s' : State K V} {pend : Option (FPend K V)} {n : Nat} {r : FRes K V}
    (h : ReachF cfg tl size op rs s pend n s' r) :
    crunFine cfg tl size (List.replicate n l1.length) ⟨s, l1 ++ ⟨(op, rs) :: rest, pend, d⟩ :: l2⟩ =
      ⟨s', l1 ++ applyRes op rs rest d r :: l2⟩ := by
  induction h with
  | one hm => simp only [List.replicate, crunFine, cstepFine_at hfree hm]
  | step hm _ ih =>
    simp only [List.replicate_succ, crunFine, cstepFine_at hfree hm, applyRes]
    exact ih

theorem crunFine_append (cfg : Cfg) (tl : Tlru S) (size : V → Nat) (a b : List ThreadId) (c : FState K V) :
    crunFine cfg tl size (a ++ b) c = crunFine cfg tl size b (crunFine cfg tl size a c) := by
  induction a generalizing c with
  | nil => rfl
  | cons i a ih =>
    simp only [List.cons_append, crunFine]
    cases cstepFine cfg tl size c i <;> exact ih _

theorem holdsO_embedT (t : Thread K V) : holdsO (embedT t).pend = false := by
  unfold embedT; cases t.pend <;> rfl

/-- decomposition with the position made explicit -/
theorem decomp_len {α : Type} {l : List α} {i : Nat} {t : α} (hi : l[i]? = some t) :
    ∃ l1 l2, l = l1 ++ t :: l2 ∧ l1.length = i ∧ ∀ t', l.set i t' = l1 ++ t' :: l2 := by
  have hlt : i < l.length := by
    apply Classical.byContradiction; intro hn
    rw [List.getElem?_eq_none (by omega)] at hi; cases hi
  obtain ⟨l1, l2, h1, _, h3⟩ := decomp hi
  refine ⟨l.take i, l.drop (i + 1), ?_, by simp; omega, ?_⟩
  · have hget : l[i] = t := by
      rw [List.getElem?_eq_getElem hlt] at hi; exact Option.some.inj hi
    rw [← hget]
    exact (List.take_append_drop i l).symm.trans (by rw [List.drop_eq_getElem_cons hlt])
  · intro t'; rw [List.set_eq_take_append_cons_drop, if_pos hlt]

/-- **A thread inside its queue section is never blocked**: if at most one thread holds the queue mutex
    (`cstepFine_holders`) and thread `i` is a holder, its next micro-step is enabled. -/
theorem holder_steps {cfg : Cfg} {tl : Tlru S} {size : V → Nat} {c : FState K V} {i : Nat} {t : FThread K V}
    (hh : holders c.threads ≤ 1) (hw : WFF c) (hi : c.threads[i]? = some t) (ht : holdsO t.pend = true) :
    (cstepFine cfg tl size c i).isSome = true := by
  obtain ⟨l1, l2, hl, hlen, _⟩ := decomp_len hi
  rw [hl, holders_mid, ht] at hh
  have hfree : ∀ x, x ∈ l1 ++ l2 → holdsO x.pend = false := by
    intro x hx
    cases hx' : holdsO x.pend with
    | false => rfl
    | true =>
      have hpos : 0 < holders (l1 ++ l2) := by
        unfold holders
        exact List.length_pos_of_mem (List.mem_filter.mpr ⟨hx, hx'⟩)
      simp only [if_true] at hh
      omega
  have hprog : t.prog ≠ [] := by
    intro hnil
    have := hw t (by rw [hl]; exact mem_mid_self) hnil
    rw [this] at ht; cases ht
  obtain ⟨prog, pend, d⟩ := t
  cases prog with
  | nil => exact absurd rfl hprog
  | cons a rest =>
    obtain ⟨op, rs⟩ := a
    have hc : c = ⟨c.shared, l1 ++ ⟨(op, rs) :: rest, pend, d⟩ :: l2⟩ := by
      cases c; simp only at hl; rw [hl]
    rw [hc, ← hlen, cstepFine_at hfree (rfl : microF cfg tl size c.shared op rs pend = (_, _))]
    rfl

/-- **One coarse step = an uninterrupted block of fine steps of the same thread.** -/
theorem cstep_simulated {cfg : Cfg} {tl : Tlru S} {size : V → Nat} {c c' : CState K V} {i : Nat}
    (h : cstep cfg tl size c i = some c') :
    ∃ n, crunFine cfg tl size (List.replicate n i) (embed c) = embed c' := by
  obtain ⟨t, s', t', hi, hts, hc⟩ := cstepWith_some h
  obtain ⟨op, rs, rest, hprog, hcase⟩ := tstep_some hts
  obtain ⟨l1, l2, hl, hlen, hset⟩ := decomp_len hi
  obtain ⟨n, hn⟩ := coarse_micro_reach cfg tl size c.shared op rs t.pend
  refine ⟨n, ?_⟩
  have hemb : embed c = ⟨c.shared, l1.map embedT ++ ⟨(op, rs) :: rest, t.pend.map FPend.base, t.done⟩ :: l2.map embedT⟩ := by
    simp only [embed, hl, List.map_append, List.map_cons, embedT, hprog]
  have hfree : ∀ x, x ∈ l1.map embedT ++ l2.map embedT → holdsO x.pend = false := by
    intro x hx
    rw [← List.map_append, List.mem_map] at hx
    obtain ⟨y, _, rfl⟩ := hx
    exact holdsO_embedT y
  have hrun := crunFine_reach (rest := rest) (d := t.done) hfree hn
  rw [List.length_map, hlen] at hrun
  rw [hemb, hrun, hc]
  simp only [embed, hset, List.map_append, List.map_cons]
  rcases hcase with ⟨p, hm, ht'⟩ | ⟨op', o, hm, ht'⟩
  · rw [hm, ht']; simp only [liftRes, applyRes, embedT, hprog, Option.map_some]
  · rw [hm, ht']; simp only [liftRes, applyRes, embedT, Option.map_none]

/-- **`fine_refines_coarse_when_uninterrupted`, run form**: every coarse schedule is a fine schedule — the
    fine schedule obtained by repeating each entry `i` of the coarse schedule as a block of `ns[i]` copies
    (the thread runs its whole critical-section sequence without anybody stepping in between) leads the
    fine model to exactly the state the coarse model reaches. -/
theorem crun_simulated (cfg : Cfg) (tl : Tlru S) (size : V → Nat) (sch : List ThreadId) (c : CState K V) :
    ∃ ns : List Nat, ns.length = sch.length ∧
      crunFine cfg tl size (List.zipWith List.replicate ns sch).flatten (embed c) =
        embed (crun cfg tl size sch c) := by
  induction sch generalizing c with
  | nil => exact ⟨[], rfl, rfl⟩
  | cons i sch ih =>
    cases hs : cstep cfg tl size c i with
    | none =>
      obtain ⟨ns, hlen, hrun⟩ := ih c
      refine ⟨0 :: ns, by simp [hlen], ?_⟩
      have : crun cfg tl size (i :: sch) c = crun cfg tl size sch c := by
        unfold crun cstep at *; simp only [crunWith, hs]
      rw [this]
      simpa [List.zipWith, List.replicate] using hrun
    | some c' =>
      obtain ⟨n, hn⟩ := cstep_simulated hs
      obtain ⟨ns, hlen, hrun⟩ := ih c'
      refine ⟨n :: ns, by simp [hlen], ?_⟩
      have : crun cfg tl size (i :: sch) c = crun cfg tl size sch c' := by
        unfold crun cstep at *; simp only [crunWith, hs]
      rw [this]
      simp only [List.zipWith_cons_cons, List.flatten_cons, crunFine_append, hn]
      exact hrun

end Cachelito.ConcDataFine
