/-
  Cachelito.RegDriver — line protocol of `reg_diff` (C12 / C13 correspondence at the level of the
  registry data structure).

    G|<op>;<op>;…|<out>;<out>;…        one episode on a PRIVATE `InvalidationRegistry::default()`

  op  = `reg <name> <tags>/<events>/<deps>` (each a `,`-joined list, possibly empty)
      | `cb <name> <id>` | `cond <name> <id>` | `tag <t>` | `event <e>` | `dep <d>` | `name <n>`
      | `with <n>` | `allwith` | `gtag <t>` | `gevent <e>` | `gdep <d>` | `clear`
  out = `u` | `c<n>:<ids>` | `f<0|1>:<ids>` | `n:<names>`   (ids / names `,`-joined, SORTED by the harness)

  The handler replays the episode on `Registry.run` from the empty registry and compares every output
  (as sorted lists); monitors are evaluated on the REAL outputs against a ghost of the registration
  history (latest metadata and latest callback per name since the last `clear`) that never looks at the
  model's tables:
    MON C12  a group invalidation did not run the clear callback of a cache whose (latest) metadata
             matches the request, or ran one twice, or returned a count different from the number of
             callbacks run; `invalidate_cache(name)` did not run exactly the callback registered for `name`
    MON C13  a group invalidation ran the callback of a cache that never declared the requested
             tag / event / dependency; `invalidate_with(name)` ran another cache's callback;
             `invalidate_all_with` did not run exactly the registered conditional callbacks
-/
import Cachelito.Registry

namespace Cachelito.RegDriver
open Cachelito.Registry

def splitNE (s : String) (sep : String) : List String := if s.isEmpty then [] else s.splitOn sep

def parseOp (s : String) : Option Op :=
  match s.splitOn " " with
  | ["reg", n, m] =>
    match m.splitOn "/" with
    | [a, b, c] => some (.register n ⟨splitNE a ",", splitNE b ",", splitNE c ","⟩)
    | _ => none
  | ["cb", n, i] => i.toNat?.map (.registerCallback n)
  | ["cond", n, i] => i.toNat?.map (.registerCond n)
  | ["tag", t] => some (.byTag t)
  | ["event", t] => some (.byEvent t)
  | ["dep", t] => some (.byDep t)
  | ["name", t] => some (.byName t)
  | ["with", t] => some (.withPred t)
  | ["allwith"] => some .allWith
  | ["gtag", t] => some (.getByTag t)
  | ["gevent", t] => some (.getByEvent t)
  | ["gdep", t] => some (.getDependents t)
  | ["clear"] => some .clear
  | _ => none

def insNat (x : Nat) : List Nat → List Nat
  | [] => [x]
  | y :: ys => if x ≤ y then x :: y :: ys else y :: insNat x ys
def sortNat (l : List Nat) : List Nat := l.foldl (fun acc x => insNat x acc) []

def insStr (x : String) : List String → List String
  | [] => [x]
  | y :: ys => if x ≤ y then x :: y :: ys else y :: insStr x ys
def sortStr (l : List String) : List String := l.foldl (fun acc x => insStr x acc) []

def parseIds (s : String) : Option (List Nat) := (splitNE s ",").mapM String.toNat?

def parseOut (s : String) : Option Out :=
  if s = "u" then some .unit
  else match s.splitOn ":" with
    | [h, r] =>
      if h = "n" then some (.names (splitNE r ","))
      else if h.startsWith "c" then do
        let n ← (h.drop 1).toString.toNat?
        let ids ← parseIds r
        pure (.count n ids)
      else if h = "f1" then (parseIds r).map (.flag true)
      else if h = "f0" then (parseIds r).map (.flag false)
      else none
    | _ => none

def canon : Out → Out
  | .count n l => .count n (sortNat l)
  | .flag b l => .flag b (sortNat l)
  | .names l => .names (sortStr l)
  | .unit => .unit

def render : Out → String
  | .unit => "u"
  | .count n l => s!"c{n}:{",".intercalate (l.map toString)}"
  | .flag b l => s!"f{if b then 1 else 0}:{",".intercalate (l.map toString)}"
  | .names l => s!"n:{",".intercalate l}"

/-- ghost of the registration history since the last `clear` -/
structure Ghost where
  metas : List (String × Meta) := []          -- every registration (newest first)
  cbs : List (String × Nat) := []             -- every clear-callback registration (newest first)
  conds : List (String × Nat) := []

def Ghost.latestMeta (g : Ghost) (n : String) : Option Meta := (g.metas.find? (·.1 = n)).map (·.2)
def Ghost.latestCb (g : Ghost) (n : String) : Option Nat := (g.cbs.find? (·.1 = n)).map (·.2)
def Ghost.latestCond (g : Ghost) (n : String) : Option Nat := (g.conds.find? (·.1 = n)).map (·.2)
def Ghost.names (g : Ghost) : List String := (g.metas.map (·.1)).eraseDups
def Ghost.condNames (g : Ghost) : List String := (g.conds.map (·.1)).eraseDups

def Ghost.advance (g : Ghost) : Op → Ghost
  | .register n m => { g with metas := (n, m) :: g.metas }
  | .registerCallback n i => { g with cbs := (n, i) :: g.cbs }
  | .registerCond n i => { g with conds := (n, i) :: g.conds }
  | .clear => {}
  | _ => g

def monGroup (g : Ghost) (what : String) (sel : Meta → Bool) (o : Out) : List String :=
  match o with
  | .count n ids =>
    -- must run: names whose LATEST metadata matches and that own a callback
    let must := g.names.filterMap (fun nm =>
      match g.latestMeta nm, g.latestCb nm with
      | some m, some id => if sel m then some (nm, id) else none
      | _, _ => none)
    -- may run: names that matched in SOME registration
    let may := (g.metas.filter (fun p => sel p.2)).filterMap (fun p => g.latestCb p.1)
    (must.filterMap (fun (nm, id) =>
        if ids.contains id then none else some s!"MON C12 {what}: the clear callback of {nm} (id {id}) did not run")) ++
    (if n = ids.length then [] else [s!"MON C12 {what}: returned {n}, {ids.length} callbacks ran"]) ++
    (if ids.eraseDups.length = ids.length then [] else [s!"MON C12 {what}: a callback ran twice"]) ++
    (ids.filterMap (fun id => if may.contains id then none else some s!"MON C13 {what}: callback {id} ran, its cache never declared this"))
  | _ => [s!"MON C12 {what}: unexpected kind of result"]

def monitor (g : Ghost) (op : Op) (o : Out) : List String :=
  match op with
  | .byTag t => monGroup g s!"invalidate_by_tag {t}" (fun m => m.tags.contains t) o
  | .byEvent t => monGroup g s!"invalidate_by_event {t}" (fun m => m.events.contains t) o
  | .byDep t => monGroup g s!"invalidate_by_dependency {t}" (fun m => m.deps.contains t) o
  | .byName n =>
    match g.latestCb n, o with
    | some id, .flag b ids => if b && ids = [id] then [] else [s!"MON C12 invalidate_cache {n}: expected true and callback {id}, got {render o}"]
    | none, .flag b ids => if !b && ids.isEmpty then [] else [s!"MON C13 invalidate_cache {n}: nothing registered under this name, got {render o}"]
    | _, _ => [s!"MON C12 invalidate_cache {n}: unexpected kind of result"]
  | .withPred n =>
    match g.latestCond n, o with
    | some id, .flag b ids => if b && ids = [id] then [] else [s!"MON C13 invalidate_with {n}: expected true and callback {id}, got {render o}"]
    | none, .flag b ids => if !b && ids.isEmpty then [] else [s!"MON C13 invalidate_with {n}: nothing registered under this name, got {render o}"]
    | _, _ => [s!"MON C13 invalidate_with {n}: unexpected kind of result"]
  | .allWith =>
    let want := sortNat (g.condNames.filterMap g.latestCond)
    match o with
    | .count n ids => if n = want.length && sortNat ids = want then [] else [s!"MON C13 invalidate_all_with: expected callbacks {want}, got {render o}"]
    | _ => ["MON C13 invalidate_all_with: unexpected kind of result"]
  | _ => []

def handleRegLine (line : String) : String :=
  match line.splitOn "|" with
  | ["G", opsS, outsS] =>
    match (splitNE opsS ";").mapM parseOp, (splitNE outsS ";").mapM parseOut with
    | some ops, some outs =>
      if ops.length ≠ outs.length then s!"BAD {ops.length} operations, {outs.length} outputs"
      else
        let (_, mouts) := run {} ops
        let rec go (i : Nat) (g : Ghost) : List Op → List Out → List Out → List String
          | op :: ops, o :: os, m :: ms =>
            let d := if canon o = canon m then [] else [s!"DIFF step {i} [{repr op}]: implementation {render (canon o)}, model {render (canon m)}"]
            d ++ (monitor g op o).map (fun s => s ++ s!" (step {i})") ++ go (i + 1) (g.advance op) ops os ms
          | _, _, _ => []
        let fs := go 1 {} ops outs mouts
        if fs.isEmpty then "ok" else " ;; ".intercalate fs
    | _, _ => "BAD unparsable episode"
  | _ => "BAD shape"

end Cachelito.RegDriver
