/-
  Lemmas about the memory-estimator model (`Cachelito/MemEst.lean`), used by `Props/C05a.lean`.
  The recursive facts are proved by mutual structural recursion over `Shape` / `List Shape`.
-/
import Cachelito.MemEst

set_option linter.unusedSimpArgs false

namespace Cachelito.MemEst

/-! ### `inline` on each constructor (so that `simp` never unfolds `inline L v` for a variable `v`) -/

/-- `inline` of a `prim` shape -/
theorem inline_prim (L : Layout) {i : _} : inline L (.prim i) = i := rfl
/-- `inline` of a `user` shape -/
theorem inline_user (L : Layout) {i e : _} : inline L (.user i e) = i := rfl
/-- `inline` of a `str` shape -/
theorem inline_str (L : Layout) {c : _} : inline L (.str c) = L.str := rfl
/-- `inline` of a `strRef` shape -/
theorem inline_strRef (L : Layout) {n : _} : inline L (.strRef n) = L.fatRef := rfl
/-- `inline` of a `sliceRef` shape -/
theorem inline_sliceRef (L : Layout) {xs : _} : inline L (.sliceRef xs) = L.fatRef := rfl
/-- `inline` of a `vec` shape -/
theorem inline_vec (L : Layout) {ei c xs : _} : inline L (.vec ei c xs) = L.vec := rfl
/-- `inline` of a `opt` shape -/
theorem inline_opt (L : Layout) {i o : _} : inline L (.opt i o) = i := rfl
/-- `inline` of a `res` shape -/
theorem inline_res (L : Layout) {i k v : _} : inline L (.res i k v) = i := rfl
/-- `inline` of a `tup2` shape -/
theorem inline_tup2 (L : Layout) {i a b : _} : inline L (.tup2 i a b) = i := rfl
/-- `inline` of a `tup3` shape -/
theorem inline_tup3 (L : Layout) {i a b c : _} : inline L (.tup3 i a b c) = i := rfl
/-- `inline` of a `box` shape -/
theorem inline_box (L : Layout) {v : _} : inline L (.box v) = L.ptr := rfl
/-- `inline` of a `arc` shape -/
theorem inline_arc (L : Layout) {v : _} : inline L (.arc v) = L.ptr := rfl
/-- `inline` of a `rc` shape -/
theorem inline_rc (L : Layout) {v : _} : inline L (.rc v) = L.ptr := rfl
/-- `inline` of a `entry` shape -/
theorem inline_entry (L : Layout) {i v : _} : inline L (.entry i v) = i := rfl

/-! ### The exact equation satisfied by the code -/

mutual
/-- What the estimator computes, for every well-formed value: inline size + owned heap + the bytes of
    borrowed data it (over-)counts. -/
theorem estimate_eq (L : Layout) : ∀ v : Shape, WF v →
    estimate L v = inline L v + ownedHeap L v + borrowed L v
  | .prim i, _ => by simp [estimate, ownedHeap, borrowed, inline_prim, inline_user, inline_str, inline_strRef, inline_sliceRef, inline_vec, inline_opt, inline_res, inline_tup2, inline_tup3, inline_box, inline_arc, inline_rc, inline_entry]
  | .user i e, h => by
      have : i ≤ e := by simpa [WF, wf] using h
      simp only [estimate, ownedHeap, borrowed, inline_prim, inline_user, inline_str, inline_strRef, inline_sliceRef, inline_vec, inline_opt, inline_res, inline_tup2, inline_tup3, inline_box, inline_arc, inline_rc, inline_entry]; omega
  | .str c, _ => by simp [estimate, ownedHeap, borrowed, inline_prim, inline_user, inline_str, inline_strRef, inline_sliceRef, inline_vec, inline_opt, inline_res, inline_tup2, inline_tup3, inline_box, inline_arc, inline_rc, inline_entry]
  | .strRef n, _ => by simp [estimate, ownedHeap, borrowed, inline_prim, inline_user, inline_str, inline_strRef, inline_sliceRef, inline_vec, inline_opt, inline_res, inline_tup2, inline_tup3, inline_box, inline_arc, inline_rc, inline_entry]
  | .sliceRef xs, h => by
      have := estimateSum_eq L xs (by simpa [WF, wf] using h)
      simp only [estimate, ownedHeap, borrowed, inline_prim, inline_user, inline_str, inline_strRef, inline_sliceRef, inline_vec, inline_opt, inline_res, inline_tup2, inline_tup3, inline_box, inline_arc, inline_rc, inline_entry]; omega
  | .vec ei c xs, h => by
      have := extrasSum_eq L xs (by simpa [WF, wf] using h)
      simp only [estimate, ownedHeap, borrowed, inline_prim, inline_user, inline_str, inline_strRef, inline_sliceRef, inline_vec, inline_opt, inline_res, inline_tup2, inline_tup3, inline_box, inline_arc, inline_rc, inline_entry]; omega
  | .opt i none, _ => by simp [estimate, ownedHeap, borrowed, inline_prim, inline_user, inline_str, inline_strRef, inline_sliceRef, inline_vec, inline_opt, inline_res, inline_tup2, inline_tup3, inline_box, inline_arc, inline_rc, inline_entry]
  | .opt i (some v), h => by
      have := estimate_eq L v (by simpa [WF, wf] using h)
      simp only [estimate, ownedHeap, borrowed, inline_prim, inline_user, inline_str, inline_strRef, inline_sliceRef, inline_vec, inline_opt, inline_res, inline_tup2, inline_tup3, inline_box, inline_arc, inline_rc, inline_entry]; omega
  | .res i ok v, h => by
      have := estimate_eq L v (by simpa [WF, wf] using h)
      simp only [estimate, ownedHeap, borrowed, inline_prim, inline_user, inline_str, inline_strRef, inline_sliceRef, inline_vec, inline_opt, inline_res, inline_tup2, inline_tup3, inline_box, inline_arc, inline_rc, inline_entry]; omega
  | .tup2 i a b, h => by
      have h' : wf a = true ∧ wf b = true := by simpa [WF, wf] using h
      have := estimate_eq L a h'.1
      have := estimate_eq L b h'.2
      simp only [estimate, ownedHeap, borrowed, inline_prim, inline_user, inline_str, inline_strRef, inline_sliceRef, inline_vec, inline_opt, inline_res, inline_tup2, inline_tup3, inline_box, inline_arc, inline_rc, inline_entry]; omega
  | .tup3 i a b c, h => by
      have h' : (wf a = true ∧ wf b = true) ∧ wf c = true := by simpa [WF, wf] using h
      have := estimate_eq L a h'.1.1
      have := estimate_eq L b h'.1.2
      have := estimate_eq L c h'.2
      simp only [estimate, ownedHeap, borrowed, inline_prim, inline_user, inline_str, inline_strRef, inline_sliceRef, inline_vec, inline_opt, inline_res, inline_tup2, inline_tup3, inline_box, inline_arc, inline_rc, inline_entry]; omega
  | .box v, h => by
      have := estimate_eq L v (by simpa [WF, wf] using h)
      simp only [estimate, ownedHeap, borrowed, inline_prim, inline_user, inline_str, inline_strRef, inline_sliceRef, inline_vec, inline_opt, inline_res, inline_tup2, inline_tup3, inline_box, inline_arc, inline_rc, inline_entry]; omega
  | .arc v, h => by
      have := estimate_eq L v (by simpa [WF, wf] using h)
      simp only [estimate, ownedHeap, borrowed, inline_prim, inline_user, inline_str, inline_strRef, inline_sliceRef, inline_vec, inline_opt, inline_res, inline_tup2, inline_tup3, inline_box, inline_arc, inline_rc, inline_entry]; omega
  | .rc v, h => by
      have := estimate_eq L v (by simpa [WF, wf] using h)
      simp only [estimate, ownedHeap, borrowed, inline_prim, inline_user, inline_str, inline_strRef, inline_sliceRef, inline_vec, inline_opt, inline_res, inline_tup2, inline_tup3, inline_box, inline_arc, inline_rc, inline_entry]; omega
  | .entry i v, h => by
      have := estimate_eq L v (by simpa [WF, wf] using h)
      simp only [estimate, ownedHeap, borrowed, inline_prim, inline_user, inline_str, inline_strRef, inline_sliceRef, inline_vec, inline_opt, inline_res, inline_tup2, inline_tup3, inline_box, inline_arc, inline_rc, inline_entry]; omega
/-- the sum of the element estimates of a borrowed slice -/
theorem estimateSum_eq (L : Layout) : ∀ xs : List Shape, wfList xs = true →
    estimateSum L xs = footSum L xs
  | [], _ => by simp [estimateSum, footSum]
  | x :: xs, h => by
      have h' : wf x = true ∧ wfList xs = true := by simpa [wfList] using h
      have := estimate_eq L x h'.1
      have := estimateSum_eq L xs h'.2
      simp only [estimateSum, footSum]; omega
/-- the `heap_extras` of a `Vec` -/
theorem extrasSum_eq (L : Layout) : ∀ xs : List Shape, wfList xs = true →
    extrasSum L xs = ownedSum L xs + borrowedSum L xs
  | [], _ => by simp [extrasSum, ownedSum, borrowedSum]
  | x :: xs, h => by
      have h' : wf x = true ∧ wfList xs = true := by simpa [wfList] using h
      have := estimate_eq L x h'.1
      have := extrasSum_eq L xs h'.2
      simp only [extrasSum, ownedSum, borrowedSum]; omega
end

/-! ### Values that own everything they reach borrow nothing -/

mutual
/-- a value without `&str` / `&[T]` inside has no borrowed bytes counted -/
theorem borrowed_eq_zero (L : Layout) : ∀ v : Shape, allOwned v = true → borrowed L v = 0
  | .prim _, _ | .user _ _, _ | .str _, _ => by simp [borrowed]
  | .strRef _, h | .sliceRef _, h => by simp [allOwned] at h
  | .vec _ _ xs, h => by
      have := borrowedSum_eq_zero L xs (by simpa [allOwned] using h)
      simpa [borrowed] using this
  | .opt _ none, _ => by simp [borrowed]
  | .opt _ (some v), h => by
      have := borrowed_eq_zero L v (by simpa [allOwned] using h)
      simpa [borrowed] using this
  | .res _ _ v, h => by
      have := borrowed_eq_zero L v (by simpa [allOwned] using h)
      simpa [borrowed] using this
  | .tup2 _ a b, h => by
      have h' : allOwned a = true ∧ allOwned b = true := by simpa [allOwned] using h
      have := borrowed_eq_zero L a h'.1
      have := borrowed_eq_zero L b h'.2
      simp only [borrowed]; omega
  | .tup3 _ a b c, h => by
      have h' : (allOwned a = true ∧ allOwned b = true) ∧ allOwned c = true := by
        simpa [allOwned] using h
      have := borrowed_eq_zero L a h'.1.1
      have := borrowed_eq_zero L b h'.1.2
      have := borrowed_eq_zero L c h'.2
      simp only [borrowed]; omega
  | .box v, h => by
      have := borrowed_eq_zero L v (by simpa [allOwned] using h)
      simpa [borrowed] using this
  | .arc v, h => by
      have := borrowed_eq_zero L v (by simpa [allOwned] using h)
      simpa [borrowed] using this
  | .rc v, h => by
      have := borrowed_eq_zero L v (by simpa [allOwned] using h)
      simpa [borrowed] using this
  | .entry _ v, h => by
      have := borrowed_eq_zero L v (by simpa [allOwned] using h)
      simpa [borrowed] using this
/-- list version of `borrowed_eq_zero` -/
theorem borrowedSum_eq_zero (L : Layout) : ∀ xs : List Shape, allOwnedList xs = true →
    borrowedSum L xs = 0
  | [], _ => by simp [borrowedSum]
  | x :: xs, h => by
      have h' : allOwned x = true ∧ allOwnedList xs = true := by simpa [allOwnedList] using h
      have := borrowed_eq_zero L x h'.1
      have := borrowedSum_eq_zero L xs h'.2
      simp only [borrowedSum]; omega
end

/-! ### Built-in values are well-formed -/

mutual
/-- a value without user estimators inside is well-formed -/
theorem wf_of_builtin : ∀ v : Shape, builtin v = true → wf v = true
  | .prim _, _ | .str _, _ | .strRef _, _ => by simp [wf]
  | .user _ _, h => by simp [builtin] at h
  | .sliceRef xs, h => by
      have := wfList_of_builtin xs (by simpa [builtin] using h)
      simpa [wf] using this
  | .vec _ _ xs, h => by
      have := wfList_of_builtin xs (by simpa [builtin] using h)
      simpa [wf] using this
  | .opt _ none, _ => by simp [wf]
  | .opt _ (some v), h => by
      have := wf_of_builtin v (by simpa [builtin] using h)
      simpa [wf] using this
  | .res _ _ v, h => by
      have := wf_of_builtin v (by simpa [builtin] using h)
      simpa [wf] using this
  | .tup2 _ a b, h => by
      have h' : builtin a = true ∧ builtin b = true := by simpa [builtin] using h
      simp [wf, wf_of_builtin a h'.1, wf_of_builtin b h'.2]
  | .tup3 _ a b c, h => by
      have h' : (builtin a = true ∧ builtin b = true) ∧ builtin c = true := by
        simpa [builtin] using h
      simp [wf, wf_of_builtin a h'.1.1, wf_of_builtin b h'.1.2, wf_of_builtin c h'.2]
  | .box v, h => by
      have := wf_of_builtin v (by simpa [builtin] using h)
      simpa [wf] using this
  | .arc v, h => by
      have := wf_of_builtin v (by simpa [builtin] using h)
      simpa [wf] using this
  | .rc v, h => by
      have := wf_of_builtin v (by simpa [builtin] using h)
      simpa [wf] using this
  | .entry _ v, h => by
      have := wf_of_builtin v (by simpa [builtin] using h)
      simpa [wf] using this
/-- list version of `wf_of_builtin` -/
theorem wfList_of_builtin : ∀ xs : List Shape, builtinList xs = true → wfList xs = true
  | [], _ => by simp [wfList]
  | x :: xs, h => by
      have h' : builtin x = true ∧ builtinList xs = true := by simpa [builtinList] using h
      simp [wfList, wf_of_builtin x h'.1, wfList_of_builtin xs h'.2]
end

/-! ### No unchecked subtraction underflows -/

/-- a checked subtraction of a smaller number succeeds -/
theorem csub_of_le {a b : Nat} (h : b ≤ a) : csub a b = some (a - b) := by simp [csub, h]

/-- a checked subtraction of a larger number fails (Rust: panic) -/
theorem csub_eq_none {a b : Nat} (h : a < b) : csub a b = none := by
  have : ¬ b ≤ a := by omega
  simp [csub, this]

/-- the estimate of a well-formed value is at least its inline size -/
theorem inline_le_estimate (L : Layout) (v : Shape) (h : WF v) : inline L v ≤ estimate L v := by
  have := estimate_eq L v h; omega

mutual
/-- The checked estimator agrees with the truncating one on well-formed values. -/
theorem estimateChecked_eq (L : Layout) : ∀ v : Shape, WF v →
    estimateChecked L v = some (estimate L v)
  | .prim _, _ | .user _ _, _ | .str _, _ | .strRef _, _ => by simp [estimateChecked, estimate]
  | .sliceRef xs, h => by
      have := estimateSumChecked_eq L xs (by simpa [WF, wf] using h)
      simp [estimateChecked, estimate, this]
  | .vec _ _ xs, h => by
      have := extrasSumChecked_eq L xs (by simpa [WF, wf] using h)
      simp [estimateChecked, estimate, this]
  | .opt _ none, _ => by simp [estimateChecked, estimate]
  | .opt _ (some v), h => by
      have hv : WF v := by simpa [WF, wf] using h
      simp [estimateChecked, estimate, estimateChecked_eq L v hv,
        csub_of_le (inline_le_estimate L v hv)]
  | .res _ _ v, h => by
      have hv : WF v := by simpa [WF, wf] using h
      simp [estimateChecked, estimate, estimateChecked_eq L v hv,
        csub_of_le (inline_le_estimate L v hv)]
  | .tup2 _ a b, h => by
      have h' : WF a ∧ WF b := by simpa [WF, wf] using h
      simp [estimateChecked, estimate, estimateChecked_eq L a h'.1, estimateChecked_eq L b h'.2,
        csub_of_le (inline_le_estimate L a h'.1), csub_of_le (inline_le_estimate L b h'.2)]
  | .tup3 _ a b c, h => by
      have h' : (WF a ∧ WF b) ∧ WF c := by simpa [WF, wf] using h
      simp [estimateChecked, estimate, estimateChecked_eq L a h'.1.1, estimateChecked_eq L b h'.1.2,
        estimateChecked_eq L c h'.2,
        csub_of_le (inline_le_estimate L a h'.1.1), csub_of_le (inline_le_estimate L b h'.1.2),
        csub_of_le (inline_le_estimate L c h'.2)]
  | .box v, h => by
      have hv : WF v := by simpa [WF, wf] using h
      simp [estimateChecked, estimate, estimateChecked_eq L v hv]
  | .arc v, h => by
      have hv : WF v := by simpa [WF, wf] using h
      simp [estimateChecked, estimate, estimateChecked_eq L v hv]
  | .rc v, h => by
      have hv : WF v := by simpa [WF, wf] using h
      simp [estimateChecked, estimate, estimateChecked_eq L v hv]
  | .entry _ v, h => by
      have hv : WF v := by simpa [WF, wf] using h
      simp [estimateChecked, estimate, estimateChecked_eq L v hv]
/-- list version of `estimateChecked_eq` (borrowed slice) -/
theorem estimateSumChecked_eq (L : Layout) : ∀ xs : List Shape, wfList xs = true →
    estimateSumChecked L xs = some (estimateSum L xs)
  | [], _ => by simp [estimateSumChecked, estimateSum]
  | x :: xs, h => by
      have h' : WF x ∧ wfList xs = true := by simpa [WF, wfList] using h
      simp [estimateSumChecked, estimateSum, estimateChecked_eq L x h'.1,
        estimateSumChecked_eq L xs h'.2]
/-- list version of `estimateChecked_eq` (`Vec` heap extras) -/
theorem extrasSumChecked_eq (L : Layout) : ∀ xs : List Shape, wfList xs = true →
    extrasSumChecked L xs = some (extrasSum L xs)
  | [], _ => by simp [extrasSumChecked, extrasSum]
  | x :: xs, h => by
      have h' : WF x ∧ wfList xs = true := by simpa [WF, wfList] using h
      simp [extrasSumChecked, extrasSum, estimateChecked_eq L x h'.1,
        extrasSumChecked_eq L xs h'.2]
end

/-! ### Whenever the checked estimator succeeds it agrees with the truncating one -/

/-- a successful checked subtraction returns the truncating difference -/
theorem csub_some {a b d : Nat} (h : csub a b = some d) : d = a - b := by
  unfold csub at h; split at h <;> simp_all

mutual
/-- If the checked estimator does not panic, the truncating transcription computes the same number
    (no well-formedness needed): `estimate` is faithful to the Rust code on every non-panicking run. -/
theorem estimateChecked_some (L : Layout) : ∀ (v : Shape) (n : Nat),
    estimateChecked L v = some n → n = estimate L v
  | .prim _, n, h | .user _ _, n, h | .str _, n, h | .strRef _, n, h => by
      simp [estimateChecked] at h; simp [estimate, h]
  | .sliceRef xs, n, h => by
      simp only [estimateChecked, Option.bind_eq_bind, Option.bind_eq_some_iff, Option.pure_def,
        Option.some.injEq] at h
      obtain ⟨s, hs, rfl⟩ := h
      simp [estimate, estimateSumChecked_some L xs s hs]
  | .vec _ _ xs, n, h => by
      simp only [estimateChecked, Option.bind_eq_bind, Option.bind_eq_some_iff, Option.pure_def,
        Option.some.injEq] at h
      obtain ⟨s, hs, rfl⟩ := h
      simp [estimate, extrasSumChecked_some L xs s hs]
  | .opt _ none, n, h => by simp [estimateChecked] at h; simp [estimate, h]
  | .opt _ (some v), n, h => by
      simp only [estimateChecked, Option.bind_eq_bind, Option.bind_eq_some_iff, Option.pure_def,
        Option.some.injEq] at h
      obtain ⟨e, he, d, hd, rfl⟩ := h
      simp [estimate, csub_some hd, estimateChecked_some L v e he]
  | .res _ _ v, n, h => by
      simp only [estimateChecked, Option.bind_eq_bind, Option.bind_eq_some_iff, Option.pure_def,
        Option.some.injEq] at h
      obtain ⟨e, he, d, hd, rfl⟩ := h
      simp [estimate, csub_some hd, estimateChecked_some L v e he]
  | .tup2 _ a b, n, h => by
      simp only [estimateChecked, Option.bind_eq_bind, Option.bind_eq_some_iff, Option.pure_def,
        Option.some.injEq] at h
      obtain ⟨ea, hea, da, hda, eb, heb, db, hdb, rfl⟩ := h
      simp [estimate, csub_some hda, csub_some hdb, estimateChecked_some L a ea hea,
        estimateChecked_some L b eb heb]
  | .tup3 _ a b c, n, h => by
      simp only [estimateChecked, Option.bind_eq_bind, Option.bind_eq_some_iff, Option.pure_def,
        Option.some.injEq] at h
      obtain ⟨ea, hea, da, hda, eb, heb, db, hdb, ec, hec, dc, hdc, rfl⟩ := h
      simp [estimate, csub_some hda, csub_some hdb, csub_some hdc, estimateChecked_some L a ea hea,
        estimateChecked_some L b eb heb, estimateChecked_some L c ec hec]
  | .box v, n, h => by
      simp only [estimateChecked, Option.bind_eq_bind, Option.bind_eq_some_iff, Option.pure_def,
        Option.some.injEq] at h
      obtain ⟨e, he, rfl⟩ := h
      simp [estimate, estimateChecked_some L v e he]
  | .arc v, n, h => by
      simp only [estimateChecked, Option.bind_eq_bind, Option.bind_eq_some_iff, Option.pure_def,
        Option.some.injEq] at h
      obtain ⟨e, he, rfl⟩ := h
      simp [estimate, estimateChecked_some L v e he]
  | .rc v, n, h => by
      simp only [estimateChecked, Option.bind_eq_bind, Option.bind_eq_some_iff, Option.pure_def,
        Option.some.injEq] at h
      obtain ⟨e, he, rfl⟩ := h
      simp [estimate, estimateChecked_some L v e he]
  | .entry _ v, n, h => by
      simp only [estimateChecked, Option.bind_eq_bind, Option.bind_eq_some_iff, Option.pure_def,
        Option.some.injEq] at h
      obtain ⟨e, he, rfl⟩ := h
      simp [estimate, estimateChecked_some L v e he]
/-- list version of `estimateChecked_some` (borrowed slice) -/
theorem estimateSumChecked_some (L : Layout) : ∀ (xs : List Shape) (n : Nat),
    estimateSumChecked L xs = some n → n = estimateSum L xs
  | [], n, h => by simp [estimateSumChecked] at h; simp [estimateSum, h]
  | x :: xs, n, h => by
      simp only [estimateSumChecked, Option.bind_eq_bind, Option.bind_eq_some_iff, Option.pure_def,
        Option.some.injEq] at h
      obtain ⟨e, he, s, hs, rfl⟩ := h
      simp [estimateSum, estimateChecked_some L x e he, estimateSumChecked_some L xs s hs]
/-- list version of `estimateChecked_some` (`Vec` heap extras) -/
theorem extrasSumChecked_some (L : Layout) : ∀ (xs : List Shape) (n : Nat),
    extrasSumChecked L xs = some n → n = extrasSum L xs
  | [], n, h => by simp [extrasSumChecked] at h; simp [extrasSum, h]
  | x :: xs, n, h => by
      simp only [extrasSumChecked, Option.bind_eq_bind, Option.bind_eq_some_iff, Option.pure_def,
        Option.some.injEq] at h
      obtain ⟨e, he, s, hs, rfl⟩ := h
      simp [extrasSum, estimateChecked_some L x e he, extrasSumChecked_some L xs s hs]
end

end Cachelito.MemEst
