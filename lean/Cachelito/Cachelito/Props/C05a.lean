/-
  C05 (a) — what the memory estimator measures.

  Property C05 speaks of "the total size of the cached values (each value's inline size plus the heap
  capacity it owns, or what its MemoryEstimator reports for user types)".  This file proves that the
  built-in estimators of `cachelito-core/src/memory_estimator.rs` and `cache_entry.rs:124-136`
  (model: `Cachelito/MemEst.lean`) compute exactly that number for every value that owns what it
  reaches, states the exact equation they satisfy otherwise (`&str` and `&[T]` are over-counted by the
  size of the BORROWED data), and shows that none of the unchecked `est - size_of_val` subtractions in
  the `Option` / `Result` / tuple impls can underflow for built-in types (feeds C16) — while a user
  estimator that reports less than `size_of::<T>()` does make them underflow.

  All statements hold for EVERY layout `L` and EVERY value of the `inl` parameters (nothing about Rust
  layouts is assumed); `WF v` only says that user estimators inside `v` report at least their type's
  inline size, and is `True` for values without user estimators (`wf_of_builtin`).
-/
import Cachelito.Lemmas.MemEst

namespace Cachelito.C05a
open Cachelito.MemEst

/-! ### T1 — estimate = inline size + owned heap -/

/-- The exact equation the code satisfies, for every well-formed value: the estimate is the inline size
    plus the owned heap plus the bytes of borrowed data reachable through `&str` / `&[T]`. -/
theorem estimate_exact (L : Layout) (v : Shape) (h : WF v) :
    estimate L v = inline L v + ownedHeap L v + borrowed L v :=
  estimate_eq L v h

/-- T1.  For every well-formed value that contains no `&str` / `&[T]` — primitives, `String`, `Vec`,
    `Option`, `Result`, tuples, `Box`, `Arc`, `Rc`, `CacheEntry`, user types, nested arbitrarily — the
    estimate is exactly the inline size plus the heap capacity the value owns. -/
theorem estimate_eq_inline_add_ownedHeap (L : Layout) (v : Shape) (h : WF v)
    (ho : allOwned v = true) : estimate L v = inline L v + ownedHeap L v := by
  have := estimate_eq L v h
  have := borrowed_eq_zero L v ho
  omega

/-- T1 for the crate's own impls: no hypothesis besides "built from built-in types, owning". -/
theorem estimate_eq_inline_add_ownedHeap_builtin (L : Layout) (v : Shape)
    (hb : builtin v = true) (ho : allOwned v = true) :
    estimate L v = inline L v + ownedHeap L v :=
  estimate_eq_inline_add_ownedHeap L v (wf_of_builtin v hb) ho

/-- T1 holds for a well-formed value exactly when the estimator counts no borrowed bytes. -/
theorem estimate_eq_iff_borrowed_zero (L : Layout) (v : Shape) (h : WF v) :
    estimate L v = inline L v + ownedHeap L v ↔ borrowed L v = 0 := by
  have := estimate_eq L v h
  omega

/-- DISCREPANCY with the property's definition of size: a non-empty `&str` owns no heap, yet its
    estimate exceeds inline + owned by its length (the source comment says "just the reference size
    since we don't own the data", the code adds `self.len()`). -/
theorem strRef_overcounted (L : Layout) (n : Nat) :
    estimate L (.strRef n) = inline L (.strRef n) + ownedHeap L (.strRef n) + n := by
  simp [estimate, MemEst.inline, ownedHeap]

/-- `CacheEntry<R>` (public impl in `cache_entry.rs`; the engines themselves sum
    `e.value.estimate_memory()`, i.e. `estimate` of the VALUE — `global_cache.rs:678,695`,
    `thread_local_cache.rs:558,577`, `async_global_cache.rs:811,828`): the entry's own inline size plus
    what the value owns (plus borrowed bytes, if any). -/
theorem estimate_entry (L : Layout) (i : Nat) (v : Shape) (h : WF v) :
    estimate L (.entry i v) = i + ownedHeap L v + borrowed L v := by
  have := estimate_eq L v h
  simp only [estimate]; omega

/-! ### T2 / T3 — no subtraction underflows (C16) -/

/-- T2.  A well-formed value's estimate is at least its inline size, so every
    `val.estimate_memory() - size_of_val(val)` in the built-in impls is a subtraction of a smaller
    from a larger number. -/
theorem inline_le_estimate (L : Layout) (v : Shape) (h : WF v) : inline L v ≤ estimate L v :=
  MemEst.inline_le_estimate L v h

/-- T3.  On well-formed values the estimator with overflow checks on returns normally, with the value
    of the truncating transcription. -/
theorem estimateChecked_eq_some (L : Layout) (v : Shape) (h : WF v) :
    estimateChecked L v = some (estimate L v) :=
  estimateChecked_eq L v h

/-- T3 for the crate's own impls: for values built from built-in types only (any nesting, any
    capacities, any layout parameters) `estimate_memory` cannot panic on a subtraction. -/
theorem builtin_never_underflows (L : Layout) (v : Shape) (hb : builtin v = true) :
    estimateChecked L v ≠ none := by
  rw [estimateChecked_eq L v (wf_of_builtin v hb)]; simp

/-- Whenever the real (checked) estimator returns, `estimate` is the number it returns — also for
    ill-formed values.  So `estimate` may be used as THE size function wherever no panic occurred. -/
theorem estimateChecked_sound (L : Layout) (v : Shape) (n : Nat)
    (h : estimateChecked L v = some n) : n = estimate L v :=
  estimateChecked_some L v n h

/-- The well-formedness hypothesis is necessary: a user type whose estimator reports LESS than its
    `size_of` makes `Option<T>::estimate_memory` underflow (panic with overflow checks; without them
    the `usize` wraps to about 2^64, which the model does not follow). -/
theorem opt_underflows_on_underreporting_user (L : Layout) (j i e : Nat) (h : e < i) :
    estimateChecked L (.opt j (some (.user i e))) = none := by
  simp [estimateChecked, inline_user, csub_eq_none h]

/-- … likewise `Result<T, E>` … -/
theorem res_underflows_on_underreporting_user (L : Layout) (j i e : Nat) (ok : Bool) (h : e < i) :
    estimateChecked L (.res j ok (.user i e)) = none := by
  simp [estimateChecked, inline_user, csub_eq_none h]

/-- … and tuples. -/
theorem tup2_underflows_on_underreporting_user (L : Layout) (j i e : Nat) (b : Shape) (h : e < i) :
    estimateChecked L (.tup2 j (.user i e) b) = none := by
  simp [estimateChecked, inline_user, csub_eq_none h]

/-- … whereas `Vec<T>` and `CacheEntry<T>` use `saturating_sub` and never panic on such a type. -/
theorem vec_entry_tolerate_underreporting_user (L : Layout) (ei cap j i e : Nat) :
    estimateChecked L (.vec ei cap [.user i e]) = some (L.vec + cap * ei + (e - i)) ∧
    estimateChecked L (.entry j (.user i e)) = some (j + (e - i)) := by
  simp [estimateChecked, extrasSumChecked, inline_user]

/-! ### T4 — monotonicity -/

/-- The estimate of a `String` grows with its capacity … -/
theorem estimate_str_mono (L : Layout) {c c' : Nat} (h : c ≤ c') :
    estimate L (.str c) ≤ estimate L (.str c') := by
  simp only [estimate]; omega

/-- … strictly. -/
theorem estimate_str_strictMono (L : Layout) {c c' : Nat} (h : c < c') :
    estimate L (.str c) < estimate L (.str c') := by
  simp only [estimate]; omega

/-- The estimate of a cached `String` (`CacheEntry<String>`) is the entry's inline size plus the
    capacity: it grows strictly with the capacity, for every layout. -/
theorem estimate_entry_str (L : Layout) (i c : Nat) : estimate L (.entry i (.str c)) = i + c := by
  simp only [estimate, inline_str]; omega

/-- The estimate of a `Vec` grows with its capacity (same elements). -/
theorem estimate_vec_cap_mono (L : Layout) (ei : Nat) (xs : List Shape) {c c' : Nat} (h : c ≤ c') :
    estimate L (.vec ei c xs) ≤ estimate L (.vec ei c' xs) := by
  have := Nat.mul_le_mul_right ei h
  simp only [estimate]; omega

/-- `Some(v)` is never estimated smaller than `None` of the same type. -/
theorem estimate_opt_none_le (L : Layout) (i : Nat) (v : Shape) :
    estimate L (.opt i none) ≤ estimate L (.opt i (some v)) := by
  simp only [estimate]; omega

/-! ### Non-vacuity: concrete values with the real x86-64 sizes -/

/-- `String::with_capacity(10)`: 24 + 10. -/
example : estimate .x64 (.str 10) = 34 ∧ inline .x64 (.str 10) = 24 ∧ ownedHeap .x64 (.str 10) = 10 := by
  decide

/-- `Some(String::with_capacity(10))`, `size_of::<Option<String>>() = 24`: 24 + (34 − 24). -/
example : estimate .x64 (.opt 24 (some (.str 10))) = 34
    ∧ estimateChecked .x64 (.opt 24 (some (.str 10))) = some 34
    ∧ WF (.opt 24 (some (.str 10))) := by decide

/-- `Err::<String, String>(String::with_capacity(7))`, `size_of::<Result<String,String>>() = 32`. -/
example : estimate .x64 (.res 32 false (.str 7)) = 39 := by decide

/-- `vec![Some(s5), None, Some(s9)]` with capacity 4 in a `Vec<Option<String>>`: 24 + 4·24 + 5 + 9, and
    that is inline + owned heap. -/
example :
    let v : Shape := .vec 24 4 [.opt 24 (some (.str 5)), .opt 24 none, .opt 24 (some (.str 9))]
    estimate .x64 v = 134 ∧ inline .x64 v + ownedHeap .x64 v = 134 ∧ allOwned v = true
      ∧ builtin v = true := by decide

/-- `(String(3), 7u64, Vec::<u8>::with_capacity(11))` of size 56, boxed, in an `Arc`, in a `CacheEntry`
    of size 24: every level is counted once. -/
example :
    let t : Shape := .tup3 56 (.str 3) (.prim 8) (.vec 1 11 [.prim 1, .prim 1])
    estimate .x64 t = 70 ∧
    estimate .x64 (.box t) = 78 ∧
    estimate .x64 (.arc (.box t)) = 86 ∧
    estimate .x64 (.entry 24 (.arc (.box t))) = 24 + 78 ∧
    ownedHeap .x64 (.arc (.box t)) = 8 + 56 + 14 := by decide

/-- The discrepancy, concretely: `"hello"` (`&'static str`) owns nothing, inline 16, estimated 21; a
    `Vec<&str>` of two such strings with capacity 2 owns 32 bytes, is estimated at 24 + 32 + 10. -/
example :
    estimate .x64 (.strRef 5) = 21 ∧ inline .x64 (.strRef 5) + ownedHeap .x64 (.strRef 5) = 16 ∧
    estimate .x64 (.vec 16 2 [.strRef 5, .strRef 5]) = 66 ∧
    inline .x64 (.vec 16 2 [.strRef 5, .strRef 5]) + ownedHeap .x64 (.vec 16 2 [.strRef 5, .strRef 5]) = 56 := by
  decide

/-- A user type of size 8 whose estimator returns 1 (e.g. only `self.data.len()`): not well-formed;
    wrapped in `Option` the real estimator panics (`none`), inside a `Vec` or a `CacheEntry` it does
    not. -/
example :
    ¬ WF (.opt 16 (some (.user 8 1))) ∧
    estimateChecked .x64 (.opt 16 (some (.user 8 1))) = none ∧
    estimateChecked .x64 (.vec 8 2 [.user 8 1]) = some 40 ∧
    estimateChecked .x64 (.entry 24 (.user 8 1)) = some 24 := by decide

/-- A user type that follows the documented recipe (`size_of::<Self>() + capacities`) is well-formed
    and T1–T3 apply to it. -/
example : WF (.opt 56 (some (.user 48 (48 + 20)))) ∧
    estimateChecked .x64 (.opt 56 (some (.user 48 68))) = some 76 := by decide

end Cachelito.C05a
