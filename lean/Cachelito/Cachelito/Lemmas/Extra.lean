/-
  Helper lemmas for the two extra property files.

  Part 1 (X01): the sync global and the thread-local engine are the same machine on consistent
  states.  `asGlobal cfg` / `asThread cfg` are `cfg` with the flavour overwritten; every
  flavour-dependent definition of `Core.lean` branches `| .async => … | _ => …`, so the two take the
  same branch — except the FIFO/LRU arm of `evictMem` (`popStored` vs `popOne`), which coincide under
  `InvMQ`.  The TLRU scorer `tl.score` receives the whole `Cfg`; an arbitrary scorer could inspect the
  flavour, hence the hypothesis `SyncBlind` (satisfied by every scorer of the development).

  Part 2 (C01c): decoding a key back to the unique well-typed argument tuple that renders to it.
-/
import Cachelito.Lemmas.Inv
import Cachelito.Lemmas.Keys
import Cachelito.System

set_option linter.unusedSectionVars false
set_option linter.unusedSimpArgs false
set_option linter.unusedVariables false

namespace Cachelito.Extra
open Cachelito
variable {K V S : Type} [DecidableEq K]

/-! ## Part 1: global vs thread-local -/

/-- `cfg` run by the sync global engine -/
abbrev asGlobal (cfg : Cfg) : Cfg := { cfg with flavour := .global }
/-- `cfg` run by the thread-local engine -/
abbrev asThread (cfg : Cfg) : Cfg := { cfg with flavour := .threadLocal }

/-- the TLRU scorer does not distinguish the two sync flavours under `cfg` (it may depend on policy,
    limit, ttl, max_memory, and on sync-vs-async) -/
def SyncBlind (tl : Tlru S) (cfg : Cfg) : Prop :=
  ∀ hits el rk, tl.score (asGlobal cfg) hits el rk = tl.score (asThread cfg) hits el rk

theorem elapsedMs_gt (cfg : Cfg) (now birth : Nat) :
    elapsedMs (asGlobal cfg) now birth = elapsedMs (asThread cfg) now birth := rfl

theorem expired_gt (cfg : Cfg) (now : Nat) (e : Entry V) :
    expired (asGlobal cfg) now e = expired (asThread cfg) now e := rfl

theorem stamp_gt (cfg : Cfg) (now : Nat) : stamp (asGlobal cfg) now = stamp (asThread cfg) now := rfl

theorem rank_gt (cfg : Cfg) (i len : Nat) : rank (asGlobal cfg) i len = rank (asThread cfg) i len := rfl

theorem removeBoth_gt (cfg : Cfg) (k : K) (m : Store K V) (q : List K) :
    removeBoth (asGlobal cfg) k m q = removeBoth (asThread cfg) k m q := rfl

theorem overLimit_gt (cfg : Cfg) (n : Nat) (m : Store K V) (q : List K) :
    overLimit (asGlobal cfg) n m q = overLimit (asThread cfg) n m q := rfl

theorem hitUpdate_gt (cfg : Cfg) (k : K) (m : Store K V) (q : List K) :
    hitUpdate (asGlobal cfg) k m q = hitUpdate (asThread cfg) k m q := rfl

theorem get_gt (cfg : Cfg) (s : State K V) (k : K) : get (asGlobal cfg) s k = get (asThread cfg) s k := rfl

theorem victim_gt (cfg : Cfg) (tl : Tlru S) (htl : cfg.policy = .tlru → SyncBlind tl cfg)
    (now : Nat) (m : Store K V) (q : List K) :
    victim (asGlobal cfg) tl now m q = victim (asThread cfg) tl now m q := by
  unfold victim
  cases hp : cfg.policy <;> simp only [hp]
  case arc => rfl
  case tlru =>
    have hb := htl hp
    have : (fun (e : Entry V) (i len : Nat) =>
          tl.score (asGlobal cfg) e.hits (elapsedMs (asGlobal cfg) now e.birth) (rank (asGlobal cfg) i len)) =
        (fun (e : Entry V) (i len : Nat) =>
          tl.score (asThread cfg) e.hits (elapsedMs (asThread cfg) now e.birth) (rank (asThread cfg) i len)) := by
      funext e i len
      exact hb _ _ _
    rw [this]

theorem evictScored_gt (cfg : Cfg) (tl : Tlru S) (htl : cfg.policy = .tlru → SyncBlind tl cfg)
    (now : Nat) (m : Store K V) (q : List K) :
    evictScored (asGlobal cfg) tl now m q = evictScored (asThread cfg) tl now m q := by
  unfold evictScored
  rw [victim_gt cfg tl htl]
  rfl

theorem evictLimit_gt (cfg : Cfg) (tl : Tlru S) (htl : cfg.policy = .tlru → SyncBlind tl cfg)
    (now r : Nat) (m : Store K V) (q : List K) :
    evictLimit (asGlobal cfg) tl now r m q = evictLimit (asThread cfg) tl now r m q := by
  unfold evictLimit
  cases hp : cfg.policy <;> simp only [hp]
  all_goals exact evictScored_gt cfg tl htl now m q

theorem limitStep_gt (cfg : Cfg) (tl : Tlru S) (htl : cfg.policy = .tlru → SyncBlind tl cfg)
    (now r : Nat) (m : Store K V) (q : List K) :
    limitStep (asGlobal cfg) tl now r m q = limitStep (asThread cfg) tl now r m q := by
  unfold limitStep
  rw [evictLimit_gt cfg tl htl]
  rfl

/-- under the invariant the front key is stored, so "pop until a stored key" pops exactly one key -/
theorem popStored_eq_popOne {m : Store K V} {q : List K} (h : InvMQ m q) : popStored m q = popOne m q := by
  cases q with
  | nil => rfl
  | cons k q =>
    have hk : hasKey k m = true := (hasKey_iff k m).mpr ((h.2.2 k).mp List.mem_cons_self)
    simp only [popStored, popOne, hk, if_true]

/-- the one place where the two sync engines differ textually agrees on consistent states -/
theorem evictMem_gt (cfg : Cfg) (tl : Tlru S) (htl : cfg.policy = .tlru → SyncBlind tl cfg)
    (now r : Nat) {m : Store K V} {q : List K} (h : InvMQ m q) :
    evictMem (asGlobal cfg) tl now r m q = evictMem (asThread cfg) tl now r m q := by
  unfold evictMem
  cases hp : cfg.policy <;> simp only [hp]
  · exact popStored_eq_popOne h
  · exact popStored_eq_popOne h
  all_goals exact evictScored_gt cfg tl htl now m q

theorem memLoop_gt (cfg : Cfg) (tl : Tlru S) (htl : cfg.policy = .tlru → SyncBlind tl cfg)
    (size : V → Nat) (now maxM extra fuel : Nat) (rs : List Nat) {m : Store K V} {q : List K} (h : InvMQ m q) :
    memLoop (asGlobal cfg) tl size now maxM extra fuel rs m q =
      memLoop (asThread cfg) tl size now maxM extra fuel rs m q := by
  induction fuel generalizing rs m q with
  | zero => rfl
  | succ fuel ih =>
    simp only [memLoop]
    split
    · rfl
    · rw [evictMem_gt cfg tl htl now (rs.headD 0) h]
      have hi := (evictMem_spec h (asThread cfg) tl now (rs.headD 0)).inv h
      generalize evictMem (asThread cfg) tl now (rs.headD 0) m q = r at hi
      obtain ⟨m', q', ev⟩ := r
      simp only
      cases ev
      · rfl
      · exact ih rs.tail hi

theorem insert_gt (cfg : Cfg) (tl : Tlru S) (htl : cfg.policy = .tlru → SyncBlind tl cfg)
    (r : Nat) (s : State K V) (k : K) (v : V) :
    insert (asGlobal cfg) tl r s k v = insert (asThread cfg) tl r s k v := by
  unfold insert
  simp only
  rw [limitStep_gt cfg tl htl]
  rfl

theorem insertMem_gt (cfg : Cfg) (tl : Tlru S) (htl : cfg.policy = .tlru → SyncBlind tl cfg)
    (size : V → Nat) (rs : List Nat) (s : State K V) (k : K) (v : V) (h : Inv s) :
    insertMem (asGlobal cfg) tl size rs s k v = insertMem (asThread cfg) tl size rs s k v := by
  unfold insertMem
  simp only
  have h0 := InvMQ.put_erasePush h k (⟨v, stamp (asThread cfg) s.now, 0⟩ : Entry V)
  cases hm : cfg.maxMem with
  | none =>
    simp only
    rw [limitStep_gt cfg tl htl]
    rfl
  | some maxM =>
    simp only
    split
    · rfl
    · have hs : stamp (asGlobal cfg) s.now = stamp (asThread cfg) s.now := rfl
      rw [hs, memLoop_gt cfg tl htl size s.now maxM 0 _ rs h0]
      generalize memLoop (asThread cfg) tl size s.now maxM 0 ((erasePush k s.queue).length + 1) rs
        (put k ⟨v, stamp (asThread cfg) s.now, 0⟩ s.store) (erasePush k s.queue) = r1
      obtain ⟨m1, q1, rs1⟩ := r1
      simp only
      rw [limitStep_gt cfg tl htl]

/-! ### Without the invariant

On states with orphan queue keys one ITERATION of the memory loop differs (`popStored` skips the orphans
and removes the first stored key, `popOne` pops a single key), but the LOOP does not: popping an orphan
frees no memory, so the thread-local loop keeps popping until it has removed the same stored key.  Only
the number of iterations, hence the number of random draws consumed, differs — and FIFO/LRU use no
draws. -/

/-- `Queue cfg`: the policy whose memory-loop arm differs between the two engines -/
def Queue (cfg : Cfg) : Prop := cfg.policy = .fifo ∨ cfg.policy = .lru

theorem evictMem_gt_of_not_queue (cfg : Cfg) (tl : Tlru S) (htl : cfg.policy = .tlru → SyncBlind tl cfg)
    (hq : ¬ Queue cfg) (now r : Nat) (m : Store K V) (q : List K) :
    evictMem (asGlobal cfg) tl now r m q = evictMem (asThread cfg) tl now r m q := by
  unfold evictMem
  cases hp : cfg.policy <;> simp only [hp]
  · exact absurd (Or.inl hp) hq
  · exact absurd (Or.inr hp) hq
  all_goals exact evictScored_gt cfg tl htl now m q

theorem memLoop_gt_of_not_queue (cfg : Cfg) (tl : Tlru S) (htl : cfg.policy = .tlru → SyncBlind tl cfg)
    (hq : ¬ Queue cfg) (size : V → Nat) (now maxM extra fuel : Nat) (rs : List Nat) (m : Store K V) (q : List K) :
    memLoop (asGlobal cfg) tl size now maxM extra fuel rs m q =
      memLoop (asThread cfg) tl size now maxM extra fuel rs m q := by
  induction fuel generalizing rs m q with
  | zero => rfl
  | succ fuel ih =>
    simp only [memLoop]
    split
    · rfl
    · rw [evictMem_gt_of_not_queue cfg tl htl hq now (rs.headD 0) m q]
      generalize evictMem (asThread cfg) tl now (rs.headD 0) m q = r
      obtain ⟨m', q', ev⟩ := r
      simp only
      cases ev
      · rfl
      · exact ih rs.tail m' q'

theorem evictMem_global_queue (cfg : Cfg) (tl : Tlru S) (hq : Queue cfg) (now r : Nat) (m : Store K V) (q : List K) :
    evictMem (asGlobal cfg) tl now r m q = popStored m q := by
  unfold evictMem
  rcases hq with hp | hp <;> simp only [hp]

theorem evictMem_thread_queue (cfg : Cfg) (tl : Tlru S) (hq : Queue cfg) (now r : Nat) (m : Store K V) (q : List K) :
    evictMem (asThread cfg) tl now r m q = popOne m q := by
  unfold evictMem
  rcases hq with hp | hp <;> simp only [hp]

/-- FIFO/LRU: the entry-limit step uses no random draw -/
theorem limitStep_queue_draw (cfg : Cfg) (tl : Tlru S) (hq : Queue cfg) (now r r' : Nat) (m : Store K V) (q : List K) :
    limitStep cfg tl now r m q = limitStep cfg tl now r' m q := by
  unfold limitStep evictLimit
  rcases hq with hp | hp <;> simp only [hp]

/-- FIFO/LRU, ANY store and queue (orphans, duplicates): with enough fuel the two memory loops end in
    the same store and queue, whatever draws they are given.  (They differ in the draws left over.) -/
theorem memLoop_gt_queue (cfg : Cfg) (tl : Tlru S) (hq : Queue cfg) (size : V → Nat) (now maxM extra : Nat)
    (q : List K) (m : Store K V) (fG fT : Nat) (rsG rsT : List Nat)
    (hG : q.length + 1 ≤ fG) (hT : q.length + 1 ≤ fT) :
    (memLoop (asGlobal cfg) tl size now maxM extra fG rsG m q).1 =
      (memLoop (asThread cfg) tl size now maxM extra fT rsT m q).1 ∧
    (memLoop (asGlobal cfg) tl size now maxM extra fG rsG m q).2.1 =
      (memLoop (asThread cfg) tl size now maxM extra fT rsT m q).2.1 := by
  induction q generalizing m fG fT rsG rsT with
  | nil =>
    obtain ⟨g, rfl⟩ : ∃ g, fG = g + 1 := ⟨fG - 1, by simp at hG; omega⟩
    obtain ⟨t, rfl⟩ : ∃ t, fT = t + 1 := ⟨fT - 1, by simp at hT; omega⟩
    simp only [memLoop, evictMem_global_queue cfg tl hq, evictMem_thread_queue cfg tl hq]
    split
    · exact ⟨rfl, rfl⟩
    · simp [popStored, popOne]
  | cons k q ih =>
    simp only [List.length_cons] at hG hT
    obtain ⟨g, rfl⟩ : ∃ g, fG = g + 1 := ⟨fG - 1, by omega⟩
    obtain ⟨t, rfl⟩ : ∃ t, fT = t + 1 := ⟨fT - 1, by omega⟩
    by_cases hfit : totalMem size m + extra ≤ maxM
    · simp only [memLoop, hfit, if_true, and_self]
    · have eT : memLoop (asThread cfg) tl size now maxM extra (t + 1) rsT m (k :: q) =
          memLoop (asThread cfg) tl size now maxM extra t rsT.tail (eraseKey k m) q := by
        simp only [memLoop, hfit, if_false, evictMem_thread_queue cfg tl hq, popOne, if_true]
      rw [eT]
      by_cases hk : hasKey k m = true
      · have eG : memLoop (asGlobal cfg) tl size now maxM extra (g + 1) rsG m (k :: q) =
            memLoop (asGlobal cfg) tl size now maxM extra g rsG.tail (eraseKey k m) q := by
          simp only [memLoop, hfit, if_false, evictMem_global_queue cfg tl hq, popStored, hk, if_true]
        rw [eG]
        exact ih (eraseKey k m) g t rsG.tail rsT.tail (by omega) (by omega)
      · have hk' : hasKey k m = false := by simpa using hk
        have eG : memLoop (asGlobal cfg) tl size now maxM extra (g + 1) rsG m (k :: q) =
            memLoop (asGlobal cfg) tl size now maxM extra (g + 1) rsG m q := by
          simp only [memLoop, hfit, if_false, evictMem_global_queue cfg tl hq, popStored, hk', Bool.false_eq_true]
        rw [eG, eraseKey_of_not_mem ((hasKey_false_iff k m).mp hk')]
        exact ih m (g + 1) t rsG rsT.tail (by omega) (by omega)

/-- the memory-aware store of the two engines agrees on EVERY state -/
theorem insertMem_gt_any (cfg : Cfg) (tl : Tlru S) (htl : cfg.policy = .tlru → SyncBlind tl cfg)
    (size : V → Nat) (rs : List Nat) (s : State K V) (k : K) (v : V) :
    insertMem (asGlobal cfg) tl size rs s k v = insertMem (asThread cfg) tl size rs s k v := by
  unfold insertMem
  simp only
  cases hm : cfg.maxMem with
  | none =>
    simp only
    rw [limitStep_gt cfg tl htl]
    rfl
  | some maxM =>
    simp only
    split
    · rfl
    · have hs : stamp (asGlobal cfg) s.now = stamp (asThread cfg) s.now := rfl
      rw [hs]
      by_cases hq : Queue cfg
      · have hB := memLoop_gt_queue cfg tl hq size s.now maxM 0 (erasePush k s.queue)
          (put k ⟨v, stamp (asThread cfg) s.now, 0⟩ s.store) _ _ rs rs (Nat.le_refl _) (Nat.le_refl _)
        generalize memLoop (asGlobal cfg) tl size s.now maxM 0 ((erasePush k s.queue).length + 1) rs
          (put k ⟨v, stamp (asThread cfg) s.now, 0⟩ s.store) (erasePush k s.queue) = rG at hB
        generalize memLoop (asThread cfg) tl size s.now maxM 0 ((erasePush k s.queue).length + 1) rs
          (put k ⟨v, stamp (asThread cfg) s.now, 0⟩ s.store) (erasePush k s.queue) = rT at hB
        obtain ⟨m1, q1, rs1⟩ := rG
        obtain ⟨m1', q1', rs1'⟩ := rT
        simp only at hB ⊢
        obtain ⟨rfl, rfl⟩ := hB
        have hq' : Queue (asThread cfg) := hq
        rw [limitStep_gt cfg tl htl, limitStep_queue_draw (asThread cfg) tl hq' s.now (rs1.headD 0) (rs1'.headD 0)]
      · rw [memLoop_gt_of_not_queue cfg tl htl hq]
        generalize memLoop (asThread cfg) tl size s.now maxM 0 ((erasePush k s.queue).length + 1) rs
          (put k ⟨v, stamp (asThread cfg) s.now, 0⟩ s.store) (erasePush k s.queue) = r1
        obtain ⟨m1, q1, rs1⟩ := r1
        simp only
        rw [limitStep_gt cfg tl htl]

theorem step_gt_any (cfg : Cfg) (tl : Tlru S) (htl : cfg.policy = .tlru → SyncBlind tl cfg)
    (size : V → Nat) (rs : List Nat) (s : State K V) (op : Op K V) :
    step (asGlobal cfg) tl size rs s op = step (asThread cfg) tl size rs s op := by
  cases op with
  | get k => rfl
  | insert k v => simp only [step]; rw [insert_gt cfg tl htl]
  | insertMem k v => simp only [step]; rw [insertMem_gt_any cfg tl htl size rs s k v]
  | clear => rfl
  | invalidateWith p => rfl
  | tick ms => rfl

theorem run_gt_any (cfg : Cfg) (tl : Tlru S) (htl : cfg.policy = .tlru → SyncBlind tl cfg)
    (size : V → Nat) (s : State K V) (ops : List (Op K V × List Nat)) :
    run (asGlobal cfg) tl size s ops = run (asThread cfg) tl size s ops := by
  induction ops generalizing s with
  | nil => rfl
  | cons a ops ih =>
    obtain ⟨op, rs⟩ := a
    simp only [run]
    rw [step_gt_any cfg tl htl size rs s op, ih]

theorem step_gt (cfg : Cfg) (tl : Tlru S) (htl : cfg.policy = .tlru → SyncBlind tl cfg)
    (size : V → Nat) (rs : List Nat) (s : State K V) (op : Op K V) (h : Inv s) :
    step (asGlobal cfg) tl size rs s op = step (asThread cfg) tl size rs s op := by
  cases op with
  | get k => rfl
  | insert k v => simp only [step]; rw [insert_gt cfg tl htl]
  | insertMem k v => simp only [step]; rw [insertMem_gt cfg tl htl size rs s k v h]
  | clear => rfl
  | invalidateWith p => rfl
  | tick ms => rfl

theorem run_gt (cfg : Cfg) (tl : Tlru S) (htl : cfg.policy = .tlru → SyncBlind tl cfg)
    (size : V → Nat) (s : State K V) (ops : List (Op K V × List Nat)) (h : Inv s) :
    run (asGlobal cfg) tl size s ops = run (asThread cfg) tl size s ops := by
  induction ops generalizing s with
  | nil => rfl
  | cons a ops ih =>
    obtain ⟨op, rs⟩ := a
    simp only [run]
    rw [step_gt cfg tl htl size rs s op h]
    rw [ih _ (step_inv (asThread cfg) tl size rs s op h)]

/-! ## Part 2: from keys back to argument tuples -/

section Decode
open Cachelito.Keys
variable {F : Type}

/-- a call of a decorated function with receiver `r` and arguments `a`: the key both macro key builders
    generate for them, the value the undecorated body `g` returns for them, and arbitrary oracles for
    the two user predicates -/
def argCall (fm : Fmt F) (g : Option (Val F) → List (Val F) → V) (r : Option (Val F)) (a : List (Val F))
    (cacheIf invalidateOn : Text → V → Bool) : CallIn Text V :=
  ⟨keyOf fm r a, g r a, cacheIf, invalidateOn⟩

open Classical in
/-- the body as a function of the KEY: `g` applied to some well-typed argument tuple rendering to the
    key (`dflt` on strings that are no key of the signature).  Noncomputable; used only inside proofs. -/
noncomputable def decode (fm : Fmt F) (sg : Sig) (g : Option (Val F) → List (Val F) → V) (dflt : V)
    (k : Text) : V :=
  if h : ∃ r a, sg.wt r a = true ∧ keyOf fm r a = k then g h.choose h.choose_spec.choose else dflt

/-- if well-typed tuples are determined by their key, decoding the key of a well-typed tuple and
    applying the body is applying the body to the tuple -/
theorem decode_keyOf (fm : Fmt F) (sg : Sig) (g : Option (Val F) → List (Val F) → V) (dflt : V)
    (r : Option (Val F)) (a : List (Val F)) (hw : sg.wt r a = true)
    (hinj : ∀ r' a', sg.wt r' a' = true → keyOf fm r' a' = keyOf fm r a → r' = r ∧ a' = a) :
    decode fm sg g dflt (keyOf fm r a) = g r a := by
  unfold decode
  have h : ∃ r' a', sg.wt r' a' = true ∧ keyOf fm r' a' = keyOf fm r a := ⟨r, a, hw, rfl⟩
  rw [dif_pos h]
  obtain ⟨h1, h2⟩ := h.choose_spec.choose_spec
  obtain ⟨e1, e2⟩ := hinj _ _ h1 h2
  exact congr (congrArg g e1) e2

/-- every call of function `i` in `ops` is a call with a well-typed receiver/argument tuple of signature
    `sg`: its key is the key of that tuple and its body returns `g` of that tuple -/
def CallsHaveArgs (fm : Fmt F) (sg : Sig) (g : Option (Val F) → List (Val F) → V) (i : Nat)
    (ops : List (SysOp Text V × List Nat)) : Prop :=
  ∀ p ∈ ops, ∀ th c, p.1 = SysOp.call i th c →
    ∃ r a, sg.wt r a = true ∧ c.key = keyOf fm r a ∧ c.bodyVal = g r a

end Decode

end Cachelito.Extra
