//! Free-running parallel stress (no scheduler): several real threads call plain generated functions whose results
//! are already stored.  The property (C03 / C18) holds for EVERY schedule, so any body execution observed here is
//! a violation; nothing observed proves nothing (that is what the theorems and the scheduled runs are for).
//! This stream exists because the deterministic scheduler serialises threads at lock acquisitions and therefore
//! never exercises contention inside un-instrumented structures (DashMap shards).
//!
//!   hammer <seed> <threads> <rounds>   ->  H|<fn>|<calls>|<body executions in the parallel phase>|<wrong values>
use std::sync::atomic::{AtomicU64, Ordering};
use std::sync::{Arc, Barrier};
use verif_harness::l2::{all_specs, corpus, rt};
use verif_harness::Rng;

static WRONG: AtomicU64 = AtomicU64::new(0);

fn main() {
    let args: Vec<String> = std::env::args().collect();
    let seed: u64 = args[1].parse().unwrap();
    let threads: usize = args[2].parse().unwrap();
    let rounds: usize = args[3].parse().unwrap();
    let specs = all_specs();
    // plain configuration: global or async, no limit / ttl / max_memory / predicates, not a Result type
    let plain: Vec<_> = specs
        .iter()
        .filter(|s| !s.thread && s.limit.is_none() && s.max_mem.is_none() && s.ttl.is_none() && !s.has_pred && !s.is_result)
        .cloned()
        .collect();
    for sp in plain {
        let fi = sp.idx;
        let nk = 4usize;
        // phase 1 (sequential): every key is computed and stored once; large values make clones slow
        let mut expect: Vec<String> = Vec::new();
        for j in 0..nk {
            rt::NEXT_TL.with(|n| n.set(Some(rt::Next { n: 7 + j as u64, ok: true, len: 100_000, ci: true, io: false })));
            let (_, r) = corpus::CALLS[fi](j);
            expect.push(r);
        }
        let e0 = rt::EXEC.load(Ordering::SeqCst);
        WRONG.store(0, Ordering::SeqCst);
        let expect = Arc::new(expect);
        let barrier = Arc::new(Barrier::new(threads));
        let mut hs = Vec::new();
        for t in 0..threads {
            let expect = expect.clone();
            let barrier = barrier.clone();
            hs.push(std::thread::spawn(move || {
                let mut rng = Rng::new(seed ^ (t as u64 * 7919 + fi as u64));
                barrier.wait();
                for _ in 0..rounds {
                    let j = rng.below(nk as u64) as usize;
                    // the body is a deterministic function of the arguments: a re-execution returns the same value
                    rt::NEXT_TL.with(|n| n.set(Some(rt::Next { n: 7 + j as u64, ok: true, len: 100_000, ci: true, io: false })));
                    let (_, r) = corpus::CALLS[fi](j);
                    if r != expect[j] {
                        WRONG.fetch_add(1, Ordering::SeqCst);
                    }
                }
            }));
        }
        for h in hs {
            h.join().unwrap();
        }
        let e1 = rt::EXEC.load(Ordering::SeqCst);
        println!("H|{}|{}|{}|{}|{}", fi, sp.name, threads * rounds, e1 - e0, WRONG.load(Ordering::SeqCst));
    }
}
