/-
  C15 — Hit/miss statistics are exact, per cache name (sequential part).

  Setting: any list of cached functions with arbitrary configurations, any history of calls (any function,
  any thread), ticks, registry invalidations and statistics operations.  Statistics exist for global-scope
  and async functions (`threadScope = false`); they live in the shared instance `⟨i, none⟩` and are
  registered under the cache name on the function's first call.  Thread-scope functions have none.

  What a lookup is and when it is a hit (`Lemmas/Calls.lean`):
    * `found cfg s k`    — the store of `s` holds an entry for `k` that is not expired at `s.now`;
    * `lookupHit tr`     — the trace of a call shows that its lookup returned a value (an `invalidate_on`
                           check was made on it, or it was returned from the cache).  A hit whose entry is then
                           judged stale by `invalidate_on` is still a hit: the counters count LOOKUPS;
    * `statsSince i name (0,0) ops outs` — (hits, misses) computed from the history and its outputs alone:
                           one count per call of `i` since the last `statsReset name`, a hit iff `lookupHit`;
    * `callsSince i name 0 ops` — number of calls of `i` since the last `statsReset name`.

  The concurrent part (atomic `fetch_add` per lookup, any schedule) is proved elsewhere.
-/
import Cachelito.Lemmas.Calls

set_option linter.unusedSectionVars false
set_option linter.unusedSimpArgs false
set_option linter.unusedVariables false

namespace Cachelito.C15b
open Cachelito Cachelito.Calls
variable {K V S : Type} [DecidableEq K]

section
variable (fns : List FnSpec) (tls : Nat → Tlru S) (size : V → Nat) (isOk : V → Bool)

/-- **One lookup, one count; a hit exactly when an unexpired entry was found.**  A call of the shared
    function `i`, from any state, adds exactly one to `hits + misses` of `i`'s cache: to `hits` if the
    lookup found an entry that is not expired, to `misses` otherwise (absent or expired) — and the trace
    shows a returned lookup (`lookupHit`) in exactly the first case. -/
theorem lookup_counted_once {i : Nat} {spec : FnSpec} (hspec : fns[i]? = some spec) (hts : spec.threadScope = false)
    (rs : List Nat) (sys : Sys K V) (th : Nat) (c : CallIn K V) :
    let s := sys.getCache ⟨i, none⟩
    let s' := (sysStep fns tls size isOk rs sys (.call i th c)).1.getCache ⟨i, none⟩
    s'.hitStat = s.hitStat + (if found spec.cfg s c.key then 1 else 0) ∧
    s'.missStat = s.missStat + (if found spec.cfg s c.key then 0 else 1) ∧
    (found spec.cfg s c.key = true ↔ ∃ e, lookup c.key s.store = some e ∧ expired spec.cfg s.now e = false) ∧
    (∀ v tr, (sysStep fns tls size isOk rs sys (.call i th c)).2 = .ret v tr →
      lookupHit tr = found spec.cfg s c.key) := by
  intro s s'
  have hs' : s' = (callFn spec (tls i) size isOk rs s c).1 := by
    show (sysStep fns tls size isOk rs sys (.call i th c)).1.getCache ⟨i, none⟩ = _
    rw [getCache_call fns tls size isOk rs sys th c hspec, cacheIdOf_shared hts, if_pos rfl]
  obtain ⟨g1, g2, _, g4⟩ := callFn_stats spec (tls i) size isOk rs s c
  refine ⟨by rw [hs']; exact g1, by rw [hs']; exact g2, found_iff _ _ _, ?_⟩
  intro v tr hout
  rw [out_call fns tls size isOk rs sys th c hspec, cacheIdOf_shared hts] at hout
  cases hout
  exact g4

/-- **The counters are exact after every history.**  For a shared function `i` with cache name
    `spec.name`, the counters of its cache equal `statsSince`: one count per call of `i` since the last reset
    of its name, counted as a hit iff that call's lookup returned a value; and
    `hits + misses = number of calls of i since the last reset`. -/
theorem counters_exact {i : Nat} {spec : FnSpec} (hspec : fns[i]? = some spec) (hts : spec.threadScope = false)
    (ops : List (SysOp K V × List Nat)) :
    let s := (sysRun fns tls size isOk (Sys.init : Sys K V) ops).1.getCache ⟨i, none⟩
    (s.hitStat, s.missStat) =
      statsSince i spec.name (0, 0) ops (sysRun fns tls size isOk (Sys.init : Sys K V) ops).2 ∧
    s.hitStat + s.missStat = callsSince i spec.name 0 ops := by
  intro s
  have h1 := (stats_run fns tls size isOk hspec hts ops Sys.init (fun _ => rfl)).1
  have h1' : (s.hitStat, s.missStat) =
      statsSince i spec.name (0, 0) ops (sysRun fns tls size isOk (Sys.init : Sys K V) ops).2 := h1
  refine ⟨h1', ?_⟩
  have h2 := statsSince_total fns tls size isOk hspec ops (Sys.init : Sys K V) (0, 0) 0 rfl
  rw [← h1'] at h2
  exact h2

/-- **`statsGet name` finds the counters under the cache name.**  With pairwise distinct names of the
    shared functions: once function `i` has been called, `statsGet` of its name leaves the system unchanged
    and returns `some (hits, misses)` with exactly the counters of `counters_exact`. -/
theorem statsGet_returns_counters (hd : DistinctNames fns) {i : Nat} {spec : FnSpec} (hspec : fns[i]? = some spec)
    (hts : spec.threadScope = false) (pre : List (SysOp K V × List Nat)) (hcalled : calledIn i pre) (rs : List Nat) :
    sysStep fns tls size isOk rs (sysRun fns tls size isOk (Sys.init : Sys K V) pre).1 (.statsGet spec.name) =
      ((sysRun fns tls size isOk (Sys.init : Sys K V) pre).1,
       .stats (some (statsSince i spec.name (0, 0) pre (sysRun fns tls size isOk (Sys.init : Sys K V) pre).2))) := by
  have hcon : (sysRun fns tls size isOk (Sys.init : Sys K V) pre).1.called.contains i = true :=
    (called_run fns tls size isOk i pre Sys.init).mpr (Or.inr ⟨spec, hspec, hts, hcalled⟩)
  rw [sysStep_statsGet, statTargets_registered hd _ hspec hts hcon]
  have h1 := (stats_run fns tls size isOk hspec hts pre Sys.init (fun _ => rfl)).1
  simp only
  rw [← (show ctr ((Sys.init : Sys K V).getCache ⟨i, none⟩) = (0, 0) from rfl), ← h1]
  rfl

/-- **`statsGet name` answers `some …` iff a registered function has that name** — a global-scope or
    async function of that name that has been called at least once (thread-scope functions and functions
    never called have no statistics entry). -/
theorem statsGet_some_iff (pre : List (SysOp K V × List Nat)) (name : String) (rs : List Nat) :
    (∃ hm, (sysStep fns tls size isOk rs (sysRun fns tls size isOk (Sys.init : Sys K V) pre).1 (.statsGet name)).2 =
        .stats (some hm)) ↔
      ∃ j spec, fns[j]? = some spec ∧ spec.threadScope = false ∧ spec.name = name ∧ calledIn j pre := by
  rw [sysStep_statsGet]
  have hreg : ∀ j, (sysRun fns tls size isOk (Sys.init : Sys K V) pre).1.called.contains j = true ↔
      ∃ spec, fns[j]? = some spec ∧ spec.threadScope = false ∧ calledIn j pre := by
    intro j
    rw [called_run fns tls size isOk j pre Sys.init]
    simp [Sys.init]
  constructor
  · rintro ⟨hm, hout⟩
    cases hl : statTargets fns (sysRun fns tls size isOk (Sys.init : Sys K V) pre).1 name with
    | nil => rw [hl] at hout; simp at hout
    | cons a t =>
      have ha : a ∈ statTargets fns (sysRun fns tls size isOk (Sys.init : Sys K V) pre).1 name := by
        rw [hl]; exact List.mem_cons_self
      obtain ⟨spec, h1, h2, h3, h4⟩ := (mem_statTargets fns _ name a).mp ha
      obtain ⟨spec', h1', _, h3'⟩ := (hreg a).mp h3
      exact ⟨a, spec, h1, h2, h4, h3'⟩
  · rintro ⟨j, spec, h1, h2, h3, h4⟩
    have hj : j ∈ statTargets fns (sysRun fns tls size isOk (Sys.init : Sys K V) pre).1 name :=
      (mem_statTargets fns _ name j).mpr ⟨spec, h1, h2, (hreg j).mpr ⟨spec, h1, h2, h4⟩, h3⟩
    cases hl : statTargets fns (sysRun fns tls size isOk (Sys.init : Sys K V) pre).1 name with
    | nil => rw [hl] at hj; cases hj
    | cons a t => exact ⟨_, rfl⟩

/-- **Resetting one cache's statistics leaves all others unchanged.**  `statsReset name`, from any state:
    (a) changes no store, no order queue and no clock of any instance; (b) leaves every instance that is
    not the shared instance of a registered function named `name` completely unchanged — in particular the
    counters of every cache with another name and every thread-scope instance; (c) zeroes both counters of
    a registered function with that name. -/
theorem statsReset_effect (rs : List Nat) (sys : Sys K V) (name : String) :
    (∀ id : CacheId,
      ((sysStep fns tls size isOk rs sys (.statsReset name)).1.getCache id).store = (sys.getCache id).store ∧
      ((sysStep fns tls size isOk rs sys (.statsReset name)).1.getCache id).queue = (sys.getCache id).queue ∧
      ((sysStep fns tls size isOk rs sys (.statsReset name)).1.getCache id).now = (sys.getCache id).now) ∧
    (∀ id : CacheId, (id.thread ≠ none ∨ ∀ spec, fns[id.fn]? = some spec → spec.name ≠ name) →
      (sysStep fns tls size isOk rs sys (.statsReset name)).1.getCache id = sys.getCache id) ∧
    (∀ i spec, fns[i]? = some spec → spec.threadScope = false → spec.name = name →
      sys.called.contains i = true →
      ((sysStep fns tls size isOk rs sys (.statsReset name)).1.getCache ⟨i, none⟩).hitStat = 0 ∧
      ((sysStep fns tls size isOk rs sys (.statsReset name)).1.getCache ⟨i, none⟩).missStat = 0) := by
  refine ⟨fun id => ?_, fun id hid => ?_, fun i spec h1 h2 h3 h4 => ?_⟩
  · rw [getCache_statsReset]; split <;> exact ⟨rfl, rfl, rfl⟩
  · rw [getCache_statsReset]
    rw [if_neg]
    rintro ⟨ht, hm⟩
    obtain ⟨spec, g1, _, _, g4⟩ := (mem_statTargets fns sys name id.fn).mp hm
    rcases hid with hid | hid
    · exact hid ht
    · exact hid spec g1 g4
  · rw [getCache_statsReset, if_pos ⟨rfl, (mem_statTargets fns sys name i).mpr ⟨spec, h1, h2, h4, h3⟩⟩]
    exact ⟨rfl, rfl⟩

/-- **Calls of one function never change another function's counters** (nor anything else of its
    instances): a call of `fn` leaves every instance of every other function `i ≠ fn` unchanged. -/
theorem call_keeps_other_counters {fn i : Nat} (hne : fn ≠ i) (rs : List Nat) (sys : Sys K V) (th : Nat)
    (c : CallIn K V) (thread : Option Nat) :
    (sysStep fns tls size isOk rs sys (.call fn th c)).1.getCache ⟨i, thread⟩ = sys.getCache ⟨i, thread⟩ := by
  cases hs : fns[fn]? with
  | none => rw [sysStep_call_none fns tls size isOk rs sys th c hs]
  | some spec =>
    rw [getCache_call fns tls size isOk rs sys th c hs, if_neg]
    intro hid
    exact hne (congrArg CacheId.fn hid).symm

/-- **Ticks and registry invalidations never change a counter**: expiry and invalidation show up in the
    statistics only through the later lookups that miss. -/
theorem ticks_and_invalidations_keep_counters (rs : List Nat) (sys : Sys K V) (op : SysOp K V)
    (hop : isInvalidation op = true ∨ ∃ ms, op = .tick ms) (id : CacheId) :
    ((sysStep fns tls size isOk rs sys op).1.getCache id).hitStat = (sys.getCache id).hitStat ∧
    ((sysStep fns tls size isOk rs sys op).1.getCache id).missStat = (sys.getCache id).missStat := by
  rcases hop with hop | ⟨ms, rfl⟩
  · exact stats_invalidation fns tls size isOk rs sys op hop id
  · rw [getCache_tick]; exact ⟨rfl, rfl⟩

end

/-! ### Non-vacuity

`s0` global LRU named "alpha" with TTL 2 s, `s1` async LFU named "beta" with `invalidate_on`, `s2`
thread-scope named "gamma" (no statistics).  The history has hits, an expired lookup (miss), a stale hit
(counted as a hit), an invalidation, a reset of "alpha" and calls after it. -/

def exTl : Tlru Nat := ⟨fun a b => decide (a < b), fun _ h _ r => h * r⟩
def s0 : FnSpec := ⟨"alpha", false, false, ⟨.global, .lru, none, none, some 2⟩, false, false, false, false, ["t"], [], []⟩
def s1 : FnSpec := ⟨"beta", true, false, ⟨.async, .lfu, some 2, none, none⟩, false, false, false, true, [], [], []⟩
def s2 : FnSpec := ⟨"gamma", false, true, ⟨.threadLocal, .fifo, none, none, none⟩, false, false, false, false, [], [], []⟩
def exFns : List FnSpec := [s0, s1, s2]
/-- `invalidate_on` calls key 9 stale -/
def mk (k v : Nat) : CallIn Nat Nat := ⟨k, v, fun _ _ => true, fun k _ => k == 9⟩
def exOps : List (SysOp Nat Nat × List Nat) :=
  [(.statsGet "alpha", []),                                   -- 0: not registered yet
   (.call 0 0 (mk 1 10), []), (.call 0 1 (mk 1 10), []),      -- miss, hit
   (.tick 3000, []), (.call 0 0 (mk 1 10), []),               -- expired: miss
   (.call 1 0 (mk 9 90), []), (.call 1 1 (mk 9 90), []),      -- beta: miss, stale hit (counts as hit)
   (.call 2 0 (mk 1 10), []),                                 -- gamma: thread scope, no statistics
   (.statsGet "alpha", []), (.statsGet "beta", []), (.statsGet "gamma", []),   -- 8, 9, 10
   (.invalidateByTag "t", []), (.call 0 1 (mk 1 10), []),     -- invalidated: miss
   (.statsGet "alpha", []),                                   -- 13
   (.statsReset "alpha", []), (.statsGet "alpha", []), (.statsGet "beta", []), -- 15, 16
   (.call 0 0 (mk 1 10), []), (.statsGet "alpha", [])]        -- hit; 18
def exRun := sysRun exFns (fun _ => exTl) (fun _ => 0) (fun _ => true) (Sys.init : Sys Nat Nat) exOps
def statOf (o : Option (SysOut Nat Nat)) : Option (Nat × Nat) :=
  match o with | some (.stats r) => r | _ => none

example : DistinctNames exFns := by
  intro i j si sj hi hj h1 h2 hn
  rcases i with _ | _ | _ | i <;> rcases j with _ | _ | _ | j <;> simp [exFns] at hi hj <;>
    subst hi <;> subst hj <;> first | rfl | (simp [s0, s1, s2] at hn h1 h2)
example : [0, 8, 9, 10, 13, 15, 16, 18].map (fun j => statOf exRun.2[j]?) =
    [none, some (1, 2), some (1, 1), none, some (1, 3), some (0, 0), some (1, 1), some (1, 0)] := by decide
/-- the counters of "alpha" computed from the history alone agree: 1 hit, 0 misses since the reset,
    and one call since the reset -/
example : statsSince 0 "alpha" (0, 0) exOps exRun.2 = (1, 0) ∧ callsSince 0 "alpha" 0 exOps = 1 := by decide
example : statsSince 1 "beta" (0, 0) exOps exRun.2 = (1, 1) ∧ callsSince 1 "beta" 0 exOps = 2 := by decide

end Cachelito.C15b
