"""rust2lean — a small source-to-model TRANSLATOR for the PURE helper code of cachelito (third tie, besides the
correspondence streams and the lock / borrow nesting translator of static_scopes.py).

On every check it reads /repo's CURRENT source and regenerates `lean/Cachelito/Cachelito/Generated/Pure*.lean`:

  * PureMem.lean    every `impl MemoryEstimator for T` of memory_estimator.rs and cache_entry.rs: the body of
                    `estimate_memory` as a Lean function in the `Option` monad (Rust's unchecked `-` on usize is
                    `RustLite.usub`, which fails on underflow; `saturating_sub` is total)
  * PureUtils.lean  utils.rs: `move_key_to_end`, `find_min_frequency_key`, `remove_from_maps`,
                    `remove_key_from_global_cache`, `remove_key_from_cache_local`, `find_arc_eviction_key`,
                    `find_tlru_eviction_key`; cache_entry.rs: `is_expired`, `increment_frequency`;
                    stats.rs: the `CacheStats` methods (atomics as plain cells, one method = one atomic step);
                    eviction_policy.rs: `From<&str>` and `is_valid`

The translation is SHALLOW (Rust function -> Lean definition of the same name): a recursive-descent parser for the
expression / statement subset these files use, then an emitter that turns mutable locals into `let` shadowing, `for`
loops into `List.foldl` over the tuple of the variables the body assigns, `if` / `if let` statements into
`if` / `match` terms returning that tuple, and `&mut` parameters into extra results.  Library calls (VecDeque,
HashMap, Option, iterators, f64) are mapped to the definitions of `Cachelito/RustLite.lean`, which is hand-written
and trusted as their meaning.  `Props/T01.lean` proves, against whatever was generated, that these functions ARE the
corresponding definitions of the hand-written model (`Core.lean`, `Basic.lean`, `MemEst.lean`, `StatsReg.lean`), so a
change to the source that alters what one of them computes breaks a proof obligation on every run, whether or not a
generated history reaches the difference.

Anything outside the subset raises `Untranslatable` (reported as a broken obligation, never guessed).
"""
import os, re, sys, json

REPO = os.environ.get("VERIF_REPO", "/repo")
ROOT = os.path.dirname(os.path.dirname(os.path.abspath(__file__)))
GEN_DIR = os.path.join(ROOT, "lean", "Cachelito", "Cachelito", "Generated")


class Untranslatable(Exception):
    pass


# ------------------------------------------------------------------------------------------------ tokenizer
PUNCT3 = ["..=", "<<=", ">>="]
PUNCT2 = ["::", "->", "=>", "==", "!=", "<=", ">=", "&&", "||", "+=", "-=", "*=", "/=", ".."]


def tokenize(text):
    toks = []
    i, n, line = 0, len(text), 1
    while i < n:
        c = text[i]
        if c == "\n":
            line += 1; i += 1; continue
        if c.isspace():
            i += 1; continue
        if text.startswith("//", i):
            j = text.find("\n", i); i = n if j < 0 else j; continue
        if text.startswith("/*", i):
            j = text.find("*/", i + 2); j = n if j < 0 else j + 2
            line += text.count("\n", i, j); i = j; continue
        if c == '"':
            j = i + 1
            while j < n and text[j] != '"':
                j += 2 if text[j] == "\\" else 1
            toks.append(("str", text[i + 1:j], line)); line += text.count("\n", i, j); i = j + 1; continue
        if c == "'":
            m = re.match(r"'(\\.|[^\\'])'", text[i:])
            if m:
                toks.append(("char", m.group(1), line)); i += len(m.group(0)); continue
            m = re.match(r"'[A-Za-z_][A-Za-z0-9_]*", text[i:])
            if m:
                toks.append(("life", m.group(0), line)); i += len(m.group(0)); continue
        m = re.match(r"[A-Za-z_][A-Za-z0-9_]*", text[i:])
        if m:
            toks.append(("id", m.group(0), line)); i += len(m.group(0)); continue
        m = re.match(r"\d[\d_]*\.\d[\d_]*(f32|f64)?|\d[\d_]*(f32|f64)", text[i:])
        if m:
            toks.append(("float", m.group(0), line)); i += len(m.group(0)); continue
        m = re.match(r"\d[\d_]*([iu](8|16|32|64|128|size))?", text[i:])
        if m:
            toks.append(("num", m.group(0), line)); i += len(m.group(0)); continue
        for p in PUNCT3 + PUNCT2:
            if text.startswith(p, i):
                toks.append(("p", p, line)); i += len(p); break
        else:
            toks.append(("p", c, line)); i += 1
    toks.append(("eof", "", line))
    return toks


# ------------------------------------------------------------------------------------------------ parser
class Parser:
    def __init__(self, toks, fname):
        self.t, self.i, self.fname = toks, 0, fname

    def peek(self, k=0):
        return self.t[min(self.i + k, len(self.t) - 1)]

    def at(self, val, k=0):
        tk = self.peek(k)
        return tk[0] in ("p", "id") and tk[1] == val

    def next(self):
        tk = self.t[self.i]; self.i += 1; return tk

    def expect(self, val):
        tk = self.next()
        if tk[1] != val or tk[0] not in ("p", "id"):
            raise Untranslatable(f"{self.fname}:{tk[2]}: expected `{val}`, found `{tk[1]}`")
        return tk

    def accept(self, val):
        if self.at(val):
            self.i += 1; return True
        return False

    def err(self, what):
        tk = self.peek()
        raise Untranslatable(f"{self.fname}:{tk[2]}: {what} (at `{tk[1]}`)")

    # ---- skipping
    def skip_balanced(self, open_, close):
        depth = 0
        while True:
            tk = self.next()
            if tk[0] == "eof":
                raise Untranslatable(f"{self.fname}: unbalanced {open_}")
            if tk[0] == "p" and tk[1] == open_:
                depth += 1
            elif tk[0] == "p" and tk[1] == close:
                depth -= 1
                if depth == 0:
                    return

    def skip_attrs(self):
        """returns the list of attribute texts skipped"""
        attrs = []
        while self.at("#"):
            start = self.i
            self.next()
            self.accept("!")
            self.skip_balanced("[", "]")
            attrs.append(" ".join(t[1] for t in self.t[start:self.i]))
        return attrs

    def skip_generics(self):
        """at `<`: skip to the matching `>` (types only, so no comparison operators inside)"""
        depth = 0
        while True:
            tk = self.next()
            if tk[0] == "eof":
                raise Untranslatable(f"{self.fname}: unbalanced <")
            if tk[0] == "p" and tk[1] == "<":
                depth += 1
            elif tk[0] == "p" and tk[1] == ">":
                depth -= 1
                if depth == 0:
                    return
            elif tk[0] == "p" and tk[1] == "->":
                pass

    # ---- types (kept as text + a light structure)
    def parse_type(self):
        """returns the type as normalised text"""
        out = []
        if self.accept("&"):
            if self.peek()[0] == "life":
                self.next()
            m = "mut " if self.accept("mut") else ""
            return "&" + m + self.parse_type()
        if self.accept("*"):
            self.next(); return "*" + self.parse_type()
        if self.accept("("):
            parts = []
            while not self.at(")"):
                parts.append(self.parse_type())
                if not self.accept(","):
                    break
            self.expect(")")
            return "(" + ", ".join(parts) + ")"
        if self.accept("["):
            t = self.parse_type()
            if self.accept(";"):
                self.next()
            self.expect("]")
            return "[" + t + "]"
        if self.at("impl") or self.at("dyn"):
            self.next()
        # path with generics
        segs = []
        while True:
            tk = self.next()
            if tk[0] != "id":
                raise Untranslatable(f"{self.fname}:{tk[2]}: type expected, found `{tk[1]}`")
            seg = tk[1]
            if self.at("<"):
                self.next()
                args = []
                while not self.at(">"):
                    if self.peek()[0] == "life":
                        self.next()
                    elif self.peek()[0] == "id" and self.at("=", 1):     # associated type binding  Item = T
                        self.next(); self.next(); args.append(self.parse_type())
                    else:
                        args.append(self.parse_type())
                    if not self.accept(","):
                        break
                self.expect(">")
                seg += "<" + ", ".join(args) + ">"
            segs.append(seg)
            if self.at("::") and self.peek(1)[0] == "id":
                self.next(); continue
            break
        t = "::".join(segs)
        while self.accept("+"):          # bounds  A + B
            if self.peek()[0] == "life":
                self.next()
            else:
                self.parse_type()
        return t

    # ---- items
    def parse_file(self):
        """returns [(kind, header, fn)] for every function outside `#[cfg(test)]` modules:
        header = None for free functions, else (trait or None, target type text)"""
        fns = []
        while self.peek()[0] != "eof":
            attrs = self.skip_attrs()
            is_test = any("cfg ( test )" in a or "cfg(test)" in a.replace(" ", "") for a in attrs)
            is_hook = any("verif" in a for a in attrs)
            self.accept("pub")
            if self.at("("):
                self.skip_balanced("(", ")")
            if self.at("mod"):
                self.next(); self.next()
                if self.at(";"):
                    self.next()
                elif is_test:
                    self.skip_balanced("{", "}")
                else:
                    self.expect("{")           # descend: items of an ordinary module are parsed in place
                continue
            if self.at("}"):
                self.next(); continue
            if self.at("use") or self.at("const") or self.at("static") or self.at("type") or self.at("extern"):
                while not self.at(";"):
                    if self.at("{"):
                        self.skip_balanced("{", "}")
                    else:
                        self.next()
                self.next(); continue
            if self.at("struct") or self.at("enum") or self.at("trait") or self.at("union") or self.at("macro_rules"):
                kw = self.next()[1]
                if kw == "trait":
                    name = self.next()[1]
                    if self.at("<"):
                        self.skip_generics()
                    while not self.at("{"):
                        self.next()
                    self.expect("{")
                    fns += self.parse_impl_body((name, "Self"), default=True)
                    continue
                while not (self.at(";") or self.at("{") or self.at("(")):
                    self.next()
                if self.at("("):
                    self.skip_balanced("(", ")")
                    while not self.at(";"):
                        self.next()
                    self.next()
                elif self.at("{"):
                    self.skip_balanced("{", "}")
                else:
                    self.next()
                continue
            if self.at("impl"):
                self.next()
                if self.at("<"):
                    self.skip_generics()
                t1 = self.parse_type()
                trait, target = None, t1
                if self.accept("for"):
                    trait, target = t1, self.parse_type()
                while not self.at("{"):
                    self.next()
                self.expect("{")
                got = self.parse_impl_body((trait, target))
                if not (is_test or is_hook):
                    fns += got
                continue
            if self.at("fn") or self.at("async") or self.at("unsafe"):
                f = self.parse_fn()
                if not (is_test or is_hook):
                    fns.append((None, f))
                continue
            self.err("unknown item")
        return fns

    def parse_impl_body(self, header, default=False):
        fns = []
        while not self.at("}"):
            attrs = self.skip_attrs()
            is_hook = any("verif" in a for a in attrs)
            self.accept("pub")
            if self.at("("):
                self.skip_balanced("(", ")")
            if self.at("type") or self.at("const") and not self.at("fn", 1):
                while not self.at(";"):
                    self.next()
                self.next(); continue
            self.accept("const")
            f = self.parse_fn()
            if f is not None and not is_hook:
                fns.append((header, f))
        self.expect("}")
        return fns

    def parse_fn(self):
        while self.at("async") or self.at("unsafe") or self.at("const"):
            self.next()
        self.expect("fn")
        name = self.next()[1]
        line = self.peek()[2]
        if self.at("<"):
            self.skip_generics()
        self.expect("(")
        params = []
        while not self.at(")"):
            self.skip_attrs()
            if self.at("&") and (self.at("self", 1) or self.at("mut", 1) and self.at("self", 2)):
                self.next()
                m = self.accept("mut")
                self.next()
                params.append(("self", "&mut Self" if m else "&Self"))
            elif self.at("self") or (self.at("mut") and self.at("self", 1)):
                self.accept("mut"); self.next()
                params.append(("self", "Self"))
            else:
                self.accept("mut")
                pname = self.next()[1]
                self.expect(":")
                params.append((pname, self.parse_type()))
            if not self.accept(","):
                break
        self.expect(")")
        ret = None
        if self.accept("->"):
            ret = self.parse_type()
        if self.at("where"):
            while not (self.at("{") or self.at(";")):
                self.next()
        if self.accept(";"):
            return None
        # bodies are parsed LAZILY (`body_of`): only the functions that are translated must lie in the subset
        start = self.i
        self.skip_balanced("{", "}")
        toks = self.t[start:self.i] + [("eof", "", self.t[self.i - 1][2])]
        return dict(name=name, params=params, ret=ret, body=None, body_toks=toks, fname=self.fname, line=line)

    # ---- statements
    def parse_block(self):
        """returns ('block', stmts, tail expr or None)"""
        self.expect("{")
        stmts, tail = [], None
        while not self.at("}"):
            attrs = self.skip_attrs()
            hook = any("verif" in a for a in attrs)
            if self.accept(";"):
                continue
            if self.at("let"):
                self.next()
                pat = self.parse_pattern()
                ty = None
                if self.accept(":"):
                    ty = self.parse_type()
                self.expect("=")
                e = self.parse_expr()
                self.expect(";")
                if not hook:
                    stmts.append(("let", pat, ty, e))
                continue
            if self.at("for"):
                self.next()
                pat = self.parse_pattern()
                self.expect("in")
                it = self.parse_expr(no_struct=True)
                body = self.parse_block()
                if not hook:
                    stmts.append(("for", pat, it, body))
                continue
            if self.at("while") and self.at("let", 1):
                self.next(); self.next()
                pat = self.parse_pattern()
                self.expect("=")
                scrut = self.parse_expr(no_struct=True)
                body = self.parse_block()
                if not hook:
                    stmts.append(("whilelet", pat, scrut, body))
                continue
            if self.at("return"):
                self.next()
                val = None
                if not self.at(";"):
                    val = self.parse_expr()
                self.expect(";")
                if not hook:
                    stmts.append(("return", val))
                continue
            if self.at("break") and self.at(";", 1):
                self.next(); self.next()
                if not hook:
                    stmts.append(("break",))
                continue
            if self.at("loop") and self.at("{", 1):
                self.next()
                body = self.parse_block()
                if not hook:
                    stmts.append(("loop", body))
                continue
            if self.at("while") or self.at("loop") or self.at("break") or self.at("continue"):
                self.err("control flow outside the translated subset")
            e = self.parse_expr()
            if self.at("=") or (self.peek()[0] == "p" and self.peek()[1] in ("+=", "-=", "*=", "/=")):
                op = self.next()[1]
                rhs = self.parse_expr()
                self.expect(";")
                if not hook:
                    stmts.append(("assign", e, op, rhs))
                continue
            if self.accept(";"):
                if not hook:
                    stmts.append(("expr", e))
                continue
            if e[0] in ("if", "iflet", "match", "block") and not self.at("}"):
                if not hook:
                    stmts.append(("expr", e))     # block-like expression statement without `;`
                continue
            if not self.at("}"):
                self.err("`;` or `}` expected after expression")
            tail = None if hook else e
        self.expect("}")
        return ("block", stmts, tail)

    # ---- patterns
    def parse_pattern(self):
        p = self.parse_pattern1()
        if self.at("|"):
            alts = [p]
            while self.accept("|"):
                alts.append(self.parse_pattern1())
            return ("por", alts)
        return p

    def parse_pattern1(self):
        tk = self.peek()
        if self.accept("&"):
            self.accept("mut")
            return self.parse_pattern1()
        if self.accept("("):
            ps = []
            while not self.at(")"):
                ps.append(self.parse_pattern())
                if not self.accept(","):
                    break
            self.expect(")")
            return ps[0] if len(ps) == 1 else ("ptuple", ps)
        if tk[0] == "id" and tk[1] == "_":
            self.next(); return ("pwild",)
        if tk[0] in ("num", "str", "char", "float"):
            self.next(); return ("plit", tk[0], tk[1])
        if tk[0] == "id":
            self.accept("ref"); self.accept("mut")
            segs = [self.next()[1]]
            while self.at("::"):
                self.next(); segs.append(self.next()[1])
            if self.at("("):
                self.next()
                ps = []
                while not self.at(")"):
                    ps.append(self.parse_pattern())
                    if not self.accept(","):
                        break
                self.expect(")")
                return ("pts", segs, ps)
            if len(segs) == 1 and (segs[0][0].islower() or segs[0][0] == "_"):
                return ("pid", segs[0])
            return ("ppath", segs)
        self.err("pattern outside the translated subset")

    # ---- expressions (precedence climbing)
    BIN = [("||",), ("&&",), ("==", "!=", "<", "<=", ">", ">="), ("+", "-"), ("*", "/", "%")]

    def parse_expr(self, no_struct=False, level=0):
        if level == len(self.BIN):
            return self.parse_cast(no_struct)
        lhs = self.parse_expr(no_struct, level + 1)
        while self.peek()[0] == "p" and self.peek()[1] in self.BIN[level]:
            if self.peek()[1] == "|" :
                break
            op = self.next()[1]
            rhs = self.parse_expr(no_struct, level + 1)
            lhs = ("bin", op, lhs, rhs)
        return lhs

    def parse_cast(self, no_struct):
        e = self.parse_unary(no_struct)
        while self.at("as"):
            self.next()
            e = ("cast", e, self.parse_type())
        return e

    def parse_unary(self, no_struct):
        if self.accept("!"):
            return ("unary", "!", self.parse_unary(no_struct))
        if self.accept("-"):
            return ("unary", "-", self.parse_unary(no_struct))
        if self.accept("*"):
            return ("deref", self.parse_unary(no_struct))
        if self.at(".."):
            self.next()
            return ("range_to", self.parse_expr(no_struct, 3))
        if self.accept("&"):
            self.accept("mut")
            return ("ref", self.parse_unary(no_struct))
        if self.at("&&"):
            self.next(); self.accept("mut")
            return ("ref", ("ref", self.parse_unary(no_struct)))
        return self.parse_postfix(no_struct)

    def parse_postfix(self, no_struct):
        e = self.parse_primary(no_struct)
        while True:
            if self.at("."):
                self.next()
                tk = self.next()
                if tk[0] == "num":
                    e = ("field", e, tk[1]); continue
                if tk[0] == "float":            # t.0.1 lexed as a float
                    a, b = tk[1].split(".")
                    e = ("field", ("field", e, a), b); continue
                if tk[0] != "id":
                    self.err("field or method name expected")
                if tk[1] == "await":
                    self.err("`.await` outside the translated subset")
                generics = None
                if self.at("::") and self.at("<", 1):
                    self.next(); self.next()
                    generics = []
                    while not self.at(">"):
                        generics.append(self.parse_type())
                        if not self.accept(","):
                            break
                    self.expect(">")
                if self.at("("):
                    args = self.parse_args()
                    e = ("mcall", e, tk[1], generics, args)
                else:
                    e = ("field", e, tk[1])
                continue
            if self.at("("):
                e = ("call", e, self.parse_args()); continue
            if self.at("["):
                self.next(); idx = self.parse_expr(); self.expect("]")
                e = ("index", e, idx); continue
            if self.at("?"):
                self.err("`?` outside the translated subset")
            return e

    def parse_args(self):
        self.expect("(")
        args = []
        while not self.at(")"):
            args.append(self.parse_expr())
            if not self.accept(","):
                break
        self.expect(")")
        return args

    def parse_primary(self, no_struct):
        tk = self.peek()
        if tk[0] == "num":
            self.next(); return ("num", re.sub(r"[_iu].*$|_", "", tk[1]) if re.search(r"[iu]", tk[1]) else tk[1].replace("_", ""))
        if tk[0] == "float":
            self.next(); return ("float", re.sub(r"f(32|64)$", "", tk[1]).replace("_", ""))
        if tk[0] == "str":
            self.next(); return ("str", tk[1])
        if tk[0] == "char":
            self.next(); return ("char", tk[1])
        if self.at("("):
            self.next()
            es = []
            trailing = False
            while not self.at(")"):
                es.append(self.parse_expr())
                trailing = False
                if not self.accept(","):
                    break
                trailing = True
            self.expect(")")
            if len(es) == 1 and not trailing:
                return ("paren", es[0])
            return ("tuple", es)
        if self.at("{"):
            return self.parse_block()
        if self.at("|") or self.at("||") or self.at("move"):
            self.accept("move")
            params = []
            if self.accept("||"):
                pass
            else:
                self.expect("|")
                while not self.at("|"):
                    params.append(self.parse_pattern1())
                    if self.accept(":"):
                        self.parse_type()
                    if not self.accept(","):
                        break
                self.expect("|")
            body = self.parse_expr()
            return ("closure", params, body)
        if self.at("if"):
            self.next()
            if self.at("let"):
                self.next()
                pat = self.parse_pattern()
                self.expect("=")
                scrut = self.parse_expr(no_struct=True)
                then = self.parse_block()
                els = None
                if self.accept("else"):
                    els = self.parse_expr() if self.at("if") else self.parse_block()
                return ("iflet", pat, scrut, then, els)
            cond = self.parse_expr(no_struct=True)
            then = self.parse_block()
            els = None
            if self.accept("else"):
                els = self.parse_expr() if self.at("if") else self.parse_block()
            return ("if", cond, then, els)
        if self.at("match"):
            self.next()
            scrut = self.parse_expr(no_struct=True)
            self.expect("{")
            arms = []
            while not self.at("}"):
                pat = self.parse_pattern()
                guard = None
                if self.accept("if"):
                    guard = self.parse_expr()
                self.expect("=>")
                body = self.parse_expr()
                arms.append((pat, guard, body))
                if not self.accept(","):
                    if not self.at("}") and body[0] != "block":
                        self.err("`,` expected between match arms")
            self.expect("}")
            return ("match", scrut, arms)
        if tk[0] == "id":
            segs = [self.next()[1]]
            generics = None
            while self.at("::"):
                self.next()
                if self.at("<"):
                    self.next()
                    generics = []
                    while not self.at(">"):
                        generics.append(self.parse_type())
                        if not self.accept(","):
                            break
                    self.expect(">")
                else:
                    segs.append(self.next()[1])
            if self.at("!") and not self.at("=", 1) and self.peek(1)[1] in ("(", "[", "{"):
                self.next()
                op = self.peek()[1]
                close = {"(": ")", "[": "]", "{": "}"}[op]
                start = self.i + 1
                self.skip_balanced(op, close)
                inner = self.t[start:self.i - 1]
                return ("macro", segs[-1], inner)
            if self.at("{") and not no_struct and segs[-1][0].isupper():
                self.next()
                fields = []
                while not self.at("}"):
                    fname = self.next()[1]
                    if self.accept(":"):
                        fields.append((fname, self.parse_expr()))
                    else:
                        fields.append((fname, ("path", [fname], None)))
                    if not self.accept(","):
                        break
                self.expect("}")
                return ("struct", segs, fields)
            return ("path", segs, generics)
        self.err("expression outside the translated subset")


def body_of(f):
    if f["body"] is None:
        f["body"] = desugar_with(Parser(f["body_toks"], f["fname"]).parse_block())
    return f["body"]


def parse_source(path):
    text = open(path).read()
    return Parser(tokenize(text), os.path.relpath(path, REPO)).parse_file()


# ------------------------------------------------------------------------------------------------ emitter
LEAN_KW = {"end", "at", "from", "have", "show", "then", "else", "fun", "do", "let", "match", "with", "where", "open", "in",
           "by", "if", "def", "theorem", "instance", "class", "structure", "inductive", "namespace", "section", "variable",
           "universe", "local", "prefix", "infix", "notation", "macro", "syntax", "deriving", "mutual", "private", "protected"}


def ident(n):
    return n + "'" if n in LEAN_KW else n


GUARD_METHODS = ("lock", "write", "read", "borrow", "borrow_mut")


def strip_guard(r):
    """`self.map.write()` / `self.order.lock()` used as a receiver or argument: the guarded field itself"""
    while True:
        if r[0] in ("paren", "deref", "ref"):
            r = r[1]
        elif r[0] == "mcall" and r[2] in GUARD_METHODS and not r[4]:
            r = r[1]
        else:
            return r


def is_self_field(r):
    return r[0] == "field" and r[1][0] == "path" and r[1][1] == ["self"]


class Emitter:
    """one instance per translated function.  `profile` supplies the meaning of receivers, paths and methods:
         profile.path(segs, generics)            -> lean text or None
         profile.method(recv_ast, name, generics, args_ast, em) -> lean text or None   (em = this emitter)
         profile.field(recv_ast, name, em)       -> lean text or None
         profile.mut_method(name)                -> (fn text, returns_value) for methods that mutate their receiver
         profile.cast(expr_text, type)           -> lean text
         profile.fallible                        -> unchecked `-` may fail: everything lives in the Option monad"""

    def __init__(self, profile, fname):
        self.p, self.fname = profile, fname
        self.tmp = 0
        self.alias_vars = set()

    def lock_alias(self, st):
        """`let [mut] g = self.<field>.lock() / .write() / .read();` -> (g, "self.<field>");
        `let [mut] g = v.borrow_mut();` where v is itself an alias (the `&RefCell` handed to a `with` closure) -> (g, "v")"""
        if st[0] == "let" and st[1][0] == "pid" and st[3][0] == "mcall" and st[3][2] in GUARD_METHODS and not st[3][4]:
            if st[3][2] == "read" and getattr(self.p, "readonly_read_guards", False):
                return None         # a shared guard: an ordinary (read-only) binding of the guarded value
            r = st[3][1]
            if is_self_field(r):
                return (st[1][1], "self." + r[2])
            if r[0] == "path" and len(r[1]) == 1 and r[1][0] in self.alias_vars:
                return (st[1][1], r[1][0])
        return None

    def has_alias(self, node):
        """does the expression contain a guard alias declaration (`let g = self.f.lock()`) in one of its blocks?"""
        found = []

        def walk(n):
            if isinstance(n, tuple):
                if n and n[0] == "let" and len(n) == 4 and self.lock_alias(n) is not None:
                    found.append(n)
                if n and n[0] == "closure":
                    return
                for x in n:
                    walk(x)
            elif isinstance(n, list):
                for x in n:
                    walk(x)
        walk(node)
        return bool(found)

    def has_effect_scrutinee(self, node):
        """is there an `if` / `if let` whose condition / scrutinee itself mutates something (`if let Some(x) = q.remove(i)`)?"""
        found = []

        def mutating(e):
            cur = e
            while cur[0] == "mcall":
                if self.p.mut_method(cur[2], cur[1]) is not None or self.p.self_call_mut(cur) is not None:
                    return True
                cur = cur[1]
            return False

        def walk(n):
            if isinstance(n, tuple):
                if n and n[0] == "iflet" and mutating(n[2]):
                    found.append(n)
                if n and n[0] == "if" and mutating(n[1]):
                    found.append(n)
                if n and n[0] == "closure":
                    return
                for x in n:
                    walk(x)
            elif isinstance(n, list):
                for x in n:
                    walk(x)
        walk(node)
        return bool(found)

    def alias_open(self, al, env):
        """register the alias, return the `let` that introduces it"""
        g, tgt = al
        self.alias_vars.add(g)
        self.p.kinds[g] = self.p.kinds.get(tgt)
        if g not in env:
            env.append(g)
        init = ("self." + ident(tgt[5:])) if tgt.startswith("self.") else ident(tgt)
        return self.let(ident(g), init)

    def alias_close(self, al):
        g, tgt = al
        if tgt.startswith("self."):
            return self.let("self", "{ self with " + ident(tgt[5:]) + " := " + ident(g) + " }")
        return self.let(ident(tgt), ident(g))

    def fresh(self, base="t"):
        self.tmp += 1
        return f"{base}_{self.tmp}"

    def fail(self, what, ast=None):
        raise Untranslatable(f"{self.fname}: {what}" + (f": {str(ast)[:160]}" if ast is not None else ""))

    # ---------------- patterns
    def pat(self, p):
        k = p[0]
        if k == "pwild":
            return "_"
        if k == "pid":
            return ident(p[1])
        if k == "ptuple":
            return "(" + ", ".join(self.pat(x) for x in p[1]) + ")"
        if k == "pts":
            name = p[1][-1]
            ctor = {"Some": "some", "Ok": ".ok", "Err": ".error"}.get(name)
            if ctor is None:
                ctor = self.p.ctor(p[1])
            if ctor is None:
                self.fail("pattern constructor", p)
            return "(" + ctor + " " + " ".join(self.pat(x) for x in p[2]) + ")"
        if k == "ppath":
            name = p[1][-1]
            if name == "None":
                return "none"
            c = self.p.ctor(p[1])
            if c is None:
                self.fail("pattern path", p)
            return c
        if k == "plit":
            if p[1] == "str":
                return '"' + p[2] + '"'
            return p[2]
        if k == "por":
            return " | ".join(self.pat(x) for x in p[1])
        self.fail("pattern", p)

    def pat_vars(self, p):
        k = p[0]
        if k == "pid":
            return [p[1]]
        if k in ("ptuple", "por"):
            return [v for x in p[1] for v in self.pat_vars(x)]
        if k == "pts":
            return [v for x in p[2] for v in self.pat_vars(x)]
        return []

    # ---------------- assigned-variable analysis
    def assigned(self, node, declared):
        """variables declared OUTSIDE `node` that `node` assigns (or mutates through a mutating method)"""
        out = []

        def add(v):
            if v not in out:
                out.append(v)

        def walk_block(b, local):
            local = set(local)
            for s in b[1]:
                if s[0] == "let":
                    if self.lock_alias(s) is not None:
                        g_, tgt_ = self.lock_alias(s)
                        if tgt_.startswith("self."):
                            add("self")
                        elif tgt_ not in local:
                            add(tgt_)
                        self.alias_vars.add(g_)
                        self.p.kinds[g_] = self.p.kinds.get(tgt_)
                    walk_expr(s[3], local)
                    for v in self.pat_vars(s[1]):
                        local.add(v)
                elif s[0] == "assign":
                    walk_expr(s[3], local)
                    tgt = s[1]
                    while tgt[0] in ("field", "deref", "paren"):
                        tgt = tgt[1]
                    if tgt[0] == "path" and len(tgt[1]) == 1 and isinstance(self.p.kinds.get(tgt[1][0]), tuple):
                        holder = self.p.kinds[tgt[1][0]][1]
                        add("self" if holder.startswith("self.") else holder)
                    elif tgt[0] == "path" and len(tgt[1]) == 1:
                        if tgt[1][0] not in local:
                            add(tgt[1][0])
                    else:
                        self.fail("assignment target", s[1])
                elif s[0] == "expr":
                    walk_expr(s[1], local)
                elif s[0] == "for":
                    walk_expr(s[2], local)
                    walk_block(s[3], local | set(self.pat_vars(s[1])))
                elif s[0] == "whilelet":
                    walk_expr(s[2], local)
                    walk_block(s[3], local | set(self.pat_vars(s[1])))
                elif s[0] == "loop":
                    walk_block(s[1], local)
                elif s[0] == "break":
                    if "stop__" not in local:
                        add("stop__")
                elif s[0] == "return":
                    walk_expr(s[1], local)     # placement is checked by the emitter (only `if c { return; }` at the top level)
            if b[2] is not None:
                walk_expr(b[2], local)

        def walk_expr(e, local):
            if e is None:
                return
            k = e[0]
            if k == "mcall" and self.p.self_call_mut(e) is not None:
                for nm in self.p.self_call_mut(e)[1]:
                    if nm not in local:
                        add(nm)
                for a in e[4]:
                    walk_expr(a, local)
            elif k == "mcall":
                if self.p.mut_method(e[2], e[1]) is not None:
                    r = strip_guard(e[1])
                    if r[0] == "path" and len(r[1]) == 1:
                        if r[1][0] not in local:
                            add(r[1][0])
                    elif is_self_field(r):
                        add("self")
                    else:
                        self.fail("receiver of a mutating method", e)
                walk_expr(e[1], local)
                for a in e[4]:
                    walk_expr(a, local)
            elif k == "block":
                walk_block(e, local)
            elif k == "withret":
                walk_block(e[1], local)
            elif k in ("if",):
                walk_expr(e[1], local); walk_block(e[2], local)
                if e[3] is not None:
                    walk_expr(e[3], local)
            elif k == "iflet":
                if e[2][0] == "mcall" and e[2][2] == "get_mut":
                    mv = strip_guard(e[2][1])
                    if mv[0] == "path" and len(mv[1]) == 1 and mv[1][0] not in local:
                        add(mv[1][0])
                walk_expr(e[2], local); walk_block(e[3], local | set(self.pat_vars(e[1])))
                if e[4] is not None:
                    walk_expr(e[4], local)
            elif k == "match":
                walk_expr(e[1], local)
                for (pt, g, b) in e[2]:
                    walk_expr(b, local | set(self.pat_vars(pt)))
            elif k == "closure":
                walk_expr(e[2], local | set(v for q in e[1] for v in self.pat_vars(q)))
            elif k in ("bin",):
                walk_expr(e[2], local); walk_expr(e[3], local)
            elif k in ("unary", "deref", "ref", "paren", "cast", "field"):
                walk_expr(e[1] if k not in ("unary",) else e[2], local)
            elif k == "call":
                if e[1][0] == "path" and e[1][1] == ["fastrand", "usize"] and getattr(self.p, "rs_mode", False) and "rs__" not in local:
                    add("rs__")
                if e[1][0] == "path" and self.p.fn_mut(e[1][1][-1]) is not None:
                    for i in self.p.fn_mut(e[1][1][-1]):
                        a = strip_guard(e[2][i])
                        if is_self_field(a):
                            add("self")
                        elif a[0] == "path" and len(a[1]) == 1 and a[1][0] not in local:
                            add(a[1][0])
                walk_expr(e[1], local)
                for a in e[2]:
                    walk_expr(a, local)
            elif k == "tuple":
                for a in e[1]:
                    walk_expr(a, local)
            elif k == "index":
                walk_expr(e[1], local); walk_expr(e[2], local)
            elif k == "struct":
                for (_, v) in e[2]:
                    walk_expr(v, local)

        if node[0] == "block":
            walk_block(node, set())
        else:
            walk_expr(node, set())
        return [v for v in out if v in declared]

    # ---------------- expressions
    def tup(self, vs):
        if len(vs) == 0:
            return "()"
        if len(vs) == 1:
            return ident(vs[0])
        return "(" + ", ".join(ident(v) for v in vs) + ")"

    def wrap(self, text):
        """a finished VALUE text -> a computation of this profile's monad"""
        return f"pure ({text})" if self.p.fallible else text

    def run(self, comp):
        """a computation text -> a value text usable inside the enclosing `do` (fallible) / the term itself (pure)"""
        return f"(← {comp})" if self.p.fallible else f"({comp})"

    def expr(self, e, env):
        """value text of expression `e`; `env` = names of mutable/outer variables in scope (for nested statements)"""
        k = e[0]
        if k == "num":
            return e[1]
        if k == "float":
            return self.p.float_lit(e[1])
        if k == "str":
            return '"' + e[1] + '"'
        if k == "paren":
            return "(" + self.expr(e[1], env) + ")"
        if k in ("ref", "deref"):
            return self.expr(e[1], env)
        if k == "path":
            r = self.p.path(e[1], e[2])
            if r is not None:
                return r
            if len(e[1]) == 1:
                if e[1][0] == "None":
                    return "none"
                return ident(e[1][0])
            self.fail("path", e)
        if k == "tuple":
            return "(" + ", ".join(self.expr(x, env) for x in e[1]) + ")"
        if k == "cast":
            return self.p.cast(self.expr(e[1], env), e[2])
        if k == "unary":
            if e[1] == "!":
                return "(!" + self.expr(e[2], env) + ")"
            self.fail("unary operator", e)
        if k == "bin":
            a, b = self.expr(e[2], env), self.expr(e[3], env)
            return self.p.binop(e[1], a, b, e, self)
        if k == "field":
            r = self.p.field(e[1], e[2], self, env)
            if r is not None:
                return r
            return "(" + self.expr(e[1], env) + ")." + ident(e[2])
        if k == "call":
            f = e[1]
            if f[0] == "path":
                name = f[1][-1]
                if name == "Some" and len(e[2]) == 1:
                    return "(some " + self.expr(e[2][0], env) + ")"
                if name in ("Ok", "Err") and len(e[2]) == 1:
                    return "(" + {"Ok": ".ok", "Err": ".error"}[name] + " " + self.expr(e[2][0], env) + ")"
                r = self.p.call(f[1], f[2], e[2], self, env)
                if r is not None:
                    return r
            self.fail("call", e)
        if k == "mcall":
            r = self.p.method(e[1], e[2], e[3], e[4], self, env)
            if r is not None:
                return r
            self.fail(f"method `{e[2]}`", e)
        if k == "closure":
            ps = " ".join(self.pat(q) for q in e[1]) or "_"
            body = e[2]
            if self.p.fallible:
                return f"(fun {ps} => (do {self.wrap(self.expr(body, env))}))"
            return f"(fun {ps} => {self.expr(body, env)})"
        if k == "macro":
            if e[1] == "matches":
                sub = Parser(list(e[2]) + [("eof", "", 0)], self.fname)
                scrut = sub.parse_expr()
                sub.expect(",")
                pat = sub.parse_pattern()
                return f"(match {self.expr(scrut, env)} with | {self.pat(pat)} => true | _ => false)"
            self.fail(f"macro `{e[1]}!`", None)
        if k == "if":
            if e[3] is None:
                self.fail("`if` without `else` used as a value", e)
            c = self.expr(e[1], env)
            t = self.block_value(e[2], env)
            f = self.block_value(e[3], env) if e[3][0] == "block" else self.wrap(self.expr(e[3], env))
            return self.run(f"if {c} then ({self.mk(t)}) else ({self.mk(f)})")
        if k == "iflet":
            if e[4] is None:
                self.fail("`if let` without `else` used as a value", e)
            s = self.expr(e[2], env)
            t = self.block_value(e[3], env)
            f = self.block_value(e[4], env) if e[4][0] == "block" else self.wrap(self.expr(e[4], env))
            return self.run(f"match {s} with | {self.pat(e[1])} => ({self.mk(t)}) | _ => ({self.mk(f)})")
        if k == "match":
            s = self.expr(e[1], env)
            arms = []
            for (pt, g, b) in e[2]:
                if g is not None:
                    self.fail("match guard", e)
                body = self.block_value(b, env) if b[0] == "block" else self.wrap(self.expr(b, env))
                arms.append(f"| {self.pat(pt)} => ({self.mk(body)})")
            return self.run(f"match {s} with " + " ".join(arms))
        if k == "block":
            return self.run(self.mk(self.block_value(e, env)))
        if k == "struct":
            r = self.p.struct(e[1], e[2], self, env)
            if r is not None:
                return r
            self.fail("struct literal", e)
        self.fail("expression", e)

    def mk(self, comp):
        return ("do " + comp) if self.p.fallible else comp

    # ---------------- statements: a block as a computation whose result is `result(env)` (default: its tail value)
    def block_value(self, b, env, result=None):
        """text of the computation (sequence of `let`s ending in a value) of block `b`.
        `result`: None -> the value is the block's tail expression; else a list of variable names -> the value is
        the tuple of their final values (the tail, if any, must be unit)"""
        lines = []
        env = list(env)
        aliases = []
        for s in b[1]:
            al = self.lock_alias(s)
            if al is not None:
                aliases.append(al)
                lines.append(self.alias_open(al, env))
                continue
            lines += self.stmt(s, env)
        wb = [self.alias_close(al) for al in reversed(aliases)]
        if aliases and result is None:
            if self.assigned(b, env):
                self.fail("a guard alias in a block that is used as a value and mutates through it", b)
            wb = []      # read-only guard
        if result is None:
            if b[2] is None:
                final = self.wrap("()")
            else:
                final = self.tail(b[2], env)
        else:
            if b[2] is not None:
                # a tail expression in statement position (e.g. the `if` ending a loop body)
                lines += self.stmt(("expr", b[2]), env)
            final = self.wrap(self.tup(result))
        sep = "\n" if self.p.fallible else "; "
        return sep.join(lines + wb + [final])

    def tail(self, e, env):
        return self.wrap(self.expr(e, env))

    def let(self, lhs, rhs):
        return f"let {lhs} := {rhs}"

    def stmt(self, s, env):
        k = s[0]
        if k == "let":
            for v in self.pat_vars(s[1]):
                if v not in env:
                    env.append(v)
            rhs = s[3]
            self.p.note_let(s[1], rhs)
            if getattr(self.p, "rs_mode", False) and rhs[0] == "call" and rhs[1][0] == "path" and rhs[1][1] == ["fastrand", "usize"] \
                    and len(rhs[2]) == 1 and rhs[2][0][0] == "range_to":
                self.p.uses_rand = True
                return [self.let("(r__, rs__)", "RustLite.nextRand rs__"),
                        self.let(self.pat(s[1]), f"(RustLite.randBelow r__ {self.expr(rhs[2][0][1], env)})")]
            # `let x = recv.mutating_method(args)...;`  hoist the mutation
            if rhs[0] == "withret":
                blk = rhs[1]
                ws = self.assigned(blk, [v for v in env if v not in self.pat_vars(s[1])])
                K = Cont(normal=lambda env2: self.fail("closure without a value", rhs),
                         ret=lambda v, env2: "(" + ", ".join([self.expr(v, env2)] + [ident(w) for w in ws]) + ")",
                         value=lambda ast, env2: "(" + ", ".join([self.expr(ast, env2)] + [ident(w) for w in ws]) + ")")
                text = seq(self, list(blk[1]), list(env), K, "; ", tail=blk[2])
                return [self.let("(" + ", ".join([self.pat(s[1])] + [ident(w) for w in ws]) + ")", "(" + text + ")")]
            if rhs[0] in ("if", "iflet", "match", "block") and (self.has_alias(rhs) or self.has_effect_scrutinee(rhs)):
                ws = self.assigned(rhs, [v for v in env if v not in self.pat_vars(s[1])])
                if ws:
                    K = Cont(normal=lambda env2: self.fail("branch without a value", rhs), ret=None, brk=None,
                             value=lambda ast, env2: "(" + ", ".join([self.expr(ast, env2)] + [ident(w) for w in ws]) + ")")
                    text = seq(self, [], list(env), K, "; ", tail=rhs)
                    return [self.let("(" + ", ".join([self.pat(s[1])] + [ident(w) for w in ws]) + ")", "(" + text + ")")]
            if rhs[0] in ("if", "iflet", "match", "block"):
                ws = self.assigned(rhs, [v for v in env if v not in self.pat_vars(s[1])])
                if ws:
                    # a VALUE-producing branch that also assigns outer variables: thread (value, variables) through it
                    return [self.let("(" + ", ".join([self.pat(s[1])] + [ident(w) for w in ws]) + ")",
                                     self.branch_stmt(rhs, env, ws, with_value=True))]
            hoisted = self.hoist(rhs, env)
            lt = self.p.let_type(s[2]) if s[2] is not None else None
            val = self.expr(hoisted[1], env)
            if lt is not None:
                val = f"({val} : {lt})"
            return hoisted[0] + [self.let(self.pat(s[1]), val)]
        if k == "assign":
            tgt = s[1]
            if s[2] != "=":
                op = s[2][0]
                s = ("assign", tgt, "=", ("bin", op, tgt, s[3]))
            base = tgt
            while base[0] in ("deref", "paren"):
                base = base[1]
            if base[0] == "field" and base[1][0] == "path" and len(base[1][1]) == 1 and \
                    isinstance(self.p.kinds.get(base[1][1][0]), tuple) and self.p.kinds[base[1][1][0]][0] == "entryref":
                x = base[1][1][0]
                _, holder, keytext = self.p.kinds[x]
                fld = getattr(self.p, "TUPLE_FIELDS", {}).get(base[2]) or getattr(self.p, "FIELDS", {}).get(base[2])
                if fld is None:
                    self.fail("assignment to this field of an entry", tgt)
                out = [self.let(ident(x), "{ " + ident(x) + " with " + fld + " := " + self.expr(s[3], env) + " }")]
                if holder.startswith("self."):
                    f_ = ident(holder[5:])
                    out.append(self.let("self", "{ self with " + f_ + " := RustLite.mapSet self." + f_ + " " + keytext + " " + ident(x) + " }"))
                else:
                    out.append(self.let(ident(holder), "RustLite.mapSet " + ident(holder) + " " + keytext + " " + ident(x)))
                return out
            if base[0] == "path" and len(base[1]) == 1:
                self.p.note_let(("pid", base[1][0]), s[3])
                return [self.let(ident(base[1][0]), self.expr(s[3], env))]
            if base[0] == "field" and base[1][0] == "path" and base[1][1] == ["self"]:
                fld = getattr(self.p, "FIELDS", {}).get(base[2], base[2])
                return [self.let("self", "{ self with " + ident(fld) + " := " + self.expr(s[3], env) + " }")]
            self.fail("assignment target", tgt)
        if k == "expr":
            e = s[1]
            if e[0] == "mcall" and self.p.mut_method(e[2], e[1]) is not None:
                h = self.hoist(e, env)
                return h[0]
            if e[0] == "call" and e[1][0] == "path" and self.p.fn_mut(e[1][1][-1]) is not None:
                return self.hoist(e, env)[0]
            if e[0] == "mcall" and self.p.self_call_mut(e) is not None:
                return self.hoist(e, env)[0]
            if e[0] == "call" and e[1][0] == "path" and e[1][1] == ["drop"]:
                return []          # dropping a guard / entry reference: mutations were written through already
            if e[0] == "withret":
                # a `with` closure in statement position whose body `return`s: the return ends the closure
                blk = e[1]
                ws = self.assigned(blk, env)
                if not ws:
                    return []
                K = Cont(normal=lambda env2: self.tup(ws), ret=lambda v, env2: self.tup(ws), value=None)
                items = list(blk[1]) + ([("expr", blk[2])] if blk[2] is not None else [])
                return [self.let(self.tup(ws), "(" + seq(self, items, list(env), K, "; ") + ")")]
            if e[0] == "iflet" and e[4] is None and e[2][0] == "mcall" and e[2][2] == "get_mut" and len(e[2][4]) == 1 \
                    and e[1][0] == "pts" and e[1][1] == ["Some"] and e[1][2][0][0] == "pid":
                # `if let Some(x) = map.get_mut(k) { …mutate x… }`: x is a reference INTO the map — write it back
                mv = strip_guard(e[2][1])
                if not (mv[0] == "path" and len(mv[1]) == 1):
                    self.fail("`get_mut` on anything but a map variable", e)
                m = ident(mv[1][0])
                x = e[1][2][0][1]
                kx = self.expr(e[2][4][0], env)
                self.p.kinds[x] = "entry"
                inner = self.block_value(e[3], env + [x], [x])
                return [self.let(m, f"(match (lookup {kx} {m}) with | (some {ident(x)}) => (RustLite.mapSet {m} {kx} ({inner})) | none => {m})")]
            if e[0] in ("if", "iflet", "match"):
                # a mutation inside the condition / scrutinee happens first
                pre = []
                if e[0] == "if":
                    h = self.hoist(e[1], env)
                    if h[0]:
                        pre, e = h[0], ("if", h[1], e[2], e[3])
                elif e[0] == "iflet":
                    h = self.hoist(e[2], env)
                    if h[0]:
                        pre, e = h[0], ("iflet", e[1], h[1], e[3], e[4])
                if pre:
                    return pre + self.stmt(("expr", e), env)
                ws = self.assigned(e, env)
                if not ws:
                    return []        # no effect on anything in scope: the statement is dead for the translated semantics
                return [self.let(self.tup(ws), self.branch_stmt(e, env, ws))]
            if e[0] == "block":
                ws = self.assigned(e, env)
                return [self.let(self.tup(ws), self.run(self.mk(self.block_value(e, env, ws))))] if ws else []
            self.fail("expression statement without effect in the translated subset", e)
        if k == "break":
            return [self.let("stop__", "true")]
        if k == "whilelet":
            # only: `while let PAT = V.pop_front() { … [if c { …; break; }] }`
            sc = s[2]
            if not (sc[0] == "mcall" and sc[2] == "pop_front" and sc[1][0] == "path" and len(sc[1][1]) == 1 and not sc[4]):
                self.fail("`while let` over anything but `deque.pop_front()`", s)
            v = sc[1][1][0]
            self.check_break_last(s[3])
            ws = [w for w in self.assigned(s[3], env + ["stop__"]) if w not in (v, "stop__")]
            if v in self.assigned(s[3], env):
                self.fail("the loop body mutates the deque it pops from", s)
            if not ws:
                self.fail("`while let` loop without effect on anything but the deque", s)
            if not (s[1][0] == "pts" and s[1][1] == ["Some"] and len(s[1][2]) == 1):
                self.fail("`while let` pattern other than `Some(x)`", s)
            elem = s[1][2][0]
            body = self.block_value(s[3], env + self.pat_vars(elem) + ["stop__"], ["stop__"] + ws)
            st = self.tup(ws)
            return [self.let("(" + ident(v) + ", " + st + ")",
                             f"RustLite.whilePop {ident(v)} {st} (fun {self.pat(elem)} {st} => (let stop__ := false; {body}))")]
        if k == "for":
            ws = self.assigned(s[3], env)
            if not ws:
                return []
            it = self.expr(s[2], env)
            body = self.block_value(s[3], env + self.pat_vars(s[1]), ws)
            if self.p.fallible:
                return [f"let {self.tup(ws)} ← List.foldlM (fun {self.tup(ws)} {self.pat(s[1])} => (do {body})) {self.tup(ws)} {it}"]
            return [self.let(self.tup(ws), f"List.foldl (fun {self.tup(ws)} {self.pat(s[1])} => ({body})) {self.tup(ws)} {it}")]
        self.fail("statement", s)

    def check_break_last(self, block):
        """`break` only as the last statement of a block that is itself last in the loop body"""
        def ok(b, last):
            for i, st in enumerate(b[1]):
                is_last = last and i == len(b[1]) - 1 and b[2] is None
                if st[0] == "break" and not is_last:
                    self.fail("`break` that is not the last thing the iteration does", b)
                if st[0] == "expr" and st[1][0] in ("if", "iflet"):
                    blk = st[1][2] if st[1][0] == "if" else st[1][3]
                    ok(blk, is_last)
                    els = st[1][3] if st[1][0] == "if" else st[1][4]
                    if els is not None and els[0] == "block":
                        ok(els, is_last)
        ok(block, True)

    def branch_stmt(self, e, env, ws, with_value=False):
        """an `if` / `if let` / `match` (or block) whose branches assign the outer variables `ws`.  In STATEMENT position
        its value is the tuple `ws` after the taken branch; with `with_value` it is (value of the branch, ws...)"""
        k = e[0]
        if with_value:
            same = None
        else:
            same = self.wrap(self.tup(ws))

        def br(b, extra=()):
            if b is None:
                if with_value:
                    self.fail("branch without a value", e)
                return same
            if b[0] == "block":
                if with_value:
                    return self.block_value_with(b, env + list(extra), ws)
                return self.block_value(b, env + list(extra), ws)
            if b[0] in ("if", "iflet", "match"):
                if with_value:
                    return self.wrap(self.branch_stmt(b, env + list(extra), ws, True))
                inner = self.assigned(b, env)
                return self.wrap(self.branch_stmt(b, env, ws)) if inner else same
            if with_value:
                return self.wrap("(" + ", ".join([self.expr(b, env + list(extra))] + [ident(w) for w in ws]) + ")")
            self.fail("branch", b)
        if k == "if":
            return self.run(f"if {self.expr(e[1], env)} then ({self.mk(br(e[2]))}) else ({self.mk(br(e[3]))})")
        if k == "iflet":
            return self.run(f"match {self.expr(e[2], env)} with | {self.pat(e[1])} => ({self.mk(br(e[3], self.pat_vars(e[1])))}) | _ => ({self.mk(br(e[4]))})")
        if k == "match":
            arms = []
            for (pt, g, b) in e[2]:
                if g is not None:
                    self.fail("match guard", e)
                if b[0] != "block" and not with_value:
                    b = ("block", [("expr", b)] if b[0] in ("mcall", "if", "iflet", "match") else [], None)
                arms.append(f"| {self.pat(pt)} => ({self.mk(br(b, self.pat_vars(pt)))})")
            return self.run(f"match {self.expr(e[1], env)} with " + " ".join(arms))
        if k == "block":
            return self.run(self.mk(br(e)))

    def block_value_with(self, b, env, ws):
        """block whose value is (tail value, ws...)"""
        lines = []
        env = list(env)
        for st in b[1]:
            lines += self.stmt(st, env)
        if b[2] is None:
            self.fail("block without a value", b)
        if b[2][0] in ("if", "iflet", "match") and self.assigned(b[2], env):
            final = self.wrap(self.branch_stmt(b[2], env, ws, True))
        else:
            final = self.wrap("(" + ", ".join([self.expr(b[2], env)] + [ident(w) for w in ws]) + ")")
        sep = "\n" if self.p.fallible else "; "
        return sep.join(lines + [final])

    def hoist(self, e, env):
        """`recv.m(args)` with m mutating, possibly followed by pure method calls (`.is_some()`): returns
        ([let-lines performing the mutation], expression AST to use for the value)"""
        chain = []
        cur = e
        while cur[0] == "mcall" and self.p.mut_method(cur[2], cur[1]) is None and self.p.self_call_mut(cur) is None:
            chain.append(cur); cur = cur[1]
        if cur[0] == "mcall" and self.p.self_call_mut(cur) is not None:
            fname, names = self.p.self_call_mut(cur)
            args = ["self"] + [self.expr(a, env) for a in cur[4]]
            if self.p.fn_returns(fname):
                t = self.fresh()
                lines = [self.let("(" + ", ".join([t] + [ident(n) for n in names]) + ")", self.p.fn_call(fname, args))]
                val = ("path", [t], None)
            else:
                lines = [self.let(self.tup(names), self.p.fn_call(fname, args))]
                val = ("tuple", [])
            for c in reversed(chain):
                val = ("mcall", val, c[2], c[3], c[4])
            return (lines, val)
        if cur[0] == "call" and cur[1][0] == "path" and self.p.fn_mut(cur[1][1][-1]) is not None:
            # call of another translated function with `&mut` parameters: its result carries their new values
            muts = self.p.fn_mut(cur[1][1][-1])          # indices of the &mut parameters
            args = [("" if (i in muts and is_self_field(strip_guard(a))) else self.expr(a, env)) for i, a in enumerate(cur[2])]
            t = self.fresh()
            names = []
            post = []
            for i in muts:
                a = strip_guard(cur[2][i])
                if is_self_field(a):
                    # `f(&mut self.order.lock(), …)`: the new value goes back into the field
                    tmp = self.fresh("cell")
                    names.append(tmp)
                    post.append(self.let("self", "{ self with " + ident(a[2]) + " := " + tmp + " }"))
                    args[i] = "self." + ident(a[2])
                    continue
                if a[0] != "path" or len(a[1]) != 1:
                    self.fail("argument passed by `&mut` must be a variable", cur)
                names.append(ident(a[1][0]))
            if self.p.fn_returns(cur[1][1][-1]):
                lines = [self.let("(" + ", ".join([t] + names) + ")", self.p.fn_call(cur[1][1][-1], args))] + post
                val = ("path", [t], None)
            else:
                lines = [self.let(self.tup(names), self.p.fn_call(cur[1][1][-1], args))] + post
                val = ("tuple", [])
            for c in reversed(chain):
                val = ("mcall", val, c[2], c[3], c[4])
            return (lines, val)
        if cur[0] != "mcall" or self.p.mut_method(cur[2], cur[1]) is None:
            return ([], e)
        fn, returns = self.p.mut_method(cur[2], cur[1])
        r = strip_guard(cur[1])
        if is_self_field(r):
            # self.<cell>.m(args): the cell is a field of the receiver record
            cell = ident(r[2])
            args = " ".join("(" + (self.p.tuple3_entry(a, self, env) if (fn == "RustLite.mapInsert" and a[0] == "tuple" and len(a[1]) == 3)
                                   else self.expr(a, env)) + ")" for a in cur[4])
            if returns:
                t = self.fresh()
                lines = [self.let(f"({t}, cell_new)", f"{fn} self.{cell} {args}".rstrip()), self.let("self", f"{{ self with {cell} := cell_new }}")]
                val = ("path", [t], None)
            else:
                lines = [self.let("self", f"{{ self with {cell} := {fn} self.{cell} {args}".rstrip() + " }")]
                val = ("tuple", [])
        elif r[0] == "path" and len(r[1]) == 1:
            v = ident(r[1][0])
            args = " ".join("(" + (self.p.tuple3_entry(a, self, env) if (fn == "RustLite.mapInsert" and a[0] == "tuple" and len(a[1]) == 3)
                                   else self.expr(a, env)) + ")" for a in cur[4])
            if returns:
                t = self.fresh()
                lines = [self.let(f"({t}, {v})", f"{fn} {v} {args}".rstrip())]
                val = ("path", [t], None)
            else:
                lines = [self.let(v, f"{fn} {v} {args}".rstrip())]
                val = ("tuple", [])
        else:
            self.fail("receiver of a mutating method", cur)
        for c in reversed(chain):
            val = ("mcall", val, c[2], c[3], c[4])
        return (lines, val)


# ------------------------------------------------------------------------------------------------ profiles
class BaseProfile:
    fallible = False

    def ctor(self, segs):
        return None

    def path(self, segs, generics):
        return None

    def call(self, segs, generics, args, em, env):
        return None

    def method(self, recv, name, generics, args, em, env):
        return None

    def field(self, recv, name, em, env):
        return None

    def struct(self, segs, fields, em, env):
        return None

    def mut_method(self, name, recv=None):
        return None

    def fn_mut(self, name):
        return None

    def self_call_mut(self, e):
        return None

    def tuple3_entry(self, e, em, env):
        raise Untranslatable("tuple entry")

    def note_let(self, pat, rhs):
        pass

    def let_type(self, ty):
        return None

    def cast(self, text, ty):
        raise Untranslatable(f"cast to {ty}")

    def float_lit(self, t):
        raise Untranslatable(f"float literal {t}")

    def binop(self, op, a, b, e, em):
        if op in ("+", "*"):
            return f"({a} {op} {b})"
        if op == "-":
            raise Untranslatable("subtraction needs a numeric profile")
        if op in ("==", "!=", "<", "<=", ">", ">="):
            return f"(decide ({a} {'≠' if op == '!=' else ('=' if op == '==' else ('≤' if op == '<=' else ('≥' if op == '>=' else op)))} {b}))"
        if op in ("&&", "||"):
            return f"({a} {op} {b})"
        raise Untranslatable(f"operator {op}")


def strip_ref(t):
    t = t.strip()
    while t.startswith("&"):
        t = t[1:].strip()
        if t.startswith("mut "):
            t = t[4:].strip()
    return t


# ---- memory estimator ---------------------------------------------------------------------------
class MemProfile(BaseProfile):
    """`impl MemoryEstimator for <target>`: `self` is observed through
         szSelf            size_of::<Self>()  (= size_of::<target>())
         szT               size_of::<T>() of the element type (Vec)
         len / cap         self.len() / self.capacity()
         elems             the elements (iter()), each a `Sub` (its estimate_memory() and size_of_val)
         inner             the pointee of Box / Arc / Rc, or the `value` field of CacheEntry (a `Sub`)
         opt / res         Option<Sub> / Except Sub Sub view of an Option / Result
         f0 f1 f2          tuple fields (each a `Sub`)"""
    fallible = True

    def __init__(self, target):
        self.target = target
        self.used = []

    def use(self, name):
        if name not in self.used:
            self.used.append(name)
        return name

    def is_self_type(self, t):
        t = t.replace(" ", "")
        tgt = self.target.replace(" ", "")
        return t in ("Self", tgt)

    @staticmethod
    def self_depth(e):
        """`self` under parens / references / dereferences: number of `*` (None if the base is not `self`)"""
        n = 0
        while e[0] in ("paren", "ref", "deref"):
            if e[0] == "deref":
                n += 1
            e = e[1]
        if e[0] == "path" and e[1] == ["self"]:
            return n
        return None

    def sub_of(self, e, em, env):
        """the `Sub` observation denoted by expression e (a sub-value of self or a bound variable)"""
        d = self.self_depth(e)
        if d is not None:
            if d == 2:
                return self.use("inner")       # (**self) of Box / Arc / Rc: the pointee
            em.fail("`self` used as a sub-value of itself", e)
        while e[0] in ("paren", "ref", "deref"):
            e = e[1]
        if e[0] == "path" and len(e[1]) == 1:
            return ident(e[1][0])              # a variable bound by a closure / pattern: a Sub
        if e[0] == "field" and e[1][0] == "path" and e[1][1] == ["self"]:
            if e[2].isdigit():
                return self.use("f" + e[2])
            if e[2] == "value":
                return self.use("inner")
        em.fail("sub-value", e)

    def call(self, segs, generics, args, em, env):
        name = segs[-1]
        if name == "size_of" and generics and len(generics) == 1 and not args:
            g = generics[0]
            if self.is_self_type(g):
                return self.use("szSelf")
            if g.strip() == "T":
                return self.use("szT")
            em.fail(f"size_of::<{g}>()")
        if name == "size_of_val" and len(args) == 1:
            d = self.self_depth(args[0])
            if d is not None and d < 2:
                return self.use("szSelf")
            return self.sub_of(args[0], em, env) + ".szv"
        return None

    def method(self, recv, name, generics, args, em, env):
        r = recv
        while r[0] in ("paren", "ref", "deref"):
            r = r[1]
        is_self = r[0] == "path" and r[1] == ["self"]
        if name == "estimate_memory" and not args:
            return self.sub_of(recv, em, env) + ".est"
        if name == "len" and is_self and not args:
            return self.use("len")
        if name == "capacity" and is_self and not args:
            return self.use("cap")
        if name == "iter" and is_self and not args:
            return self.use("elems")
        if name == "as_ref" and is_self and not args:
            return self.use("opt")
        if name == "saturating_sub" and len(args) == 1:
            return f"(RustLite.ssub {em.expr(recv, env)} {em.expr(args[0], env)})"
        if name == "map" and len(args) == 1:
            return f"(← RustLite.mapM {em.expr(args[0], env)} {em.expr(recv, env)})"
        if name == "sum" and not args:
            return f"(RustLite.sum {em.expr(recv, env)})"
        if name == "map_or" and len(args) == 2:
            return f"(← RustLite.mapOrM {em.expr(recv, env)} {em.expr(args[0], env)} {em.expr(args[1], env)})"
        return None

    def path(self, segs, generics):
        if segs == ["self"]:
            return self.use("res")       # `match self { Ok(..) => .., Err(..) => .. }`
        return None

    def binop(self, op, a, b, e, em):
        if op == "-":
            return f"(← RustLite.usub {a} {b})"
        return super().binop(op, a, b, e, em)


MEM_PARAM_TYPES = {"szSelf": "Nat", "szT": "Nat", "len": "Nat", "cap": "Nat", "elems": "List RustLite.Sub", "inner": "RustLite.Sub",
                   "opt": "Option RustLite.Sub", "res": "Except RustLite.Sub RustLite.Sub", "f0": "RustLite.Sub", "f1": "RustLite.Sub",
                   "f2": "RustLite.Sub", "f3": "RustLite.Sub"}
MEM_PARAM_ORDER = ["szSelf", "szT", "len", "cap", "elems", "inner", "opt", "res", "f0", "f1", "f2", "f3"]


def mem_name(target):
    t = target.replace(" ", "")
    table = [(r"^&str$", "StrRef"), (r"^&\[T\]$", "SliceRef"), (r"^(std::sync::)?Arc<T>$", "Arc"), (r"^(std::rc::)?Rc<T>$", "Rc"),
             (r"^String$", "String"), (r"^Vec<T>$", "Vec"), (r"^Option<T>$", "Option"), (r"^Result<T,E>$", "Result"),
             (r"^\(T1,T2\)$", "Tuple2"), (r"^\(T1,T2,T3\)$", "Tuple3"), (r"^Box<T>$", "Box"), (r"^CacheEntry<R>$", "CacheEntry"),
             (r"^Self$", "Default")]
    for rx, n in table:
        if re.match(rx, t):
            return n
    return None


def translate_mem():
    """returns (lean text, info)"""
    out = []
    info = {"impls": [], "default_impls": []}
    files = [os.path.join(REPO, "cachelito-core/src/memory_estimator.rs"), os.path.join(REPO, "cachelito-core/src/cache_entry.rs")]
    seen = set()
    for path in files:
        rel = os.path.relpath(path, REPO)
        toks = tokenize(open(path).read())
        fns = Parser(toks, rel).parse_file()
        # impls with an EMPTY body use the default method: record them (which types count as `prim`)
        for m in re.finditer(r"impl\s+MemoryEstimator\s+for\s+([^\{]+?)\s*\{\s*\}", re.sub(r"//[^\n]*", "", strip_tests(open(path).read()))):
            info["default_impls"].append(m.group(1).strip())
        for (hdr, f) in fns:
            if f["name"] != "estimate_memory" or hdr is None or hdr[0] != "MemoryEstimator":
                continue
            target = hdr[1]
            name = mem_name(target)
            if name is None:
                raise Untranslatable(f"{rel}:{f['line']}: impl MemoryEstimator for `{target}`: a type the model has no shape for")
            if name in seen:
                raise Untranslatable(f"{rel}: two impls for {name}")
            seen.add(name)
            prof = MemProfile(target)
            em = Emitter(prof, f"{rel}:{f['line']} ({name})")
            body = em.block_value(body_of(f), [])
            params = [p for p in MEM_PARAM_ORDER if p in prof.used]
            sig = " ".join(f"({p} : {MEM_PARAM_TYPES[p]})" for p in params)
            out.append(f"/-- `{rel}:{f['line']}`  impl MemoryEstimator for `{target}` -/\ndef est{name} {sig} : Option Nat := do\n"
                       + "\n".join("  " + l for l in body.split("\n")) + "\n")
            info["impls"].append({"name": name, "target": target, "params": params, "line": f["line"], "file": rel})
    need = {"Default", "StrRef", "SliceRef", "Arc", "Rc", "String", "Vec", "Option", "Result", "Tuple2", "Tuple3", "Box", "CacheEntry"}
    missing = sorted(need - seen)
    if missing:
        raise Untranslatable("MemoryEstimator impls the model has shapes for are missing from the source: " + ", ".join(missing))
    info["default_impls"] = sorted(set(info["default_impls"]))
    return "\n".join(out), info


def strip_tests(text):
    i = text.find("#[cfg(test)]")
    return text if i < 0 else text[:i]


# ---- utils / cache_entry / stats / eviction_policy -------------------------------------------------
class PureProfile(BaseProfile):
    """VecDeque<String> = List K, HashMap<K, CacheEntry<V>> = Store K V (Basic.lean), iterators = lists,
    f64 = any type `F` with a `RustLite.F64` structure `A` (the translated code never looks inside a float)"""
    fallible = False

    def __init__(self, kinds, fns):
        self.kinds = dict(kinds)      # variable name -> "deque" | "map" | "iter" | "f64" | "atomic" | ...
        self.fns = fns                # translated functions of the same file: name -> {"mut_idx": [...], "implicit": [...]}
        self.uses_float = False
        self.uses_clock = False
        self.uses_rand = False
        self.uses_fuel = False
        self.uses_size = False
        self.rs_mode = False

    FIELDS = {"frequency": "hits", "inserted_at": "birth", "value": "val"}

    def kind_of(self, e):
        e = strip_guard(e)
        if e[0] == "path" and len(e[1]) == 1:
            return self.kinds.get(e[1][0])
        if is_self_field(e):
            return self.kinds.get("self." + e[2])
        return None

    def mut_method(self, name, recv=None):
        kind = self.kind_of(recv) if recv is not None else None
        if name == "remove":
            if recv is None:
                return ("?", True)
            if kind == "deque":
                return ("RustLite.dequeRemove", True)
            if kind == "map":
                return ("RustLite.mapRemove", True)
            raise Untranslatable(f"`remove` on a receiver of unknown kind: {recv}")
        if name in ("record_hit", "record_miss") and (recv is None or kind == "stats"):
            return ("Stats." + name, False)
        if name == "increment_frequency" and (kind == "entry" or (recv is None and "increment_frequency" not in self.fns)):
            return ("Entry.increment_frequency", False)
        if name == "push_back":
            return ("RustLite.pushBack", False)
        if name == "retain":
            return ("RustLite.retain", False)
        if name == "pop_back" and (recv is None or kind == "deque"):
            return ("RustLite.popBack", True)
        if name == "pop_front" and (recv is None or kind == "deque"):
            return ("RustLite.popFront", True)
        if name == "clear" and (recv is None or kind in ("map", "deque")):
            return ("RustLite.clearAll", False)
        if name == "insert" and (recv is None or kind == "map"):
            return ("RustLite.mapInsert", False)
        if name == "fetch_add":
            return ("RustLite.fetchAdd", True)
        if name == "store" and (recv is None or kind == "atomic"):
            return ("RustLite.atomicStore", False)
        return None

    def fn_mut(self, name):
        f = self.fns.get(name)
        return f["mut_idx"] if f and f["mut_idx"] else None

    def self_call_mut(self, e):
        """`self.f(args)` where f is a translated sibling that mutates `self` and/or `&mut` arguments:
        (function name, names of the caller's variables that receive the new values, in result order)"""
        r = e[1]
        while r[0] in ("paren", "ref", "deref"):
            r = r[1]
        if not (r[0] == "path" and r[1] == ["self"]):
            return None
        f = self.fns.get(e[2])
        if not f or not f["mut_idx"]:
            return None
        names = []
        for i in f["mut_idx"]:
            if i == 0:
                names.append("self")
            else:
                a = e[4][i - 1]
                while a[0] in ("paren", "ref", "deref"):
                    a = a[1]
                if a[0] != "path" or len(a[1]) != 1:
                    raise Untranslatable(f"argument passed by `&mut` must be a variable: {e}")
                names.append(a[1][0])
        return (e[2], names)

    def fn_returns(self, name):
        return self.fns[name]["ret"] is not None

    def fn_call(self, name, args):
        f = self.fns[name]
        self.uses_float = self.uses_float or "A" in f["implicit"]
        self.uses_clock = self.uses_clock or "clock" in f["implicit"]
        self.uses_rand = self.uses_rand or "r" in f["implicit"]
        self.uses_size = self.uses_size or "size" in f["implicit"]
        imp = [("(RustLite.headRand rs__)" if (x == "r" and self.rs_mode) else x) for x in f["implicit"]]
        return " ".join([f.get("lean_name", name)] + imp + ["(" + a + ")" for a in args])

    def let_type(self, ty):
        try:
            return lean_type(ty, "")[0]
        except Untranslatable:
            return None

    def note_let(self, pat, rhs):
        if pat[0] == "pid":
            if self.is_float(rhs):
                self.kinds[pat[1]] = "f64"
            elif rhs[0] == "mcall" and rhs[2] == "collect":
                self.kinds[pat[1]] = "iter"

    def path(self, segs, generics):
        if segs == ["u64", "MAX"]:
            return "RustLite.u64Max"
        if segs == ["usize", "MAX"]:
            return "RustLite.usizeMax"
        if segs == ["f64", "MAX"]:
            self.uses_float = True
            return "A.maxVal"
        if segs[0] == "EvictionPolicy" and len(segs) == 2:
            return "Policy." + segs[1].lower()
        if segs[0] == "Ordering" and len(segs) == 2:
            return "()"
        if segs[-1] == "UNIX_EPOCH":
            return "()"
        return None

    def ctor(self, segs):
        if segs[0] == "EvictionPolicy" and len(segs) == 2:
            return "Policy." + segs[1].lower()
        return None

    def float_lit(self, t):
        self.uses_float = True
        if t in ("1.0", "0.0"):
            return "A.one" if t == "1.0" else "A.zero"
        raise Untranslatable(f"float literal {t}")

    def cast(self, text, ty):
        if ty == "f64":
            self.uses_float = True
            return f"(A.ofNat {text})"
        raise Untranslatable(f"cast to {ty}")

    def is_float(self, e):
        """syntactic float-ness of an expression"""
        k = e[0]
        if k == "float":
            return True
        if k == "cast":
            return e[2] == "f64"
        if k in ("paren", "ref", "deref"):
            return self.is_float(e[1])
        if k == "path":
            return (len(e[1]) == 1 and self.kinds.get(e[1][0]) == "f64") or e[1] == ["f64", "MAX"]
        if k == "bin":
            return self.is_float(e[2]) or self.is_float(e[3])
        if k == "mcall":
            return e[2] in ("as_secs_f64", "powf") or (e[2] in ("min", "max") and self.is_float(e[1]))
        if k in ("if", "iflet"):
            b = e[2] if k == "if" else e[3]
            return b[2] is not None and self.is_float(b[2])
        if k == "match":
            return any(self.is_float(b) for (_, _, b) in e[2])
        if k == "block":
            return e[2] is not None and self.is_float(e[2])
        return False

    def binop(self, op, a, b, e, em):
        if self.is_float(e[2]) or self.is_float(e[3]):
            f = {"+": "add", "-": "sub", "*": "mul", "/": "div", "<": "lt", "<=": "le", ">": "gt", ">=": "ge"}.get(op)
            if f is None:
                raise Untranslatable(f"float operator {op}")
            self.uses_float = True
            return f"(A.{f} {a} {b})"
        if op == "-":
            return f"({a} - {b})"          # usize: truncating; the translated sites are `len - idx` with idx < len
        if op == "/":
            return f"({a} / {b})"
        return super().binop(op, a, b, e, em)

    TUPLE_FIELDS = {"0": "val", "2": "hits"}

    def field(self, recv, name, em, env):
        if name in self.FIELDS:
            return "(Entry." + self.FIELDS[name] + " " + em.expr(recv, env) + ")"
        if name in self.TUPLE_FIELDS:          # the async entry is the tuple (value, unix seconds of the store, frequency)
            return "(Entry." + self.TUPLE_FIELDS[name] + " " + em.expr(recv, env) + ")"
        if name == "1":
            return "(RustLite.tsSecs " + em.expr(recv, env) + ")"
        return None

    def struct(self, segs, fields, em, env):
        return None

    def tuple3_entry(self, e, em, env):
        """(value, timestamp, frequency): the entry tuple of the async cache"""
        return f"(RustLite.asyncEntry {em.expr(e[1][0], env)} {em.expr(e[1][1], env)} {em.expr(e[1][2], env)})"

    def call(self, segs, generics, args, em, env):
        name = segs[-1]
        if len(segs) == 1 and self.kinds.get(name) == "keypred" and len(args) == 1:
            return f"({ident(name)} {em.expr(args[0], env)})"       # the registry's `&dyn Fn(&str) -> bool`
        if name in self.fns and not self.fns[name]["mut_idx"]:
            return "(" + self.fn_call(name, [em.expr(a, env) for a in args]) + ")"
        if segs[-2:] == ["CacheEntry", "new"] and len(args) == 1:
            self.uses_clock = True
            return f"(RustLite.newEntry clock {em.expr(args[0], env)})"
        if segs[-2:] == ["SystemTime", "now"] and not args:
            self.uses_clock = True
            return "clock.now"
        if segs == ["fastrand", "usize"] and len(args) == 1 and args[0][0] == "range_to":
            self.uses_rand = True
            if self.rs_mode:
                raise Untranslatable("`fastrand` call that was not hoisted")
            return f"(RustLite.randBelow r {em.expr(args[0][1], env)})"
        return None

    def method(self, recv, name, generics, args, em, env):
        kind = self.kind_of(recv)
        r0 = recv
        while r0[0] in ("paren", "ref", "deref"):
            r0 = r0[1]
        if r0[0] == "path" and r0[1] == ["self"] and name in self.fns and not self.fns[name]["mut_idx"]:
            return "(" + self.fn_call(name, ["self"] + [em.expr(a, env) for a in args]) + ")"
        R = lambda: em.expr(recv, env)
        A_ = lambda i: em.expr(args[i], env)
        if name in ("filter", "map", "collect", "cloned") and not getattr(self, "keyed_iter", False) and uses_key_method((recv, args)):
            # an iterator chain over a DashMap whose closures read `entry.key()`: the items are the (key, entry) pairs
            self.keyed_iter = True
            try:
                return self.method(recv, name, generics, args, em, env)
            finally:
                self.keyed_iter = False
        if name == "iter" and not args and kind == "map":
            if getattr(self, "keyed_iter", False):
                return R()
            return f"(RustLite.values {R()})"          # DashMap::iter(): the entries (the translated code reads their values only)
        if name == "key" and not args and getattr(self, "keyed_iter", False):
            return f"(Prod.fst {R()})"                  # `entry.key()` of a DashMap iterator item
        if name == "keys" and not args and kind == "map":
            return f"(keys {R()})"
        if name == "filter" and len(args) == 1:
            return f"(List.filter {A_(0)} {R()})"
        if name == "value" and not args:
            return R()                                  # `entry.value()` of a DashMap iterator item
        if name in ("iter", "clone", "to_string", "to_owned", "into_iter", "as_str", "collect", "copied", "cloned") and not args:
            return R()
        if name in GUARD_METHODS and not args:
            return R()          # a guard on a field / cell: the guarded value itself
        if name == "values" and not args and kind == "map":
            return f"(RustLite.values {R()})"
        if name == "map" and len(args) == 1:
            r_ = recv
            while r_[0] in ("paren", "ref", "deref"):
                r_ = r_[1]
            if r_[0] == "mcall" and r_[2] in ("get", "get_mut", "as_ref", "cloned"):
                return f"(Option.map {A_(0)} {R()})"
            return f"(List.map {A_(0)} {R()})"
        if name == "unwrap_or" and len(args) == 1:
            return f"(Option.getD {R()} {A_(0)})"
        if name == "sum" and not args:
            return f"(RustLite.sum {R()})"
        if name == "estimate_memory" and not args:
            self.uses_size = True
            return f"(size {R()})"
        if name == "enumerate" and not args:
            return f"(RustLite.enumerate {R()})"
        if name == "position" and len(args) == 1:
            return f"(RustLite.position {A_(0)} {R()})"
        if name == "len" and not args:
            return f"(List.length {R()})"
        if name == "is_empty" and not args:
            return f"(List.isEmpty {R()})"
        if name in ("get", "get_mut") and len(args) == 1 and kind == "map":
            return f"(lookup {A_(0)} {R()})"
        if name == "contains_key" and len(args) == 1 and kind == "map":
            return f"(hasKey {A_(0)} {R()})"
        if name == "is_some" and not args:
            return f"(Option.isSome {R()})"
        if name == "is_none" and not args:
            return f"(Option.isNone {R()})"
        if name == "min" and len(args) == 1 and self.is_float(recv):
            return f"(A.min {R()} {A_(0)})"
        if name == "max" and len(args) == 1 and self.is_float(recv):
            return f"(A.max {R()} {A_(0)})"
        if name in ("duration_since", "unwrap") :
            return R()
        if name == "is_expired" and len(args) == 1:
            self.uses_clock = True
            return f"(Entry.is_expired clock {R()} {A_(0)})"
        if name == "saturating_sub" and len(args) == 1:
            return f"(RustLite.ssub {R()} {A_(0)})"
        if name == "powf" and len(args) == 1:
            self.uses_float = True
            return f"(A.powf {R()} {A_(0)})"
        if name == "saturating_add" and len(args) == 1:
            return f"(RustLite.saturatingAddU64 {R()} {A_(0)})"
        if name == "to_lowercase" and not args:
            return f"(RustLite.toLowercase {R()})"
        if name == "elapsed" and not args:
            self.uses_clock = True
            return f"(clock.elapsed {R()})"
        if name == "as_secs" and not args:
            return f"(RustLite.asSecs {R()})"
        if name == "as_secs_f64" and not args:
            self.uses_float = True
            return f"(A.ofDuration {R()})"
        if name == "load" and len(args) == 1:
            return f"(RustLite.atomicLoad {R()})"
        return None


# ------------------------------------------------------------------------------------------------ the invalidation registry
# `invalidation.rs`: six `RwLock<HashMap<…>>` tables.  A callback is represented by the identifier it was registered with;
# INVOKING a callback is an effect the shallow embedding records in a log `invoked__` (for the conditional callbacks together
# with the predicate handed to it), which every function that may invoke returns next to its own result.

REG_INVOKERS = ("invalidate_caches", "invalidate_cache", "invalidate_with", "invalidate_all_with",
                "invalidate_by_tag", "invalidate_by_event", "invalidate_by_dependency")


def rewrite_registry_fn(name, body):
    """`callback()` -> `invoked__.push_back(callback)`, `callback(ARG)` -> `invoked__.push_back((callback, ARG))`;
    `tbl.entry(k).or_insert_with(HashSet::new).insert(v)` -> `tbl.table_add(k, v)`; the function's value `E` -> `(E, invoked__)`
    for the functions that run callbacks themselves"""
    def rw(n):
        if isinstance(n, list):
            return [rw(x) for x in n]
        if not isinstance(n, tuple):
            return n
        if n and n[0] == "call" and n[1][0] == "path" and n[1][1] == ["callback"]:
            args = [rw(a) for a in n[2]]
            item = ("path", ["callback"], None) if not args else ("tuple", [("path", ["callback"], None)] + args)
            return ("mcall", ("path", ["invoked__"], None), "push_back", None, [item])
        if n and n[0] == "mcall" and n[2] == "insert" and n[1][0] == "mcall" and n[1][2] == "or_insert_with" \
                and n[1][1][0] == "mcall" and n[1][1][2] == "entry":
            return ("mcall", rw(n[1][1][1]), "table_add", None, [rw(n[1][1][4][0]), rw(n[4][0])])
        return tuple(rw(x) for x in n)
    body = rw(body)
    if name in ("invalidate_caches", "invalidate_cache", "invalidate_with", "invalidate_all_with"):
        if body[2] is None:
            raise Untranslatable(f"invalidation.rs: `{name}` no longer ends in a value")
        init = ("let", ("pid", "invoked__"), None, ("call", ("path", ["Vec", "new"], None), []))
        res = ("let", ("pid", "result__"), None, body[2])
        body = ("block", [init] + list(body[1]) + [res], ("tuple", [("path", ["result__"], None), ("path", ["invoked__"], None)]))
    return body


class RegistryProfile(PureProfile):
    readonly_read_guards = True

    def kind_of(self, e):
        k = super().kind_of(e)
        if k is None:
            e0 = strip_guard(e)
            if e0 == ("path", ["callbacks"], None):
                return "kv"         # `let callbacks = self.<callback table>.read();`
            if e0[0] == "field" and e0[1][0] == "path" and e0[1][1] == ["metadata"]:
                return "iter"
        return k

    def mut_method(self, name, recv=None):
        kind = self.kind_of(recv) if recv is not None else None
        if name == "table_add":
            return ("Registry.Table.add", False)
        if name == "insert" and kind == "kv":
            return ("Registry.setKey", False)
        if name == "clear" and kind in ("table", "kv"):
            return ("RustLite.clearAll", False)
        if name == "push_back" and recv is not None and strip_guard(recv) == ("path", ["invoked__"], None):
            return ("RustLite.pushBack", False)
        return None

    def call(self, segs, generics, args, em, env):
        if segs == ["Vec", "new"] and not args:
            return "[]"
        if segs == ["Arc", "new"] and len(args) == 1:
            return em.expr(args[0], env)
        if len(segs) == 1 and self.kinds.get(segs[0]) == "keypred2" and len(args) == 2:
            return f"({ident(segs[0])} {em.expr(args[0], env)} {em.expr(args[1], env)})"
        return super().call(segs, generics, args, em, env)

    def method(self, recv, name, generics, args, em, env):
        kind = self.kind_of(recv)
        R = lambda: em.expr(recv, env)
        r0 = recv
        while r0[0] in ("paren", "ref", "deref"):
            r0 = r0[1]
        if r0[0] == "path" and r0[1] == ["self"] and name in self.fns:
            return super().method(recv, name, generics, args, em, env)
        # `tbl.get(k).cloned().unwrap_or_default()` / `tbl.get(k).map(|set| set.iter().cloned().collect()).unwrap_or_default()`
        if name == "unwrap_or_default" and not args:
            r = r0
            if r[0] == "mcall" and r[2] == "cloned" and not r[4]:
                r = r[1]
            elif r[0] == "mcall" and r[2] == "map" and len(r[4]) == 1 and is_collect_closure(r[4][0]):
                r = r[1]
            else:
                raise Untranslatable(f"`unwrap_or_default` on {str(r)[:120]}")
            if r[0] == "mcall" and r[2] == "get" and len(r[4]) == 1 and self.kind_of(r[1]) == "table":
                return f"(Registry.Table.get {em.expr(r[1], env)} {em.expr(r[4][0], env)})"
            raise Untranslatable(f"`unwrap_or_default` on {str(r)[:120]}")
        if name == "get" and len(args) == 1 and kind == "kv":
            return f"(Registry.getKey {R()} {em.expr(args[0], env)})"
        if name == "iter" and not args and kind == "kv":
            return R()
        if name in ("clone", "to_string", "to_owned", "iter", "into_iter") and not args:
            return R()
        if name in GUARD_METHODS and not args:
            return R()
        return None


def is_collect_closure(c):
    """`|set| set.iter().cloned().collect()`"""
    if c[0] != "closure" or len(c[1]) != 1 or c[1][0][0] != "pid":
        return False
    b = c[2]
    if b[0] == "block" and not b[1] and b[2] is not None:
        b = b[2]
    v = c[1][0][1]
    return b == ("mcall", ("mcall", ("mcall", ("path", [v], None), "iter", None, []), "cloned", None, []), "collect", None, [])


MODULE_PROFILE = {}
MODULE_REWRITE = {}


def uses_key_method(node):
    if isinstance(node, (list, tuple)):
        if isinstance(node, tuple) and len(node) >= 3 and node[0] == "mcall" and node[2] == "key":
            return True
        return any(uses_key_method(x) for x in node)
    return False


def regenerate():
    """writes Generated/PureMem.lean (and, when translate_utils exists, PureUtils.lean); returns info / problems"""
    problems = []
    info = {}
    os.makedirs(GEN_DIR, exist_ok=True)
    hdr = ("/- GENERATED by checklib/rust2lean.py from /repo's CURRENT source on every check — do not edit.\n"
           "   Shallow translation of pure helper code; `Props/T01.lean` proves these definitions equal to the hand-written model. -/\n"
           "import Cachelito.RustLite\n\nset_option linter.unusedVariables false\n\nnamespace Cachelito.Generated\nopen Cachelito\n\n")
    try:
        text, minfo = translate_mem()
        info["mem"] = minfo
    except Exception as e:
        problems.append(str(e) if isinstance(e, Untranslatable) else f"memory_estimator.rs: translator error {e!r}")
        text = "-- translation failed: " + str(e).replace("\n", " ") + "\n"
    write_if_changed(os.path.join(GEN_DIR, "PureMem.lean"), hdr + "namespace Mem\n\n" + text + "\nend Mem\nend Cachelito.Generated\n")
    problems += collect_callbacks()
    for (mod, rel, _, _, _) in UTIL_FILES:
        try:
            text, uinfo, probs = translate_utils_resilient(mod)
            info[mod.lower()] = uinfo
            problems += probs
        except Exception as e:      # nothing of this file could be read: no translation, the obligations are broken
            problems.append(f"{rel}: " + (str(e) if isinstance(e, Untranslatable) else f"translator error {e!r}"))
            text = "-- translation failed: " + str(e).replace("\n", " ") + "\n"
        h2 = hdr.replace("import Cachelito.RustLite\n", "import Cachelito.RustLite\nimport Cachelito.Generated.PureUtils\nimport Cachelito.Generated.PureEntry\nimport Cachelito.Generated.PureStats\n") if mod in ("Global", "Async", "Thread") else hdr
        if mod == "StatsRegistry":
            write_if_changed(os.path.join(GEN_DIR, "PureStatsRegistry.lean"), hdr.replace("import Cachelito.RustLite\n", "import Cachelito.RustLite\nimport Cachelito.StatsReg\n") + "namespace StatsRegistry\n\n" + text + "\nend StatsRegistry\nend Cachelito.Generated\n")
            continue
        if mod == "Registry":
            write_if_changed(os.path.join(GEN_DIR, "PureRegistry.lean"), hdr.replace("import Cachelito.RustLite\n", "import Cachelito.RustLite\nimport Cachelito.RegistrySt\n") + "namespace Registry\nopen Cachelito.RustLite (RegistrySt)\n\n" + text + "\nend Registry\nend Cachelito.Generated\n")
            continue
        write_if_changed(os.path.join(GEN_DIR, f"Pure{mod}.lean"), h2 + f"namespace {mod}\nvariable {{K V F E T : Type}} [DecidableEq K]\n\n" + text + f"\nend {mod}\nend Cachelito.Generated\n")
    # the macros' generated wrapper (after the engines: it calls their translated functions)
    try:
        text, winfo = translate_wrapper()
        info["wrapper"] = winfo
    except Exception as e:
        problems.append("cachelito-macros/src/lib.rs: " + (str(e) if isinstance(e, Untranslatable) else f"translator error {e!r}"))
        text = "-- translation failed: " + str(e).replace("\n", " ") + "\n"
    hw = hdr.replace("import Cachelito.RustLite\n", "import Cachelito.RustLite\nimport Cachelito.Generated.PureGlobal\nimport Cachelito.Generated.PureThread\n")
    write_if_changed(os.path.join(GEN_DIR, "PureWrap.lean"), hw + "namespace Wrap\nvariable {K V F E T : Type} [DecidableEq K]\n\n" + text + "\nend Wrap\nend Cachelito.Generated\n")
    try:
        text, winfo = translate_async_wrapper()
        info["async_wrapper"] = winfo
    except Exception as e:
        problems.append("cachelito-async-macros/src/lib.rs: " + (str(e) if isinstance(e, Untranslatable) else f"translator error {e!r}"))
        text = "-- translation failed: " + str(e).replace("\n", " ") + "\n"
    ha = hdr.replace("import Cachelito.RustLite\n", "import Cachelito.RustLite\nimport Cachelito.Generated.PureAsync\n")
    write_if_changed(os.path.join(GEN_DIR, "PureWrapAsync.lean"), ha + "namespace WrapAsync\nvariable {K V F E T : Type} [DecidableEq K]\n\n" + text + "\nend WrapAsync\nend Cachelito.Generated\n")
    try:
        text, kinfo = translate_key_exprs()
        info["key_exprs"] = kinfo
    except Exception as e:
        problems.append("cachelito-macro-utils/src/lib.rs: " + (str(e) if isinstance(e, Untranslatable) else f"translator error {e!r}"))
        text = "-- translation failed: " + str(e).replace("\n", " ") + "\n"
    hk = hdr.replace("import Cachelito.RustLite\n", "import Cachelito.RustLite\nimport Cachelito.Keys\n")
    write_if_changed(os.path.join(GEN_DIR, "PureKeys.lean"), hk + "namespace KeyExpr\n\n" + text + "\nend KeyExpr\nend Cachelito.Generated\n")
    info["problems"] = problems
    return info


def write_if_changed(path, text):
    old = open(path).read() if os.path.exists(path) else None
    if old != text:
        open(path, "w").write(text)


def lean_type(rust, pname, reg_fn=None):
    t = rust.replace(" ", "")
    base = strip_ref(rust).replace(" ", "")
    if reg_fn is not None:
        # invalidation.rs: names, tags, events are Strings; a callback is the identifier the registering party gave it
        if base == "CellRef":
            return "StatsReg.Cell", "cell"
        if base == "InvalidationMetadata":
            return "Registry.Meta", "meta"
        if base == "F" and pname == "callback":
            return "Nat", "cbid"
        if base == "F" and pname == "predicate":
            return ("String → String → Bool", "keypred2") if reg_fn == "invalidate_all_with" else ("String → Bool", "keypred")
        if base == "HashSet<String>":
            return "List String", "iter"
        if base in ("str", "String"):
            return "String", "key"
    if "HashMap<" in t:
        return "Store K V", "map"
    if "VecDeque<" in t:
        return "List K", "deque"
    if base in ("str", "String", "K"):
        return ("String", "str") if pname in ("s", "p") else ("K", "key")
    if base == "I":
        return "List (Nat × K)", "iter"
    if base == "Option<u64>":
        return "Option Nat", "optnat"
    if base == "Option<f64>":
        return "Option F", "optf64"
    if base in ("u64", "usize"):
        return "Nat", "nat"
    if base == "bool":
        return "Bool", "bool"
    if base == "Option<String>" or base == "Option<K>":
        return "Option K", "optkey"
    if base == "(bool,bool)":
        return "Bool × Bool", "tuple"
    if base == "f64":
        return "F", "f64"
    if base == "R":
        return "V", "val"
    if base == "Option<R>":
        return "Option V", "optval"
    if base == "Result<T,E>":
        return "Except E T", "result"
    if base == "Self":
        return None, "self"
    if base == "KeyPredicate":
        return "K → Bool", "keypred"
    raise Untranslatable(f"parameter / return type `{rust}`")


UTIL_FILES = [
    # (generated module, file, self type in Lean, kinds of self's fields, wanted functions)
    ("Utils", "cachelito-core/src/utils.rs", None, {}, ["move_key_to_end", "find_min_frequency_key", "remove_from_maps",
                                               "remove_key_from_global_cache", "remove_key_from_cache_local",
                                               "find_arc_eviction_key", "find_tlru_eviction_key"]),
    ("Entry", "cachelito-core/src/cache_entry.rs", "Entry V", {}, ["is_expired", "increment_frequency"]),
    ("Stats", "cachelito-core/src/stats.rs", "RustLite.StatsCell", {"self.hits": "atomic", "self.misses": "atomic"},
     ["record_hit", "record_miss", "hits", "misses", "total_accesses", "hit_rate", "miss_rate", "reset"]),
    ("Policy", "cachelito-core/src/eviction_policy.rs", None, {}, ["is_valid", "from"]),
    ("Global", "cachelito-core/src/global_cache.rs", "RustLite.GlobalCache K V F",
     {"self.map": "map", "self.order": "deque", "self.frequency_weight": "optf64", "self.stats": "stats"},
     ["handle_entry_limit_eviction", "insert", "increment_frequency", "get", "clear", "insert_result", "insert_with_memory",
      "insert_result_with_memory"]),
    ("Thread", "cachelito-core/src/thread_local_cache.rs", "RustLite.ThreadCache K V F",
     {"self.cache": "map", "self.order": "deque", "self.frequency_weight": "optf64", "self.stats": "stats"},
     ["move_to_end", "increment_frequency", "remove_key", "remove_key_with_order", "handle_entry_limit_eviction", "insert", "get", "insert_result", "insert_with_memory", "insert_result_with_memory"]),
    ("Registry", "cachelito-core/src/invalidation.rs", "RustLite.RegistrySt",
     {"self.tag_to_caches": "table", "self.event_to_caches": "table", "self.dependency_to_caches": "table",
      "self.cache_metadata": "kv", "self.clear_callbacks": "kv", "self.invalidation_check_callbacks": "kv"},
     ["register", "register_callback", "register_invalidation_callback", "invalidate_caches", "invalidate_by_tag",
      "invalidate_by_event", "invalidate_by_dependency", "invalidate_cache", "get_caches_by_tag", "get_caches_by_event",
      "get_dependent_caches", "invalidate_with", "invalidate_all_with", "clear"]),
    ("StatsRegistry", "cachelito-core/src/stats_registry.rs", "StatsReg.Reg",
     {"self.table": "kv", "self.cells": "heap"}, []),
    ("Async", "cachelito-core/src/async_global_cache.rs", "RustLite.AsyncCache K V F",
     {"self.cache": "map", "self.order": "deque", "self.frequency_weight": "optf64", "self.stats": "stats"},
     ["find_min_frequency_key", "find_arc_eviction_key", "find_tlru_eviction_key", "is_already_key_inserted",
      "handle_entry_limit_eviction", "insert", "get", "insert_with_memory"]),
]


# ------------------------------------------------------------------------------------------------ the macros' registered callbacks
# The closures `#[cache]` / `#[cache_async]` register with the invalidation registry (clear callback, conditional-invalidation
# callback) live in `quote!` templates.  Their bodies are cut out of the CURRENT macro source at token level, the
# interpolations `#cache_ident` / `#order_ident` become the engine's fields (`self.map` / `self.cache`, `self.order`), the
# `#verif_*` hook interpolations disappear, and the result is translated as one more method of the engine
# (`macro_clear_callback`, `macro_cond_callback` in Generated/PureGlobal.lean and PureAsync.lean).

EXTRA_FNS = {}


def production_tokens(rel):
    text = open(os.path.join(REPO, rel)).read()
    cut = text.find("#[cfg(test)]")
    if cut >= 0:
        text = text[:cut]
    return tokenize(text)[:-1]


def closure_after(toks, fname, callee, rel):
    """(parameter names, body tokens) of the `move |…| { … }` closure passed to the only call of `callee` in `toks`"""
    sites = [i for i in range(len(toks) - 1) if toks[i][0] == "id" and toks[i][1] == callee and toks[i + 1][1] == "("]
    if len(sites) != 1:
        raise Untranslatable(f"{rel}: expected exactly one call of `{callee}` in the macro, found {len(sites)}")
    i = sites[0]
    while i < len(toks) and not (toks[i][0] == "id" and toks[i][1] == "move"):
        if toks[i][1] in ("{", ";"):
            raise Untranslatable(f"{rel}: `{callee}` is no longer given a `move` closure")
        i += 1
    i += 1
    params = []
    if toks[i][1] == "||":
        i += 1
    elif toks[i][1] == "|":
        i += 1
        depth = 0
        cur = []
        while not (toks[i][1] == "|" and depth == 0):
            if toks[i][1] in ("(", "<", "["):
                depth += 1
            if toks[i][1] in (")", ">", "]"):
                depth -= 1
            cur.append(toks[i]); i += 1
        i += 1
        if cur:
            params.append(cur[0][1])
            if any(t[1] == "," for t in cur):
                raise Untranslatable(f"{rel}: the `{callee}` closure takes more than one parameter")
    else:
        raise Untranslatable(f"{rel}: `{callee}`: closure syntax")
    if toks[i][1] != "{":
        raise Untranslatable(f"{rel}: `{callee}`: the closure body is not a block")
    depth, j = 0, i
    while True:
        if toks[j][1] == "{":
            depth += 1
        if toks[j][1] == "}":
            depth -= 1
            if depth == 0:
                break
        j += 1
    return params, toks[i + 1:j]


def callback_fn(rel, callee, fname, map_field):
    toks = production_tokens(rel)
    params, body = closure_after(toks, fname, callee, rel)
    out = []
    i = 0
    while i < len(body):
        t = body[i]
        if t[1] == "#" and i + 1 < len(body) and body[i + 1][0] == "id":
            name = body[i + 1][1]
            if name.startswith("verif_"):
                pass
            elif name == "cache_ident":
                out += [("id", "self", t[2]), ("p", ".", t[2]), ("id", map_field, t[2])]
            elif name == "order_ident":
                out += [("id", "self", t[2]), ("p", ".", t[2]), ("id", "order", t[2])]
            else:
                raise Untranslatable(f"{rel}: `{callee}` closure interpolates `#{name}`")
            i += 2
            continue
        out.append(t)
        i += 1
    ln = body[0][2] if body else 0
    T = lambda k, v: (k, v, ln)
    head = [T("id", "fn"), T("id", fname), T("p", "("), T("p", "&"), T("id", "self")]
    for pn in params:
        head += [T("p", ","), T("id", pn), T("p", ":"), T("id", "KeyPredicate")]      # `&dyn Fn(&str) -> bool`
    head += [T("p", ")"), T("p", "{")]
    fns = Parser(head + out + [T("p", "}"), ("eof", "", ln)], rel + f" ({callee} closure)").parse_file()
    if len(fns) != 1:
        raise Untranslatable(f"{rel}: `{callee}` closure did not parse as one function")
    return fns[0]


STATS_REGISTRY_FNS = ["register", "get", "get_ref", "list", "clear", "reset"]


def stats_registry_fns():
    """the six free functions of stats_registry.rs as methods of the registry state: `STATS_REGISTRY` -> `self.table`,
    `&'static Lazy<CacheStats>` -> a cell reference"""
    rel = "cachelito-core/src/stats_registry.rs"
    toks = production_tokens(rel)
    # the static must be the table of references the model assumes
    txt = " ".join(t[1] for t in toks)
    if "static STATS_REGISTRY : Lazy < RwLock < HashMap < String , & 'static Lazy < CacheStats > > > >" not in txt:
        raise Untranslatable(f"{rel}: `STATS_REGISTRY` is no longer `Lazy<RwLock<HashMap<String, &'static Lazy<CacheStats>>>>`")
    out = []
    i = 0
    n_fn = 0
    while i < len(toks):
        t = toks[i]
        if t[0] == "id" and t[1] == "fn" and toks[i + 2][1] == "(":
            out += [t, toks[i + 1], toks[i + 2], ("p", "&", t[2]), ("id", "self", t[2])]
            if toks[i + 3][1] != ")":
                out.append(("p", ",", t[2]))
            i += 3
            n_fn += 1
            continue
        if t[1] == "&" and [x[1] for x in toks[i + 1:i + 6]] == ["'static", "Lazy", "<", "CacheStats", ">"]:
            out.append(("id", "CellRef", t[2])); i += 6; continue
        if t[1] == "&" and [x[1] for x in toks[i + 1:i + 3]] == ["'static", "CacheStats"]:
            out.append(("id", "CellRef", t[2])); i += 3; continue
        if t[0] == "id" and t[1] == "STATS_REGISTRY":
            out += [("id", "self", t[2]), ("p", ".", t[2]), ("id", "table", t[2])]; i += 1; continue
        out.append(t)
        i += 1
    # drop the static item itself: everything before the first `pub fn`
    first = next(k for k in range(len(out)) if out[k][1] == "pub" and out[k + 1][1] == "fn")
    fns = Parser(out[first:] + [("eof", "", 0)], rel).parse_file()
    return [(h, f) for (h, f) in fns if f["name"] in STATS_REGISTRY_FNS]


def rewrite_stats_registry_fn(name, body):
    """`stats.reset()` on a cell reference -> `self.cells.cell_reset(stats)`; `(**stats).clone()` -> `self.cells.cell_read(stats)`"""
    def strip(n):
        d = 0
        while isinstance(n, tuple) and n and n[0] in ("paren", "deref", "ref"):
            if n[0] == "deref":
                d += 1
            n = n[1]
        return n, d

    def rw(n):
        if isinstance(n, list):
            return [rw(x) for x in n]
        if not isinstance(n, tuple):
            return n
        if n and n[0] == "mcall" and n[2] == "reset" and not n[4] and n[1] == ("path", ["stats"], None):
            return ("mcall", ("field", ("path", ["self"], None), "cells"), "cell_reset", None, [n[1]])
        if n and n[0] == "mcall" and n[2] == "clone" and not n[4]:
            base, d = strip(n[1])
            if base == ("path", ["stats"], None) and d >= 1:
                return ("mcall", ("field", ("path", ["self"], None), "cells"), "cell_read", None, [base])
        return tuple(rw(x) for x in n)
    body = rw(body)
    # a value-producing branch with effects as the function's value: bind it first, so that the mutation it performs is threaded
    if body[2] is not None and body[2][0] in ("if", "iflet", "match"):
        body = ("block", list(body[1]) + [("let", ("pid", "result__"), None, body[2])], ("path", ["result__"], None))
    return body


class StatsRegistryProfile(RegistryProfile):
    def kind_of(self, e):
        k = super().kind_of(e)
        if k is None and strip_guard(e) == ("path", ["registry"], None):
            return "kv"             # `let registry = STATS_REGISTRY.read();`
        return k

    def mut_method(self, name, recv=None):
        if name == "cell_reset":
            return ("StatsReg.heapReset", False)
        return super().mut_method(name, recv)

    def method(self, recv, name, generics, args, em, env):
        kind = self.kind_of(recv)
        if name == "cell_read" and len(args) == 1:
            return f"({em.expr(recv, env)} {em.expr(args[0], env)})"
        if name == "keys" and not args and kind == "kv":
            return f"(List.map Prod.fst {em.expr(recv, env)})"
        if name == "map" and len(args) == 1:
            return f"(Option.map {em.expr(args[0], env)} {em.expr(recv, env)})"
        if name in ("cloned", "collect") and not args:
            return em.expr(recv, env)
        return super().method(recv, name, generics, args, em, env)


def check_registry_free_fns():
    """the public free functions of invalidation.rs must forward to the method of the same name of the global registry with
    their parameters in order (they are what users and the macros call; the methods are what T20 is about)"""
    rel = "cachelito-core/src/invalidation.rs"
    problems = []
    try:
        fns = [(h, f) for (h, f) in parse_source(os.path.join(REPO, rel)) if h is None]
    except Exception as e:
        return [f"{rel}: " + (str(e) if isinstance(e, Untranslatable) else f"translator error {e!r}")]
    byname = {f["name"]: f for (_, f) in fns}
    for name in ("invalidate_by_tag", "invalidate_by_event", "invalidate_by_dependency", "invalidate_cache", "invalidate_with", "invalidate_all_with"):
        f = byname.get(name)
        if f is None:
            problems.append(f"{rel}: the public function `{name}` is missing"); continue
        try:
            b = body_of(f)
            e = b[2]
            ok = (not b[1]) and e is not None and e[0] == "mcall" and e[2] == name and e[1][0] == "call" and \
                e[1][1][0] == "path" and e[1][1][1][-2:] == ["InvalidationRegistry", "global"] and not e[1][2]
            if ok:
                args = []
                for a in e[4]:
                    while a[0] in ("ref", "paren", "deref"):
                        a = a[1]
                    args.append(a[1][0] if a[0] == "path" and len(a[1]) == 1 else None)
                ok = args == [pn for (pn, _) in f["params"]]
            if not ok:
                problems.append(f"{rel}: the public function `{name}` no longer just forwards to `InvalidationRegistry::global().{name}(…)`")
        except Exception as e2:
            problems.append(f"{rel}: `{name}`: " + (str(e2) if isinstance(e2, Untranslatable) else f"translator error {e2!r}"))
    return problems


def collect_callbacks():
    """fills EXTRA_FNS; returns problems"""
    EXTRA_FNS.clear()
    problems = []
    for (module, rel, map_field) in (("Global", "cachelito-macros/src/lib.rs", "map"), ("Async", "cachelito-async-macros/src/lib.rs", "cache")):
        for (callee, fname) in (("register_callback", "macro_clear_callback"), ("register_invalidation_callback", "macro_cond_callback")):
            try:
                EXTRA_FNS.setdefault(module, []).append(callback_fn(rel, callee, fname, map_field))
            except Exception as e:
                problems.append(f"{module}.{fname}: " + (str(e) if isinstance(e, Untranslatable) else f"translator error {e!r}"))
    problems += check_registry_free_fns()
    try:
        EXTRA_FNS["StatsRegistry"] = stats_registry_fns()
        missing = [n for n in STATS_REGISTRY_FNS if n not in [f["name"] for (_, f) in EXTRA_FNS["StatsRegistry"]]]
        if missing:
            problems.append("StatsRegistry: function(s) missing from stats_registry.rs: " + ", ".join(missing))
    except Exception as e:
        problems.append("StatsRegistry: " + (str(e) if isinstance(e, Untranslatable) else f"translator error {e!r}"))
    return problems


def desugar_with(node):
    """`self.<cell>.with(|v| BODY)` (thread_local! cells) -> the block `{ let v = self.<cell>.lock(); BODY }`: inside the
    closure `v` stands for the cell (its `borrow()` / `borrow_mut()` are guards on it).  A closure body that `return`s is
    left alone (reported as outside the subset)."""
    if isinstance(node, list):
        return [desugar_with(x) for x in node]
    if not isinstance(node, tuple):
        return node
    if node and node[0] == "mcall" and node[2] == "with" and len(node[4]) == 1 and node[4][0][0] == "closure" \
            and len(node[4][0][1]) == 1 and node[4][0][1][0][0] == "pid":
        recv = node[1]
        clo = node[4][0]
        v = clo[1][0][1]
        body = desugar_with(clo[2])
        rets = []

        def find_ret(n):
            if isinstance(n, tuple):
                if n and n[0] == "return":
                    rets.append(n)
                if n and n[0] == "closure":
                    return
                for x in n:
                    find_ret(x)
            elif isinstance(n, list):
                for x in n:
                    find_ret(x)
        find_ret(body)
        if is_self_field(recv) or (recv[0] == "path" and len(recv[1]) == 1):
            first = ("let", ("pid", v), None, ("mcall", recv, "lock", None, []))
            blk = ("block", [first] + list(body[1]), body[2]) if body[0] == "block" else ("block", [first], body)
            # a closure that `return`s: the return leaves the CLOSURE — kept apart so that it is not read as a function return
            return ("withret", blk) if rets else blk
    return tuple(desugar_with(x) for x in node)


class Cont:
    """where a statement sequence goes when it ends normally / returns / breaks: functions env -> Lean text"""
    def __init__(self, normal, ret=None, brk=None, value=None):
        self.normal, self.ret, self.brk, self.value = normal, ret, brk, value


def has_exit(node):
    """does the statement / block / expression contain a `return`, or a `break` that is not inside a loop of its own?"""
    def st_exit(st):
        k = st[0]
        if k == "return" or k == "break":
            return True
        if k == "expr":
            return ex_exit(st[1])
        if k in ("for", "whilelet", "loop"):
            return blk_ret(st[-1])
        return False

    def blk_ret(b):
        """only `return`s escape a loop"""
        def sr(st):
            if st[0] == "return":
                return True
            if st[0] == "expr":
                return er(st[1])
            if st[0] in ("for", "whilelet", "loop"):
                return blk_ret(st[-1])
            return False

        def er(e):
            if e is None:
                return False
            if e[0] == "block":
                return blk_ret(e)
            if e[0] == "if":
                return blk_ret(e[2]) or er(e[3])
            if e[0] == "iflet":
                return blk_ret(e[3]) or er(e[4])
            if e[0] == "match":
                return any(er(b) for (_, _, b) in e[2])
            return False
        return any(sr(st) for st in b[1]) or er(b[2])

    def blk_exit(b):
        return any(st_exit(st) for st in b[1]) or ex_exit(b[2])

    def ex_exit(e):
        if e is None:
            return False
        if e[0] == "block":
            return blk_exit(e)
        if e[0] == "if":
            return blk_exit(e[2]) or ex_exit(e[3])
        if e[0] == "iflet":
            return blk_exit(e[3]) or ex_exit(e[4])
        if e[0] == "match":
            return any(ex_exit(b) for (_, _, b) in e[2])
        return False
    if node[0] in ("let", "assign", "expr", "for", "whilelet", "loop", "return", "break"):
        return st_exit(node)
    return ex_exit(node)


def seq(em, stmts, env, K, sep="; ", tail=None):
    """a statement sequence in continuation style: straight-line statements become `let`s; a statement that contains an
    exit (`return`, `break`) becomes an `if` / `match` whose branches each run to THEIR end — the rest of the sequence is
    inlined into the branches that fall through.  Guards taken in this sequence (`let g = self.f.lock()`) are aliases
    of the field, written back wherever the sequence is left."""
    aliases = []

    def wb():
        return [em.alias_close(al) for al in reversed(aliases)]

    def join(parts, nested=False):
        return ("; " if nested else sep).join(p for p in parts if p)

    Kin = Cont(normal=lambda env2: join(wb() + [K.normal(env2)], True),
               ret=(lambda v, env2: join(wb() + [K.ret(v, env2)], True)) if K.ret else None,
               brk=(lambda env2: join(wb() + [K.brk(env2)], True)) if K.brk else None,
               value=(lambda ast, env2: join(wb() + [K.value(ast, env2)], True)) if K.value else None)

    def finish(env, lines, nested):
        """the sequence has run through its statements: its tail expression (if any) is its value"""
        if tail is None:
            return join(lines + [Kin.normal(env)], nested)
        if Kin.value is None:
            em.fail("a block with a value where none is expected", tail)
        if tail[0] in ("if", "iflet", "match", "block") and (has_exit(tail) or em.assigned(tail, env)):
            Kt = Cont(normal=lambda env2: em.fail("a branch without a value"), ret=Kin.ret, brk=Kin.brk, value=Kin.value)

            def tb(b, extra=()):
                if b is None:
                    em.fail("a branch without a value", tail)
                if b[0] == "block":
                    return seq(em, list(b[1]), env + list(extra), Kt, "; ", tail=b[2])
                return seq(em, [], env + list(extra), Kt, "; ", tail=b)
            if tail[0] == "if":
                h = em.hoist(tail[1], env)
                text = f"if {em.expr(h[1], env)} then ({tb(tail[2])}) else ({tb(tail[3])})"
                return join(lines + h[0] + ["(" + text + ")"], nested)
            if tail[0] == "iflet":
                h = em.hoist(tail[2], env)
                text = f"match {em.expr(h[1], env)} with | {em.pat(tail[1])} => ({tb(tail[3], em.pat_vars(tail[1]))}) | _ => ({tb(tail[4])})"
                return join(lines + h[0] + ["(" + text + ")"], nested)
            if tail[0] == "match":
                arms = [f"| {em.pat(pt)} => ({tb(b, em.pat_vars(pt))})" for (pt, g, b) in tail[2]]
                return join(lines + ["(" + f"match {em.expr(tail[1], env)} with " + " ".join(arms) + ")"], nested)
            return join(lines + ["(" + tb(tail) + ")"], nested)
        return join(lines + [Kin.value(tail, env)], nested)

    def go(i, env, nested=False):
        lines = []
        env = list(env)
        while i < len(stmts):
            st = stmts[i]
            al = em.lock_alias(st)
            if al is not None:
                aliases.append(al)
                lines.append(em.alias_open(al, env))
                i += 1
                continue
            if st[0] == "return":
                if Kin.ret is None:
                    em.fail("`return` inside a loop body")
                return join(lines + [Kin.ret(st[1], env)], nested)
            if st[0] == "break":
                if Kin.brk is None:
                    em.fail("`break` outside a loop")
                return join(lines + [Kin.brk(env)], nested)
            if st[0] == "loop":
                lines += loop_stmt(st, env)
                i += 1
                continue
            if st[0] == "whilelet" and any(x[0] == "break" or has_exit(x) for x in st[3][1]):
                lines += whilelet_stmt(st, env)
                i += 1
                continue
            if not has_exit(st):
                lines += em.stmt(st, env)
                i += 1
                continue
            # a branching statement with an exit somewhere inside: inline the rest into the branches
            n_al = len(aliases)
            rest_i = i + 1

            def Kbranch():
                return Cont(normal=lambda env2: go(rest_i, env2, True),
                            ret=Kin_ret_raw, brk=Kin_brk_raw)
            # inside a branch the OUTER aliases are still alive: returns must write them back too -> use Kin (which does)
            Kin_ret_raw = (lambda v, env2: join(wb() + [K.ret(v, env2)], True)) if K.ret else None
            Kin_brk_raw = (lambda env2: join(wb() + [K.brk(env2)], True)) if K.brk else None
            e = st[1] if st[0] == "expr" else None
            if e is None:
                em.fail("exit inside a statement of this form", st)

            def branch(b, extra=()):
                if b is None:
                    return go(rest_i, env, True)
                if b[0] == "block":
                    items = list(b[1]) + ([("expr", b[2])] if b[2] is not None else [])
                    return seq(em, items, env + list(extra), Kbranch(), "; ")
                return seq(em, [("expr", b)], env + list(extra), Kbranch(), "; ")
            if e[0] == "if":
                h = em.hoist(e[1], env)
                lines += h[0]
                text = f"if {em.expr(h[1], env)} then ({branch(e[2])}) else ({branch(e[3])})"
            elif e[0] == "iflet":
                if e[2][0] == "mcall" and e[2][2] == "get_mut" and len(e[2][4]) == 1 and e[1][0] == "pts" and \
                        e[1][1] == ["Some"] and e[1][2][0][0] == "pid":
                    tgt = strip_guard(e[2][1])
                    holder = ("self." + tgt[2]) if is_self_field(tgt) else (tgt[1][0] if tgt[0] == "path" else None)
                    if holder is None:
                        em.fail("`get_mut` on anything but a map", e)
                    em.p.kinds[e[1][2][0][1]] = ("entryref", holder, em.expr(e[2][4][0], env))
                h = em.hoist(e[2], env)
                lines += h[0]
                text = f"match {em.expr(h[1], env)} with | {em.pat(e[1])} => ({branch(e[3], em.pat_vars(e[1]))}) | _ => ({branch(e[4])})"
            elif e[0] == "match":
                arms = []
                for (pt, g, b) in e[2]:
                    if g is not None:
                        em.fail("match guard", e)
                    arms.append(f"| {em.pat(pt)} => ({branch(b, em.pat_vars(pt))})")
                text = f"match {em.expr(e[1], env)} with " + " ".join(arms)
            elif e[0] == "block":
                text = branch(e)
            else:
                em.fail("exit inside an expression of this form", e)
            return join(lines + ["(" + text + ")"], nested)
        return finish(env, lines, nested)

    def loop_vars(body, env):
        return [w for w in em.assigned(body, env + ["stop__"]) if w != "stop__"]

    def loop_stmt(st, env):
        body = st[1]
        ws = loop_vars(body, env)
        if not ws:
            em.fail("`loop` without effect", st)
        em.p.uses_fuel = True
        stt = em.tup(ws)
        Kl = Cont(normal=lambda env2: "(false, " + ", ".join(ident(w) for w in ws) + ")",
                  ret=None, brk=lambda env2: "(true, " + ", ".join(ident(w) for w in ws) + ")")
        items = list(body[1]) + ([("expr", body[2])] if body[2] is not None else [])
        inner = seq(em, items, env, Kl, "; ")
        return [em.let(stt, f"RustLite.loopFuel fuel {stt} (fun {stt} => ({inner}))")]

    def whilelet_stmt(st, env):
        sc = st[2]
        if not (sc[0] == "mcall" and sc[2] == "pop_front" and sc[1][0] == "path" and len(sc[1][1]) == 1 and not sc[4]):
            em.fail("`while let` over anything but `deque.pop_front()`", st)
        if not (st[1][0] == "pts" and st[1][1] == ["Some"] and len(st[1][2]) == 1):
            em.fail("`while let` pattern other than `Some(x)`", st)
        v = sc[1][1][0]
        elem = st[1][2][0]
        ws = [w for w in loop_vars(st[3], env) if w != v]
        if v in em.assigned(st[3], env):
            em.fail("the loop body mutates the deque it pops from", st)
        if not ws:
            em.fail("`while let` loop without effect on anything but the deque", st)
        stt = em.tup(ws)
        Kl = Cont(normal=lambda env2: "(false, " + ", ".join(ident(w) for w in ws) + ")",
                  ret=None, brk=lambda env2: "(true, " + ", ".join(ident(w) for w in ws) + ")")
        items = list(st[3][1]) + ([("expr", st[3][2])] if st[3][2] is not None else [])
        inner = seq(em, items, env + em.pat_vars(elem), Kl, "; ")
        return [em.let("(" + ident(v) + ", " + stt + ")", f"RustLite.whilePop {ident(v)} {stt} (fun {em.pat(elem)} {stt} => ({inner}))")]

    return go(0, list(env))


def contains_loop(node):
    if isinstance(node, tuple):
        if node and node[0] == "loop":
            return True
        return any(contains_loop(x) for x in node)
    if isinstance(node, list):
        return any(contains_loop(x) for x in node)
    return False


def emit_fn_body(em, f, env, muts):
    """the body of a translated function: `let`s ending in its result — (value, new values of the mutated parameters)"""
    if getattr(em.p, "rs_mode", False):
        env = list(env) + ["rs__"]
    def result(tail_text):
        if tail_text is not None:
            return "(" + ", ".join([tail_text] + [ident(m) for m in muts]) + ")" if muts else tail_text
        return em.tup(muts) if muts else "()"
    b = f["body"]
    tail = b[2]
    K = Cont(normal=lambda env2: result(em.expr(tail, env2) if tail is not None else None),
             ret=lambda v, env2: result(em.expr(v, env2) if v is not None else None), brk=None)
    pre = "let rs__ := rs\n  " if getattr(em.p, "rs_mode", False) else ""
    return "  " + pre + seq(em, list(b[1]), list(env), K, sep="\n  ")


EXTERNAL = {}      # functions of modules translated earlier: name -> table entry (with qualified lean_name)


def translate_utils_resilient(module):
    """translate as many of the module's functions as possible: a function outside the subset is dropped (and reported),
    the others are still emitted, so that only the theorems about the dropped function (and its callers) break"""
    wanted = [w for (mod, _, _, _, ws) in UTIL_FILES if mod == module for w in ws] + [f["name"] for (_, f) in EXTRA_FNS.get(module, [])]
    skip, problems = [], []
    while True:
        try:
            text, info = translate_utils(module, skip)
            info["not_translated"] = list(skip)
            return text, info, problems
        except Exception as e:
            msg = str(e) if isinstance(e, Untranslatable) else f"translator error {e!r}"
            # find a culprit: the last function whose removal lets the rest go through
            culprit = None
            for w in reversed([w for w in wanted if w not in skip]):
                try:
                    translate_utils(module, skip + [w])
                    culprit = w
                    break
                except Exception:
                    continue
            if culprit is None:
                remaining = [w for w in wanted if w not in skip]
                if not remaining:
                    raise
                culprit = remaining[-1]
            problems.append(f"{module}.{culprit}: {msg}")
            skip.append(culprit)
            if len(skip) >= len(wanted):
                return "-- nothing could be translated\n", {"functions": [], "not_translated": list(skip)}, problems


def translate_utils(module, skip=()):
    out = []
    info = {"functions": []}
    for (mod, rel, self_ty, self_kinds, wanted) in UTIL_FILES:
        if mod != module:
            continue
        wanted = [w for w in wanted if w not in skip]
        path = os.path.join(REPO, rel)
        fns = ([] if module == "StatsRegistry" else parse_source(path)) + EXTRA_FNS.get(module, [])
        wanted = wanted + [f["name"] for (_, f) in EXTRA_FNS.get(module, []) if f["name"] not in skip]
        byname = {}
        for (hdr, f) in fns:
            if f["name"] in wanted and f["name"] not in byname:
                byname[f["name"]] = (hdr, f)
        missing = [w for w in wanted if w not in byname]
        if missing:
            raise Untranslatable(f"{rel}: function(s) the model transcribes are missing from the source: {', '.join(missing)}")
        # signature pass
        table = {k: v for k, v in EXTERNAL.items() if module in ("Global", "Thread") or (module == "Async" and k.startswith("Stats."))}
        for name in wanted:
            hdr, f = byname[name]
            mut_idx = [i for i, (pn, pt) in enumerate(f["params"]) if pt.replace(" ", "").startswith("&mut")]
            table[name] = {"mut_idx": mut_idx, "implicit": [], "params": f["params"], "ret": f["ret"]}
        # body pass in source order of `wanted` (callees first is not required: implicit args are fixed up below)
        bodies = {}
        for name in wanted:
            hdr, f = byname[name]
            kinds = dict(self_kinds)
            sig = []
            for (pn, pt) in f["params"]:
                if pn == "self":
                    kinds["self"] = "self"
                    sty = self_ty
                    if hdr is not None and "Result<T,E>" in hdr[1].replace(" ", ""):
                        sty = self_ty.replace(" K V F", " K (Except E T) F")
                    sig.append(f"(self : {sty})")
                    continue
                lt, kind = lean_type(pt, pn, name if module in ("Registry", "StatsRegistry") else None)
                kinds[pn] = kind
                sig.append(f"({ident(pn)} : {lt})")
            prof = MODULE_PROFILE.get(module, PureProfile)(kinds, table)
            prof.fn_name = name
            em = Emitter(prof, f"{rel}:{f['line']} ({name})")
            body_of(f)
            if module in MODULE_REWRITE and not f.get("rewritten"):
                f["body"] = MODULE_REWRITE[module](name, f["body"])
                f["rewritten"] = True
            prof.rs_mode = contains_loop(f["body"])
            muts = [f["params"][i][0] for i in table[name]["mut_idx"]]
            # interior mutability: `&self` methods that mutate a cell of self return the new self
            if "self" in kinds and "self" not in muts and "self" in em.assigned(f["body"], ["self"] + [p[0] for p in f["params"]]):
                muts = ["self"] + muts
                table[name]["mut_idx"] = [i for i, (pn, _) in enumerate(f["params"]) if pn in muts]
            env = [p[0] for p in f["params"]]
            if f["ret"] is None and f["body"][2] is not None:       # unit function ending in a block-like statement
                f["body"] = ("block", f["body"][1] + [("expr", f["body"][2])], None)
            body = emit_fn_body(em, f, env, muts)
            bodies[name] = (sig, body, prof, f, muts)
        # implicit parameters (float structure / clock), propagated through calls
        changed = True
        need = {n: set() for n in wanted}
        for n in wanted:
            if bodies[n][2].uses_float:
                need[n].add("A")
            if bodies[n][2].uses_clock:
                need[n].add("clock")
            if bodies[n][2].uses_rand:
                need[n].add("rs" if bodies[n][2].rs_mode else "r")
            if bodies[n][2].uses_fuel:
                need[n].add("fuel")
            if bodies[n][2].uses_size:
                need[n].add("size")
        while changed:
            changed = False
            for n in wanted:
                for m in wanted:
                    if m != n and re.search(r"\b" + re.escape(m) + r"\b", bodies[n][1]):
                        inherited = {("rs" if (x == "r" and bodies[n][2].rs_mode) else x) for x in need[m]}
                        if not inherited <= need[n]:
                            need[n] |= inherited; changed = True
        for n in wanted:
            table[n]["implicit"] = [x for x in ("A", "clock", "size", "fuel", "r", "rs") if x in need[n]]
        # second emission now that implicit arguments of callees are known
        for name in wanted:
            hdr, f = byname[name]
            sig, _, _, _, muts = bodies[name]
            kinds = dict(self_kinds)
            for (pn, pt) in f["params"]:
                kinds[pn] = "self" if pn == "self" else lean_type(pt, pn, name if module in ("Registry", "StatsRegistry") else None)[1]
            prof = MODULE_PROFILE.get(module, PureProfile)(kinds, table)
            prof.fn_name = name
            em = Emitter(prof, f"{rel}:{f['line']} ({name})")
            prof.rs_mode = contains_loop(f["body"])
            env = [p[0] for p in f["params"]]
            body = emit_fn_body(em, f, env, muts)
            imp = []
            if "A" in need[name]:
                imp.append("(A : RustLite.F64 F)")
            if "clock" in need[name]:
                imp.append("(clock : RustLite.Clock)")
            if "size" in need[name]:
                vt_ = "Except E T" if (hdr is not None and "Result<T,E>" in hdr[1].replace(" ", "")) else "V"
                imp.append(f"(size : {vt_} → Nat)")
            if "fuel" in need[name]:
                imp.append("(fuel : Nat)")
            if "r" in need[name]:
                imp.append("(r : Nat)")
            if "rs" in need[name]:
                imp.append("(rs : List Nat)")
            lname = {"from": "policyFrom", "is_valid": "policyIsValid"}.get(name, name)
            if lname != name:
                table[name]["lean_name"] = lname
            out.append(f"/-- `{rel}:{f['line']}`  fn {name} -/\ndef {lname} {' '.join(imp + sig)} :=\n{body}\n")
            info["functions"].append({"name": name, "file": rel, "line": f["line"], "mutates": muts, "implicit": table[name]["implicit"]})
            if module in ("Utils", "Entry", "Stats"):
                EXTERNAL[name if module == "Utils" else module + "." + name] = dict(table[name], lean_name=module + "." + name)
    return "\n".join(out), info


# ------------------------------------------------------------------------------------------------ the macros' generated wrapper
# `#[cache]` (cachelito-macros/src/lib.rs) builds the wrapper from `quote!` templates.  The small generator functions
# (`generate_insert_call`, `generate_cache_condition`, `generate_invalidation_check`) are EVALUATED here for each of the 16
# configurations (max_memory present x Result return type x invalidate_on present x cache_if present); their token
# streams are spliced into the tail of the branch template (`let __key = …; if let Some(cached) = __cache.get(&__key) {…}
# let __result = (|| body)(); …; __result`), and the resulting Rust block is translated like any other function.

class GenInterp:
    """evaluates a generator function (`fn … -> TokenStream2`) of the macro crate on concrete arguments.
    Values: Python bool, None / ("some", tokens) for Option<syn::Path>, token lists for token streams."""

    def __init__(self, fns, fname):
        self.fns, self.fname = fns, fname

    def call(self, name, args):
        f = self.fns.get(name)
        if f is None:
            raise Untranslatable(f"{self.fname}: generator function `{name}` is missing")
        body = body_of(f)
        env = {}
        if len(args) != len(f["params"]):
            raise Untranslatable(f"{self.fname}: `{name}` takes {len(f['params'])} parameters now")
        for (pn, _), a in zip(f["params"], args):
            env[pn] = a
        return self.block(body, env)

    def block(self, b, env):
        env = dict(env)
        for st in b[1]:
            if st[0] == "let" and st[1][0] == "pid":
                env[st[1][1]] = self.ev(st[3], env)
            elif st[0] == "return":
                return self.ev(st[1], env)
            else:
                raise Untranslatable(f"{self.fname}: statement in a generator function: {str(st)[:120]}")
        if b[2] is None:
            raise Untranslatable(f"{self.fname}: generator block without a value")
        return self.ev(b[2], env)

    def ev(self, e, env):
        k = e[0]
        if k == "paren" or k == "ref" or k == "deref":
            return self.ev(e[1], env)
        if k == "path" and len(e[1]) == 1:
            if e[1][0] in env:
                return env[e[1][0]]
            if e[1][0] in ("true", "false"):
                return e[1][0] == "true"
            raise Untranslatable(f"{self.fname}: unknown variable `{e[1][0]}` in a generator function")
        if k == "unary" and e[1] == "!":
            return not self.ev(e[2], env)
        if k in ("binary", "bin", "binop") and len(e) >= 4 and e[1] in ("||", "&&"):
            a, b = self.ev(e[2], env), self.ev(e[3], env)
            if isinstance(a, bool) and isinstance(b, bool):
                return (a or b) if e[1] == "||" else (a and b)
            raise Untranslatable(f"{self.fname}: non-boolean operands of `{e[1]}` in a generator function")
        if k == "field" and e[1][0] == "path" and len(e[1][1]) == 1:
            name = e[1][1][0] + "." + e[2]
            if name in env:
                return env[name]
            raise Untranslatable(f"{self.fname}: unknown field `{name}` in a generator function")
        if k == "str":
            return ("strlit", e[1])
        if k == "mcall" and e[2] == "to_string" and not e[4]:
            v = self.ev(e[1], env)
            if isinstance(v, list):
                return ("strlit", " ".join(t[1] for t in v))
            raise Untranslatable(f"{self.fname}: `to_string` of a non-token value in a generator function")
        if k == "mcall" and e[2] == "is_empty" and not e[4]:
            v = self.ev(e[1], env)
            if isinstance(v, tuple) and v and v[0] == "patlist":
                return len(v[1]) == 0
            raise Untranslatable(f"{self.fname}: `is_empty` of a non-list value in a generator function")
        if k == "mcall" and e[2] == "contains" and len(e[4]) == 1:
            v, a = self.ev(e[1], env), self.ev(e[4][0], env)
            if isinstance(v, tuple) and v[0] == "strlit" and isinstance(a, tuple) and a[0] == "strlit":
                return a[1] in v[1]
            raise Untranslatable(f"{self.fname}: `contains` on non-strings in a generator function")
        if k == "if":
            c = self.ev(e[1], env)
            if not isinstance(c, bool):
                raise Untranslatable(f"{self.fname}: non-boolean condition in a generator function")
            br = e[2] if c else e[3]
            if br is None:
                raise Untranslatable(f"{self.fname}: `if` without `else` in a generator function")
            return self.block(br, env) if br[0] == "block" else self.ev(br, env)
        if k == "iflet":
            v = self.ev(e[2], env)
            pat = e[1]
            if not (pat[0] == "pts" and pat[1] == ["Some"] and pat[2][0][0] == "pid"):
                raise Untranslatable(f"{self.fname}: `if let` pattern in a generator function")
            if v is not None:
                env2 = dict(env); env2[pat[2][0][1]] = v[1]
                return self.block(e[3], env2)
            if e[4] is None:
                raise Untranslatable(f"{self.fname}: `if let` without `else` in a generator function")
            return self.block(e[4], env) if e[4][0] == "block" else self.ev(e[4], env)
        if k == "call" and e[1][0] == "path":
            return self.call(e[1][1][-1], [self.ev(a, env) for a in e[2]])
        if k == "macro" and e[1] == "quote":
            return self.quote(list(e[2]), env)
        if k == "block":
            return self.block(e, env)
        raise Untranslatable(f"{self.fname}: expression in a generator function: {str(e)[:120]}")

    def quote(self, toks, env):
        out = []
        i = 0
        while i < len(toks):
            t = toks[i]
            if t[0] == "p" and t[1] == "#" and i + 1 < len(toks) and toks[i + 1][1] == "(":
                # repetition `#( … #list … )*` / `#( … ),*`: once per element of the (single) list interpolated inside
                depth, j = 0, i + 1
                while True:
                    if toks[j][1] == "(":
                        depth += 1
                    if toks[j][1] == ")":
                        depth -= 1
                        if depth == 0:
                            break
                    j += 1
                inner = toks[i + 2:j]
                k2 = j + 1
                sep = []
                if k2 < len(toks) and toks[k2][1] != "*":
                    sep = [toks[k2]]; k2 += 1
                if k2 >= len(toks) or toks[k2][1] != "*":
                    raise Untranslatable(f"{self.fname}: repetition without `*` in a quote template")
                lists = [inner[m + 1][1] for m in range(len(inner) - 1) if inner[m][1] == "#" and inner[m + 1][0] == "id"
                         and isinstance(env.get(inner[m + 1][1]), tuple) and env[inner[m + 1][1]][0] == "patlist"]
                if len(set(lists)) != 1:
                    raise Untranslatable(f"{self.fname}: repetition over {sorted(set(lists))} in a quote template")
                name = lists[0]
                elems = env[name][1]
                for n_, el in enumerate(elems):
                    env2 = dict(env); env2[name] = el
                    if n_ > 0:
                        out += sep
                    out += self.quote(inner, env2)
                i = k2 + 1
                continue
            if t[0] == "p" and t[1] == "#" and i + 1 < len(toks) and toks[i + 1][0] == "id":
                name = toks[i + 1][1]
                if name not in env:
                    raise Untranslatable(f"{self.fname}: interpolation `#{name}` of an unknown variable")
                v = env[name]
                if not isinstance(v, list):
                    raise Untranslatable(f"{self.fname}: interpolation `#{name}` of a non-token value")
                out += v
                i += 2
                continue
            out.append(t)
            i += 1
        return out


def wrapper_template(fns, fname, branch_fn, cfgbits):
    """token list of the wrapper's core for one configuration: from `let __key = …` to the end of the branch template"""
    has_mm, is_result, has_io, has_ci = cfgbits
    gi = GenInterp(fns, fname)
    ident = lambda n: [("id", n, 0)]
    io = ("some", ident("invalidate_on__")) if has_io else None
    ci = ("some", ident("cache_if__")) if has_ci else None
    f = fns.get(branch_fn)
    if f is None:
        raise Untranslatable(f"{fname}: `{branch_fn}` is missing")
    body = body_of(f)
    # the branch generator's OWN `let`s decide what is spliced: `has_max_memory` (a textual test on the max_memory tokens),
    # `invalidation_check`, `cache_condition` — evaluated from the source, with the configuration as the function's arguments
    env0 = {"max_memory_expr": ([("id", "Some", 0), ("p", "(", 0), ("id", "max_memory__", 0), ("p", ")", 0)] if has_mm else [("id", "None", 0)]),
            "is_result": is_result, "invalidate_on": io, "cache_if": ci, "attrs.invalidate_on": io, "attrs.cache_if": ci}
    wanted = ["has_max_memory", "invalidation_check", "cache_condition"]
    seen = []
    for st in body[1]:
        if st[0] == "let" and st[1][0] == "pid" and st[1][1] in wanted:
            env0[st[1][1]] = gi.ev(st[3], env0)
            seen.append(st[1][1])
    if seen != wanted:
        raise Untranslatable(f"{fname}: `{branch_fn}` no longer computes {wanted} in this order (found {seen})")
    if env0["has_max_memory"] is not has_mm:
        raise Untranslatable(f"{fname}: `{branch_fn}`: `has_max_memory` is {env0['has_max_memory']} for the max_memory tokens "
                             f"`{' '.join(t[1] for t in env0['max_memory_expr'])}`")
    inv_check, cache_cond = env0["invalidation_check"], env0["cache_condition"]
    if not (body[2] is not None and body[2][0] == "macro" and body[2][1] == "quote"):
        raise Untranslatable(f"{fname}: `{branch_fn}` no longer ends in a `quote!` template")
    toks = list(body[2][2])
    # the core starts at `let __key`
    start = None
    for i in range(len(toks) - 1):
        if toks[i][1] == "let" and toks[i + 1][1] == "__key":
            start = i
            break
    if start is None:
        raise Untranslatable(f"{fname}: `{branch_fn}`: the template has no `let __key = …`")
    # what precedes must not touch the cache through `__cache` methods other than its construction
    pre = toks[:start]
    for i in range(len(pre) - 2):
        if pre[i][1] == "__cache" and pre[i + 1][1] == ".":
            raise Untranslatable(f"{fname}: `{branch_fn}`: the template uses `__cache` before the key is computed")
    env = {"key_expr": ident("key__"), "block": [("p", "{", 0)] + ident("body__") + [("p", "}", 0)],
           "invalidation_check": inv_check, "cache_condition": cache_cond}
    # the user's body must run INSIDE a closure `(|| #block)()`: an early `return` or a `?` in it then yields the closure's value,
    # which the wrapper still hands to cache_if and to the store (the translation treats the body as a value; spliced inline, a
    # `return` in the body would leave the generated function before the predicate and the store)
    ttxt = " ".join(t[1] for t in toks[start:])
    if ttxt.count("# block") != 1 or "( | | # block ) ( )" not in ttxt.replace("||", "| |"):
        raise Untranslatable(f"{fname}: `{branch_fn}`: the body is no longer invoked as a closure `(|| #block)()` exactly once")
    core = gi.quote(toks[start:], env)
    return [("p", "{", 0)] + core + [("p", "}", 0), ("eof", "", 0)]


class WrapperProfile(PureProfile):
    """the wrapper body: `__cache` is the engine (`self` of the translated engine functions), `key__` the rendered key,
    `body__` the value the function body returns if it runs, the two predicates are oracles"""

    ENGINE = {"Thread": ("Thread", "RustLite.ThreadCache"), "Global": ("Global", "RustLite.GlobalCache")}

    def __init__(self, module, is_result):
        super().__init__({"__cache": "engine"}, {})
        self.module = module
        self.is_result = is_result
        self.uses_float = self.uses_clock = self.uses_size = True

    def mut_method(self, name, recv=None):
        r = strip_guard(recv) if recv is not None else None
        if r is not None and r[0] == "path" and r[1] == ["__cache"] or recv is None:
            m = self.module
            table = {"get": (f"{m}.get clock", True),
                     "insert": (f"{m}.insert A clock (RustLite.headRand rs)", False),
                     "insert_result": (f"{m}.insert_result A clock (RustLite.headRand rs)", False),
                     "insert_with_memory": (f"{m}.insert_with_memory A clock size fuel rs", False),
                     "insert_result_with_memory": (f"{m}.insert_result_with_memory A clock size fuel rs", False)}
            if name in table:
                return table[name]
        return None

    def call(self, segs, generics, args, em, env):
        if segs == ["invalidate_on__"] and len(args) == 2:
            return f"(invalidate_on__ {em.expr(args[0], env)} {em.expr(args[1], env)})"
        if segs == ["cache_if__"] and len(args) == 2:
            return f"(cache_if__ {em.expr(args[0], env)} {em.expr(args[1], env)})"
        return None


def split_args(toks):
    """token list of a call's argument list -> list of argument token lists (top-level commas)"""
    args, cur, depth = [], [], 0
    for t in toks:
        if t[1] in ("(", "[", "{", "<"):
            depth += 1
        if t[1] in (")", "]", "}", ">"):
            depth -= 1
        if t[1] == "," and depth == 0:
            args.append(cur); cur = []
        else:
            cur.append(t)
    if cur:
        args.append(cur)
    return args


def check_ctor_wiring(fns, rel, branch_fn, caller, engine_rel, engine_ty):
    """the attribute values must reach the constructor parameters of the same name: (1) every `<Engine>::new(…)` in the branch
    template passes `#<p>_expr` for parameter `p` (limit and max_memory have the same type — a swap compiles), the statics for
    map / order / stats; (2) the proc macro hands `attrs.<p>` to the branch generator's parameter `<p>_expr`"""
    eng_news = [f for (_, f) in parse_source(os.path.join(REPO, engine_rel)) if f["name"] == "new"]
    if not eng_news:
        raise Untranslatable(f"{engine_rel}: `{engine_ty}::new` is missing")
    want = {"map": "cache_ident", "cache": "cache_ident", "order": "order_ident", "stats": "stats_ident"}
    f = fns.get(branch_fn)
    if f is None:
        raise Untranslatable(f"{rel}: `{branch_fn}` is missing")
    toks = list(body_of(f)[2][2])
    found = 0
    for i in range(len(toks) - 1):
        if toks[i][1] == "new" and toks[i + 1][1] == "(" and any(t[1] == engine_ty for t in toks[max(0, i - 8):i]):
            depth, j = 0, i + 1
            while True:
                if toks[j][1] == "(":
                    depth += 1
                if toks[j][1] == ")":
                    depth -= 1
                    if depth == 0:
                        break
                j += 1
            args = split_args(toks[i + 2:j])
            cands = [n for n in eng_news if len([p for p in n["params"] if p[0] != "self"]) == len(args)]
            if not cands:
                raise Untranslatable(f"{rel}: `{branch_fn}` calls `{engine_ty}::new` with {len(args)} arguments; no constructor takes that many")
            params = [p[0] for p in cands[0]["params"] if p[0] != "self"]
            for pn, a in zip(params, args):
                names = [a[m + 1][1] for m in range(len(a) - 1) if a[m][1] == "#"]
                exp = want.get(pn, pn + "_expr")
                if names != [exp]:
                    raise Untranslatable(f"{rel}: `{branch_fn}`: parameter `{pn}` of `{engine_ty}::new` receives `{' '.join(t[1] for t in a)}` (expected `#{exp}`)")
            found += 1
    if not found:
        raise Untranslatable(f"{rel}: `{branch_fn}` no longer builds `__cache` by `{engine_ty}::new`")
    # (2) the call of the branch generator in the proc macro (token level: the proc-macro function uses constructs outside the subset)
    ptoks = production_tokens(rel)
    sites = [k for k in range(1, len(ptoks) - 1) if ptoks[k][1] == branch_fn and ptoks[k + 1][1] == "(" and ptoks[k - 1][1] != "fn"]
    if len(sites) != 1:
        raise Untranslatable(f"{rel}: `{branch_fn}` is called {len(sites)} times")
    k = sites[0] + 1
    depth, j2 = 0, k
    while True:
        if ptoks[j2][1] == "(":
            depth += 1
        if ptoks[j2][1] == ")":
            depth -= 1
            if depth == 0:
                break
        j2 += 1
    cargs = [" ".join(t[1] for t in a).replace("& ", "").replace(" ", "") for a in split_args(ptoks[k + 1:j2])]
    params = [pn for (pn, _) in f["params"]]
    if len(params) != len(cargs):
        raise Untranslatable(f"{rel}: `{branch_fn}` takes {len(params)} parameters, its caller passes {len(cargs)}")
    for pn, a in zip(params, cargs):
        if pn.endswith("_expr") and pn != "key_expr":
            if a != "attrs." + pn[:-5]:
                raise Untranslatable(f"{rel}: the caller passes `{a}` for `{pn}` of `{branch_fn}` (expected `attrs.{pn[:-5]}`)")
        elif pn in ("cache_ident", "order_ident", "stats_ident", "key_expr", "is_result"):
            if a != pn:
                raise Untranslatable(f"{rel}: the caller passes `{a}` for `{pn}` of `{branch_fn}`")
    return found


def check_registration(fns, rel, gen_fn, where_fn_body):
    """what the generated function registers on its first call, EVALUATED from the source for the 8 combinations of
    empty / non-empty tags, events, dependencies — the registration sequence `Registry.firstCallOps` / `C12r` assume:
    metadata (tags, events, dependencies in THIS order) and the clear callback under the cache's name iff some list is non-empty;
    the conditional-invalidation callback always; the statistics cell under the same name"""
    gi = GenInterp(fns, rel)
    ident = lambda n: [("id", n, 0)]
    body = where_fn_body
    lets = {st[1][1]: st[3] for st in body[1] if st[0] == "let" and st[1][0] == "pid"}
    for need in ("invalidation_registration", "invalidation_callback_registration"):
        if need not in lets:
            raise Untranslatable(f"{rel}: `{gen_fn}` no longer computes `{need}`")
    for bits in range(8):
        nt, ne, nd = bits & 1, (bits >> 1) & 1, (bits >> 2) & 1
        env = {"attrs.tags": ("patlist", [ident("T0")] * nt), "attrs.events": ("patlist", [ident("E0")] * ne),
               "attrs.dependencies": ("patlist", [ident("D0")] * nd), "fn_name_str": ident("NAME__"),
               "cache_ident": ident("CACHE__"), "order_ident": ident("ORDER__"), "stats_ident": ident("STATS__")}
        for v in ("verif_y_clear_order", "verif_y_clear_map", "verif_y_cond_order", "verif_y_cond_map"):
            env[v] = []
        toks = gi.ev(lets["invalidation_registration"], env)
        txt = " ".join(t[1] for t in toks)
        if not (nt or ne or nd):
            if txt.strip():
                raise Untranslatable(f"{rel}: `{gen_fn}` registers invalidation metadata although tags, events and dependencies are all empty")
            continue
        want = ("InvalidationMetadata :: new ( vec ! [ " + ("T0 . to_string ( ) " if nt else "") + "] , vec ! [ " + ("E0 . to_string ( ) " if ne else "")
                + "] , vec ! [ " + ("D0 . to_string ( ) " if nd else "") + "] , ) ;")
        if want not in txt.replace("] , )", "] , )"):
            raise Untranslatable(f"{rel}: `{gen_fn}`: the metadata is no longer `InvalidationMetadata::new(tags, events, dependencies)` in this order "
                                 f"(tags={nt} events={ne} dependencies={nd}): {txt[:200]}")
        if "global ( ) . register ( NAME__ , metadata )" not in txt:
            raise Untranslatable(f"{rel}: `{gen_fn}` no longer registers the metadata under the cache's name")
        if "global ( ) . register_callback ( NAME__ ," not in txt:
            raise Untranslatable(f"{rel}: `{gen_fn}` no longer registers the clear callback under the cache's name")
    env = {"fn_name_str": ident("NAME__"), "cache_ident": ident("CACHE__"), "order_ident": ident("ORDER__"),
           "verif_y_cond_order": [], "verif_y_cond_map": []}
    txt = " ".join(t[1] for t in gi.ev(lets["invalidation_callback_registration"], env))
    if "global ( ) . register_invalidation_callback ( NAME__ ," not in txt:
        raise Untranslatable(f"{rel}: `{gen_fn}` no longer registers the conditional-invalidation callback under the cache's name")
    ptxt = " ".join(t[1] for t in production_tokens(rel))
    if "stats_registry :: register ( # fn_name_str , & # stats_ident )" not in ptxt and "stats_registry :: register ( # fn_name_str , & * # stats_ident )" not in ptxt:
        raise Untranslatable(f"{rel}: the statistics cell is no longer registered as `stats_registry::register(#fn_name_str, &#stats_ident)`")


def check_scope_dispatch(rel):
    """the generated function runs the THREAD-LOCAL branch exactly when the `scope` attribute says thread, else the GLOBAL one:
    `let __scope = #scope_expr; if __scope == …::ThreadLocal { #thread_local_branch } else { #global_branch }` with
    `scope_expr = &attrs.scope` (token level: the proc-macro function is outside the parsed subset)"""
    toks = [t[1] for t in production_tokens(rel)]
    txt = " ".join(toks)
    import re as _re
    pat = (r"let __scope = # scope_expr ; if __scope == (?:\w+ :: )*CacheScope :: ThreadLocal \{ # thread_local_branch \} "
           r"else \{ # global_branch \}")
    if len(_re.findall(pat, txt)) != 1:
        raise Untranslatable(f"{rel}: the generated function no longer dispatches `if __scope == CacheScope::ThreadLocal {{ thread branch }} else {{ global branch }}`")
    if len(_re.findall(r"let scope_expr = & attrs \. scope ;", txt)) != 1:
        raise Untranslatable(f"{rel}: `scope_expr` is no longer `&attrs.scope`")
    for (var, fn_) in (("thread_local_branch", "generate_thread_local_branch"), ("global_branch", "generate_global_branch")):
        if len(_re.findall(r"let " + var + r" = " + fn_ + r" \(", txt)) != 1:
            raise Untranslatable(f"{rel}: `{var}` is no longer the result of `{fn_}`")


def translate_wrapper():
    """Generated/PureWrap.lean: 16 configurations x {Thread, Global}"""
    rel = "cachelito-macros/src/lib.rs"
    path = os.path.join(REPO, rel)
    fns = {f["name"]: f for (_, f) in parse_source(path)}
    check_scope_dispatch(rel)
    check_registration(fns, rel, "generate_global_branch", body_of(fns["generate_global_branch"]) if "generate_global_branch" in fns else None)
    check_ctor_wiring(fns, rel, "generate_thread_local_branch", "cache", "cachelito-core/src/thread_local_cache.rs", "ThreadLocalCache")
    check_ctor_wiring(fns, rel, "generate_global_branch", "cache", "cachelito-core/src/global_cache.rs", "GlobalCache")
    out = []
    info = {"configs": []}
    for module, branch_fn in (("Thread", "generate_thread_local_branch"), ("Global", "generate_global_branch")):
        for bits in range(16):
            cfgbits = (bool(bits & 8), bool(bits & 4), bool(bits & 2), bool(bits & 1))
            toks = wrapper_template(fns, rel, branch_fn, cfgbits)
            block = Parser(toks, rel + f" ({branch_fn} template)").parse_block()
            prof = WrapperProfile(module, cfgbits[1])
            em = Emitter(prof, f"{rel} ({branch_fn}, max_memory={cfgbits[0]}, result={cfgbits[1]}, invalidate_on={cfgbits[2]}, cache_if={cfgbits[3]})")
            # the closure call `(|| { body__ })()` is the body's value
            block = replace_body_call(block)
            env = ["__cache", "key__", "body__"]
            tail = block[2]
            K = Cont(normal=lambda env2: em.fail("wrapper without a value"),
                     ret=lambda v, env2: "(" + em.expr(v, env2) + ", __cache)",
                     value=lambda ast, env2: "(" + em.expr(ast, env2) + ", __cache)")
            text = seq(em, list(block[1]), env, K, "\n  ", tail=tail)
            vt = "(Except E T)" if cfgbits[1] else "V"
            name = f"wrap{module}_{''.join('1' if b else '0' for b in cfgbits)}"
            out.append(f"/-- `{rel}` `{branch_fn}`: max_memory {'set' if cfgbits[0] else 'absent'}, "
                       f"{'Result' if cfgbits[1] else 'plain'} return type, invalidate_on {'set' if cfgbits[2] else 'absent'}, "
                       f"cache_if {'set' if cfgbits[3] else 'absent'} -/\n"
                       f"def {name} (A : RustLite.F64 F) (clock : RustLite.Clock) (size : {vt} → Nat) (fuel : Nat) (rs : List Nat)\n"
                       f"    (invalidate_on__ cache_if__ : K → {vt} → Bool) (__cache : {WrapperProfile.ENGINE[module][1]} K {vt} F) (key__ : K) (body__ : {vt}) :=\n  {text}\n")
            info["configs"].append(name)
    return "\n".join(out), info


# `#[cache_async]` (cachelito-async-macros/src/lib.rs): `invalidation_check`, `insert_call` and `cache_insert` are computed by
# `let` statements of the proc-macro function itself and spliced into `generate_cache_logic_block`'s template.  Those `let`s
# (from `let limit_expr` to `let cache_logic`) are EVALUATED here for each of the 16 configurations.

ASYNC_NEW_PARAMS = ["cache", "order", "limit", "max_memory", "policy", "ttl", "frequency_weight", "stats"]


def async_wrapper_template(fns, fname, cfgbits):
    has_mm, is_result, has_io, has_ci = cfgbits
    gi = GenInterp(fns, fname)
    ident = lambda n: [("id", n, 0)]
    f = fns.get("cache_async")
    if f is None:
        raise Untranslatable(f"{fname}: `cache_async` is missing")
    body = body_of(f)
    env = {"attrs.invalidate_on": ("some", ident("invalidate_on__")) if has_io else None,
           "attrs.cache_if": ("some", ident("cache_if__")) if has_ci else None,
           "attrs.limit": ident("limit__"), "attrs.ttl": ident("ttl__"), "attrs.policy": ident("policy__"),
           "attrs.frequency_weight": ident("frequency_weight__"),
           "attrs.max_memory": ([("id", "Some", 0), ("p", "(", 0), ("id", "max_memory__", 0), ("p", ")", 0)] if has_mm
                                else [("id", "None", 0)]),
           "is_result": is_result, "key_expr": ident("key__"), "cache_ident": ident("CACHE__"), "order_ident": ident("ORDER__"),
           "stats_ident": ident("STATS__"), "block": [("p", "{", 0)] + ident("body__") + [("p", "}", 0)]}
    wanted = ["limit_expr", "policy_str", "ttl_expr", "max_memory_expr", "frequency_weight_expr", "policy_expr",
              "invalidation_check", "cache_logic"]
    seen = []
    for st in body[1]:
        if st[0] == "let" and st[1][0] == "pid" and st[1][1] in wanted:
            env[st[1][1]] = gi.ev(st[3], env)
            seen.append(st[1][1])
        elif st[0] == "let" and st[1][0] == "pid" and st[1][1] in ("is_result", "key_expr", "block"):
            pass            # bound above: the configuration bit / the placeholders
    if seen != wanted:
        raise Untranslatable(f"{fname}: `cache_async` no longer computes {wanted} in this order (found {seen})")
    toks = env["cache_logic"]
    if not isinstance(toks, list):
        raise Untranslatable(f"{fname}: `cache_logic` is not a token stream")
    # `(async { body__ }).await` is the body's value
    pat = ["(", "async", "{", "body__", "}", ")", ".", "await"]
    hits = [i for i in range(len(toks) - len(pat) + 1) if [t[1] for t in toks[i:i + len(pat)]] == pat]
    if len(hits) != 1:
        raise Untranslatable(f"{fname}: the template no longer awaits the body exactly once as `(async #block).await`")
    i = hits[0]
    toks = toks[:i] + ident("body__") + toks[i + len(pat):]
    if any(t[1] in ("await", "async") for t in toks):
        raise Untranslatable(f"{fname}: the template awaits something besides the body")
    return [("p", "{", 0)] + toks + [("p", "}", 0), ("eof", "", 0)]


def check_async_new(block, fname, has_mm, new_params):
    """the statement `let __cache = AsyncGlobalCache::new(…)`: the attribute values must reach the parameters of the same
    name (limit and max_memory have the same type; a swap would compile).  Returns the block without that statement."""
    stmts = []
    found = False
    for st in block[1]:
        if st[0] == "let" and st[1] == ("pid", "__cache"):
            e = st[3]
            if not (e[0] == "call" and e[1][0] == "path" and e[1][1][-2:] == ["AsyncGlobalCache", "new"]):
                raise Untranslatable(f"{fname}: `__cache` is no longer built by `AsyncGlobalCache::new`")
            args = [render_tokens_of(a) for a in e[2]]
            expect = {"cache": "CACHE__", "order": "ORDER__", "limit": "limit__", "max_memory": "Some(max_memory__)" if has_mm else "None",
                      "policy": "EvictionPolicy::from(policy__)", "ttl": "ttl__", "frequency_weight": "frequency_weight__", "stats": "STATS__"}
            if len(args) != len(new_params):
                raise Untranslatable(f"{fname}: `AsyncGlobalCache::new` takes {len(new_params)} parameters, the template passes {len(args)}")
            for pn, a in zip(new_params, args):
                if pn not in expect or expect[pn] not in a:
                    raise Untranslatable(f"{fname}: parameter `{pn}` of `AsyncGlobalCache::new` receives `{a}`")
            found = True
            continue
        stmts.append(st)
    if not found:
        raise Untranslatable(f"{fname}: the template does not build `__cache`")
    return (block[0], stmts, block[2]) + tuple(block[3:])


def render_tokens_of(ast):
    """flat text of an expression AST (only for the argument check above)"""
    if isinstance(ast, tuple):
        if ast and ast[0] == "path":
            return "::".join(ast[1])
        if ast and ast[0] == "call":
            return render_tokens_of(ast[1]) + "(" + ",".join(render_tokens_of(a) for a in ast[2]) + ")"
        if ast and ast[0] in ("ref", "deref", "paren"):
            return render_tokens_of(ast[1])
        return "(" + " ".join(render_tokens_of(x) for x in ast[1:]) + ")"
    if isinstance(ast, list):
        return " ".join(render_tokens_of(x) for x in ast)
    return str(ast)


class AsyncWrapperProfile(PureProfile):
    """the async wrapper body: `__cache` is the async engine"""

    def __init__(self, is_result):
        super().__init__({"__cache": "engine"}, {})
        self.is_result = is_result
        self.uses_float = self.uses_clock = self.uses_size = True

    def mut_method(self, name, recv=None):
        r = strip_guard(recv) if recv is not None else None
        if r is not None and r[0] == "path" and r[1] == ["__cache"] or recv is None:
            table = {"get": ("Async.get clock", True),
                     "insert": ("Async.insert A clock (RustLite.headRand rs)", False),
                     "insert_with_memory": ("Async.insert_with_memory A clock size fuel rs", False)}
            if name in table:
                return table[name]
        return None

    def call(self, segs, generics, args, em, env):
        if segs == ["invalidate_on__"] and len(args) == 2:
            return f"(invalidate_on__ {em.expr(args[0], env)} {em.expr(args[1], env)})"
        if segs == ["cache_if__"] and len(args) == 2:
            return f"(cache_if__ {em.expr(args[0], env)} {em.expr(args[1], env)})"
        return None

    def method(self, recv, name, generics, args, em, env):
        if name == "is_ok" and not args:
            return f"(RustLite.isOk {em.expr(recv, env)})"
        return super().method(recv, name, generics, args, em, env)


def translate_async_wrapper():
    """Generated/PureWrapAsync.lean: 16 configurations of `#[cache_async]`"""
    rel = "cachelito-async-macros/src/lib.rs"
    fns = {f["name"]: f for (_, f) in parse_source(os.path.join(REPO, rel))}
    eng = {f["name"]: f for (_, f) in parse_source(os.path.join(REPO, "cachelito-core/src/async_global_cache.rs"))}
    if "new" not in eng:
        raise Untranslatable("cachelito-core/src/async_global_cache.rs: `AsyncGlobalCache::new` is missing")
    new_params = [pn for (pn, _) in eng["new"]["params"] if pn != "self"]
    check_registration(fns, rel, "cache_async", body_of(fns["cache_async"]))
    out = []
    info = {"configs": [], "new_params": new_params}
    for bits in range(16):
        cfgbits = (bool(bits & 8), bool(bits & 4), bool(bits & 2), bool(bits & 1))
        toks = async_wrapper_template(fns, rel, cfgbits)
        where = rel + f" (cache_async, max_memory={cfgbits[0]}, result={cfgbits[1]}, invalidate_on={cfgbits[2]}, cache_if={cfgbits[3]})"
        block = Parser(toks, where).parse_block()
        block = check_async_new(block, where, cfgbits[0], new_params)
        prof = AsyncWrapperProfile(cfgbits[1])
        em = Emitter(prof, where)
        env = ["__cache", "key__", "body__"]
        K = Cont(normal=lambda env2: em.fail("wrapper without a value"),
                 ret=lambda v, env2: "(" + em.expr(v, env2) + ", __cache)",
                 value=lambda ast, env2: "(" + em.expr(ast, env2) + ", __cache)")
        text = seq(em, list(block[1]), env, K, "\n  ", tail=block[2])
        vt = "(Except E T)" if cfgbits[1] else "V"
        name = f"wrapAsync_{''.join('1' if b else '0' for b in cfgbits)}"
        out.append(f"/-- `{rel}` `cache_async`: max_memory {'set' if cfgbits[0] else 'absent'}, "
                   f"{'Result' if cfgbits[1] else 'plain'} return type, invalidate_on {'set' if cfgbits[2] else 'absent'}, "
                   f"cache_if {'set' if cfgbits[3] else 'absent'} -/\n"
                   f"def {name} (A : RustLite.F64 F) (clock : RustLite.Clock) (size : {vt} → Nat) (fuel : Nat) (rs : List Nat)\n"
                   f"    (invalidate_on__ cache_if__ : K → {vt} → Bool) (__cache : RustLite.AsyncCache K {vt} F) (key__ : K) (body__ : {vt}) :=\n  {text}\n")
        info["configs"].append(name)
    return "\n".join(out), info


# ------------------------------------------------------------------------------------------------ the key expression
# `cachelito-macro-utils/src/lib.rs`: `generate_key_expr` (`#[cache_async]`) and `generate_key_expr_with_cacheable_key`
# (`#[cache]`) build the cache key from the receiver and the arguments.  They are EVALUATED for has_self x 0..4 arguments; in the
# resulting block `format!("{:?}", x)` / `(x).to_cache_key()` is the RENDERING of x, which the translation takes as given
# (parameter `x : Keys.Text`; the rendering itself is C02's subject) — what is translated is how the parts are assembled.

class KeyProfile(PureProfile):
    def __init__(self):
        super().__init__({"__key_parts": "deque"}, {})

    def call(self, segs, generics, args, em, env):
        if segs in (["Vec", "new"], ["String", "new"]) and not args:
            return "([] : List _)" if segs[0] == "Vec" else "([] : Keys.Text)"
        return None

    def mut_method(self, name, recv=None):
        if name == "push":
            return ("RustLite.pushBack", False)
        return None

    def method(self, recv, name, generics, args, em, env):
        if name == "to_cache_key" and not args:
            return em.expr(recv, env)
        if name == "join" and len(args) == 1 and args[0][0] == "str":
            sep = args[0][1].replace("\\", "\\\\").replace('"', '\\"')
            return f'(Keys.joinWith ("{sep}".toList) {em.expr(recv, env)})'
        return None


def key_expr_tokens(fns, rel, gen, has_self, n):
    gi = GenInterp(fns, rel)
    pats = ("patlist", [[("id", f"a{i}", 0)] for i in range(n)])
    toks = gi.call(gen, [has_self, pats])
    if not isinstance(toks, list):
        raise Untranslatable(f"{rel}: `{gen}` does not produce a token stream")
    toks = [("id", "self_", t[2]) if (t[0] == "id" and t[1] == "self") else t for t in toks]
    out = []
    i = 0
    while i < len(toks):
        t = toks[i]
        # `use path;` inside the block
        if t[0] == "id" and t[1] == "use":
            while toks[i][1] != ";":
                i += 1
            i += 1
            continue
        # format!("{:?}", X)  ->  (X)
        if t[0] == "id" and t[1] == "format" and i + 2 < len(toks) and toks[i + 1][1] == "!" and toks[i + 2][1] == "(":
            if not (toks[i + 3][0] == "str" and toks[i + 3][1] == "{:?}" and toks[i + 4][1] == ","):
                raise Untranslatable(f"{rel}: `{gen}`: a key part is not rendered with `format!(\"{{:?}}\", …)`")
            depth, j = 0, i + 2
            while True:
                if toks[j][1] == "(":
                    depth += 1
                if toks[j][1] == ")":
                    depth -= 1
                    if depth == 0:
                        break
                j += 1
            out += [("p", "(", 0)] + toks[i + 5:j] + [("p", ")", 0)]
            i = j + 1
            continue
        if t[0] == "id" and t[1] == "self":
            out.append(("id", "self_", t[2])); i += 1; continue
        out.append(t)
        i += 1
    # the template is `{{ … }}`: a block whose value is a block
    return out + [("eof", "", 0)]


def translate_key_exprs():
    """Generated/PureKeys.lean"""
    rel = "cachelito-macro-utils/src/lib.rs"
    fns = {f["name"]: f for (_, f) in parse_source(os.path.join(REPO, rel))}
    out = []
    info = {"defs": []}
    for (gen, tag) in (("generate_key_expr_with_cacheable_key", "Sync"), ("generate_key_expr", "Async")):
        for has_self in (False, True):
            for n in range(5):
                toks = key_expr_tokens(fns, rel, gen, has_self, n)
                where = f"{rel} ({gen}, has_self={has_self}, {n} arguments)"
                block = Parser(toks, where).parse_block()
                while block[0] == "block" and not block[1] and block[2] is not None and block[2][0] == "block":
                    block = block[2]
                prof = KeyProfile()
                em = Emitter(prof, where)
                env = ["self_"] + [f"a{i}" for i in range(n)]
                K = Cont(normal=lambda env2: em.fail("key expression without a value"),
                         ret=lambda v, env2: em.expr(v, env2),
                         value=lambda ast, env2: em.expr(ast, env2))
                text = seq(em, list(block[1]), env, K, "\n  ", tail=block[2])
                name = f"key{tag}_{1 if has_self else 0}_{n}"
                params = " ".join(["(self_ : Keys.Text)"] + [f"(a{i} : Keys.Text)" for i in range(n)])
                out.append(f"/-- `{rel}` `{gen}`: {'method' if has_self else 'free function'} with {n} argument(s) -/\n"
                           f"def {name} {params} : Keys.Text :=\n  {text}\n")
                info["defs"].append(name)
    return "\n".join(out), info


def replace_body_call(node):
    """`(|| { body__ })()` -> `body__`"""
    if isinstance(node, list):
        return [replace_body_call(x) for x in node]
    if not isinstance(node, tuple):
        return node
    if node and node[0] == "call" and node[1][0] == "paren" and node[1][1][0] == "closure" and not node[1][1][1] and not node[2]:
        b = node[1][1][2]
        if b[0] == "block" and not b[1] and b[2] is not None:
            return b[2]
        return b
    return tuple(replace_body_call(x) for x in node)


MODULE_PROFILE.update({"Registry": RegistryProfile, "StatsRegistry": StatsRegistryProfile})
MODULE_REWRITE.update({"Registry": rewrite_registry_fn, "StatsRegistry": rewrite_stats_registry_fn})


if __name__ == "__main__":
    r = regenerate()
    print(json.dumps(r, indent=1))
