/-
  Ghost stamps (`lastStore`, `lastUse`) and the order of the eviction queue (core Lean only).

  Used by `Props/C07.lean`: under FIFO the queue is strictly increasing in the step index of the
  latest store of each key, under LRU in the step index of its latest use (store or successful
  lookup); every FIFO/LRU eviction pops the head of the queue, hence removes the minimum.
-/
import Cachelito.Lemmas.Inv

set_option linter.unusedSectionVars false
set_option linter.unusedSimpArgs false
set_option linter.unusedVariables false

namespace Cachelito
variable {K V S : Type} [DecidableEq K]

/-! ### Ghost stamps -/

/-- point update of a stamp map -/
def upd (f : K → Nat) (k : K) (v : Nat) : K → Nat := fun x => if x = k then v else f x

/-- Ghost bookkeeping that the implementation does not have: `n` = number of operations performed so
    far; `lastStore k` = 1-based index of the latest operation that stored `k` (`insert` /
    `insert_with_memory`), `lastUse k` = 1-based index of the latest operation that stored `k` or
    looked it up successfully; `0` = never. -/
structure Ghost (K : Type) where
  n : Nat
  lastStore : K → Nat
  lastUse : K → Nat

def Ghost.init : Ghost K := ⟨0, fun _ => 0, fun _ => 0⟩

/-- Ghost update for one operation.  It reads only the operation and the *output* the model
    produced for it (a lookup counts as a use iff it returned `some _`); it never reads the state. -/
def gstep (g : Ghost K) (op : Op K V) (o : Out V) : Ghost K :=
  match op with
  | .insert k _ => ⟨g.n + 1, upd g.lastStore k (g.n + 1), upd g.lastUse k (g.n + 1)⟩
  | .insertMem k _ => ⟨g.n + 1, upd g.lastStore k (g.n + 1), upd g.lastUse k (g.n + 1)⟩
  | .get k =>
    (match o with
     | .val (some _) => ⟨g.n + 1, g.lastStore, upd g.lastUse k (g.n + 1)⟩
     | _ => ⟨g.n + 1, g.lastStore, g.lastUse⟩)
  | _ => ⟨g.n + 1, g.lastStore, g.lastUse⟩

/-- the ghost as a fold over the operations of a history and the outputs observed for them -/
def ghostOf : Ghost K → List (Op K V) → List (Out V) → Ghost K
  | g, op :: ops, o :: os => ghostOf (gstep g op o) ops os
  | g, _, _ => g

/-- the stamps after a history run from the empty cache: a function of the history and of the
    outputs of `run` only -/
def stamps (cfg : Cfg) (tl : Tlru S) (size : V → Nat) (ops : List (Op K V × List Nat)) : Ghost K :=
  ghostOf Ghost.init (ops.map (·.1)) (run cfg tl size (State.init : State K V) ops).2

/-- ghost-augmented run (a proof device; `grun_eq` shows that it is `run` paired with `ghostOf`) -/
def grun (cfg : Cfg) (tl : Tlru S) (size : V → Nat) :
    State K V × Ghost K → List (Op K V × List Nat) → (State K V × Ghost K) × List (Out V)
  | sg, [] => (sg, [])
  | sg, (op, rs) :: ops =>
    let r := step cfg tl size rs sg.1 op
    let r2 := grun cfg tl size (r.1, gstep sg.2 op r.2) ops
    (r2.1, r.2 :: r2.2)

/-- erasing the ghost from the augmented run gives exactly `run`; the ghost component is `ghostOf`
    of the operations and the outputs of `run` -/
theorem grun_eq (cfg : Cfg) (tl : Tlru S) (size : V → Nat) (s : State K V) (g : Ghost K)
    (ops : List (Op K V × List Nat)) :
    grun cfg tl size (s, g) ops =
      (((run cfg tl size s ops).1, ghostOf g (ops.map (·.1)) (run cfg tl size s ops).2),
       (run cfg tl size s ops).2) := by
  induction ops generalizing s g with
  | nil => rfl
  | cons a ops ih =>
    obtain ⟨op, rs⟩ := a
    simp only [grun, run, List.map_cons, ghostOf]
    rw [ih]

theorem run_append (cfg : Cfg) (tl : Tlru S) (size : V → Nat) (s : State K V)
    (a b : List (Op K V × List Nat)) :
    run cfg tl size s (a ++ b) =
      ((run cfg tl size (run cfg tl size s a).1 b).1,
       (run cfg tl size s a).2 ++ (run cfg tl size (run cfg tl size s a).1 b).2) := by
  induction a generalizing s with
  | nil => rfl
  | cons x a ih =>
    obtain ⟨op, rs⟩ := x
    simp only [List.cons_append, run]
    rw [ih]

theorem run_length (cfg : Cfg) (tl : Tlru S) (size : V → Nat) (s : State K V)
    (ops : List (Op K V × List Nat)) : (run cfg tl size s ops).2.length = ops.length := by
  induction ops generalizing s with
  | nil => rfl
  | cons a ops ih =>
    obtain ⟨op, rs⟩ := a
    simp only [run, List.length_cons, ih]

theorem ghostOf_append (g : Ghost K) (a b : List (Op K V)) (oa ob : List (Out V))
    (h : oa.length = a.length) :
    ghostOf g (a ++ b) (oa ++ ob) = ghostOf (ghostOf g a oa) b ob := by
  induction a generalizing g oa with
  | nil =>
    cases oa with
    | nil => rfl
    | cons _ _ => simp at h
  | cons x a ih =>
    cases oa with
    | nil => simp at h
    | cons o oa =>
      simp only [List.cons_append, ghostOf]
      exact ih _ _ (by simpa using h)

/-- the stamps after one more operation are the stamps so far updated by `gstep` with the output of
    that operation -/
theorem stamps_snoc (cfg : Cfg) (tl : Tlru S) (size : V → Nat) (ops : List (Op K V × List Nat))
    (op : Op K V) (rs : List Nat) :
    (stamps cfg tl size (ops ++ [(op, rs)]) : Ghost K) =
      gstep (stamps cfg tl size ops) op
        (step cfg tl size rs (run cfg tl size (State.init : State K V) ops).1 op).2 := by
  unfold stamps
  rw [run_append, List.map_append, ghostOf_append _ _ _ _ _ (by rw [run_length, List.length_map])]
  simp only [run, List.map_cons, List.map_nil, ghostOf]

/-! ### Sorted queues -/

/-- the queue is strictly increasing in the stamp `f` (front = smallest) -/
abbrev SortedBy (f : K → Nat) (q : List K) : Prop := q.Pairwise (fun a b => f a < f b)

/-- the stamp that orders the queue: last use under LRU, last store otherwise (FIFO) -/
def Ghost.stamp (g : Ghost K) (p : Policy) : K → Nat :=
  match p with
  | .lru => g.lastUse
  | _ => g.lastStore

/-- The async engine refreshes recency on a hit only when a bound is configured
    (`async_global_cache.rs:369-383`).  This is the side condition of the LRU order invariant for the
    async flavour; without any bound nothing is ever evicted (`store_unbounded_keeps`). -/
def RefreshOK (cfg : Cfg) : Prop :=
  cfg.flavour = .async → cfg.policy = .lru → (cfg.limit.isSome || cfg.maxMem.isSome) = true

/-- all stamps lie in the past and the queue is sorted by the policy's stamp -/
def OrdInv (cfg : Cfg) (s : State K V) (g : Ghost K) : Prop :=
  (∀ x, g.lastStore x ≤ g.n) ∧ (∀ x, g.lastUse x ≤ g.n) ∧ SortedBy (g.stamp cfg.policy) s.queue

theorem ordInv_init (cfg : Cfg) : OrdInv cfg (State.init : State K V) (Ghost.init : Ghost K) := by
  refine ⟨fun _ => Nat.le_refl _, fun _ => Nat.le_refl _, ?_⟩
  simp [State.init, SortedBy]

/-- moving (or adding) `k` to the back with a fresh, larger stamp keeps the queue sorted -/
theorem sortedBy_upd_push {f : K → Nat} {q : List K} {n : Nat} (h : SortedBy f q) (hb : ∀ x, f x ≤ n) (k : K) :
    SortedBy (upd f k (n + 1)) (q.filter (fun x => x ≠ k) ++ [k]) := by
  rw [SortedBy, List.pairwise_append]
  refine ⟨?_, List.pairwise_singleton _ _, ?_⟩
  · refine List.Pairwise.imp_of_mem ?_ (List.Pairwise.filter _ h)
    intro a b ha hb' hab
    have ha' : a ≠ k := by simpa using (List.mem_filter.mp ha).2
    have hb'' : b ≠ k := by simpa using (List.mem_filter.mp hb').2
    simp only [upd, ha', hb'', if_false]; exact hab
  · intro a ha b hb'
    have ha' : a ≠ k := by simpa using (List.mem_filter.mp ha).2
    have : b = k := by simpa using hb'
    subst this
    simp only [upd, ha', if_false, if_true]
    have := hb a; omega

theorem sortedBy_sublist {f : K → Nat} {q q' : List K} (h : SortedBy f q) (hs : q'.Sublist q) :
    SortedBy f q' := List.Pairwise.sublist hs h

/-- in a sorted queue every key of a dropped prefix is older than every key of the remaining suffix -/
theorem older_of_suffix {f : K → Nat} {q q' : List K} (hs : SortedBy f q) (hsuf : q' <:+ q) :
    ∀ x y, x ∈ q → x ∉ q' → y ∈ q' → f x < f y := by
  obtain ⟨t, rfl⟩ := hsuf
  intro x y hx hnx hy
  rw [SortedBy, List.pairwise_append] at hs
  have hxt : x ∈ t := by
    rcases List.mem_append.mp hx with h | h
    · exact h
    · exact absurd h hnx
  exact hs.2.2 x hxt y hy

theorem suffix_append_right {a b : List K} (h : a <:+ b) (c : List K) : a ++ c <:+ b ++ c := by
  obtain ⟨t, rfl⟩ := h
  exact ⟨t, by simp⟩

/-! ### Queue shapes -/

theorem erasePush_eq {q : List K} (h : q.Nodup) (k : K) :
    erasePush k q = q.filter (fun x => x ≠ k) ++ [k] := by
  unfold erasePush; rw [erase_eq_filter_of_nodup h]

theorem moveToEnd_eq {q : List K} (h : q.Nodup) {k : K} (hk : k ∈ q) :
    moveToEnd k q = q.filter (fun x => x ≠ k) ++ [k] := by
  unfold moveToEnd; rw [if_pos hk, erase_eq_filter_of_nodup h]

theorem filter_ne_of_not_mem {q : List K} {k : K} (hk : k ∉ q) : q.filter (fun x => x ≠ k) = q := by
  apply List.filter_eq_self.mpr
  intro x hx; simp; intro hh; exact hk (hh ▸ hx)

/-- the async prologue leaves the queue without `k` -/
theorem asyncDrop_queue {m : Store K V} {q : List K} (h : InvMQ m q) (k : K) :
    (if hasKey k m then (eraseKey k m, q.filter (fun x => x ≠ k)) else (m, q)).2 =
      q.filter (fun x => x ≠ k) := by
  split
  · rfl
  · rename_i hh
    have hk : k ∉ keys m := (hasKey_false_iff k m).mp (by simpa using hh)
    have hq : k ∉ q := fun hq => hk ((h.2.2 k).mp hq)
    exact (filter_ne_of_not_mem hq).symm

/-- a FIFO hit leaves the queue alone (all flavours) -/
theorem hitUpdate_queue_fifo (cfg : Cfg) (hp : cfg.policy = .fifo) (k : K) (m : Store K V) (q : List K) :
    (hitUpdate cfg k m q).2 = q := by
  unfold hitUpdate
  cases cfg.flavour <;> simp [hp, Policy.refreshes]

/-- an LRU hit moves the key to the back (async: provided a bound is configured) -/
theorem hitUpdate_queue_lru (cfg : Cfg) (hp : cfg.policy = .lru) (hok : RefreshOK cfg) {k : K}
    {m : Store K V} {q : List K} (h : InvMQ m q) (hk : k ∈ keys m) :
    (hitUpdate cfg k m q).2 = q.filter (fun x => x ≠ k) ++ [k] := by
  have hkq : k ∈ q := (h.2.2 k).mpr hk
  unfold hitUpdate
  cases hf : cfg.flavour <;> simp only [hp, Policy.refreshes, Policy.bumps, if_true, Bool.false_eq_true, if_false]
  · exact moveToEnd_eq h.2.1 hkq
  · exact moveToEnd_eq h.2.1 hkq
  · have hb := hok hf hp
    have hh : hasKey k m = true := (hasKey_iff k m).mpr hk
    simp only [hb, hh, Bool.and_self, if_true]
    rfl

/-! ### FIFO/LRU evictions pop the queue head -/

theorem popStored_suffix (m : Store K V) (q : List K) : (popStored m q).2.1 <:+ q := by
  induction q with
  | nil => exact List.suffix_refl _
  | cons k q ih =>
    simp only [popStored]
    split
    · exact List.suffix_cons k q
    · exact List.IsSuffix.trans ih (List.suffix_cons k q)

theorem popOne_suffix (m : Store K V) (q : List K) : (popOne m q).2.1 <:+ q := by
  cases q with
  | nil => exact List.suffix_refl _
  | cons k q => exact List.suffix_cons k q

/-- under the bookkeeping invariant `popStored` removes exactly the queue head -/
theorem popStored_head {m : Store K V} {k : K} {rest : List K} (h : InvMQ m (k :: rest)) :
    popStored m (k :: rest) = (eraseKey k m, rest, true) := by
  have hk : hasKey k m = true := (hasKey_iff k m).mpr ((h.2.2 k).mp List.mem_cons_self)
  simp only [popStored, hk, if_true]

/-- one entry-limit eviction under FIFO/LRU removes exactly the queue head -/
theorem evictLimit_head {cfg : Cfg} (hp : cfg.policy = .fifo ∨ cfg.policy = .lru) (tl : Tlru S) (now r : Nat)
    {m : Store K V} {k : K} {rest : List K} (h : InvMQ m (k :: rest)) :
    evictLimit cfg tl now r m (k :: rest) = (eraseKey k m, rest, true) := by
  unfold evictLimit
  rcases hp with hp | hp <;> simp only [hp] <;> exact popStored_head h

/-- one memory-loop eviction under FIFO/LRU removes exactly the queue head -/
theorem evictMem_head {cfg : Cfg} (hp : cfg.policy = .fifo ∨ cfg.policy = .lru) (tl : Tlru S) (now r : Nat)
    {m : Store K V} {k : K} {rest : List K} (h : InvMQ m (k :: rest)) :
    evictMem cfg tl now r m (k :: rest) = (eraseKey k m, rest, true) := by
  unfold evictMem
  rcases hp with hp | hp <;> simp only [hp] <;> cases cfg.flavour <;> simp only <;>
    first | exact popStored_head h | rfl

theorem evictLimit_suffix {cfg : Cfg} (hp : cfg.policy = .fifo ∨ cfg.policy = .lru) (tl : Tlru S) (now r : Nat)
    (m : Store K V) (q : List K) : (evictLimit cfg tl now r m q).2.1 <:+ q := by
  unfold evictLimit
  rcases hp with hp | hp <;> simp only [hp] <;> exact popStored_suffix m q

theorem evictMem_suffix {cfg : Cfg} (hp : cfg.policy = .fifo ∨ cfg.policy = .lru) (tl : Tlru S) (now r : Nat)
    (m : Store K V) (q : List K) : (evictMem cfg tl now r m q).2.1 <:+ q := by
  unfold evictMem
  rcases hp with hp | hp <;> simp only [hp] <;> cases cfg.flavour <;> simp only <;>
    first | exact popStored_suffix m q | exact popOne_suffix m q

/-- the entry-limit step under FIFO/LRU leaves a suffix of the queue -/
theorem limitStep_suffix {cfg : Cfg} (hp : cfg.policy = .fifo ∨ cfg.policy = .lru) (tl : Tlru S) (now r : Nat)
    (m : Store K V) (q : List K) : (limitStep cfg tl now r m q).2 <:+ q := by
  unfold limitStep
  cases cfg.limit with
  | none => exact List.suffix_refl _
  | some n =>
    simp only
    split
    · exact evictLimit_suffix hp tl now r m q
    · exact List.suffix_refl _

/-- the memory loop under FIFO/LRU leaves a suffix of the queue -/
theorem memLoop_suffix {cfg : Cfg} (hp : cfg.policy = .fifo ∨ cfg.policy = .lru) (tl : Tlru S) (size : V → Nat)
    (now maxM extra fuel : Nat) (rs : List Nat) (m : Store K V) (q : List K) :
    (memLoop cfg tl size now maxM extra fuel rs m q).2.1 <:+ q := by
  induction fuel generalizing rs m q with
  | zero => exact List.suffix_refl _
  | succ fuel ih =>
    simp only [memLoop]
    split
    · exact List.suffix_refl _
    · have hs := evictMem_suffix hp tl now (rs.headD 0) m q
      generalize evictMem cfg tl now (rs.headD 0) m q = r at hs
      obtain ⟨m', q', ev⟩ := r
      simp only at hs ⊢
      cases ev
      · exact hs
      · exact List.IsSuffix.trans (ih rs.tail m' q') hs

/-- **Entry-limit pressure, one step.**  In a consistent store whose queue is sorted by `f`, every key
    removed by the FIFO/LRU entry-limit step has a smaller `f` than every key that survives it. -/
theorem limitStep_victim_oldest {cfg : Cfg} (hp : cfg.policy = .fifo ∨ cfg.policy = .lru) (tl : Tlru S)
    (now r : Nat) {m : Store K V} {q : List K} (h : InvMQ m q) {f : K → Nat} (hs : SortedBy f q) :
    ∀ x y, x ∈ keys m → x ∉ keys (limitStep cfg tl now r m q).1 → y ∈ keys (limitStep cfg tl now r m q).1 →
      f x < f y := by
  intro x y hx hnx hy
  have h' := limitStep_inv h cfg tl now r
  exact older_of_suffix hs (limitStep_suffix hp tl now r m q) x y ((h.2.2 x).mpr hx)
    (fun hh => hnx ((h'.2.2 x).mp hh)) ((h'.2.2 y).mpr hy)

/-- **Memory pressure, the whole loop.**  In a consistent store whose queue is sorted by `f`, every
    key removed by the FIFO/LRU memory loop (possibly several) has a smaller `f` than every key that
    survives it. -/
theorem memLoop_victims_oldest {cfg : Cfg} (hp : cfg.policy = .fifo ∨ cfg.policy = .lru) (tl : Tlru S)
    (size : V → Nat) (now maxM extra fuel : Nat) (rs : List Nat) {m : Store K V} {q : List K} (h : InvMQ m q)
    {f : K → Nat} (hs : SortedBy f q) :
    ∀ x y, x ∈ keys m → x ∉ keys (memLoop cfg tl size now maxM extra fuel rs m q).1 →
      y ∈ keys (memLoop cfg tl size now maxM extra fuel rs m q).1 → f x < f y := by
  intro x y hx hnx hy
  have h' := memLoop_inv cfg tl size now maxM extra fuel rs h
  exact older_of_suffix hs (memLoop_suffix hp tl size now maxM extra fuel rs m q) x y ((h.2.2 x).mpr hx)
    (fun hh => hnx ((h'.2.2 x).mp hh)) ((h'.2.2 y).mpr hy)

/-! ### Shape of the queue after a store -/

/-- `insert_with_memory` takes the oversize path (`size v > max_memory`: the value is not cached and
    an existing entry for the key is dropped) -/
def oversize (cfg : Cfg) (size : V → Nat) (v : V) : Bool :=
  match cfg.maxMem with
  | some maxM => decide (size v > maxM)
  | none => false

/-- FIFO/LRU plain store: the new queue is a suffix of "old queue without `k`, then `k`" -/
theorem insert_queue_suffix {cfg : Cfg} (hp : cfg.policy = .fifo ∨ cfg.policy = .lru) (tl : Tlru S) (r : Nat)
    {s : State K V} (h : Inv s) (k : K) (v : V) :
    (insert cfg tl r s k v).queue <:+ s.queue.filter (fun x => x ≠ k) ++ [k] := by
  unfold insert
  cases hf : cfg.flavour <;> simp only
  case async =>
    have hq0 := asyncDrop_queue h k
    generalize (if hasKey k s.store then (eraseKey k s.store, s.queue.filter (fun x => x ≠ k))
      else (s.store, s.queue)) = p at hq0
    obtain ⟨m0, q0⟩ := p
    simp only at hq0 ⊢
    rw [← hq0]
    exact suffix_append_right (limitStep_suffix hp tl s.now r m0 q0) [k]
  all_goals
    rw [← erasePush_eq h.2.1 k]
    exact limitStep_suffix hp tl s.now r _ _

/-- FIFO/LRU memory-aware store that is not oversize: same shape -/
theorem insertMem_queue_suffix {cfg : Cfg} (hp : cfg.policy = .fifo ∨ cfg.policy = .lru) (tl : Tlru S)
    (size : V → Nat) (rs : List Nat) {s : State K V} (h : Inv s) (k : K) (v : V)
    (hno : oversize cfg size v = false) :
    (insertMem cfg tl size rs s k v).queue <:+ s.queue.filter (fun x => x ≠ k) ++ [k] := by
  unfold insertMem
  unfold oversize at hno
  cases hf : cfg.flavour <;> simp only
  case async =>
    have hq0 := asyncDrop_queue h k
    generalize (if hasKey k s.store then (eraseKey k s.store, s.queue.filter (fun x => x ≠ k))
      else (s.store, s.queue)) = p at hq0
    obtain ⟨m0, q0⟩ := p
    simp only at hq0 ⊢
    rw [← hq0]
    cases hm : cfg.maxMem with
    | none => exact suffix_append_right (limitStep_suffix hp tl s.now _ m0 q0) [k]
    | some maxM =>
      rw [hm] at hno
      have hno' : ¬ size v > maxM := by simpa using hno
      simp only [hno', if_false]
      have h1 := memLoop_suffix hp tl size s.now maxM (size v) (q0.length + 1) rs m0 q0
      generalize memLoop cfg tl size s.now maxM (size v) (q0.length + 1) rs m0 q0 = r1 at h1
      obtain ⟨m1, q1, rs1⟩ := r1
      simp only at h1 ⊢
      exact suffix_append_right (List.IsSuffix.trans (limitStep_suffix hp tl s.now _ m1 q1) h1) [k]
  all_goals
    rw [← erasePush_eq h.2.1 k]
    cases hm : cfg.maxMem with
    | none => exact limitStep_suffix hp tl s.now _ _ _
    | some maxM =>
      rw [hm] at hno
      have hno' : ¬ size v > maxM := by simpa using hno
      simp only [hno', if_false]
      have h1 := memLoop_suffix hp tl size s.now maxM 0 ((erasePush k s.queue).length + 1) rs
        (put k ⟨v, stamp cfg s.now, 0⟩ s.store) (erasePush k s.queue)
      generalize memLoop cfg tl size s.now maxM 0 ((erasePush k s.queue).length + 1) rs
        (put k ⟨v, stamp cfg s.now, 0⟩ s.store) (erasePush k s.queue) = r1 at h1
      obtain ⟨m1, q1, rs1⟩ := r1
      simp only at h1 ⊢
      exact List.IsSuffix.trans (limitStep_suffix hp tl s.now _ m1 q1) h1

/-- oversize path: the queue simply loses `k` -/
theorem insertMem_oversize_queue (cfg : Cfg) (tl : Tlru S) (size : V → Nat) (rs : List Nat) {s : State K V}
    (h : Inv s) (k : K) (v : V) (hov : oversize cfg size v = true) :
    (insertMem cfg tl size rs s k v).queue = s.queue.filter (fun x => x ≠ k) := by
  unfold insertMem
  unfold oversize at hov
  cases hm : cfg.maxMem with
  | none => rw [hm] at hov; cases hov
  | some maxM =>
    rw [hm] at hov
    have hov' : size v > maxM := by simpa using hov
    cases hf : cfg.flavour <;> simp only [hov', if_true]
    case async => exact asyncDrop_queue h k
    all_goals
      rw [dropLast_erasePush, erase_eq_filter_of_nodup h.2.1]

/-- FIFO/LRU: after any store of `k` the queue is a sublist of "old queue without `k`, then `k`" -/
theorem insertMem_queue_sublist {cfg : Cfg} (hp : cfg.policy = .fifo ∨ cfg.policy = .lru) (tl : Tlru S)
    (size : V → Nat) (rs : List Nat) {s : State K V} (h : Inv s) (k : K) (v : V) :
    (insertMem cfg tl size rs s k v).queue.Sublist (s.queue.filter (fun x => x ≠ k) ++ [k]) := by
  cases hov : oversize cfg size v
  · exact (insertMem_queue_suffix hp tl size rs h k v hov).sublist
  · rw [insertMem_oversize_queue cfg tl size rs h k v hov]
    exact List.sublist_append_left _ _

/-! ### The order invariant is preserved by every operation -/

theorem stamp_store (g : Ghost K) (p : Policy) (k : K) :
    (⟨g.n + 1, upd g.lastStore k (g.n + 1), upd g.lastUse k (g.n + 1)⟩ : Ghost K).stamp p =
      upd (g.stamp p) k (g.n + 1) := by
  cases p <;> rfl

theorem bounds_upd {f : K → Nat} {n : Nat} (h : ∀ x, f x ≤ n) (k : K) : ∀ x, upd f k (n + 1) x ≤ n + 1 := by
  intro x; unfold upd; split
  · exact Nat.le_refl _
  · exact Nat.le_succ_of_le (h x)

theorem bounds_succ {f : K → Nat} {n : Nat} (h : ∀ x, f x ≤ n) : ∀ x, f x ≤ n + 1 :=
  fun x => Nat.le_succ_of_le (h x)

theorem get_ordInv {cfg : Cfg} (hp : cfg.policy = .fifo ∨ cfg.policy = .lru) (hok : RefreshOK cfg)
    {s : State K V} {g : Ghost K} (hi : Inv s) (ho : OrdInv cfg s g) (k : K) :
    OrdInv cfg (get cfg s k).1 (gstep g (.get k : Op K V) (.val (get cfg s k).2)) := by
  obtain ⟨hb1, hb2, hs⟩ := ho
  unfold get
  cases hl : lookup k s.store with
  | none => exact ⟨bounds_succ hb1, bounds_succ hb2, hs⟩
  | some e =>
    simp only
    split
    · refine ⟨bounds_succ hb1, bounds_succ hb2, ?_⟩
      simp only [gstep, removeBoth_eq hi cfg k]
      exact List.Pairwise.filter _ hs
    · have hk : k ∈ keys s.store := by
        apply Classical.byContradiction; intro hn
        rw [(lookup_eq_none_iff _ _).mpr hn] at hl; cases hl
      simp only [gstep]
      refine ⟨bounds_succ hb1, bounds_upd hb2 k, ?_⟩
      rcases hp with hp | hp
      · simp only [hitUpdate_queue_fifo cfg hp]
        rw [hp] at hs ⊢; exact hs
      · simp only [hitUpdate_queue_lru cfg hp hok hi hk]
        rw [hp] at hs ⊢
        exact sortedBy_upd_push hs hb2 k

theorem insert_ordInv {cfg : Cfg} (hp : cfg.policy = .fifo ∨ cfg.policy = .lru) (tl : Tlru S) (r : Nat)
    {s : State K V} {g : Ghost K} (hi : Inv s) (ho : OrdInv cfg s g) (k : K) (v : V) (o : Out V) :
    OrdInv cfg (insert cfg tl r s k v) (gstep g (.insert k v : Op K V) o) := by
  obtain ⟨hb1, hb2, hs⟩ := ho
  simp only [gstep]
  refine ⟨bounds_upd hb1 k, bounds_upd hb2 k, ?_⟩
  rw [stamp_store]
  have hb : ∀ x, g.stamp cfg.policy x ≤ g.n := by
    rcases hp with hp | hp <;> rw [hp] <;> assumption
  exact sortedBy_sublist (sortedBy_upd_push hs hb k) (insert_queue_suffix hp tl r hi k v).sublist

theorem insertMem_ordInv {cfg : Cfg} (hp : cfg.policy = .fifo ∨ cfg.policy = .lru) (tl : Tlru S)
    (size : V → Nat) (rs : List Nat) {s : State K V} {g : Ghost K} (hi : Inv s) (ho : OrdInv cfg s g)
    (k : K) (v : V) (o : Out V) :
    OrdInv cfg (insertMem cfg tl size rs s k v) (gstep g (.insertMem k v : Op K V) o) := by
  obtain ⟨hb1, hb2, hs⟩ := ho
  simp only [gstep]
  refine ⟨bounds_upd hb1 k, bounds_upd hb2 k, ?_⟩
  rw [stamp_store]
  have hb : ∀ x, g.stamp cfg.policy x ≤ g.n := by
    rcases hp with hp | hp <;> rw [hp] <;> assumption
  exact sortedBy_sublist (sortedBy_upd_push hs hb k) (insertMem_queue_sublist hp tl size rs hi k v)

theorem invalidateWith_queue_sublist (p : K → Bool) {s : State K V} (h : Inv s) :
    (invalidateWith p s).queue.Sublist s.queue := by
  unfold invalidateWith
  simp only
  rw [foldl_erase_eq_filter _ h.2.1]
  exact List.filter_sublist

/-- **Every operation preserves the order invariant** (FIFO: all flavours; LRU: sync flavours, and the
    async flavour when a bound is configured). -/
theorem step_ordInv {cfg : Cfg} (hp : cfg.policy = .fifo ∨ cfg.policy = .lru) (hok : RefreshOK cfg)
    (tl : Tlru S) (size : V → Nat) (rs : List Nat) {s : State K V} {g : Ghost K} (hi : Inv s)
    (ho : OrdInv cfg s g) (op : Op K V) :
    OrdInv cfg (step cfg tl size rs s op).1 (gstep g op (step cfg tl size rs s op).2) := by
  cases op with
  | get k => exact get_ordInv hp hok hi ho k
  | insert k v => exact insert_ordInv hp tl _ hi ho k v _
  | insertMem k v => exact insertMem_ordInv hp tl size rs hi ho k v _
  | clear =>
    obtain ⟨hb1, hb2, hs⟩ := ho
    exact ⟨bounds_succ hb1, bounds_succ hb2, by simp [step, clear, SortedBy]⟩
  | invalidateWith p =>
    obtain ⟨hb1, hb2, hs⟩ := ho
    exact ⟨bounds_succ hb1, bounds_succ hb2, sortedBy_sublist hs (invalidateWith_queue_sublist p hi)⟩
  | tick ms =>
    obtain ⟨hb1, hb2, hs⟩ := ho
    exact ⟨bounds_succ hb1, bounds_succ hb2, hs⟩

theorem grun_inv {cfg : Cfg} (hp : cfg.policy = .fifo ∨ cfg.policy = .lru) (hok : RefreshOK cfg)
    (tl : Tlru S) (size : V → Nat) (ops : List (Op K V × List Nat)) {s : State K V} {g : Ghost K}
    (hi : Inv s) (ho : OrdInv cfg s g) :
    Inv (grun cfg tl size (s, g) ops).1.1 ∧
      OrdInv cfg (grun cfg tl size (s, g) ops).1.1 (grun cfg tl size (s, g) ops).1.2 := by
  induction ops generalizing s g with
  | nil => exact ⟨hi, ho⟩
  | cons a ops ih =>
    obtain ⟨op, rs⟩ := a
    simp only [grun]
    exact ih (step_inv cfg tl size rs s op hi) (step_ordInv hp hok tl size rs hi ho op)

/-- the order invariant holds after every history run from the empty cache -/
theorem run_ordInv {cfg : Cfg} (hp : cfg.policy = .fifo ∨ cfg.policy = .lru) (hok : RefreshOK cfg)
    (tl : Tlru S) (size : V → Nat) (ops : List (Op K V × List Nat)) :
    OrdInv cfg (run cfg tl size (State.init : State K V) ops).1 (stamps cfg tl size ops) := by
  have := (grun_inv hp hok tl size ops (inv_init (K := K) (V := V)) (ordInv_init cfg)).2
  rw [grun_eq] at this
  exact this

/-! ### Victims are older than survivors, for a whole store operation -/

/-- a store operation of `k` that does not take the oversize path -/
def IsStore (cfg : Cfg) (size : V → Nat) (op : Op K V) (k : K) : Prop :=
  (∃ v, op = .insert k v) ∨ (∃ v, op = .insertMem k v ∧ oversize cfg size v = false)

/-- **One store, any pressure.**  From a consistent state whose queue is sorted by the policy's stamp,
    a FIFO/LRU store (plain or memory-aware, not oversize) removes only keys whose stamp is smaller
    than the stamp of every key held afterwards (survivors and the newcomer, which carries the
    freshest stamp). -/
theorem store_victims_older {cfg : Cfg} (hp : cfg.policy = .fifo ∨ cfg.policy = .lru) (tl : Tlru S)
    (size : V → Nat) (rs : List Nat) {s : State K V} {g : Ghost K} (hi : Inv s) (ho : OrdInv cfg s g)
    {op : Op K V} {k : K} (hop : IsStore cfg size op k) :
    ∀ x y, x ∈ keys s.store → x ∉ keys (step cfg tl size rs s op).1.store →
      y ∈ keys (step cfg tl size rs s op).1.store →
      (gstep g op (step cfg tl size rs s op).2).stamp cfg.policy x <
        (gstep g op (step cfg tl size rs s op).2).stamp cfg.policy y := by
  obtain ⟨hb1, hb2, hs⟩ := ho
  have hb : ∀ x, g.stamp cfg.policy x ≤ g.n := by
    rcases hp with hp | hp <;> rw [hp] <;> assumption
  have hsorted := sortedBy_upd_push hs hb k
  have hi' := step_inv cfg tl size rs s op hi
  have key : (step cfg tl size rs s op).1.queue <:+ s.queue.filter (fun x => x ≠ k) ++ [k] ∧
      (gstep g op (step cfg tl size rs s op).2).stamp cfg.policy = upd (g.stamp cfg.policy) k (g.n + 1) := by
    rcases hop with ⟨v, rfl⟩ | ⟨v, rfl, hno⟩
    · exact ⟨insert_queue_suffix hp tl _ hi k v, by simp only [gstep]; exact stamp_store g _ k⟩
    · exact ⟨insertMem_queue_suffix hp tl size rs hi k v hno, by simp only [gstep]; exact stamp_store g _ k⟩
  intro x y hx hnx hy
  rw [key.2]
  have hxq : x ∈ s.queue.filter (fun x => x ≠ k) ++ [k] := by
    have : x ∈ s.queue := (hi.2.2 x).mpr hx
    by_cases hxk : x = k
    · simp [hxk]
    · simp [this, hxk]
  exact older_of_suffix hsorted key.1 x y hxq (fun hh => hnx ((hi'.2.2 x).mp hh)) ((hi'.2.2 y).mpr hy)

/-- without any bound a store removes nothing (all flavours, all policies) -/
theorem store_unbounded_keeps (cfg : Cfg) (hl : cfg.limit = none) (hm : cfg.maxMem = none) (tl : Tlru S)
    (size : V → Nat) (rs : List Nat) (s : State K V) {op : Op K V} {k : K} (hop : IsStore cfg size op k) :
    ∀ x, x ∈ keys s.store → x ∈ keys (step cfg tl size rs s op).1.store := by
  intro x hx
  have hput : ∀ (e : Entry V), x ∈ keys (put k e s.store) := by
    intro e; rw [keys_put]
    by_cases hxk : x = k
    · simp [hxk]
    · simp [hx, hxk]
  have hput' : ∀ (e : Entry V), x ∈ keys (put k e (eraseKey k s.store)) := by
    intro e; rw [keys_put, keys_eraseKey]
    by_cases hxk : x = k
    · simp [hxk]
    · simp [hx, hxk]
  rcases hop with ⟨v, rfl⟩ | ⟨v, rfl, _⟩
  · simp only [step, insert, limitStep, hl]
    cases cfg.flavour <;> simp only
    case async => split <;> simp only <;> first | exact hput' _ | exact hput _
    all_goals exact hput _
  · simp only [step, insertMem, limitStep, hl, hm]
    cases cfg.flavour <;> simp only
    case async => split <;> simp only <;> first | exact hput' _ | exact hput _
    all_goals exact hput _

end Cachelito
