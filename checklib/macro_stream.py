"""L2 stream: real `#[cache]` / `#[cache_async]` generated functions and registries vs `Cachelito.sysStep`,
plus the wrapper/system-level property monitors evaluated directly on the implementation's observations."""
import os, re, subprocess, sys, time
from concurrent.futures import ThreadPoolExecutor

import common

CORPUS_SEED = 1
CORPUS_N = 138

HEX_OK = "4f6b28"      # Ok(
HEX_ERR = "45727228"   # Err(


def ensure_corpus():
    path = os.path.join(common.HARNESS, "gen", "corpus.rs")
    subprocess.run([sys.executable, os.path.join(common.ROOT, "checklib", "gen_corpus.py"), str(CORPUS_SEED), str(CORPUS_N), path],
                   check=True, stdout=subprocess.DEVNULL)


def specs():
    rc, out, _ = common.sh([os.path.join(common.BIN, "macro_diff"), "specs"])
    res = {}
    for line in out.splitlines():
        p = line.split("|")
        if p[0] != "F":
            continue
        cfg = p[5].split(" ")
        res[int(p[1])] = dict(idx=int(p[1]), name=p[2], is_async=p[3] == "1", thread=p[4] == "1", flavour=cfg[0], policy=cfg[1],
                              limit=None if cfg[2] == "-" else int(cfg[2]), maxmem=None if cfg[3] == "-" else int(cfg[3]),
                              ttl=None if cfg[4] == "-" else int(cfg[4]), use_mem=p[6] == "1", is_result=p[7] == "1",
                              cache_if=p[8] == "1", inv_on=p[9] == "1", tags=[x for x in p[10].split(",") if x],
                              events=[x for x in p[11].split(",") if x], deps=[x for x in p[12].split(",") if x], line=line,
                              real_result=(len(p) > 15 and p[15] == "1"))
    return out, res


def parse_dumps(s):
    d = {}
    for part in s.split("@"):
        lbl, _, body = part.partition("=")
        if body == "-":
            d[lbl] = None
            continue
        es, _, q = body.partition("#")
        entries = {}
        order = []
        for e in es.split(";"):
            if not e:
                continue
            k, _, r = e.partition("=")
            v, sz, age, hits = r.split(",")
            entries[k] = (v, int(sz), int(age), int(hits))
            order.append(k)
        d[lbl] = (entries, [x for x in q.split(",") if x])
    return d


def parse_out(o):
    f = {}
    m = re.match(r"would=(\S+) ret=(\S*) (\S+) exec=(\d+) pred=\[(.*?)\] check=\[(.*?)\] stats=(\S+)$", o)
    if m:
        wv, wsz, wok = m.group(1).split(",")
        f.update(kind="call", would=wv, wsize=int(wsz), wok=wok == "1", key=m.group(2), ret=m.group(3), execs=int(m.group(4)),
                 pred=[x.split(":") for x in m.group(5).split(";") if x], check=[x.split(":") for x in m.group(6).split(";") if x],
                 stats=None if m.group(7) == "-" else tuple(int(x) for x in m.group(7).split(",")))
        return f
    m = re.match(r"would=(\S+) susp=(\S*) exec=(\d+) check=\[(.*?)\] stats=(\S+) blocked=(\d)$", o)
    if m:
        wv, wsz, wok = m.group(1).split(",")
        return dict(kind="suspended", would=wv, wsize=int(wsz), wok=wok == "1", key=m.group(2), execs=int(m.group(3)),
                    check=[x.split(":") for x in m.group(4).split(";") if x],
                    stats=None if m.group(5) == "-" else tuple(int(x) for x in m.group(5).split(",")), blocked=m.group(6) == "1")
    m = re.match(r"ret=(\S*) (\S+) exec=(\d+) pred=\[(.*?)\] check=\[(.*?)\] stats=(\S+)$", o)
    if m:
        return dict(kind="resumed", key=m.group(1), ret=m.group(2), execs=int(m.group(3)),
                    pred=[x.split(":") for x in m.group(4).split(";") if x],
                    stats=None if m.group(6) == "-" else tuple(int(x) for x in m.group(6).split(",")))
    if o == "nosuchcall":
        return dict(kind="nosuchcall")
    if o.startswith("count="):
        return dict(kind="count", n=int(o[6:]))
    if o.startswith("flag="):
        return dict(kind="flag", b=o[5:] == "1")
    if o.startswith("stats="):
        return dict(kind="stats", stats=None if o[6:] == "-" else tuple(int(x) for x in o[6:].split(",")))
    return dict(kind="unit")


class EpisodeMonitor:
    """ghost history of one episode + the monitors; `fail(id, msg)` records a false monitor"""

    def __init__(self, spec, fns, det, report):
        self.spec, self.fns, self.det, self.report = spec, fns, det, report
        self.step = 0
        self.called = set()             # global/async functions called at least once (registered)
        self.prev = None                # dumps after the previous op
        self.stats = {}                 # name -> (hits, misses) expected
        self.seen_keys = {}             # (fn, inst) -> set of keys called
        self.invalidated = set()        # fn idx touched by any invalidation so far
        self.rejected = {}              # (fn, inst, key) -> last execution was rejected by cache_if / Err
        self.events = {}
        self.suspended = {}             # id -> (fn, key, would value, check-said-stale) of calls suspended in their body

    def ev(self, e):
        self.events[e] = self.events.get(e, 0) + 1

    def fail(self, pid, msg):
        self.report(pid, self.step, msg)
        # C19: an attribute that is not honoured "as written" is also a failure of the attribute surface
        if pid in ("C10", "C11", "C12"):
            self.report("C19", self.step, {"C10": "cache_if", "C11": "invalidate_on", "C12": "tags/events/dependencies"}[pid]
                        + " does not take effect as written: " + msg)

    def attrs_effect(self, op, s, inst, key, o, prev, dumps):
        """C19: limit / ttl written on the attribute govern the generated function's own cache instance"""
        d = dumps.get(inst)
        if d is not None and s["limit"] is not None and s["limit"] > 0 and len(d[0]) > s["limit"]:
            self.fail("C19", f"{op}: limit = {s['limit']} is written on the function, its cache holds {len(d[0])} entries afterwards")
        before = prev.get(inst) if prev is not None else None
        if before and s["ttl"] is not None and key in before[0] and o.get("execs") is not None and o["kind"] == "call":
            age = before[0][key][2]
            if age >= 1000 * s["ttl"]:
                self.ev("c19-ttl-expired-call")
                if o["execs"] == 0:
                    self.fail("C19", f"{op}: ttl = {s['ttl']} is written on the function, an entry of age {age} ms was served")
            elif age + 2000 <= 1000 * s["ttl"] and not s["inv_on"]:
                self.ev("c19-ttl-live-call")
                if o["execs"] != 0:
                    self.fail("C19", f"{op}: ttl = {s['ttl']} is written on the function, a cached entry of age {age} ms was not served")

        # C08 / C19: an async LFU / ARC / TLRU cache with an entry limit evicts, on the store of a NEW key into a FULL cache, the entry
        # with the lowest documented score — hits (LFU), hits x rank (ARC), hits^frequency_weight x rank (TLRU, no ttl) — the weight
        # being the one WRITTEN on the attribute, wherever in the list it stands
        if before and d is not None and s["is_async"] and s["policy"] in ("lfu", "arc", "tlru") and s["limit"] and not s["use_mem"] \
                and s["ttl"] is None and o.get("kind") == "call" and o.get("execs") == 1 and key not in before[0] and key in d[0] \
                and len(before[0]) == s["limit"] and set(before[1]) == set(before[0]) and len(before[1]) == len(before[0]):
            removed = [k for k in before[0] if k not in d[0]]
            if len(removed) == 1:
                fwtxt = s["line"].split("|")[5].split(" ")[5]
                import struct
                fw = None if fwtxt == "-" else struct.unpack("<d", struct.pack("<Q", int(fwtxt)))[0]     # the spec carries the f64's bits
                def score(idx, k):
                    hits = before[0][k][3]
                    if s["policy"] == "lfu":
                        return float(hits)
                    if s["policy"] == "arc" or fw is None:
                        return float(hits) * (idx + 1)
                    try:
                        w = (float(hits) ** fw) if hits > 0 else 0.0
                    except OverflowError:       # Rust's powf saturates to +inf
                        w = float("inf")
                    return w * (idx + 1)
                sc = [(score(i, k), i, k) for i, k in enumerate(before[1])]
                best = min(sc)
                vict = [x for x in sc if x[2] == removed[0]][0]
                self.ev("c08-l2-victim-checked")
                # decisive only: the evicted entry's score is clearly above the minimum (no verdict on ties / near ties)
                if vict[0] != float("inf") and best[0] != float("inf") and vict[0] > best[0] * (1 + 1e-9) + 1e-12:
                    msg = (f"{op}: async {s['policy']} cache (limit {s['limit']}, frequency_weight {fw}) evicted {removed[0][:20]} with documented score "
                           f"{vict[0]:.6g} although {best[2][:20]} scores {best[0]:.6g}")
                    self.fail("C08", msg)
                    self.fail("C19", msg + " — the attribute values do not govern the eviction as written")

    def async_consistent(self, op, inst, dumps):
        """C20: an async cache is consistent at every point a call can be suspended, dropped or resumed"""
        d = dumps.get(inst)
        if d is None:
            return
        orphans = [k for k in d[1] if k not in d[0]]
        dups = len(d[1]) != len(set(d[1]))
        if orphans or dups:
            self.fail("C20", f"{op}: the cache is left inconsistent at the suspension point: order slots without entry {orphans[:3]}"
                      + (", duplicate slots" if dups else ""))

    def registered(self, i):
        return i in self.called and not self.spec[i]["thread"]

    def has_clear(self, i):
        s = self.spec[i]
        return self.registered(i) and (s["tags"] or s["events"] or s["deps"])

    def observe(self, op, out, dumps):
        self.step += 1
        p = op.split(" ")
        o = parse_out(out)
        prev = self.prev
        if "PANIC" in out:
            # C16: no operation on a generated function (call, invalidation, statistics) may panic
            self.fail("C16", f"{op}: the operation panicked: {out[:200]}")
            return
        if p[0] == "call":
            fi, th = int(p[1]), int(p[2])
            s = self.spec[fi]
            inst = f"{fi}:{th}" if s["thread"] else f"{fi}:g"
            key = o["key"]
            ci, io = p[7] == "1", p[8] == "1"
            hit_lookup = o["execs"] == 0 or len(o["check"]) > 0
            self.ev("call"); self.ev("hit" if o["execs"] == 0 else "exec")
            # C01: deterministic body => returned value = what the body returns for these arguments
            if self.det and o["ret"] != o["would"]:
                self.fail("C01", f"call {op}: returned {o['ret'][:40]} but the function's value for these arguments is {o['would'][:40]}")
            # C03: plain configuration, no invalidation so far: body runs exactly once per key and instance
            plain = (s["limit"] is None and s["maxmem"] is None and s["ttl"] is None and not s["cache_if"] and not s["inv_on"]
                     and not s["is_result"] and fi not in self.invalidated)
            seen = self.seen_keys.setdefault(inst, set())
            if plain:
                self.ev("c03-call")
                want = 0 if key in seen else 1
                if o["execs"] != want:
                    self.fail("C03", f"call {op}: body ran {o['execs']} times, expected {want} (key {'seen' if key in seen else 'new'} on {inst})")
            if s["thread"] and key not in seen and o["execs"] == 0:
                self.fail("C14", f"call {op}: thread {th} never called this key, yet it was served from a cache (a value stored by another thread)")
            seen.add(key)
            # C09: an Err is never served from the cache
            if s["is_result"] and not s["cache_if"]:
                self.ev("c09-call")
                if o["ret"].startswith(HEX_ERR) and o["execs"] == 0:
                    self.fail("C09", f"call {op}: an Err result was served from the cache")
                if self.rejected.get((inst, key)) and o["execs"] == 0 and not o["check"]:
                    self.fail("C09", f"call {op}: previous outcome for this key was Err, yet the body did not run")
            # C09 over the property's own notion of "returns Result" (known finding F7: spellings the macro misses)
            if s["real_result"] and not s["is_result"] and not s["cache_if"]:
                self.ev("c09-unrecognised-spelling-call")
                if o["ret"].startswith(HEX_ERR) and o["execs"] == 0:
                    self.fail("C09", f"call {op}: an Err result was served from the cache (unrecognised Result spelling of function {fi}: alias / core::result::Result)")
            # C10: cache_if consulted exactly once per body execution, with that call's key and result
            if s["cache_if"]:
                self.ev("c10-call")
                if len(o["pred"]) != o["execs"]:
                    self.fail("C10", f"call {op}: cache_if consulted {len(o['pred'])} times for {o['execs']} body executions")
                for e in o["pred"]:
                    if e[1] != key or e[2] != o["would"]:
                        self.fail("C10", f"call {op}: cache_if consulted with key/result {e[1][:30]}/{e[2][:30]}, expected this call's")
                if self.rejected.get((inst, key)) and o["execs"] == 0:
                    self.fail("C10", f"call {op}: previous result for this key was rejected, yet this call was served from the cache")
            elif o["pred"]:
                self.fail("C10", f"call {op}: a predicate was consulted although none is configured")
            # C11: invalidate_on: stale => body runs, fresh value returned; not stale => served, body does not run
            if s["inv_on"]:
                self.ev("c11-call")
                if o["check"]:
                    stale = o["check"][0][3] == "1"
                    if stale and (o["execs"] != 1 or o["ret"] != o["would"]):
                        self.fail("C11", f"call {op}: entry judged stale but exec={o['execs']} and returned {o['ret'][:30]}")
                    if not stale and (o["execs"] != 0 or o["ret"] != o["check"][0][2]):
                        self.fail("C11", f"call {op}: entry judged valid but exec={o['execs']}")
                    if o["check"][0][1] != key:
                        self.fail("C11", f"call {op}: invalidate_on consulted with another key")
            # bookkeeping of "last execution left nothing cached": the body ran after a MISSED lookup (not after a
            # hit judged stale by invalidate_on — then the old entry legitimately stays when the fresh result
            # is not stored) and its result was not stored
            if o["execs"] == 1:
                stored = (ci if s["cache_if"] else True)
                if s["is_result"] and not (s["is_async"] and s["cache_if"]):
                    stored = stored and o["wok"]
                if o["check"]:
                    self.rejected.pop((inst, key), None)
                else:
                    self.rejected[(inst, key)] = not stored
                # async engines evict BEFORE storing, so an accepted, fitting result is always present afterwards
                oversize = s["use_mem"] and s["maxmem"] is not None and o["wsize"] > s["maxmem"]
                d = dumps.get(inst)
                if s["is_async"] and stored and not oversize and (d is None or key not in d[0] or d[0][key][0] != o["would"]):
                    pid = "C10" if s["cache_if"] else ("C09" if s["is_result"] else "C01")
                    self.fail(pid, f"call {op}: the result was accepted for caching but the cache does not hold it afterwards")
                # sync FIFO / LRU plain store, sequential history: the newcomer sits at the back of a duplicate-free queue whose
                # slots are all stored (C04.inv_reachable), the victim of an overflow is the FRONT — so an accepted result is
                # present afterwards (theorem C04.insert_exact).  A change that leaves orphan slots behind breaks exactly this.
                if (not s["is_async"]) and stored and not s["use_mem"] and s["policy"] in ("fifo", "lru") and \
                        (s["limit"] is None or s["limit"] >= 1) and \
                        (d is None or key not in d[0] or d[0][key][0] != o["would"]):
                    pid = "C10" if s["cache_if"] else ("C09" if s["is_result"] else "C04")
                    self.fail(pid, f"call {op}: the result was accepted for caching (FIFO/LRU, plain store) but the cache does not hold it afterwards")
                # a stale entry that is refreshed is replaced in place (sync plain store): the fresh value is cached
                if (not s["is_async"]) and o["check"] and stored and not s["use_mem"] and \
                        (d is None or key not in d[0] or d[0][key][0] != o["would"]):
                    self.fail("C11", f"call {op}: the entry was judged stale and recomputed, but the fresh value is not in the cache afterwards")
                # whatever the flavour and store path (plain or memory-aware): once the fresh result of a stale entry has been
                # accepted for caching, the OLD value is gone - the key holds the fresh value or (evicted / oversize) nothing
                if o["check"] and stored and d is not None and key in d[0] and d[0][key][0] != o["would"]:
                    self.fail("C11", f"call {op}: the entry was judged stale and recomputed, but the cache still holds the old value afterwards (it will be judged stale and recomputed on every call)")
                # a refreshed entry is a NEW entry: its lifetime starts at the refresh
                if o["check"] and stored and d is not None and key in d[0] and d[0][key][0] == o["would"] and d[0][key][2] >= 1000:
                    self.fail("C11", f"call {op}: the entry was judged stale and replaced, but the fresh entry's age is {d[0][key][2]} ms (it inherited the birth time of the entry it replaced and will expire early)")
                # C09: a failing call leaves NO trace of its key: the lookup missed (or purged an expired entry), nothing is stored,
                # so neither an entry nor an order-queue slot for the key remains (a left-over slot counts against the limit
                # and makes the next store evict a live Ok)
                if s["is_result"] and not s["cache_if"] and not o["wok"] and not o["check"] and d is not None and \
                        (key in d[0] or key in d[1]):
                    self.fail("C09", f"call {op}: the body failed (Err) after a missed lookup, yet the cache still tracks the key afterwards "
                                     f"({'entry' if key in d[0] else 'order-queue slot without entry'})")
                if (not stored) and d is not None and key in d[0] and d[0][key][0] == o["would"] and \
                        (not o["check"] or o["check"][0][2] != o["would"]):
                    pid = "C10" if s["cache_if"] else "C09"
                    self.fail(pid, f"call {op}: a result that must not be cached (rejected / Err) is in the cache afterwards")
            self.attrs_effect(op, s, inst, key, o, prev, dumps)
            if s["is_async"]:
                self.async_consistent(op, inst, dumps)
            # C14: a thread-scope call touches only its own thread's instance
            if prev is not None:
                for lbl, d in dumps.items():
                    if lbl != inst and prev.get(lbl) != d:
                        self.fail("C14" if s["thread"] else "C13", f"call {op} changed another cache instance {lbl}")
            # C14: global scope shares: a key present (unexpired) before the call is a hit for any thread
            if not s["thread"] and prev is not None and prev.get(inst) and s["ttl"] is None and not s["inv_on"]:
                if key in prev[inst][0]:
                    self.ev("c14-shared-hit")
                    if o["execs"] != 0:
                        self.fail("C14", f"call {op}: key was cached in the shared cache but the body ran on thread {th}")
            # C15: statistics
            if not s["thread"]:
                h, m = self.stats.get(s["name"], (0, 0))
                exp = (h + 1, m) if hit_lookup else (h, m + 1)
                self.stats[s["name"]] = exp
                if o["stats"] != exp:
                    self.fail("C15", f"call {op}: statistics of {s['name']} are {o['stats']}, expected {exp}")
                self.called.add(fi)
        elif p[0] == "begin":
            cid, fi = int(p[1]), int(p[2])
            s = self.spec[fi]
            inst = f"{fi}:g"
            self.called.add(fi)
            hit_lookup = (o["kind"] == "call" and o["execs"] == 0) or len(o.get("check", [])) > 0
            h, m_ = self.stats.get(s["name"], (0, 0))
            self.stats[s["name"]] = (h + 1, m_) if hit_lookup else (h, m_ + 1)
            self.async_consistent(op, inst, dumps)
            if o["kind"] == "call":
                self.attrs_effect(op, s, inst, o["key"], o, prev, dumps)
            if o["kind"] == "suspended":
                self.ev("c20-suspended")
                # the value is unique to this call only if it embeds the call's counter (not e.g. `None`)
                uniq = p[4].encode().hex() in o["would"]
                self.suspended[cid] = (fi, o["key"], o["would"] if uniq else None)
                if o["blocked"]:
                    self.fail("C20", f"{op}: while the call is suspended at its await a conditional invalidation of the same cache did not complete (a cache lock is held across the await)")
                    self.fail("C17", f"{op}: a conditional invalidation issued while another call of the same cache is suspended at its await did not complete: the two wait on each other (a cache lock is held across the await)")
                # the lookup phase must not create or change any entry
                if prev is not None:
                    for lbl, d in dumps.items():
                        before = prev.get(lbl)
                        if lbl != inst:
                            if before != d:
                                self.fail("C20", f"{op}: suspending the call changed another cache instance {lbl}")
                        elif d is not None:
                            bkeys = before[0] if before else {}
                            new = [k for k in d[0] if k not in bkeys]
                            changed = [k for k in d[0] if k in bkeys and d[0][k][0] != bkeys[k][0]]
                            if new or changed:
                                self.fail("C20", f"{op}: the suspended call left entries it never produced: new {new[:2]} changed {changed[:2]}")
            else:
                self.ev("c20-begin-served")
        elif p[0] == "drop":
            cid = int(p[1])
            if cid in self.suspended:
                self.ev("c20-dropped")
                fi, key, would = self.suspended.pop(cid)
                self.async_consistent(op, f"{fi}:g", dumps)
                if prev is not None and prev != dumps:
                    self.fail("C20", f"{op}: dropping the suspended call changed the cache contents")
                if not self.det and would is not None:
                    for lbl, d in dumps.items():
                        if d and any(v[0] == would for v in d[0].values()):
                            self.fail("C20", f"{op}: the cache holds the value of a call that was dropped before producing it")
        elif p[0] == "resume":
            cid = int(p[1])
            if cid in self.suspended:
                self.ev("c20-resumed")
                fi, key, would = self.suspended.pop(cid)
                # a resumed call is a completed call: its key counts as called (C03 bookkeeping)
                self.seen_keys.setdefault(f"{fi}:g", set()).add(key)
                if o["kind"] != "resumed" or (would is not None and o["ret"] != would):
                    self.fail("C20", f"{op}: the resumed call returned {str(o.get('ret'))[:40]}, its body produced {str(would)[:40]}")
                s = self.spec[fi]
                if s["cache_if"] and len(o.get("pred", [])) != 1:
                    self.fail("C10", f"{op}: cache_if consulted {len(o.get('pred', []))} times for the resumed body execution")
                inst = f"{fi}:g"
                self.async_consistent(op, inst, dumps)
                self.attrs_effect(op, s, inst, key, o, prev, dumps)
                if prev is not None:
                    for lbl, d in dumps.items():
                        if lbl != inst and prev.get(lbl) != d:
                            self.fail("C20", f"{op}: resuming the call changed another cache instance {lbl}")
                    before, after = prev.get(inst), dumps.get(inst)
                    # the store of a resumed call writes under ITS OWN key only (C01: a value computed for arguments A is never
                    # stored under the key of other arguments B — e.g. because the key was re-read from a buffer another call reused)
                    if before is not None and after is not None:
                        for k2, v2 in after[0].items():
                            if k2 != key and (k2 not in before[0] or before[0][k2][0] != v2[0]):
                                msg = (f"{op}: resuming the call for key {key[:24]} wrote the entry of ANOTHER key {k2[:24]} "
                                       f"(value {str(v2[0])[:30]}): later calls with those other arguments are served this call's result")
                                self.fail("C01", msg)
                                self.fail("C20", msg)
                    # whatever the resumed call stored is a NEW entry: its lifetime starts at the resumption, not at the
                    # store of another call for the same arguments that completed while this one was suspended
                    if after and key in after[0] and o.get("ret") is not None and after[0][key][0] == o["ret"] and after[0][key][2] >= 1000 \
                            and not (before and key in before[0] and before[0][key][0] == o["ret"] and not o.get("pred") and s["cache_if"]):
                        stored_now = True
                        if s["cache_if"] and o.get("pred"):
                            stored_now = o["pred"][0][3] == "1"
                        if s["is_result"] and not s["cache_if"] and o["ret"].startswith(HEX_ERR):
                            stored_now = False
                        oversize = s["use_mem"] and s["maxmem"] is not None
                        if stored_now and not oversize and not (before and key in before[0] and before[0][key][0] == o["ret"] and before[0][key][2] == after[0][key][2] and self.det):
                            self.fail("C20", f"{op}: the result stored by the resumed call is {after[0][key][2]} ms old right after the store (it inherited the birth time of an entry "
                                             f"stored for the same arguments while the call was suspended and will expire early)")
                    # "if the call is resumed later it stores its result NORMALLY": an accepted result replaces whatever is held
                    # under its key (last store wins, C01) - afterwards the key holds this call's value or, when the store's own
                    # eviction / oversize rule removed it, nothing; never the value another call stored meanwhile
                    if after is not None and o.get("ret") is not None:
                        acc_ = (o["pred"][0][3] == "1") if (s["cache_if"] and o.get("pred")) else True
                        if s["is_result"] and not s["cache_if"] and o["ret"].startswith(HEX_ERR):
                            acc_ = False
                        if acc_ and key in after[0] and after[0][key][0] != o["ret"]:
                            self.fail("C20", f"{op}: the resumed call produced {o['ret'][:32]} and its result was accepted for caching, but the cache holds "
                                             f"{after[0][key][0][:32]} under its key afterwards (the result of the resumed call was not stored normally)")
                    if before and after and key in before[0] and s["maxmem"] is None:
                        lost = [k for k in before[0] if k != key and k not in after[0]]
                        if lost:
                            self.fail("C20", f"{op}: the resumed call's key was already cached, yet storing its result displaced {len(lost)} other entr{'y' if len(lost) == 1 else 'ies'} (a normal store replaces in place)")
                # bookkeeping shared with the C09/C10 monitors
                ci = (o["pred"][0][3] == "1") if o.get("pred") else True
                stored = ci if s["cache_if"] else True
                if s["is_result"] and not (s["is_async"] and s["cache_if"]):
                    stored = stored and (not o["ret"].startswith(HEX_ERR))
                self.rejected.pop((inst, key), None)
        elif p[0] in ("tag", "event", "dep", "cache"):
            field = {"tag": "tags", "event": "events", "dep": "deps"}.get(p[0])
            targets = [i for i in self.fns if self.has_clear(i) and ((p[1] in self.spec[i][field]) if field else self.spec[i]["name"] == p[1])]
            self.ev("group-invalidation"); self.ev("group-invalidation-hit" if targets else "group-invalidation-miss")
            if p[0] == "cache":
                if o["b"] != bool(targets):
                    self.fail("C12", f"{op}: returned {o['b']}, expected {bool(targets)}")
            elif o["n"] != len(targets):
                self.fail("C12", f"{op}: returned count {o['n']}, expected {len(targets)} ({targets})")
            for i in targets:
                d = dumps.get(f"{i}:g")
                if d is None or d[0] or d[1]:
                    self.fail("C12", f"{op}: cache {self.spec[i]['name']} still holds entries / queue slots")
                self.invalidated.add(i)
                for k in [k for k in self.rejected if k[0] == f"{i}:g"]:
                    del self.rejected[k]
            if prev is not None:
                tl = {f"{i}:g" for i in targets}
                for lbl, d in dumps.items():
                    if lbl not in tl and prev.get(lbl) != d:
                        self.fail("C13", f"{op}: cache instance {lbl} does not match the request but changed")
        elif p[0] in ("with", "allwith"):
            if p[0] == "with":
                table = {p[1]: set(x for x in (p[2] if len(p) > 2 else "").split(",") if x)}
                targets = [i for i in self.fns if self.registered(i) and self.spec[i]["name"] == p[1]]
                if o["b"] != bool(targets):
                    self.fail("C13", f"{op}: returned {o['b']}, expected {bool(targets)}")
            else:
                table = {}
                for part in (p[1] if len(p) > 1 else "").split(";"):
                    n, _, ks = part.partition("=")
                    if n:
                        table[n] = set(x for x in ks.split(",") if x)
                targets = [i for i in self.fns if self.registered(i)]
                if o["n"] != len(targets):
                    self.fail("C13", f"{op}: returned count {o['n']}, expected {len(targets)}")
            self.ev("conditional-invalidation")
            if prev is not None:
                tl = {}
                for i in targets:
                    tl[f"{i}:g"] = table.get(self.spec[i]["name"], set())
                for lbl, d in dumps.items():
                    before = prev.get(lbl)
                    if lbl in tl and before is not None:
                        ks = tl[lbl]
                        want_e = {k: v for k, v in before[0].items() if k not in ks}
                        want_q = [k for k in before[1] if k not in ks or k not in before[0]]
                        if any(k in before[0] for k in ks):
                            self.ev("conditional-invalidation-removed")
                            self.invalidated.add(int(lbl.split(":")[0]))
                        if d is None or d[0] != want_e or d[1] != want_q:
                            self.fail("C13", f"{op}: {lbl} should keep exactly the non-matching entries in their order")
                    elif before != d:
                        self.fail("C13", f"{op}: cache instance {lbl} is not addressed but changed")
        elif p[0] == "sget":
            reg = [i for i in self.fns if self.registered(i) and self.spec[i]["name"] == p[1]]
            exp = self.stats.get(p[1], (0, 0)) if reg else None
            self.ev("stats-get")
            if o["stats"] != exp:
                self.fail("C15", f"{op}: returned {o['stats']}, expected {exp}")
        elif p[0] == "sreset":
            reg = [i for i in self.fns if self.registered(i) and self.spec[i]["name"] == p[1]]
            self.ev("stats-reset")
            if o["b"] != bool(reg):
                self.fail("C15", f"{op}: returned {o['b']}, expected {bool(reg)}")
            if reg:
                self.stats[p[1]] = (0, 0)
            if prev is not None and prev != dumps:
                self.fail("C15", f"{op}: resetting statistics changed cache contents")
        elif p[0] == "tick":
            self.ev("tick")
        self.prev = dumps


EPISODE_TIMEOUT = 90      # an episode of 50 operations takes well under a second; minutes mean an operation never returned
HANGS = []                 # seeds of episodes that hung in this run (circuit breaker: after 3 no further episode is started)


def run_episode_proc(args):
    seed, n = args
    if len(HANGS) >= 3:
        return seed, 125, "", "not run: three earlier episodes of this stream never finished"
    try:
        p = subprocess.run([os.path.join(common.BIN, "macro_diff"), "episode", str(seed), str(n)], stdout=subprocess.PIPE,
                           stderr=subprocess.PIPE, env=common.ENV, text=True, timeout=EPISODE_TIMEOUT)
    except subprocess.TimeoutExpired as e:
        out = e.stdout.decode() if isinstance(e.stdout, bytes) else (e.stdout or "")
        HANGS.append(seed)
        return seed, 124, out, f"macro_diff did not finish within {EPISODE_TIMEOUT} s: an operation of the real code never returned"
    return seed, p.returncode, p.stdout, p.stderr[-300:]


def analyse(text, spec, mon_ids, want_events):
    """python-side monitors + statistics over the S lines of a chunk; returns (mon failures, acc)"""
    fails = []
    acc = {"steps": 0, "events": {}, "nontrivial": set(), "samples": [], "aborted": 0, "fn_used": set()}
    mon = None
    ep = 0
    ep_seed = None
    for line in text.splitlines():
        if line.startswith("E|"):
            p = line.split("|")
            fns = [int(x) for x in p[1].split(",")]
            ep += 1
            det = len(p) > 3 and p[3] == "det=1"
            cur_ep = ep
            mon = EpisodeMonitor(spec, fns, det, lambda pid, step, msg, cur_ep=cur_ep: fails.append(
                {"kind": "MON", "id": pid, "episode": cur_ep, "step": step, "text": f"MON {pid} episode={cur_ep} step={step} :: {msg}"}))
            for f in fns:
                acc["fn_used"].add(f)
            continue
        if line.startswith("#ABORT"):
            acc["aborted"] += 1
            continue
        if not line.startswith("S|") or mon is None:
            continue
        parts = line[2:].split("||")
        if len(parts) != 3:
            continue
        acc["steps"] += 1
        before = dict(mon.events)
        try:
            mon.observe(parts[0], parts[1], parse_dumps(parts[2]))
        except Exception as e:  # a malformed observation is a harness problem, reported as BAD
            fails.append({"kind": "BAD", "id": None, "episode": ep, "step": mon.step, "text": f"BAD monitor exception {e!r} on {parts[0]}"})
        new = {k for k in mon.events if mon.events[k] != before.get(k, 0)}
        for k in new:
            acc["events"][k] = acc["events"].get(k, 0) + 1
        if new & want_events:
            acc["nontrivial"].add(hash((parts[0], parts[1][:200])))
            if len(acc["samples"]) < 3:
                acc["samples"].append((parts[0] + " || " + parts[1])[:400])
    return fails, acc


def run_macro_stream(prop, stream, tier, seed, workdir, scale=1):
    ensure_corpus()
    ok, msg, _ = common.build_harness()
    if not ok:
        return {"error": msg}
    spec_text, spec = specs()
    n_eps = stream["episodes"][tier] * scale
    n_ops = stream["ops"][tier]
    seeds = [(seed * 1000003 + i, n_ops) for i in range(n_eps)]
    with ThreadPoolExecutor(max_workers=common.JOBS) as ex:
        results = list(ex.map(run_episode_proc, seeds))
    texts = {}
    errors = []
    hung = []
    for s, rc, out, err in results:
        if rc == 124:
            hung.append((s, out))
        elif rc == 125:
            pass
        elif rc != 0:
            errors.append(f"macro_diff episode {s} exited {rc}: {err}")
        texts[s] = out if rc == 0 else ""
    del HANGS[:]
    # regression corpus first
    eps = []
    cdir = os.path.join(common.ROOT, "corpus", "macro")
    corpus_n = 0
    if os.path.isdir(cdir):
        for fn in sorted(os.listdir(cdir)):
            p = subprocess.run([os.path.join(common.BIN, "macro_diff"), "replay", os.path.join(cdir, fn)], stdout=subprocess.PIPE,
                               stderr=subprocess.PIPE, env=common.ENV, text=True)
            eps.append((f"corpus:{fn}", p.stdout)); corpus_n += 1
    eps += [(s, texts[s]) for s, _ in seeds]
    nchunks = max(1, min(common.JOBS, len(eps) // 10 or 1))
    chunks = [eps[i::nchunks] for i in range(nchunks)]

    def drive(ch):
        body = "".join(t for _, t in ch)
        q = subprocess.run([common.DRIVER, "macro"], input=spec_text + body, stdout=subprocess.PIPE, stderr=subprocess.STDOUT,
                           env=common.ENV, text=True)
        return q.stdout, body

    with ThreadPoolExecutor(max_workers=common.JOBS) as ex:
        driven = list(ex.map(drive, chunks))
    verdicts = [{"kind": "BAD", "id": None, "episode": 0, "step": 0, "text": e} for e in errors]
    for (hs, hout) in hung:
        last = [l for l in hout.splitlines() if l.startswith("S|")][-1:] or ["(before the first operation)"]
        for pid in ("C17", "C20", "C16"):
            verdicts.append({"kind": "MON", "id": pid, "episode": 0, "step": 0, "ep_text": hout,
                             "text": f"MON {pid} :: an operation on generated cached functions never returned: macro_diff episode {hs} "
                                     f"(sequential history, one operation at a time) did not finish within {EPISODE_TIMEOUT} s; "
                                     f"last completed step: {last[0][:200]}"})
    acc = {"steps": 0, "events": {}, "configs": set(), "by_flavour_policy": {}, "nontrivial": set(), "samples": []}
    model_runs = 0
    aborted = 0
    used = set()
    for ci, (vt, body) in enumerate(driven):
        for l in vt.splitlines():
            if l.startswith("DIFF") or l.startswith("BAD"):
                m = re.search(r"episode=(\d+) step=(\d+)", l)
                e, st = (int(m.group(1)), int(m.group(2))) if m else (0, 0)
                v = {"kind": l.split(" ")[0], "id": None, "episode": e, "step": st, "text": l[:1500]}
                if 1 <= e <= len(chunks[ci]):
                    v["ep_text"] = chunks[ci][e - 1][1]
                verdicts.append(v)
        m = re.search(r"SUMMARY .*model_runs=(\d+)", vt)
        if m:
            model_runs += int(m.group(1))
        else:
            verdicts.append({"kind": "BAD", "id": None, "episode": 0, "step": 0, "text": "driver produced no summary: " + vt[-300:]})
        fails, a = analyse(body, spec, stream.get("monitors", []), set(stream.get("nontrivial", [])))
        for f in fails:
            if 1 <= f["episode"] <= len(chunks[ci]):
                f["ep_text"] = chunks[ci][f["episode"] - 1][1]
            verdicts.append(f)
        acc["steps"] += a["steps"]
        for k, v in a["events"].items():
            acc["events"][k] = acc["events"].get(k, 0) + v
        acc["nontrivial"] |= a["nontrivial"]
        acc["samples"] += a["samples"]
        aborted += a["aborted"]
        used |= a["fn_used"]
    for i in used:
        s = spec[i]
        acc["configs"].add(s["line"])
        key = s["flavour"] + "/" + s["policy"]
        acc["by_flavour_policy"][key] = acc["by_flavour_policy"].get(key, 0) + 1
    acc["events"]["aborted-episodes"] = aborted
    return {"episodes": len(eps), "corpus_episodes": corpus_n, "acc": acc, "verdicts": verdicts, "model_runs": model_runs,
            "extra": {"corpus_functions": len(spec), "functions_exercised": len(used)}}


def episode_inputs(ep_text, upto=None):
    """the replayable part of an episode: the E line and the operation inputs"""
    lines = []
    n = 0
    for l in ep_text.splitlines():
        if l.startswith("E|"):
            lines.append(l)
        elif l.startswith("S|"):
            n += 1
            if upto is not None and n > upto:
                break
            lines.append(l[2:].split("||")[0])
    return lines
