"""Generates the L2 corpus: a Rust module of `#[cache]` / `#[cache_async]` decorated functions covering
attribute values x signature shapes x return types, plus the table that tells the harness (and, through the
harness's `F|` lines, the Lean driver) what each attribute list MEANS "as written".

usage: gen_corpus.py <seed> <n_functions> <out.rs>
The output is deterministic in (seed, n).  It is written only if it differs from the existing file, so
that cargo does not rebuild an unchanged corpus.
"""
import sys, os, random

POLICIES = [None, "fifo", "lru", "lfu", "arc", "random", "tlru"]
LIMITS = [None, 1, 2, 3]
TTLS = [None, 1, 2]
# (attribute text, bytes)
MAXMEM = [None, ('"120"', 120), ('"1KB"', 1024), ("200", 200), ('"90"', 90)]
FWS = [None, ("0.1", 0.1), ("0.3", 0.3), ("1.0", 1.0), ("1.5", 1.5), ("3", 3.0)]
TAGS = ["t0", "t1", "t2"]
EVENTS = ["e0", "e1"]
DEPS = ["d0", "d1"]

# signature shapes: (id, receiver kind, [(argname, type, rt-arg-fn)])
SIGS = [
    ("s0", None, []),
    ("s1", None, [("a", "u32", "arg_u32")]),
    ("s2", None, [("s", "String", "arg_string")]),
    ("s3", None, [("s", "&str", "arg_str"), ("n", "i64", "arg_i64")]),
    ("s4", None, [("a", "u8", "arg_u8"), ("b", "bool", "arg_bool"), ("c", "char", "arg_char"), ("d", "Option<String>", "arg_opt_string")]),
    ("m0", "&self", []),
    ("m1", "&self", [("a", "u32", "arg_u32")]),
    ("m2", "&mut self", [("s", "String", "arg_string")]),
    ("m3", "self", [("a", "u32", "arg_u32"), ("b", "u32", "arg_u32b")]),
]
# return types: (id, type text, mk fn, is_result spelling recognised)
RETS = [
    ("u64", "u64", "mk_u64", False),
    ("string", "String", "mk_string", False),
    ("vec", "Vec<u8>", "mk_vec", False),
    ("res", "Result<u64, String>", "mk_res_u64", True),
    ("stdres", "std::result::Result<String, String>", "mk_res_string", True),
    ("opt", "Option<String>", "mk_opt", False),
]
# return types that ARE Result but are not spelled in a way the macros recognise (known finding F7):
# appended as the last two functions of every corpus
UNRECOGNISED_RETS = [
    ("alias", "ResAlias", "mk_res_u64", False),
    ("coreres", "core::result::Result<u64, String>", "mk_res_u64", False),
]


SYSTEMATIC = []
for _fl in ("global", "thread", "async"):
    for _pol in ("fifo", "lru", "lfu", "arc", "random", "tlru"):
        SYSTEMATIC.append(dict(flavour=_fl, policy=_pol, limit=True, maxmem=False, inv_on=True, cache_if=(len(SYSTEMATIC) % 3 == 0)))
for _fl in ("global", "thread", "async"):
    for _pol in ("fifo", "lfu", "tlru", "random"):
        SYSTEMATIC.append(dict(flavour=_fl, policy=_pol, limit=(len(SYSTEMATIC) % 2 == 0), maxmem=True, inv_on=(len(SYSTEMATIC) % 4 == 1), cache_if=True))


# further signature shapes (appended after the systematic block so that the earlier functions keep their numbers):
# two integers without a receiver, methods with a string + integer and with three scalar arguments, a vector, a tuple,
# an option + float — each once as a sync global function and once as an async one, LRU with limit 2
EXTRA_SIGS = [
    ("x1", None, [("a", "u32", "arg_u32"), ("b", "u32", "arg_u32b")]),
    ("x2", "&self", [("s", "&str", "arg_str"), ("n", "i64", "arg_i64")]),
    ("x3", "&self", [("a", "u8", "arg_u8"), ("b", "bool", "arg_bool"), ("c", "char", "arg_char")]),
    ("x4", None, [("v", "Vec<u32>", "arg_vec_u32")]),
    ("x5", None, [("t", "(u32, String)", "arg_tuple")]),
    ("x6", "&mut self", [("o", "Option<u32>", "arg_opt_u32"), ("f", "f64", "arg_f64")]),
    # parameters bound by DESTRUCTURING patterns take part in the key like any other
    ("x7", None, [("(a, b)", "(u32, u32)", "arg_pair"), ("c", "u8", "arg_u8")]),
    ("x8", "&self", [("(s, n)", "(String, i64)", "arg_pair_si")]),
]
EXTRA = [(sig, fl) for sig in EXTRA_SIGS for fl in ("global", "async")]
# PLAIN configuration (C03: no limit / ttl / max_memory / predicates, not a Result) for every policy, sync global and
# async: the body must run exactly once per distinct argument whatever the policy does on hits
PLAIN = [(pol, fl) for pol in ("fifo", "lru", "lfu", "arc", "random", "tlru") for fl in ("global", "async")]


# PLAIN Result functions (C09 under concurrency: no limit / ttl / max_memory / predicates): the first Ok stays stored
PLAIN_RESULT = [(pol, fl, r) for (pol, fl, r) in (("fifo", "global", 3), ("lru", "async", 3), ("arc", "global", 4), ("lfu", "async", 4))]


# TTL + entry limit, no predicates, not a Result (scheduled calls-only programs that start from EXPIRED entries; C06/C18)
TTL_LIMIT = [("lru", "global"), ("lfu", "global"), ("arc", "global"), ("random", "global"),
             ("fifo", "async"), ("lru", "async"), ("lfu", "async"), ("tlru", "async")]


# Result functions with TTL + entry limit and NO predicates, every flavour (C09 with expiry: an Err after an EXPIRED
# entry must leave neither an entry nor an order-queue slot for its key; two of them memory-aware)
RESULT_TTL_LIMIT = [("fifo", "thread", None), ("lfu", "thread", None), ("lru", "global", None), ("arc", "async", None),
                    ("lru", "thread", 1), ("fifo", "async", 2), ("tlru", "global", None), ("random", "thread", None)]


# Result functions with max_memory = "1KB" and NOTHING else (no ttl / limit / predicates), sync global and async: every computed
# Ok fits, so once a caller has returned its result must be served — also when many callers store at once (hammer phase HK; C09)
RESULT_MEM = [("fifo", "async", 3), ("lru", "global", 3), ("lfu", "async", 4), ("random", "global", 4)]


# async TLRU with an entry limit, NO ttl, a frequency_weight far from 1 — written before `policy` for two of them (C08 at the
# macro level: the weight on the attribute governs which entry goes, wherever in the list it stands)
ASYNC_TLRU_FW = [(True, 5), (True, 1), (False, 5), (False, 1)]


def gen(seed, n):
    """the first 48 functions are random (seeded); then the 4 fixed ones (plain, F7 witnesses); then the systematic
    block: flavour x policy with limit + invalidate_on, and flavour x policy with max_memory + cache_if"""
    base_n = n - len(SYSTEMATIC) - len(EXTRA) - len(PLAIN) - len(PLAIN_RESULT) - len(TTL_LIMIT) - len(RESULT_TTL_LIMIT) - len(RESULT_MEM) - len(ASYNC_TLRU_FW)
    fns = gen_random(seed, base_n)
    rng = random.Random(seed * 7 + 3)
    for k, sy in enumerate(SYSTEMATIC):
        i = base_n + k
        is_async = sy["flavour"] == "async"
        thread_scope = sy["flavour"] == "thread"
        fns.append(dict(i=i, real_result=False, is_async=is_async, policy=sy["policy"],
                        limit=(1 + k % 2) if sy["limit"] else None,
                        maxmem=MAXMEM[1 + k % 2] if sy["maxmem"] else None,
                        ttl=(1 + k % 2) if k % 3 == 0 else None,
                        fw=FWS[1 + k % 5] if sy["policy"] == "tlru" else None,
                        scope="thread" if thread_scope else None,
                        sig=SIGS[1 + k % 4], ret=RETS[(k % 3) if not sy["maxmem"] else 1 + k % 2],
                        name=None, tags=[TAGS[k % 3]] if k % 2 == 0 else [], events=[], deps=[],
                        cache_if=sy["cache_if"], inv_on=sy["inv_on"], thread_scope=thread_scope))
    for k, (sig, fl) in enumerate(EXTRA):
        i = base_n + len(SYSTEMATIC) + k
        fns.append(dict(i=i, real_result=False, is_async=(fl == "async"), policy="lru", limit=2, maxmem=None, ttl=None, fw=None,
                        scope=("global" if fl == "global" and k % 4 == 0 else None), sig=sig, ret=RETS[0], name=None,
                        tags=[], events=[], deps=[], cache_if=False, inv_on=False, thread_scope=False))
    for k, (pol, fl) in enumerate(PLAIN):
        i = base_n + len(SYSTEMATIC) + len(EXTRA) + k
        fns.append(dict(i=i, real_result=False, is_async=(fl == "async"), policy=pol, limit=None, maxmem=None, ttl=None, fw=None,
                        scope=None, sig=SIGS[1 + k % 2], ret=RETS[k % 3], name=None, tags=([TAGS[0]] if k % 4 == 1 else []), events=[], deps=[],
                        cache_if=False, inv_on=False, thread_scope=False))
    for k, (pol, fl, r) in enumerate(PLAIN_RESULT):
        i = base_n + len(SYSTEMATIC) + len(EXTRA) + len(PLAIN) + k
        fns.append(dict(i=i, real_result=False, is_async=(fl == "async"), policy=pol, limit=None, maxmem=None, ttl=None, fw=None,
                        scope=None, sig=SIGS[1 + k % 2], ret=RETS[r], name=None, tags=[], events=[], deps=[],
                        cache_if=False, inv_on=False, thread_scope=False))
    for k, (pol, fl) in enumerate(TTL_LIMIT):
        i = base_n + len(SYSTEMATIC) + len(EXTRA) + len(PLAIN) + len(PLAIN_RESULT) + k
        fns.append(dict(i=i, real_result=False, is_async=(fl == "async"), policy=pol, limit=2 + k % 2, maxmem=None, ttl=1 + k % 2,
                        fw=FWS[2] if pol == "tlru" else None, scope=None, sig=SIGS[1 + k % 2], ret=RETS[k % 2], name=None,
                        tags=([TAGS[1]] if k % 3 == 0 else []), events=[], deps=[], cache_if=False, inv_on=False, thread_scope=False))
    for k, (pol, fl, mm) in enumerate(RESULT_TTL_LIMIT):
        i = base_n + len(SYSTEMATIC) + len(EXTRA) + len(PLAIN) + len(PLAIN_RESULT) + len(TTL_LIMIT) + k
        fns.append(dict(i=i, real_result=False, is_async=(fl == "async"), policy=pol, limit=2 + k % 2, maxmem=(MAXMEM[mm] if mm else None),
                        ttl=1 + k % 2, fw=FWS[2] if pol == "tlru" else None, scope=("thread" if fl == "thread" else None),
                        sig=SIGS[1 + k % 2], ret=RETS[3 + k % 2], name=None, tags=[], events=[], deps=[], cache_if=False, inv_on=False,
                        thread_scope=(fl == "thread")))
    for k, (pol, fl, r) in enumerate(RESULT_MEM):
        i = base_n + len(SYSTEMATIC) + len(EXTRA) + len(PLAIN) + len(PLAIN_RESULT) + len(TTL_LIMIT) + len(RESULT_TTL_LIMIT) + k
        fns.append(dict(i=i, real_result=False, is_async=(fl == "async"), policy=pol, limit=None, maxmem=MAXMEM[2], ttl=None, fw=None,
                        scope=None, sig=SIGS[1 + k % 2], ret=RETS[r], name=None, tags=[], events=[], deps=[],
                        cache_if=False, inv_on=False, thread_scope=False))
    for k, (first, fwi) in enumerate(ASYNC_TLRU_FW):
        i = base_n + len(SYSTEMATIC) + len(EXTRA) + len(PLAIN) + len(PLAIN_RESULT) + len(TTL_LIMIT) + len(RESULT_TTL_LIMIT) + len(RESULT_MEM) + k
        fns.append(dict(i=i, real_result=False, is_async=True, policy="tlru", limit=2 + k % 2, maxmem=None, ttl=None, fw=FWS[fwi],
                        scope=None, sig=SIGS[1 + k % 2], ret=RETS[0], name=None, tags=[], events=[], deps=[],
                        cache_if=False, inv_on=False, thread_scope=False, fw_first=first))
    return fns


def gen_random(seed, n):
    rng = random.Random(seed)
    fns = []
    for i in range(n):
        is_async = (i % 3 == 2)
        # cycle through the single dimensions so every value appears, randomise the rest
        policy = POLICIES[i % len(POLICIES)] if i < 2 * len(POLICIES) else rng.choice(POLICIES)
        shape = rng.randrange(10)
        limit = rng.choice([1, 2, 3]) if shape < 6 else None
        maxmem = rng.choice(MAXMEM[1:]) if shape in (4, 5, 6, 7) else None
        ttl = rng.choice(TTLS) if rng.random() < 0.6 else None
        fw = rng.choice(FWS) if policy == "tlru" else (rng.choice(FWS) if rng.random() < 0.1 else None)
        scope = None
        if not is_async:
            r = rng.random()
            scope = "thread" if r < 0.3 else ("global" if r < 0.45 else None)
        sig = SIGS[(i // 2) % len(SIGS)] if i < 2 * len(SIGS) else rng.choice(SIGS)
        ret = RETS[i % len(RETS)] if i < 2 * len(RETS) else rng.choice(RETS)
        custom_name = f"nm{i}" if rng.random() < 0.3 else None
        thread_scope = scope == "thread"
        tags = sorted(rng.sample(TAGS, rng.randrange(0, 3))) if rng.random() < 0.6 else []
        events = sorted(rng.sample(EVENTS, rng.randrange(0, 3))) if rng.random() < 0.4 else []
        deps = sorted(rng.sample(DEPS, rng.randrange(0, 3))) if rng.random() < 0.3 else []
        cache_if = rng.random() < 0.3
        inv_on = rng.random() < 0.3
        real_result = ret[3]
        tail = n - i   # the last four functions are fixed: two plain ones (C03's configuration), two F7 witnesses
        if tail <= 2:
            ret = UNRECOGNISED_RETS[2 - tail]
            real_result = True
            cache_if = False; inv_on = False; is_async = (i % 2 == 1); scope = None; thread_scope = False
            limit = None; maxmem = None; ttl = None
        elif tail <= 4:
            # plain configuration: no limit / ttl / max_memory / predicates, not a Result; one async, one sync global
            ret = RETS[2] if tail == 4 else RETS[1]
            real_result = False
            cache_if = False; inv_on = False; is_async = (tail == 4); scope = None; thread_scope = False
            limit = None; maxmem = None; ttl = None; policy = None; fw = None
            sig = SIGS[1]
        fns.append(dict(i=i, real_result=real_result, is_async=is_async, policy=policy, limit=limit, maxmem=maxmem, ttl=ttl, fw=fw, scope=scope,
                        sig=sig, ret=ret, name=custom_name, tags=tags, events=events, deps=deps, cache_if=cache_if,
                        inv_on=inv_on, thread_scope=thread_scope))
    return fns


def attr_list(f):
    a = []
    # attribute order is shuffled deterministically by the function index to exercise the parser loop
    if f["limit"] is not None: a.append(f"limit = {f['limit']}")
    if f["policy"] is not None: a.append(f"policy = \"{f['policy']}\"")
    if f["ttl"] is not None: a.append(f"ttl = {f['ttl']}")
    if f["maxmem"] is not None: a.append(f"max_memory = {f['maxmem'][0]}")
    if f["fw"] is not None: a.append(f"frequency_weight = {f['fw'][0]}")
    if f["scope"] is not None: a.append(f"scope = \"{f['scope']}\"")
    if f["name"] is not None: a.append(f"name = \"{f['name']}\"")
    if f["tags"]: a.append("tags = [" + ", ".join(f'"{t}"' for t in f["tags"]) + "]")
    if f["events"]: a.append("events = [" + ", ".join(f'"{t}"' for t in f["events"]) + "]")
    if f["deps"]: a.append("dependencies = [" + ", ".join(f'"{t}"' for t in f["deps"]) + "]")
    if f["cache_if"]: a.append(f"cache_if = ci_{f['i']}")
    if f["inv_on"]: a.append(f"invalidate_on = io_{f['i']}")
    r = random.Random(f["i"] * 7 + 1)
    r.shuffle(a)
    if f.get("fw_first"):
        # `frequency_weight` written BEFORE `policy` (an order-sensitive attribute parser would lose it)
        a.sort(key=lambda x: 0 if x.startswith("frequency_weight") else (1 if x.startswith("limit") else 2))
    return ", ".join(a)


def spec_line(f):
    """what the attributes MEAN as written (DESIGN.md C19): the configuration of the core cache"""
    flavour = "async" if f["is_async"] else ("thread" if f["thread_scope"] else "global")
    policy = f["policy"] or "fifo"     # both macros default to FIFO
    import struct
    fwbits = "-" if f["fw"] is None else str(struct.unpack("<Q", struct.pack("<d", f["fw"][1]))[0])
    cfg = " ".join([flavour, policy, str(f["limit"]) if f["limit"] is not None else "-",
                    str(f["maxmem"][1]) if f["maxmem"] is not None else "-",
                    str(f["ttl"]) if f["ttl"] is not None else "-", fwbits])
    ident = fn_ident(f)
    name = f["name"] or ident
    return "|".join(["F", str(f["i"]), name, "1" if f["is_async"] else "0", "1" if f["thread_scope"] else "0", cfg,
                     "1" if f["maxmem"] is not None else "0", "1" if f["ret"][3] else "0",
                     "1" if f["cache_if"] else "0", "1" if f["inv_on"] else "0",
                     ",".join(f["tags"]), ",".join(f["events"]), ",".join(f["deps"]), ident,
                     attr_list(f).replace("|", "/"), "1" if f["real_result"] else "0"])


def fn_ident(f):
    return ("af" if f["is_async"] else "f") + str(f["i"])


def render(fns):
    out = []
    w = out.append
    w("// GENERATED by checklib/gen_corpus.py — do not edit")
    pass
    w("use super::rt;")
    w("use cachelito::cache;")
    w("use cachelito_async::cache_async;")
    w("use cachelito_core::MemoryEstimator;")
    w("pub type ResAlias = Result<u64, String>;")
    w("")
    for f in fns:
        i = f["i"]
        ident = fn_ident(f)
        rid, rty, mk, _ = f["ret"]
        sid, recv, args = f["sig"]
        attrs = attr_list(f)
        macro = f"#[cache_async({attrs})]" if f["is_async"] else f"#[cache({attrs})]"
        if not attrs:
            macro = "#[cache_async]" if f["is_async"] else "#[cache]"
        asy = "async " if f["is_async"] else ""
        params = ", ".join(([recv] if recv else []) + [f"{n}: {t}" for n, t, _ in args])
        if f["cache_if"]:
            w(f"fn ci_{i}(k: &String, v: &{rty}) -> bool {{ rt::log_pred({i}, k, format!(\"{{:?}}\", v)) }}")
        if f["inv_on"]:
            w(f"fn io_{i}(k: &String, v: &{rty}) -> bool {{ rt::log_check({i}, k, format!(\"{{:?}}\", v)) }}")
        # async bodies suspend at 1-3 await points (a gate future that is ready unless the harness holds it shut)
        gates = " ".join(["rt::gate().await;"] * (1 + (i // 3) % 3)) if f["is_async"] else ""
        # every third function produces its result through an EARLY `return` (guard-clause style): the generated wrapper must still
        # see the value, consult cache_if and store it (the macros run the body in a closure / async block for exactly this reason)
        if i % 3 == 1:
            body = f"{{ rt::ran({i}); {gates} if rt::yes() {{ return rt::{mk}(); }} unreachable!() }}"
        else:
            body = f"{{ rt::ran({i}); {gates} rt::{mk}() }}"
        if recv:
            w(f"#[derive(Debug, Clone)] pub struct R{i} {{ pub id: u32 }}")
            w(f"impl cachelito_core::DefaultCacheableKey for R{i} {{}}")
            w(f"impl R{i} {{")
            w(f"    {macro}")
            w(f"    pub {asy}fn {ident}({params}) -> {rty} {body}")
            w("}")
        else:
            w(macro)
            w(f"pub {asy}fn {ident}({params}) -> {rty} {body}")
        # a parameter written as a destructuring pattern is passed a plain value by the caller
        def local(n):
            return n if n.isidentifier() else "p_" + "".join(c for c in n if c.isalnum())
        # caller: builds the arguments of tuple j, the expected key, calls the function
        def prelude():
            parts = []
            if recv:
                w(f"    let {'mut ' if recv == '&mut self' else ''}r = R{i} {{ id: (j % 2) as u32 }};")
                parts.append('format!("{:?}", r)')
            for n, t, fn in args:
                n = local(n)
                w(f"    let {n}: {t.replace('&str', 'String')} = rt::{fn}(j){'.to_string()' if t == '&str' else ''};")
                parts.append(f'format!("{{:?}}", {n})')
            w("    let parts: Vec<String> = vec![" + ", ".join(parts) + "];")
            w("    let key = parts.join(\"|\");")
        w(f"pub fn key_{i}(j: usize) -> String {{")
        prelude()
        w("    key")
        w("}")
        w(f"pub fn call_{i}(j: usize) -> (String, String) {{")
        prelude()
        callargs = ", ".join((f"&{local(n)}" if t == "&str" else local(n)) for n, t, _ in args)
        call = (f"r.{ident}({callargs})" if recv else f"{ident}({callargs})")
        if f["is_async"]:
            call = f"rt::block_on({call})"
        w(f"    let res = {call};")
        w("    (key, format!(\"{:?}\", res))")
        w("}")
        if f["is_async"]:
            # begin_i: the call as a boxed future the harness can poll step by step, resume later or drop
            w(f"pub fn begin_{i}(j: usize) -> (String, std::pin::Pin<Box<dyn std::future::Future<Output = String>>>) {{")
            prelude()
            mv_call = (f"r.{ident}({callargs})" if recv else f"{ident}({callargs})")
            w(f"    (key, Box::pin(async move {{ format!(\"{{:?}}\", {mv_call}.await) }}))")
            w("}")
        w(f"pub fn would_{i}() -> (String, usize, bool) {{ let v: {rty} = rt::{mk}(); (format!(\"{{:?}}\", v), v.estimate_memory(), rt::next_ok()) }}")
        w("")
    w(f"pub const N: usize = {len(fns)};")
    w("pub static CALLS: [fn(usize) -> (String, String); N] = [" + ", ".join(f"call_{f['i']}" for f in fns) + "];")
    w("pub static WOULD: [fn() -> (String, usize, bool); N] = [" + ", ".join(f"would_{f['i']}" for f in fns) + "];")
    w("pub static KEYS: [fn(usize) -> String; N] = [" + ", ".join(f"key_{f['i']}" for f in fns) + "];")
    w("pub type BeginFn = fn(usize) -> (String, std::pin::Pin<Box<dyn std::future::Future<Output = String>>>);")
    w("pub static BEGINS: [Option<BeginFn>; N] = [" + ", ".join((f"Some(begin_{f['i']})" if f["is_async"] else "None") for f in fns) + "];")
    w("pub static AWAITS: [usize; N] = [" + ", ".join(str(1 + (f["i"] // 3) % 3 if f["is_async"] else 0) for f in fns) + "];")
    w("pub static SPECS: [&str; N] = [")
    for f in fns:
        w("    " + repr(spec_line(f)).replace("'", '"') + ",") if '"' not in spec_line(f) else w("    r#\"" + spec_line(f) + "\"#,")
    w("];")
    return "\n".join(out) + "\n"


def main():
    seed, n, path = int(sys.argv[1]), int(sys.argv[2]), sys.argv[3]
    text = render(gen(seed, n))
    old = open(path).read() if os.path.exists(path) else None
    if old != text:
        os.makedirs(os.path.dirname(path), exist_ok=True)
        with open(path, "w") as fh:
            fh.write(text)
        print("corpus written:", path, n, "functions")
    else:
        print("corpus unchanged:", path)


if __name__ == "__main__":
    main()
