/-
  Cachelito.CDataDriver — replays a REAL schedule of real threads (recorded by `harness/src/bin/sched.rs`
  through the H1 hooks) on the data-carrying interleaving model `Cachelito.ConcData` and compares the
  final shared state and every lookup's result with the implementation.

    D|<cfg>|<initial dump>|<thread programs>|<schedule>|<final dump>|<lookup results per thread>

  programs     threads separated by `~`, operations by `;`:  `get k` | `ins k vid size` | `insm k vid size`
               | `clear` | `inv k1,k2,…`
  schedule     thread ids, one per micro-step (critical section), separated by `,`
  dumps        `k=vid,size,age,hits;…#q1,q2,…`   (ages in ms)
  results      per thread (`~`), per lookup (`,`): `vid` or `-`
-/
import Cachelito.ConcData
import Cachelito.MacroDriver

namespace Cachelito.CDataDriver
open Cachelito Cachelito.Driver Cachelito.ConcData

def parseOpC (s : String) : Option (Op String Val × List Nat) :=
  match s.splitOn " " with
  | ["get", k] => some (.get k, [])
  | ["ins", k, vid, sz] => sz.toNat?.map (fun n => (.insert k ⟨vid, n⟩, []))
  | ["insm", k, vid, sz] => sz.toNat?.map (fun n => (.insertMem k ⟨vid, n⟩, []))
  | ["clear"] => some (.clear, [])
  | ["inv"] => some (.invalidateWith (fun _ => false), [])
  | ["inv", ks] => let l := ks.splitOn ","; some (.invalidateWith (fun k => l.contains k), [])
  | _ => none

def parseProg (s : String) : Option (List (Op String Val × List Nat)) :=
  (splitNonEmpty s ";").mapM parseOpC

def parseDump (cfg : Cfg) (now : Nat) (s : String) : Option (State String Val) :=
  match s.splitOn "#" with
  | [es, q] =>
    let entries := (splitNonEmpty es ";").filterMap (MacroDriver.parseDumpEntry cfg now)
    some ⟨entries, splitNonEmpty q ",", now, 0, 0⟩
  | _ => none

def lookupResults (t : ConcData.Thread String Val) : String :=
  ",".intercalate (t.done.filterMap (fun (op, o) =>
    match op, o with
    | .get _, .val (some v) => some v.id
    | .get _, .val none => some "-"
    | _, _ => none))

def handleCDataLine (line : String) : String :=
  match line.splitOn "|" with
  | ["D", cfgS, initS, progsS, schedS, finalS, resS] =>
    match parseCfg cfgS with
    | none => s!"BAD cfg {cfgS}"
    | some (cfg, fw) =>
      let now := MacroDriver.base
      match parseDump cfg now initS, (progsS.splitOn "~").mapM parseProg with
      | some s0, some progs =>
        let sched := (splitNonEmpty schedS ",").filterMap String.toNat?
        let c0 : CState String Val := CState.start s0 progs
        match creplay cfg (tlruFloat fw) Val.size sched c0 with
        | none => s!"DIFF the recorded schedule cannot be replayed on the interleaving model (a named thread has no micro-step left): cfg=[{cfgS}] progs=[{progsS}] sched=[{schedS}]"
        | some c =>
          let fin := MacroDriver.renderInst cfg c.shared
          let res := "~".intercalate (c.threads.map lookupResults)
          let done := allDoneB c
          if fin == finalS && res == resS && done then "ok"
          else s!"DIFF replay of the real schedule on the interleaving model: cfg=[{cfgS}] progs=[{progsS}] sched=[{schedS}] allDone={done} implFinal=[{finalS}] modelFinal=[{fin}] implResults=[{resS}] modelResults=[{res}]"
      | _, _ => s!"BAD parse {line}"
  | _ => s!"BAD shape {line}"

end Cachelito.CDataDriver
