/-
  Lemmas about the memory footprint `totalMem`, one memory-loop iteration `evictMem`, the memory
  loop `memLoop` and the two `insertMem` code paths (core Lean only).  Used by `Props/C05.lean`.
-/
import Cachelito.Lemmas.Inv

set_option linter.unusedSectionVars false
set_option linter.unusedSimpArgs false
set_option linter.unusedVariables false

namespace Cachelito
variable {K V S : Type} [DecidableEq K]

/-! ### `totalMem` under the store primitives -/

@[simp] theorem totalMem_nil (size : V → Nat) : totalMem size ([] : Store K V) = 0 := rfl

@[simp] theorem totalMem_cons (size : V → Nat) (p : K × Entry V) (m : Store K V) :
    totalMem size (p :: m) = size p.2.val + totalMem size m := by
  simp [totalMem]

theorem totalMem_append (size : V → Nat) (a b : Store K V) :
    totalMem size (a ++ b) = totalMem size a + totalMem size b := by
  simp [totalMem]

/-- dropping entries never increases the footprint -/
theorem totalMem_filter_le (size : V → Nat) (p : K × Entry V → Bool) (m : Store K V) :
    totalMem size (m.filter p) ≤ totalMem size m := by
  induction m with
  | nil => exact Nat.le_refl _
  | cons a m ih =>
    rw [List.filter_cons]
    split
    · simp only [totalMem_cons]; omega
    · simp only [totalMem_cons]; omega

/-- `HashMap::remove` never increases the footprint -/
theorem totalMem_eraseKey_le (size : V → Nat) (k : K) (m : Store K V) :
    totalMem size (eraseKey k m) ≤ totalMem size m :=
  totalMem_filter_le size _ m

/-- removing a stored key frees exactly the size of its value -/
theorem totalMem_eraseKey_of_lookup (size : V → Nat) {k : K} {m : Store K V} {e : Entry V}
    (hn : (keys m).Nodup) (h : lookup k m = some e) :
    totalMem size (eraseKey k m) + size e.val = totalMem size m := by
  induction m with
  | nil => simp [lookup] at h
  | cons a m ih =>
    obtain ⟨x, e'⟩ := a
    simp only [keys_cons, List.nodup_cons] at hn
    rw [eraseKey_cons]
    rw [lookup_cons] at h
    by_cases hx : x = k
    · rw [if_pos hx] at h
      cases h
      have hnot : k ∉ keys m := hx ▸ hn.1
      rw [if_pos hx, eraseKey_of_not_mem hnot]
      simp only [totalMem_cons]; omega
    · rw [if_neg hx] at h
      rw [if_neg hx]
      have := ih hn.2 h
      simp only [totalMem_cons]; omega

theorem totalMem_eraseKey_of_not_mem (size : V → Nat) {k : K} {m : Store K V} (hk : k ∉ keys m) :
    totalMem size (eraseKey k m) = totalMem size m := by
  rw [eraseKey_of_not_mem hk]

/-- `HashMap::insert`: the footprint of the others plus the new value -/
theorem totalMem_put (size : V → Nat) (k : K) (e : Entry V) (m : Store K V) :
    totalMem size (put k e m) = totalMem size (eraseKey k m) + size e.val := by
  simp [put, totalMem_append]

theorem length_put_eq (k : K) (e : Entry V) (m : Store K V) :
    (put k e m).length = (eraseKey k m).length + 1 := by
  simp [put]

theorem length_put_fresh {k : K} {m : Store K V} (hk : k ∉ keys m) (e : Entry V) :
    (put k e m).length = m.length + 1 := by
  rw [length_put_eq, eraseKey_of_not_mem hk]

theorem eraseKey_put (k : K) (e : Entry V) (m : Store K V) : eraseKey k (put k e m) = eraseKey k m := by
  simp [put, eraseKey, List.filter_append, List.filter_filter]

theorem eraseKey_eraseKey (k : K) (m : Store K V) : eraseKey k (eraseKey k m) = eraseKey k m := by
  simp [eraseKey, List.filter_filter]

theorem put_eraseKey (k : K) (e : Entry V) (m : Store K V) : put k e (eraseKey k m) = put k e m := by
  simp [put, eraseKey_eraseKey]

/-- changing hit counters (or birth stamps) does not change the footprint -/
theorem totalMem_modify (size : V → Nat) (k : K) (f : Entry V → Entry V) (hf : ∀ e, (f e).val = e.val)
    (m : Store K V) : totalMem size (modify k f m) = totalMem size m := by
  induction m with
  | nil => rfl
  | cons a m ih =>
    obtain ⟨x, e⟩ := a
    rw [modify_cons]
    by_cases hx : x = k
    · rw [if_pos hx]; simp only [totalMem_cons, hf]
    · rw [if_neg hx]; simp only [totalMem_cons, ih]

theorem totalMem_bumpHits (size : V → Nat) (k : K) (m : Store K V) :
    totalMem size (bumpHits k m) = totalMem size m :=
  totalMem_modify size k (fun e => { e with hits := e.hits + 1 }) (fun _ => rfl) m

/-! ### `totalMem` under the operations that are not stores -/

theorem totalMem_hitUpdate (size : V → Nat) (cfg : Cfg) (k : K) (m : Store K V) (q : List K) :
    totalMem size (hitUpdate cfg k m q).1 = totalMem size m := by
  unfold hitUpdate
  cases cfg.flavour <;> simp only <;> split <;> simp [totalMem_bumpHits]

theorem totalMem_removeBoth_le (size : V → Nat) (cfg : Cfg) (k : K) (m : Store K V) (q : List K) :
    totalMem size (removeBoth cfg k m q).1 ≤ totalMem size m := by
  unfold removeBoth
  cases cfg.flavour <;> exact totalMem_eraseKey_le size k m

/-- a lookup (hit, miss or expiry purge) never increases the footprint -/
theorem totalMem_get_le (size : V → Nat) (cfg : Cfg) (s : State K V) (k : K) :
    totalMem size (get cfg s k).1.store ≤ totalMem size s.store := by
  unfold get
  cases lookup k s.store with
  | none => exact Nat.le_refl _
  | some e =>
    simp only
    split
    · exact totalMem_removeBoth_le size cfg k _ _
    · rw [totalMem_hitUpdate]; exact Nat.le_refl _

theorem totalMem_clear (size : V → Nat) (s : State K V) : totalMem size (clear s).store = 0 := rfl

theorem totalMem_invalidateWith_le (size : V → Nat) (p : K → Bool) (s : State K V) :
    totalMem size (invalidateWith p s).store ≤ totalMem size s.store := by
  unfold invalidateWith; exact totalMem_filter_le size _ _

/-! ### Evictions -/

/-- under the invariant an empty queue means an empty store -/
theorem InvMQ.store_nil {m : Store K V} (h : InvMQ m []) : m = [] := by
  have := h.length_eq
  simp only [List.length_nil] at this
  exact List.eq_nil_of_length_eq_zero this.symm

theorem InvMQ.totalMem_nil {m : Store K V} (h : InvMQ m []) (size : V → Nat) : totalMem size m = 0 := by
  rw [h.store_nil]; rfl

theorem Evicted.totalMem_le {m : Store K V} {q : List K} {r : Store K V × List K × Bool}
    (he : Evicted m q r) (size : V → Nat) : totalMem size r.1 ≤ totalMem size m := by
  rcases he with ⟨_, k, _, h1, _⟩ | ⟨_, _, h1, _⟩
  · rw [h1]; exact totalMem_eraseKey_le size k m
  · rw [h1]; exact Nat.le_refl _

/-- a successful eviction shortens the queue by exactly one -/
theorem Evicted.queue_length {m : Store K V} {q : List K} {r : Store K V × List K × Bool}
    (h : InvMQ m q) (he : Evicted m q r) (hb : r.2.2 = true) : r.2.1.length + 1 = q.length := by
  rcases he with ⟨_, k, hk, h1, h2⟩ | ⟨hf, _, _, _⟩
  · have hi := (h.remove k).length_eq
    have := length_eraseKey_of_mem h.1 ((h.2.2 k).mp hk)
    rw [h2, hi, h.length_eq]; exact this
  · rw [hf] at hb; cases hb

/-- an eviction attempt on a non-empty queue succeeds -/
theorem Evicted.flag_of_nonempty {m : Store K V} {q : List K} {r : Store K V × List K × Bool}
    (he : Evicted m q r) (hq : q ≠ []) : r.2.2 = true := by
  rcases he with ⟨hb, _⟩ | ⟨_, h0, _, _⟩
  · exact hb
  · exact absurd h0 hq

/-- an eviction attempt removes at most one entry -/
theorem Evicted.length_ge {m : Store K V} {q : List K} {r : Store K V × List K × Bool}
    (h : InvMQ m q) (he : Evicted m q r) : m.length ≤ r.1.length + 1 := by
  rcases he with ⟨_, k, hk, h1, _⟩ | ⟨_, _, h1, _⟩
  · rw [h1]; exact Nat.le_of_eq (length_eraseKey_of_mem h.1 ((h.2.2 k).mp hk)).symm
  · rw [h1]; omega

/-- the entry-limit step either changes nothing or removes exactly one queue key from both structures -/
theorem limitStep_cases {m : Store K V} {q : List K} (h : InvMQ m q) (cfg : Cfg) (tl : Tlru S) (now r : Nat) :
    limitStep cfg tl now r m q = (m, q) ∨
    ∃ x, x ∈ q ∧ limitStep cfg tl now r m q = (eraseKey x m, q.filter (fun y => y ≠ x)) := by
  unfold limitStep
  cases cfg.limit with
  | none => left; rfl
  | some n =>
    simp only
    by_cases ho : overLimit cfg n m q = true <;> simp only [ho, if_true, if_false, Bool.false_eq_true]
    · rcases evictLimit_spec h cfg tl now r with ⟨_, x, hx, h1, h2⟩ | ⟨_, _, h1, h2⟩
      · right; exact ⟨x, hx, by rw [h1, h2]⟩
      · left; rw [h1, h2]
    · left; trivial

theorem limitStep_totalMem_le {m : Store K V} {q : List K} (h : InvMQ m q) (cfg : Cfg) (tl : Tlru S)
    (now r : Nat) (size : V → Nat) : totalMem size (limitStep cfg tl now r m q).1 ≤ totalMem size m := by
  rcases limitStep_cases h cfg tl now r with h1 | ⟨x, _, h1⟩
  · rw [h1]; exact Nat.le_refl _
  · rw [h1]; exact totalMem_eraseKey_le size x m

theorem limitStep_length_ge {m : Store K V} {q : List K} (h : InvMQ m q) (cfg : Cfg) (tl : Tlru S)
    (now r : Nat) : m.length ≤ (limitStep cfg tl now r m q).1.length + 1 := by
  rcases limitStep_cases h cfg tl now r with h1 | ⟨x, hx, h1⟩
  · rw [h1]; exact Nat.le_succ _
  · rw [h1]; exact Nat.le_of_eq (length_eraseKey_of_mem h.1 ((h.2.2 x).mp hx)).symm

theorem limitStep_no_limit (cfg : Cfg) (tl : Tlru S) (now r : Nat) (m : Store K V) (q : List K)
    (hl : cfg.limit = none) : limitStep cfg tl now r m q = (m, q) := by
  unfold limitStep; rw [hl]

theorem memLoop_totalMem_le (cfg : Cfg) (tl : Tlru S) (size : V → Nat) (now maxM extra : Nat)
    (fuel : Nat) (rs : List Nat) {m : Store K V} {q : List K} (h : InvMQ m q) :
    totalMem size (memLoop cfg tl size now maxM extra fuel rs m q).1 ≤ totalMem size m := by
  induction fuel generalizing rs m q with
  | zero => exact Nat.le_refl _
  | succ fuel ih =>
    simp only [memLoop]
    split
    · exact Nat.le_refl _
    · have hs := evictMem_spec h cfg tl now (rs.headD 0)
      have hi := hs.inv h
      have hl := hs.totalMem_le size
      generalize evictMem cfg tl now (rs.headD 0) m q = r at hs hi hl
      obtain ⟨m', q', ev⟩ := r
      simp only
      cases ev
      · exact hl
      · exact Nat.le_trans (ih rs.tail hi) hl

/-- if the total already fits the memory loop returns its input untouched (no draw consumed) -/
theorem memLoop_of_fits (cfg : Cfg) (tl : Tlru S) (size : V → Nat) (now maxM extra : Nat)
    (fuel : Nat) (rs : List Nat) (m : Store K V) (q : List K) (hfit : totalMem size m + extra ≤ maxM) :
    memLoop cfg tl size now maxM extra fuel rs m q = (m, q, rs) := by
  cases fuel with
  | zero => rfl
  | succ fuel => simp only [memLoop, hfit, if_true]

/-! ### The victim sequence: `n`-fold `evictMem` -/

/-- `n` memory-loop iterations performed unconditionally (each consumes one random draw).  The states
    `iterEvict 0, iterEvict 1, …` are the policy's victim sequence from `(m, q)`: entry `i+1` is
    entry `i` with the victim chosen by `evictMem` removed. -/
def iterEvict (cfg : Cfg) (tl : Tlru S) (now : Nat) :
    Nat → List Nat → Store K V → List K → Store K V × List K × List Nat
  | 0, rs, m, q => (m, q, rs)
  | n + 1, rs, m, q =>
    iterEvict cfg tl now n rs.tail (evictMem cfg tl now (rs.headD 0) m q).1
      (evictMem cfg tl now (rs.headD 0) m q).2.1

theorem iterEvict_zero (cfg : Cfg) (tl : Tlru S) (now : Nat) (rs : List Nat) (m : Store K V) (q : List K) :
    iterEvict cfg tl now 0 rs m q = (m, q, rs) := rfl

theorem iterEvict_succ (cfg : Cfg) (tl : Tlru S) (now n : Nat) (rs : List Nat) (m : Store K V) (q : List K) :
    iterEvict cfg tl now (n + 1) rs m q =
      iterEvict cfg tl now n rs.tail (evictMem cfg tl now (rs.headD 0) m q).1
        (evictMem cfg tl now (rs.headD 0) m q).2.1 := rfl

/-- one more iteration, seen from the end: apply `evictMem` to the state reached after `n` iterations -/
theorem iterEvict_succ_last (cfg : Cfg) (tl : Tlru S) (now n : Nat) (rs : List Nat) (m : Store K V) (q : List K) :
    iterEvict cfg tl now (n + 1) rs m q =
      ((evictMem cfg tl now ((iterEvict cfg tl now n rs m q).2.2.headD 0)
          (iterEvict cfg tl now n rs m q).1 (iterEvict cfg tl now n rs m q).2.1).1,
       (evictMem cfg tl now ((iterEvict cfg tl now n rs m q).2.2.headD 0)
          (iterEvict cfg tl now n rs m q).1 (iterEvict cfg tl now n rs m q).2.1).2.1,
       (iterEvict cfg tl now n rs m q).2.2.tail) := by
  induction n generalizing rs m q with
  | zero => rfl
  | succ n ih => rw [iterEvict_succ, ih]; rfl

theorem iterEvict_inv (cfg : Cfg) (tl : Tlru S) (now n : Nat) (rs : List Nat) {m : Store K V} {q : List K}
    (h : InvMQ m q) : InvMQ (iterEvict cfg tl now n rs m q).1 (iterEvict cfg tl now n rs m q).2.1 := by
  induction n generalizing rs m q with
  | zero => exact h
  | succ n ih => rw [iterEvict_succ]; exact ih _ ((evictMem_spec h cfg tl now _).inv h)

/-- the draws left after `n` iterations -/
theorem iterEvict_draws (cfg : Cfg) (tl : Tlru S) (now n : Nat) (rs : List Nat) (m : Store K V) (q : List K) :
    (iterEvict cfg tl now n rs m q).2.2 = rs.drop n := by
  induction n generalizing rs m q with
  | zero => rfl
  | succ n ih => rw [iterEvict_succ, ih]; simp

/-- consecutive members of the victim sequence are related by one eviction (`Evicted`) -/
theorem iterEvict_evicted (cfg : Cfg) (tl : Tlru S) (now n : Nat) (rs : List Nat) {m : Store K V} {q : List K}
    (h : InvMQ m q) :
    ∃ ev, Evicted (iterEvict cfg tl now n rs m q).1 (iterEvict cfg tl now n rs m q).2.1
      ((iterEvict cfg tl now (n + 1) rs m q).1, (iterEvict cfg tl now (n + 1) rs m q).2.1, ev) := by
  have hi := iterEvict_inv cfg tl now n rs h
  have hs := evictMem_spec hi cfg tl now ((iterEvict cfg tl now n rs m q).2.2.headD 0)
  rw [iterEvict_succ_last]
  exact ⟨_, hs⟩

/-- the footprint along the victim sequence is non-increasing -/
theorem iterEvict_totalMem_le (cfg : Cfg) (tl : Tlru S) (now n : Nat) (rs : List Nat) {m : Store K V} {q : List K}
    (h : InvMQ m q) (size : V → Nat) :
    totalMem size (iterEvict cfg tl now (n + 1) rs m q).1 ≤ totalMem size (iterEvict cfg tl now n rs m q).1 := by
  obtain ⟨ev, he⟩ := iterEvict_evicted cfg tl now n rs h
  exact he.totalMem_le size

/-! ### Characterisation of the memory loop -/

/-- **General loop characterisation** (any `extra`).  Under the invariant and with at least
    `q.length + 1` units of fuel, the memory loop performs exactly `j` iterations of `evictMem`, where
    the total did not fit before any of them, and afterwards either the total fits or the queue is
    empty: the loop never stops because the fuel ran out. -/
theorem memLoop_char (cfg : Cfg) (tl : Tlru S) (size : V → Nat) (now maxM extra : Nat)
    (fuel : Nat) (rs : List Nat) {m : Store K V} {q : List K} (h : InvMQ m q) (hfuel : q.length + 1 ≤ fuel) :
    ∃ j, j ≤ q.length + 1 ∧
      memLoop cfg tl size now maxM extra fuel rs m q = iterEvict cfg tl now j rs m q ∧
      (∀ i, i < j → maxM < totalMem size (iterEvict cfg tl now i rs m q).1 + extra) ∧
      (totalMem size (iterEvict cfg tl now j rs m q).1 + extra ≤ maxM ∨
        (iterEvict cfg tl now j rs m q).2.1 = []) := by
  induction fuel generalizing rs m q with
  | zero => omega
  | succ fuel ih =>
    by_cases hfit : totalMem size m + extra ≤ maxM
    · refine ⟨0, by omega, ?_, ?_, ?_⟩
      · rw [memLoop_of_fits _ _ _ _ _ _ _ _ _ _ hfit]; rfl
      · intro i hi; omega
      · left; exact hfit
    · have hs := evictMem_spec h cfg tl now (rs.headD 0)
      have hi := hs.inv h
      have hql := hs.queue_length h
      have hunf : memLoop cfg tl size now maxM extra (fuel + 1) rs m q =
          if (evictMem cfg tl now (rs.headD 0) m q).2.2 = true then
            memLoop cfg tl size now maxM extra fuel rs.tail (evictMem cfg tl now (rs.headD 0) m q).1
              (evictMem cfg tl now (rs.headD 0) m q).2.1
          else ((evictMem cfg tl now (rs.headD 0) m q).1, (evictMem cfg tl now (rs.headD 0) m q).2.1, rs.tail) := by
        simp only [memLoop, hfit, if_false]
      rw [hunf]
      by_cases hev : (evictMem cfg tl now (rs.headD 0) m q).2.2 = true
      · rw [if_pos hev]
        have hlen := hql hev
        obtain ⟨j, hj, heq, hbefore, hafter⟩ := ih rs.tail hi (by omega)
        refine ⟨j + 1, by omega, ?_, ?_, ?_⟩
        · rw [iterEvict_succ]; exact heq
        · intro i hi'
          cases i with
          | zero => rw [iterEvict_zero]; simp only; omega
          | succ i => rw [iterEvict_succ]; exact hbefore i (by omega)
        · rw [iterEvict_succ]; exact hafter
      · rw [if_neg hev]
        have hq0 : (evictMem cfg tl now (rs.headD 0) m q).2.1 = [] := by
          rcases hs with ⟨hb, _⟩ | ⟨_, h0, _, h2⟩
          · exact absurd hb hev
          · rw [h2]; exact h0
        refine ⟨1, by omega, rfl, ?_, ?_⟩
        · intro i hi'
          have : i = 0 := by omega
          subst this; rw [iterEvict_zero]; simp only; omega
        · right; exact hq0

/-- **Sharp loop characterisation** when the newcomer alone fits (`extra ≤ maxM`; always the case
    where `insertMem` calls the loop).  The loop performs exactly `j ≤ q.length` iterations, *every one
    a successful eviction* (the queue has lost exactly `j` keys), the total did not fit before any of
    them and fits after the last: `j` is the least number of evictions after which the total fits. -/
theorem memLoop_minimal (cfg : Cfg) (tl : Tlru S) (size : V → Nat) (now maxM extra : Nat)
    (fuel : Nat) (rs : List Nat) {m : Store K V} {q : List K} (h : InvMQ m q) (hfuel : q.length + 1 ≤ fuel)
    (hx : extra ≤ maxM) :
    ∃ j, j ≤ q.length ∧
      memLoop cfg tl size now maxM extra fuel rs m q = iterEvict cfg tl now j rs m q ∧
      (∀ i, i < j → maxM < totalMem size (iterEvict cfg tl now i rs m q).1 + extra) ∧
      totalMem size (iterEvict cfg tl now j rs m q).1 + extra ≤ maxM ∧
      (∀ i, i ≤ j → (iterEvict cfg tl now i rs m q).2.1.length + i = q.length) := by
  obtain ⟨j, hj, heq, hbefore, hafter⟩ := memLoop_char cfg tl size now maxM extra fuel rs h hfuel
  -- every one of the first `j` iterations was a successful eviction
  have hlen : ∀ i, i ≤ j → (iterEvict cfg tl now i rs m q).2.1.length + i = q.length := by
    intro i
    induction i with
    | zero => intro _; rfl
    | succ i ihi =>
      intro hi
      have hprev := ihi (by omega)
      have hinv := iterEvict_inv cfg tl now i rs h
      have hnf := hbefore i (by omega)
      have hne : (iterEvict cfg tl now i rs m q).2.1 ≠ [] := by
        intro h0
        rw [h0] at hinv
        have := hinv.totalMem_nil size
        omega
      have hs := evictMem_spec hinv cfg tl now ((iterEvict cfg tl now i rs m q).2.2.headD 0)
      have := hs.queue_length hinv (hs.flag_of_nonempty hne)
      rw [iterEvict_succ_last]
      simp only
      omega
  have hfits : totalMem size (iterEvict cfg tl now j rs m q).1 + extra ≤ maxM := by
    rcases hafter with hfit | h0
    · exact hfit
    · have hinv := iterEvict_inv cfg tl now j rs h
      rw [h0] at hinv
      have := hinv.totalMem_nil size
      omega
  refine ⟨j, ?_, heq, hbefore, hfits, hlen⟩
  have := hlen j (Nat.le_refl _)
  omega

/-- with `q.length + 1` units of fuel (what `insertMem` passes) the loop never stops for lack of fuel -/
theorem memLoop_fuel (cfg : Cfg) (tl : Tlru S) (size : V → Nat) (now maxM extra : Nat)
    (rs : List Nat) {m : Store K V} {q : List K} (h : InvMQ m q) :
    totalMem size (memLoop cfg tl size now maxM extra (q.length + 1) rs m q).1 + extra ≤ maxM ∨
      (memLoop cfg tl size now maxM extra (q.length + 1) rs m q).2.1 = [] := by
  obtain ⟨j, _, heq, _, hafter⟩ := memLoop_char cfg tl size now maxM extra _ rs h (Nat.le_refl _)
  rw [heq]; exact hafter

/-- … and when the newcomer alone fits, the total fits on exit -/
theorem memLoop_fits (cfg : Cfg) (tl : Tlru S) (size : V → Nat) (now maxM extra : Nat)
    (rs : List Nat) {m : Store K V} {q : List K} (h : InvMQ m q) (hx : extra ≤ maxM) :
    totalMem size (memLoop cfg tl size now maxM extra (q.length + 1) rs m q).1 + extra ≤ maxM := by
  obtain ⟨j, _, heq, _, hfit, _⟩ := memLoop_minimal cfg tl size now maxM extra _ rs h (Nat.le_refl _) hx
  rw [heq]; exact hfit

/-- one more unit of fuel beyond `q.length + 1` changes nothing -/
theorem memLoop_succ_fuel (cfg : Cfg) (tl : Tlru S) (size : V → Nat) (now maxM extra : Nat)
    (fuel : Nat) (rs : List Nat) {m : Store K V} {q : List K} (h : InvMQ m q) (hfuel : q.length + 1 ≤ fuel) :
    memLoop cfg tl size now maxM extra (fuel + 1) rs m q = memLoop cfg tl size now maxM extra fuel rs m q := by
  induction fuel generalizing rs m q with
  | zero => omega
  | succ fuel ih =>
    by_cases hfit : totalMem size m + extra ≤ maxM
    · rw [memLoop_of_fits _ _ _ _ _ _ _ _ _ _ hfit, memLoop_of_fits _ _ _ _ _ _ _ _ _ _ hfit]
    · have hs := evictMem_spec h cfg tl now (rs.headD 0)
      have hi := hs.inv h
      have hql := hs.queue_length h
      rw [memLoop, memLoop]
      simp only [hfit, if_false]
      generalize evictMem cfg tl now (rs.headD 0) m q = r at hs hi hql
      obtain ⟨m', q', ev⟩ := r
      simp only at hi hql ⊢
      cases ev
      · rfl
      · have hlen := hql rfl
        simp only [if_true]
        exact ih rs.tail hi (by omega)

/-- the result of the memory loop does not depend on the fuel once it is at least `q.length + 1`
    (so the fuel parameter is only a device to make the recursion structural) -/
theorem memLoop_fuel_irrelevant (cfg : Cfg) (tl : Tlru S) (size : V → Nat) (now maxM extra : Nat)
    (d : Nat) (rs : List Nat) {m : Store K V} {q : List K} (h : InvMQ m q) :
    memLoop cfg tl size now maxM extra (q.length + 1 + d) rs m q =
      memLoop cfg tl size now maxM extra (q.length + 1) rs m q := by
  induction d with
  | zero => rfl
  | succ d ih =>
    rw [← ih]
    exact memLoop_succ_fuel cfg tl size now maxM extra (q.length + 1 + d) rs h (by omega)

/-! ### Normal forms of the two `insertMem` paths -/

/-- under the invariant the async "replace" prologue is: drop `k` from both structures -/
theorem asyncDrop_eq {m : Store K V} {q : List K} (h : InvMQ m q) (k : K) :
    (if hasKey k m then (eraseKey k m, q.filter (fun x => x ≠ k)) else (m, q)) =
      (eraseKey k m, q.filter (fun x => x ≠ k)) := by
  split
  · rfl
  · rename_i hh
    have hk : k ∉ keys m := (hasKey_false_iff k m).mp (by simpa using hh)
    have hq : k ∉ q := fun hh' => hk ((h.2.2 k).mp hh')
    rw [eraseKey_of_not_mem hk]
    congr 1
    symm; apply List.filter_eq_self.mpr
    intro x hx; simp; intro hxk; exact hq (hxk ▸ hx)

/-- the memory loop as run by the sync engines (`global`, `threadLocal`) inside `insertMem`: the
    value is already stored (`extra = 0`) -/
def syncLoop (cfg : Cfg) (tl : Tlru S) (size : V → Nat) (M : Nat) (rs : List Nat) (s : State K V) (k : K) (v : V) :
    Store K V × List K × List Nat :=
  memLoop cfg tl size s.now M 0 ((erasePush k s.queue).length + 1) rs
    (put k ⟨v, stamp cfg s.now, 0⟩ s.store) (erasePush k s.queue)

/-- the memory loop as run by the async engine inside `insertMem` (in a consistent state): any previous
    entry of `k` has been dropped, the value is not yet stored (`extra = size v`) -/
def asyncLoop (cfg : Cfg) (tl : Tlru S) (size : V → Nat) (M : Nat) (rs : List Nat) (s : State K V) (k : K) (v : V) :
    Store K V × List K × List Nat :=
  memLoop cfg tl size s.now M (size v) ((s.queue.filter (fun x => x ≠ k)).length + 1) rs
    (eraseKey k s.store) (s.queue.filter (fun x => x ≠ k))

/-- sync `insert_with_memory`, value not oversize: store, memory loop, entry-limit step -/
theorem insertMem_sync_fit (cfg : Cfg) (tl : Tlru S) (size : V → Nat) (rs : List Nat) (s : State K V) (k : K) (v : V)
    (M : Nat) (hf : cfg.flavour ≠ .async) (hM : cfg.maxMem = some M) (hv : size v ≤ M) :
    insertMem cfg tl size rs s k v =
      { s with
        store := (limitStep cfg tl s.now ((syncLoop cfg tl size M rs s k v).2.2.headD 0)
                    (syncLoop cfg tl size M rs s k v).1 (syncLoop cfg tl size M rs s k v).2.1).1
        queue := (limitStep cfg tl s.now ((syncLoop cfg tl size M rs s k v).2.2.headD 0)
                    (syncLoop cfg tl size M rs s k v).1 (syncLoop cfg tl size M rs s k v).2.1).2 } := by
  have hnot : ¬ size v > M := by omega
  unfold insertMem syncLoop
  cases hfl : cfg.flavour <;> simp only [hM, hnot, if_false]
  · exact absurd hfl hf

/-- async `insert_with_memory`, value not oversize: drop the old entry, memory loop, entry-limit
    step, store -/
theorem insertMem_async_fit (cfg : Cfg) (tl : Tlru S) (size : V → Nat) (rs : List Nat) (s : State K V) (k : K) (v : V)
    (M : Nat) (hf : cfg.flavour = .async) (hM : cfg.maxMem = some M) (hv : size v ≤ M) (hi : Inv s) :
    insertMem cfg tl size rs s k v =
      { s with
        store := put k ⟨v, stamp cfg s.now, 0⟩
                  (limitStep cfg tl s.now ((asyncLoop cfg tl size M rs s k v).2.2.headD 0)
                    (asyncLoop cfg tl size M rs s k v).1 (asyncLoop cfg tl size M rs s k v).2.1).1
        queue := (limitStep cfg tl s.now ((asyncLoop cfg tl size M rs s k v).2.2.headD 0)
                    (asyncLoop cfg tl size M rs s k v).1 (asyncLoop cfg tl size M rs s k v).2.1).2 ++ [k] } := by
  have hnot : ¬ size v > M := by omega
  unfold insertMem asyncLoop
  simp only [hf, hM, hnot, if_false, asyncDrop_eq hi k]

/-- `insert_with_memory` of an oversize value, every flavour: the only effect is that `k` is no longer
    cached (store and queue lose `k`, nothing else changes) -/
theorem insertMem_oversize_eq (cfg : Cfg) (tl : Tlru S) (size : V → Nat) (rs : List Nat) (s : State K V) (k : K) (v : V)
    (M : Nat) (hM : cfg.maxMem = some M) (hv : M < size v) (hi : Inv s) :
    insertMem cfg tl size rs s k v =
      { s with store := eraseKey k s.store, queue := s.queue.filter (fun x => x ≠ k) } := by
  have hgt : size v > M := hv
  unfold insertMem
  cases hfl : cfg.flavour <;>
    simp only [hM, hgt, if_true, asyncDrop_eq hi k, eraseKey_put, dropLast_erasePush,
      erase_eq_filter_of_nodup hi.2.1]

/-- if `k` is not cached, removing it is the identity -/
theorem remove_absent {s : State K V} (hi : Inv s) {k : K} (hk : k ∉ keys s.store) :
    ({ s with store := eraseKey k s.store, queue := s.queue.filter (fun x => x ≠ k) } : State K V) = s := by
  have hq : k ∉ s.queue := fun hh => hk ((hi.2.2 k).mp hh)
  have h1 : eraseKey k s.store = s.store := eraseKey_of_not_mem hk
  have h2 : s.queue.filter (fun x => x ≠ k) = s.queue := by
    apply List.filter_eq_self.mpr
    intro x hx; simp; intro hxk; exact hq (hxk ▸ hx)
  rw [h1, h2]

/-! ### Histories whose stores all go through `insert_with_memory` -/

/-- every operation except the plain `insert` (which ignores `max_memory`; the generated code never
    calls it on a cache configured with `max_memory`) -/
def Op.viaMem : Op K V → Bool
  | .insert _ _ => false
  | _ => true

/-- every store of the history is an `insertMem` -/
def AllViaMem (ops : List (Op K V × List Nat)) : Prop := ∀ p, p ∈ ops → p.1.viaMem = true

instance (ops : List (Op K V × List Nat)) : Decidable (AllViaMem ops) := by
  unfold AllViaMem; infer_instance

theorem AllViaMem.tail {a : Op K V × List Nat} {ops : List (Op K V × List Nat)} (h : AllViaMem (a :: ops)) :
    AllViaMem ops := fun p hp => h p (List.mem_cons_of_mem _ hp)

theorem AllViaMem.head {a : Op K V × List Nat} {ops : List (Op K V × List Nat)} (h : AllViaMem (a :: ops)) :
    a.1.viaMem = true := h a List.mem_cons_self

theorem AllViaMem.take {ops : List (Op K V × List Nat)} (h : AllViaMem ops) (i : Nat) :
    AllViaMem (ops.take i) := fun p hp => h p (List.mem_of_mem_take hp)

end Cachelito
