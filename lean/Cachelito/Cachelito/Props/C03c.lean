/-
  C03 (concurrent clause) — "When several callers miss concurrently the body may run once per such caller,
  but never again once any call that stored the result has returned."

  Model: `Cachelito.ConcCalls` — any number of caller threads over ONE shared cache of the data-carrying
  interleaving model `Cachelito.ConcData`; a call for key `k` is  lookup (`get k`, its micro-steps) ; on a
  miss: body (no cache access) ; store (`insert k (f k)`, its micro-steps) ; both engines, every policy,
  ANY schedule `sch : List ThreadId` (`callRun`).  Ghost state: per caller the body runs (`bodies`), a global
  event log, NEWEST FIRST (`read k found` / `write k` / `ret k v stored`), so "`e` happened after `e'`" reads
  "`log = later ++ e' :: earlier` and `e ∈ later`".

  Configuration of the property (`Plain cfg`): `limit = none`, `maxMem = none`, `ttl = none`; callers only
  call (no clear, no conditional invalidation).  Start: any cache state whose pairs are `(k, f k)`.

    (a) `stored_key_stays`, `written_key_is_stored`
    (b) `lookup_after_store_write_hits`, `no_body_after_storing_call_returned`,
        `no_more_body_runs_once_stored`, `calls_return_function_value`
    (c) `body_runs_eq_missed_lookups`, `body_runs_le_lookups_before_first_write`, `body_runs_le_lookups`
  Nothing is partial.  Helper lemmas: `Cachelito/Lemmas/ConcCalls.lean`.
-/
import Cachelito.Lemmas.ConcCalls

set_option linter.unusedSectionVars false
set_option linter.unusedSimpArgs false
set_option linter.unusedVariables false

namespace Cachelito.C03c
open Cachelito Cachelito.ConcData Cachelito.ConcCalls

variable {K V S : Type} [DecidableEq K]

/-! ## (a) Stability -/

/-- **A stored key stays stored**: in the plain configuration nothing removes entries — from any reachable
    point on (`sch₁`), a key held by the cache is held after every further schedule (`sch₂`). -/
theorem stored_key_stays (f : K → V) (cfg : Cfg) (hp : Plain cfg) (tl : Tlru S) (size : V → Nat)
    (s0 : State K V) (hs0 : ValOK f s0.store) (callss : List (List (K × List Nat))) (sch₁ sch₂ : List ThreadId)
    (k : K) (hk : k ∈ keys (callRun f cfg tl size sch₁ (CallState.start s0 callss)).shared.store) :
    k ∈ keys (callRun f cfg tl size sch₂ (callRun f cfg tl size sch₁ (CallState.start s0 callss))).shared.store := by
  have h1 := (callRun_inv f hp tl size sch₁ _ (callInv_start f cfg s0 callss hs0)).1
  exact (callRun_inv f hp tl size sch₂ _ h1).2.1 k hk

/-- **Once the store-write micro-step of `insert k _` of some caller has executed, `k` is in the store at
    every later point** (the log only grows, so "`write k` is in the log" = "it has executed"). -/
theorem written_key_is_stored (f : K → V) (cfg : Cfg) (hp : Plain cfg) (tl : Tlru S) (size : V → Nat)
    (s0 : State K V) (hs0 : ValOK f s0.store) (callss : List (List (K × List Nat))) (sch : List ThreadId)
    (k : K) (hw : Ev.write k ∈ (callRun f cfg tl size sch (CallState.start s0 callss)).log) :
    k ∈ keys (callRun f cfg tl size sch (CallState.start s0 callss)).shared.store :=
  (callRun_inv f hp tl size sch _ (callInv_start f cfg s0 callss hs0)).1.logInv.written k hw

/-! ## (b) Never again -/

/-- **Every lookup of `k` whose read micro-step executes after a store-write of `k` finds it**: no missed
    lookup of `k` (hence no body run for `k`) is logged after a `write k`. -/
theorem lookup_after_store_write_hits (f : K → V) (cfg : Cfg) (hp : Plain cfg) (tl : Tlru S) (size : V → Nat)
    (s0 : State K V) (hs0 : ValOK f s0.store) (callss : List (List (K × List Nat))) (sch : List ThreadId)
    (k : K) (later earlier : List (Ev K V))
    (hlog : (callRun f cfg tl size sch (CallState.start s0 callss)).log = later ++ Ev.write k :: earlier) :
    Ev.read k false ∉ later :=
  (callRun_inv f hp tl size sch _ (callInv_start f cfg s0 callss hs0)).1.logInv.after later earlier k hlog

/-- **Never again once a call that stored the result has returned**: after the return of a call for `k`
    that ran the body and stored (`ret k v true`), `k` is in the store and no lookup of `k` misses — so a
    call that STARTS after that return is served from the cache and does not run the body. -/
theorem no_body_after_storing_call_returned (f : K → V) (cfg : Cfg) (hp : Plain cfg) (tl : Tlru S) (size : V → Nat)
    (s0 : State K V) (hs0 : ValOK f s0.store) (callss : List (List (K × List Nat))) (sch : List ThreadId)
    (k : K) (v : V) (later earlier : List (Ev K V))
    (hlog : (callRun f cfg tl size sch (CallState.start s0 callss)).log = later ++ Ev.ret k v true :: earlier) :
    Ev.read k false ∉ later ∧ k ∈ keys (callRun f cfg tl size sch (CallState.start s0 callss)).shared.store := by
  have hi := (callRun_inv f hp tl size sch _ (callInv_start f cfg s0 callss hs0)).1
  have hw := hi.logInv.stored later earlier k v hlog
  obtain ⟨e1, e2, he⟩ := List.append_of_mem hw
  have hlog' : (callRun f cfg tl size sch (CallState.start s0 callss)).log
      = (later ++ Ev.ret k v true :: e1) ++ Ev.write k :: e2 := by
    rw [hlog, he]; simp
  refine ⟨?_, hi.logInv.written k (by rw [hlog']; simp)⟩
  intro hh
  exact hi.logInv.after _ _ k hlog' (List.mem_append_left _ hh)

/-- **State form of "never again"**: from any reachable point at which `k` is in the store, no further
    schedule runs the body for `k` — the number of body runs for `k` is frozen. -/
theorem no_more_body_runs_once_stored (f : K → V) (cfg : Cfg) (hp : Plain cfg) (tl : Tlru S) (size : V → Nat)
    (s0 : State K V) (hs0 : ValOK f s0.store) (callss : List (List (K × List Nat))) (sch₁ sch₂ : List ThreadId)
    (k : K) (hk : k ∈ keys (callRun f cfg tl size sch₁ (CallState.start s0 callss)).shared.store) :
    totalBodies k (callRun f cfg tl size sch₂ (callRun f cfg tl size sch₁ (CallState.start s0 callss))).callers
      = totalBodies k (callRun f cfg tl size sch₁ (CallState.start s0 callss)).callers := by
  have h1 := (callRun_inv f hp tl size sch₁ _ (callInv_start f cfg s0 callss hs0)).1
  exact (callRun_inv f hp tl size sch₂ _ h1).2.2.1 k hk

/-- every call returns the function's value for its key, whether served from the cache or computed -/
theorem calls_return_function_value (f : K → V) (cfg : Cfg) (hp : Plain cfg) (tl : Tlru S) (size : V → Nat)
    (s0 : State K V) (hs0 : ValOK f s0.store) (callss : List (List (K × List Nat))) (sch : List ThreadId)
    (k : K) (v : V) (b : Bool) (hr : Ev.ret k v b ∈ (callRun f cfg tl size sch (CallState.start s0 callss)).log) :
    v = f k :=
  (callRun_inv f hp tl size sch _ (callInv_start f cfg s0 callss hs0)).1.logInv.value k v b hr

/-! ## (c) At most once per caller that missed before the first store -/

/-- the body runs for `k` exactly as often as a lookup of `k` missed -/
theorem body_runs_eq_missed_lookups (f : K → V) (cfg : Cfg) (hp : Plain cfg) (tl : Tlru S) (size : V → Nat)
    (s0 : State K V) (hs0 : ValOK f s0.store) (callss : List (List (K × List Nat))) (sch : List ThreadId) (k : K) :
    totalBodies k (callRun f cfg tl size sch (CallState.start s0 callss)).callers
      = (callRun f cfg tl size sch (CallState.start s0 callss)).log.countP (isMiss k) :=
  (callRun_inv f hp tl size sch _ (callInv_start f cfg s0 callss hs0)).1.bodies k

/-- **The body runs at most once per call whose lookup read executed before the first store-write of `k`**:
    if a store-write of `k` has executed (`log = later ++ write k :: earlier`; take the first one), every
    body run for `k` belongs to a lookup in `earlier`, and there are at most as many as lookups of `k` in
    `earlier`. -/
theorem body_runs_le_lookups_before_first_write (f : K → V) (cfg : Cfg) (hp : Plain cfg) (tl : Tlru S)
    (size : V → Nat) (s0 : State K V) (hs0 : ValOK f s0.store) (callss : List (List (K × List Nat)))
    (sch : List ThreadId) (k : K) (later earlier : List (Ev K V))
    (hlog : (callRun f cfg tl size sch (CallState.start s0 callss)).log = later ++ Ev.write k :: earlier) :
    totalBodies k (callRun f cfg tl size sch (CallState.start s0 callss)).callers = earlier.countP (isMiss k) ∧
    earlier.countP (isMiss k) ≤ earlier.countP (isRead k) := by
  have hb := body_runs_eq_missed_lookups f cfg hp tl size s0 hs0 callss sch k
  have ha := lookup_after_store_write_hits f cfg hp tl size s0 hs0 callss sch k later earlier hlog
  refine ⟨?_, countP_isMiss_le_isRead k earlier⟩
  rw [hb, hlog, List.countP_append, List.countP_cons]
  have h0 : later.countP (isMiss k) = 0 := by
    rw [List.countP_eq_zero]
    intro e he hm
    cases e with
    | read k' b =>
      cases b with
      | true => simp [isMiss] at hm
      | false =>
        simp only [isMiss, decide_eq_true_eq] at hm
        subst hm
        exact ha he
    | write k' => simp [isMiss] at hm
    | ret k' v b => simp [isMiss] at hm
  have h1 : isMiss k (Ev.write k : Ev K V) = false := rfl
  rw [h0, h1]; simp

/-- in any case the body runs for `k` at most once per lookup of `k` (once per caller that missed) -/
theorem body_runs_le_lookups (f : K → V) (cfg : Cfg) (hp : Plain cfg) (tl : Tlru S) (size : V → Nat)
    (s0 : State K V) (hs0 : ValOK f s0.store) (callss : List (List (K × List Nat))) (sch : List ThreadId) (k : K) :
    totalBodies k (callRun f cfg tl size sch (CallState.start s0 callss)).callers
      ≤ (callRun f cfg tl size sch (CallState.start s0 callss)).log.countP (isRead k) := by
  rw [body_runs_eq_missed_lookups f cfg hp tl size s0 hs0 callss sch k]
  exact countP_isMiss_le_isRead k _

/-! ## Non-vacuity: two callers miss concurrently (two body runs), then a third caller hits -/

def exTl : Tlru Nat := ⟨fun a b => decide (a < b), fun _ h _ r => h * r⟩
def exF (k : Nat) : Nat := k * 10
def cfgSync : Cfg := ⟨.global, .lru, none, none, none⟩
def cfgAsync : Cfg := ⟨.async, .lru, none, none, none⟩
def three : List (List (Nat × List Nat)) := [[(1, [])], [(1, [])], [(1, [])]]

/-- readable form of an event -/
def Ev.code : Ev Nat Nat → Nat × Nat × Nat
  | .read k b => (0, k, if b then 1 else 0)
  | .write k => (1, k, 0)
  | .ret k v b => (2, k, v * 2 + (if b then 1 else 0))

/-- sync engine: callers 0 and 1 both read before either writes (two misses, two body runs, two stores);
    caller 2 starts after caller 0 has returned: hit, no body run; everybody gets `f 1 = 10`.
    Chronological log: R1-miss, R1-miss, W1, ret(stored), W1, ret(stored), R1-hit, ret(served). -/
example :
    allReturnedB (callRun exF cfgSync exTl (fun _ => 0) [0, 1, 0, 0, 1, 1, 2, 2] (CallState.init three)) = true ∧
    totalBodies 1 (callRun exF cfgSync exTl (fun _ => 0) [0, 1, 0, 0, 1, 1, 2, 2] (CallState.init three)).callers = 2 ∧
    (callRun exF cfgSync exTl (fun _ => 0) [0, 1, 0, 0, 1, 1, 2, 2] (CallState.init three)).callers.map (·.rets)
      = [[(1, 10)], [(1, 10)], [(1, 10)]] ∧
    (callRun exF cfgSync exTl (fun _ => 0) [0, 1, 0, 0, 1, 1, 2, 2] (CallState.init three)).callers.map (·.bodies)
      = [[1], [1], []] ∧
    (callRun exF cfgSync exTl (fun _ => 0) [0, 1, 0, 0, 1, 1, 2, 2] (CallState.init three)).log.reverse.map Ev.code
      = [(0, 1, 0), (0, 1, 0), (1, 1, 0), (2, 1, 21), (1, 1, 0), (2, 1, 21), (0, 1, 1), (2, 1, 20)] ∧
    keys (callRun exF cfgSync exTl (fun _ => 0) [0, 1, 0, 0, 1, 1, 2, 2] (CallState.init three)).shared.store = [1] := by
  decide

/-- async engine, same story (the store is one micro-step; the LRU hit is read + refresh) -/
example :
    allReturnedB (callRun exF cfgAsync exTl (fun _ => 0) [0, 1, 0, 1, 2, 2] (CallState.init three)) = true ∧
    totalBodies 1 (callRun exF cfgAsync exTl (fun _ => 0) [0, 1, 0, 1, 2, 2] (CallState.init three)).callers = 2 ∧
    (callRun exF cfgAsync exTl (fun _ => 0) [0, 1, 0, 1, 2, 2] (CallState.init three)).callers.map (·.rets)
      = [[(1, 10)], [(1, 10)], [(1, 10)]] ∧
    (callRun exF cfgAsync exTl (fun _ => 0) [0, 1, 0, 1, 2, 2] (CallState.init three)).log.reverse.map Ev.code
      = [(0, 1, 0), (0, 1, 0), (1, 1, 0), (2, 1, 21), (1, 1, 0), (2, 1, 21), (0, 1, 1), (2, 1, 20)] := by
  decide

/-- sequential schedule of the same callers: one body run only -/
example :
    totalBodies 1 (callRun exF cfgSync exTl (fun _ => 0) [0, 0, 0, 1, 1, 2, 2] (CallState.init three)).callers = 1 ∧
    allReturnedB (callRun exF cfgSync exTl (fun _ => 0) [0, 0, 0, 1, 1, 2, 2] (CallState.init three)) = true := by
  decide

end Cachelito.C03c
