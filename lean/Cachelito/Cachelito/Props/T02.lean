/-
  T02 — TRANSLATOR TIE, utils.rs: queue / store helpers and the victim scans of the sync engines (C04, C07, C08, C13)

  The functions named here are regenerated from /repo's CURRENT source on every check by `checklib/rust2lean.py`
  (`Generated/Pure*.lean`); the theorems are re-proved against whatever was generated (see `Props/T01.lean`).
  The `f64` code is translated over an ARBITRARY structure of float operations (`RustLite.F64`).  Hypotheses that appear
  are the modelling assumptions of DESIGN.md §9: hit counters below `u64::MAX`, scores below `f64::MAX`, `as f64` exact
  and order-preserving on the products that occur.
-/
import Cachelito.Generated.PureUtils
import Cachelito.Lemmas.Source

set_option linter.unusedSimpArgs false
set_option linter.unusedVariables false

namespace Cachelito.T02
open Cachelito Cachelito.RustLite Cachelito.Generated Cachelito.SourceLemmas
open Cachelito.Generated.Utils

variable {K V F : Type} [DecidableEq K]

/-! ## Part 2: `utils.rs`, `cache_entry.rs`, `stats.rs`, `eviction_policy.rs` -/


/-- `move_key_to_end` is `moveToEnd` (the key goes to the back only if it is queued) -/
theorem move_key_to_end_eq (q : List K) (k : K) : move_key_to_end q k = moveToEnd k q := by
  unfold move_key_to_end moveToEnd
  cases h : position (fun x => decide (x = k)) q with
  | none => simp [position_none k q h]
  | some i =>
    obtain ⟨hm, he, _⟩ := position_some k q i h
    simp [hm, he, dequeRemove, pushBack]

/-- `remove_from_maps`: the entry leaves the store, the FIRST queue slot of the key leaves the queue; the flags say
    what was there -/
theorem remove_from_maps_eq (m : Store K V) (q : List K) (k : K) :
    remove_from_maps m q k = ((hasKey k m, decide (k ∈ q)), eraseKey k m, q.erase k) := by
  unfold remove_from_maps
  cases h : position (fun x => decide (x = k)) q with
  | none =>
    have hn := position_none k q h
    simp [mapRemove, hasKey, hn, List.erase_of_not_mem hn]
  | some i =>
    obtain ⟨hm, he, _⟩ := position_some k q i h
    simp [mapRemove, hasKey, hm, he, dequeRemove]

/-- both wrappers of `remove_from_maps` (`remove_key_from_global_cache`, `remove_key_from_cache_local`) remove the
    key from both structures — the sync engines' `removeBoth` — and report whether anything was there -/
theorem remove_key_eq (m : Store K V) (q : List K) (k : K) :
    remove_key_from_global_cache m q k = (hasKey k m || decide (k ∈ q), eraseKey k m, q.erase k) ∧
    remove_key_from_cache_local m q k = (hasKey k m || decide (k ∈ q), eraseKey k m, q.erase k) := by
  simp [remove_key_from_global_cache, remove_key_from_cache_local, remove_from_maps_eq]

theorem remove_key_is_removeBoth (cfg : Cfg) (hf : cfg.flavour ≠ .async) (m : Store K V) (q : List K) (k : K) :
    (remove_key_from_global_cache m q k).2 = removeBoth cfg k m q ∧
    (remove_key_from_cache_local m q k).2 = removeBoth cfg k m q := by
  have h := remove_key_eq m q k
  cases hfl : cfg.flavour <;> simp_all [removeBoth]

/-! ### the victim scans -/

/-- the LFU scan of the source is the `if score < best { … }` scan over the stored queue keys -/
theorem find_min_frequency_key_scan (m : Store K V) (q : List K) :
    find_min_frequency_key m q =
      (scan (fun a b => decide (a < b)) (u64Max, none) (cands (fun e _ _ => e.hits) m q)).2 := by
  unfold find_min_frequency_key cands
  dsimp only
  rw [foldl_congr' (g := fun (st : Nat × Option K) (k : K) =>
          match lookup k m with
          | some e => if (decide (e.hits < st.1)) = true then (e.hits, some k) else st
          | none => st)]
  · exact congrArg Prod.snd
      (fold_keys_eq_scan (fun a b => decide (a < b)) (fun e : Entry V => e.hits) m q.length q 0 (u64Max, none))
  · intro st k
    cases lookup k m <;> simp

/-- **LFU**: `find_min_frequency_key` is the model's LFU victim (first minimum of the hit counters among the stored
    queue keys, in queue order) — as long as no hit counter has reached `u64::MAX` -/
theorem find_min_frequency_key_eq (cfg : Cfg) (tl : Tlru F) (now : Nat) (hp : cfg.policy = .lfu)
    (m : Store K V) (q : List K) (hmax : ∀ k e, lookup k m = some e → e.hits < u64Max) :
    find_min_frequency_key m q = victim cfg tl now m q := by
  rw [find_min_frequency_key_scan, victim, hp]
  apply scan_max
  intro c hc
  obtain ⟨e, j, he, hs⟩ := mem_candsFrom _ m q.length q 0 c hc
  simp [hs, hmax c.1 e he]

/-- the ARC scan of the source (generic in the float structure): the `if score < best { … }` scan with score
    `frequency as f64 * (total_len - idx) as f64` over the stored queue keys -/
theorem find_arc_eviction_key_scan (A : F64 F) (m : Store K V) (q : List K) :
    find_arc_eviction_key A m (enumerate q) =
      (scan A.lt (A.maxVal, none)
        (cands (fun e i len => A.mul (A.ofNat e.hits) (A.ofNat (len - i))) m q)).2 := by
  unfold find_arc_eviction_key cands
  dsimp only
  rw [enumerate_length]
  rw [foldl_congr' (g := fun (st : F × Option K) (p : Nat × K) =>
          match lookup p.2 m with
          | some e => if A.lt (A.mul (A.ofNat e.hits) (A.ofNat (q.length - p.1))) st.1
              then (A.mul (A.ofNat e.hits) (A.ofNat (q.length - p.1)), some p.2) else st
          | none => st)]
  · exact congrArg Prod.snd
      (fold_eq_scan A.lt (fun (e : Entry V) i len => A.mul (A.ofNat e.hits) (A.ofNat (len - i))) m q.length q 0 (A.maxVal, none))
  · intro st p
    cases lookup p.2 m <;> simp

/-- **ARC (sync engines)**: `find_arc_eviction_key` over `order.iter().enumerate()` is the model's ARC victim, for
    every float structure in which `as f64` and `*` are exact and order-preserving on the products that occur and
    those products stay below `f64::MAX` -/
theorem find_arc_eviction_key_eq (A : F64 F) (cfg : Cfg) (tl : Tlru F) (now : Nat)
    (hp : cfg.policy = .arc) (hf : cfg.flavour ≠ .async) (m : Store K V) (q : List K)
    (hmax : ∀ a b, A.lt (A.mul (A.ofNat a) (A.ofNat b)) A.maxVal = true)
    (hord : ∀ a b c d, A.lt (A.mul (A.ofNat a) (A.ofNat b)) (A.mul (A.ofNat c) (A.ofNat d)) = decide (a * b < c * d)) :
    find_arc_eviction_key A m (enumerate q) = victim cfg tl now m q := by
  rw [find_arc_eviction_key_scan, victim, hp]
  rw [scan_max]
  · -- both scores are order-preserving images of the pair (hits, rank)
    have hrank : ∀ i len, rank cfg i len = len - i := by
      intro i len; cases hfl : cfg.flavour <;> simp_all [rank]
    have h1 := candsFrom_map (K := K) (fun p : Nat × Nat => A.mul (A.ofNat p.1) (A.ofNat p.2))
      (fun (e : Entry V) i len => (e.hits, len - i)) m q.length q 0
    have h2 := candsFrom_map (K := K) (fun p : Nat × Nat => p.1 * p.2)
      (fun (e : Entry V) i len => (e.hits, len - i)) m q.length q 0
    simp only [cands, hrank]
    rw [h1, h2]
    rw [firstMin_map (fun (a b : Nat × Nat) => decide (a.1 * a.2 < b.1 * b.2)) A.lt _ (fun a b => hord a.1 a.2 b.1 b.2),
        firstMin_map (fun (a b : Nat × Nat) => decide (a.1 * a.2 < b.1 * b.2)) (fun a b => decide (a < b)) _ (fun a b => rfl)]
  · intro c hc
    obtain ⟨e, j, _, hs⟩ := mem_candsFrom _ m q.length q 0 c hc
    simp [hs, hmax]

/-- the TLRU score as the CURRENT source computes it (sync engines): `frequency [× weight] × rank × age factor`,
    age factor `max(1 − min(elapsed / ttl, 1), 0)`.  It is an instance of the model's `Tlru`, so every theorem of
    C08 (which quantify over all scorers) speaks about it. -/
def srcTlru (A : F64 F) (fw : Option F) : Tlru F where
  lt := A.lt
  score cfg hits elapsedMs rank :=
    A.mul (A.mul (match fw with | some w => A.mul (A.ofNat hits) w | none => A.ofNat hits) (A.ofNat rank))
      (match cfg.ttl with
       | some t => A.max (A.sub A.one (A.min (A.div (A.ofDuration elapsedMs) (A.ofNat t)) A.one)) A.zero
       | none => A.one)

/-- **TLRU (sync engines)**: `find_tlru_eviction_key` over `order.iter().enumerate()` is the model's TLRU victim for
    the scorer `srcTlru` (the documented formula), for every float structure, provided the scores stay below
    `f64::MAX` -/
theorem find_tlru_eviction_key_eq (A : F64 F) (fw : Option F) (cfg : Cfg) (now : Nat)
    (hp : cfg.policy = .tlru) (hf : cfg.flavour ≠ .async) (m : Store K V) (q : List K)
    (hmax : ∀ hits el rk, A.lt ((srcTlru A fw).score cfg hits el rk) A.maxVal = true) :
    find_tlru_eviction_key A ⟨fun b => now - b, now⟩ m (enumerate q) cfg.ttl fw = victim cfg (srcTlru A fw) now m q := by
  have hrank : ∀ i len, rank cfg i len = len - i := by
    intro i len; cases hfl : cfg.flavour <;> simp_all [rank]
  have hel : ∀ b, elapsedMs cfg now b = now - b := by
    intro b; cases hfl : cfg.flavour <;> simp_all [elapsedMs]
  unfold find_tlru_eviction_key
  dsimp only
  rw [enumerate_length]
  rw [foldl_congr' (g := fun (st : F × Option K) (p : Nat × K) =>
          match lookup p.2 m with
          | some e => if A.lt ((srcTlru A fw).score cfg e.hits (now - e.birth) (q.length - p.1)) st.1
              then ((srcTlru A fw).score cfg e.hits (now - e.birth) (q.length - p.1), some p.2) else st
          | none => st)]
  · rw [victim, hp]
    have h := fold_eq_scan A.lt (fun (e : Entry V) i len => (srcTlru A fw).score cfg e.hits (now - e.birth) (len - i))
      m q.length q 0 (A.maxVal, none)
    refine Eq.trans (congrArg Prod.snd h) ?_
    rw [scan_max]
    · simp [cands, hrank, hel, srcTlru]
    · intro c hc
      obtain ⟨e, j, _, hs⟩ := mem_candsFrom _ m q.length q 0 c hc
      simp [hs, hmax]
  · intro st p
    cases hl : lookup p.2 m <;> cases fw <;> cases httl : cfg.ttl <;> simp [srcTlru, httl] <;> split <;> simp_all


/-! ### non-vacuity: the hypotheses of the ARC / TLRU theorems are jointly satisfiable -/

/-- a float structure on `Option Nat` (`none` = `f64::MAX`, above every product): exact, order-preserving -/
def natTop : F64 (Option Nat) where
  ofNat n := some n
  ofDuration ms := some (ms / 1000)
  maxVal := none
  zero := some 0
  one := some 1
  add a b := do let x ← a; let y ← b; pure (x + y)
  sub a b := do let x ← a; let y ← b; pure (x - y)
  mul a b := do let x ← a; let y ← b; pure (x * y)
  div a b := do let x ← a; let y ← b; pure (x / y)
  powf a b := do let x ← a; let y ← b; pure (x ^ y)
  min a b := match a, b with | some x, some y => some (Nat.min x y) | some x, none => some x | none, y => y
  max a b := match a, b with | some x, some y => some (Nat.max x y) | _, _ => none
  lt a b := match a, b with | some x, some y => decide (x < y) | some _, none => true | none, _ => false
  le a b := match a, b with | some x, some y => decide (x ≤ y) | _, none => true | none, some _ => false
  gt a b := match a, b with | some x, some y => decide (x > y) | none, some _ => true | _, none => false
  ge a b := match a, b with | some x, some y => decide (x ≥ y) | none, _ => true | some _, none => false

example : (∀ a b, natTop.lt (natTop.mul (natTop.ofNat a) (natTop.ofNat b)) natTop.maxVal = true) ∧
    (∀ a b c d, natTop.lt (natTop.mul (natTop.ofNat a) (natTop.ofNat b)) (natTop.mul (natTop.ofNat c) (natTop.ofNat d))
      = decide (a * b < c * d)) := by
  constructor <;> intros <;> rfl

/-- the translated ARC scan run on a concrete cache (sync orientation `len − idx`: scores a = 2·3, b = 2·2, c = 5·1) -/
example : find_arc_eviction_key natTop
    ([("a", ⟨1, 0, 2⟩), ("b", ⟨2, 0, 2⟩), ("c", ⟨3, 0, 5⟩)] : Store String Nat) (enumerate ["a", "b", "c"]) = some "b" := by
  decide

end Cachelito.T02
