/-
  T11 — TRANSLATOR TIE, thread_local_cache.rs: the STORE PATH of the thread-local engine
  (`insert`, `handle_entry_limit_eviction`, `remove_key`, `remove_key_with_order`, `move_to_end`,
  `increment_frequency`) — C01, C04, C07, C08, C14, C16

  `Generated/PureThread.lean` is regenerated from /repo's CURRENT source on every check; the theorems are re-proved
  against whatever was generated.  `self` is the record `RustLite.ThreadCache`: the two `thread_local!` `RefCell`s OF
  THE CALLING THREAD and the configuration; `self.cache.with(|c| …)` is a block in which `c` stands for the cell, and
  `c.borrow()` / `c.borrow_mut()` are guards on it (that no conflicting borrow is alive is C16s's theorem, from the
  other translator).  The helpers called are the translated `utils.rs` functions of `Props/T02.lean`.

  Main theorem `insert_eq`: the translated `ThreadLocalCache::insert` leaves exactly the store and queue of the model's
  `Cachelito.insert` (thread-local flavour).
-/
import Cachelito.Generated.PureThread
import Cachelito.Props.T02
import Cachelito.Props.T03
import Cachelito.Props.T07

set_option linter.unusedSimpArgs false
set_option linter.unusedVariables false

namespace Cachelito.T11
open Cachelito Cachelito.RustLite Cachelito.Generated Cachelito.SourceLemmas
open Cachelito.Generated.Thread

variable {K V F : Type} [DecidableEq K]

/-- the model configuration a `ThreadLocalCache` stands for -/
def cfgOf (c : ThreadCache K V F) : Cfg := ⟨.threadLocal, c.policy, c.limit, c.max_memory, c.ttl⟩

structure ScoresOK (A : F64 F) (c : ThreadCache K V F) : Prop where
  hitsBelowMax : ∀ p, p ∈ c.cache → p.2.hits < u64Max
  arcBelowMax : ∀ a b, A.lt (A.mul (A.ofNat a) (A.ofNat b)) A.maxVal = true
  arcOrder : ∀ a b c d, A.lt (A.mul (A.ofNat a) (A.ofNat b)) (A.mul (A.ofNat c) (A.ofNat d)) = decide (a * b < c * d)
  tlruBelowMax : ∀ hits el rk, A.lt ((T02.srcTlru A c.frequency_weight).score (cfgOf c) hits el rk) A.maxVal = true

/-- `move_to_end` is the model's `moveToEnd` on the thread's queue -/
theorem move_to_end_eq (c : ThreadCache K V F) (k : K) :
    Thread.move_to_end c k = { c with order := moveToEnd k c.order } := by
  simp [Thread.move_to_end, T02.move_key_to_end_eq]

/-- `remove_key` / `remove_key_with_order` remove the key from the thread's map and (first slot) queue -/
theorem remove_key_eq (c : ThreadCache K V F) (k : K) :
    Thread.remove_key c k = { c with cache := eraseKey k c.cache, order := c.order.erase k } := by
  simp [Thread.remove_key, (T02.remove_key_eq _ _ _).2]

theorem remove_key_with_order_eq (c : ThreadCache K V F) (q : List K) (k : K) :
    Thread.remove_key_with_order c q k = ({ c with cache := eraseKey k c.cache }, q.erase k) := by
  simp [Thread.remove_key_with_order, (T02.remove_key_eq _ _ _).2]

/-- `increment_frequency` is the model's `bumpHits` -/
theorem increment_frequency_eq (c : ThreadCache K V F) (k : K) (h : ∀ p, p ∈ c.cache → p.2.hits < u64Max) :
    Thread.increment_frequency c k = { c with cache := bumpHits k c.cache } := by
  obtain ⟨cache, order, limit, mm, policy, ttl, fw, st⟩ := c
  unfold Thread.increment_frequency
  simp only []
  congr 1
  unfold bumpHits
  induction cache with
  | nil => simp [lookup, modify]
  | cons p m ih =>
    obtain ⟨k', e⟩ := p
    have he := h (k', e) (by simp)
    have ih' := ih (fun p hp => h p (by simp [hp]))
    by_cases hk : k' = k
    · simp [lookup, modify, mapSet, hk, T03.increment_frequency_eq e he]
    · simp only [lookup, hk, if_false, modify] at ih' ⊢
      cases hl : lookup k m with
      | none => simp [hl] at ih' ⊢; exact ih'
      | some e2 => simp [hl, mapSet, modify, hk] at ih' ⊢; exact ih'

/-- the FIFO / LRU loop of the thread-local engine is `popStored` -/
theorem whilePop_eq_popStored (c : ThreadCache K V F) : ∀ (q : List K),
    whilePop q c (fun evict_key (self : ThreadCache K V F) =>
        if hasKey evict_key self.cache = true then (true, { self with cache := (mapRemove self.cache evict_key).2 })
        else (false, self)) =
      ((popStored c.cache q).2.1, { c with cache := (popStored c.cache q).1 })
  | [] => by simp [whilePop, popStored]
  | k :: q => by
      simp only [whilePop, popStored]
      by_cases h : hasKey k c.cache = true
      · simp [h, mapRemove]
      · simp [h, whilePop_eq_popStored c q]

/-- **The entry-limit step of the thread-local engine** is the model's `limitStep` -/
theorem handle_entry_limit_eviction_eq (A : F64 F) (c : ThreadCache K V F) (now r : Nat) (q : List K)
    (ok : ScoresOK A c) :
    Thread.handle_entry_limit_eviction A ⟨fun b => now - b, now⟩ r c q =
      ({ c with cache := (limitStep (cfgOf c) (T02.srcTlru A c.frequency_weight) now r c.cache q).1 },
       (limitStep (cfgOf c) (T02.srcTlru A c.frequency_weight) now r c.cache q).2) := by
  obtain ⟨cache, order, limit, mm, policy, ttl, fw, st⟩ := c
  unfold Thread.handle_entry_limit_eviction limitStep
  dsimp only at ok ⊢
  have hlk : ∀ k e, lookup k cache = some e → e.hits < u64Max :=
    fun k e h => ok.hitsBelowMax (k, e) (T07.lookup_mem' k e _ h)
  cases limit with
  | none => simp [cfgOf]
  | some n =>
    by_cases hfull : q.length > n
    · simp only [cfgOf, overLimit, hfull, decide_true, if_true]
      cases policy with
      | lfu =>
        have hv := T02.find_min_frequency_key_eq (F := F) ⟨.threadLocal, .lfu, some n, mm, ttl⟩ (T02.srcTlru A fw) now rfl cache q hlk
        simp [evictLimit, evictScored, hv, remove_key_with_order_eq]
        cases victim _ _ now cache q <;> simp [removeBoth]
      | arc =>
        have hv := T02.find_arc_eviction_key_eq A ⟨.threadLocal, .arc, some n, mm, ttl⟩ (T02.srcTlru A fw) now rfl (by simp) cache q
          ok.arcBelowMax ok.arcOrder
        simp [evictLimit, evictScored, hv, remove_key_with_order_eq]
        cases victim _ _ now cache q <;> simp [removeBoth]
      | tlru =>
        have hv := T02.find_tlru_eviction_key_eq A fw ⟨.threadLocal, .tlru, some n, mm, ttl⟩ now rfl (by simp) cache q
          (by simpa [cfgOf] using ok.tlruBelowMax)
        simp only [] at hv
        simp [evictLimit, evictScored, hv, remove_key_with_order_eq]
        cases victim _ _ now cache q <;> simp [removeBoth]
      | random =>
        simp [evictLimit, evictRandom, randBelow, dequeRemove, mapRemove]
        cases q with
        | nil => simp
        | cons x xs =>
          simp
          cases h : (x :: xs)[r % (xs.length + 1)]? with
          | some y => simp [h]
          | none =>
            have := Nat.mod_lt r (show 0 < xs.length + 1 by omega)
            simp [List.getElem?_eq_none_iff] at h
            omega
      | fifo =>
        simp only [evictLimit]
        rw [T07.whilePop_congr (g := fun evict_key (self : ThreadCache K V F) =>
            if hasKey evict_key self.cache = true then (true, { self with cache := (mapRemove self.cache evict_key).2 })
            else (false, self))]
        · rw [whilePop_eq_popStored]
        · intro a s; by_cases h : hasKey a s.cache = true <;> simp [h]
      | lru =>
        simp only [evictLimit]
        rw [T07.whilePop_congr (g := fun evict_key (self : ThreadCache K V F) =>
            if hasKey evict_key self.cache = true then (true, { self with cache := (mapRemove self.cache evict_key).2 })
            else (false, self))]
        · rw [whilePop_eq_popStored]
        · intro a s; by_cases h : hasKey a s.cache = true <;> simp [h]
    · simp [cfgOf, overLimit, hfull]

/-- **The thread-local engine's `insert` is the model's `insert`** -/
theorem insert_eq (A : F64 F) (c : ThreadCache K V F) (now r hs ms : Nat) (k : K) (v : V) (ok : ScoresOK A c) :
    Thread.insert A ⟨fun b => now - b, now⟩ r c k v =
      { c with
        cache := (Cachelito.insert (cfgOf c) (T02.srcTlru A c.frequency_weight) r ⟨c.cache, c.order, now, hs, ms⟩ k v).store,
        order := (Cachelito.insert (cfgOf c) (T02.srcTlru A c.frequency_weight) r ⟨c.cache, c.order, now, hs, ms⟩ k v).queue } := by
  obtain ⟨cache, order, limit, mm, policy, ttl, fw, st⟩ := c
  unfold Thread.insert
  have ok' : ScoresOK A (ThreadCache.mk (put k ⟨v, now, 0⟩ cache) order limit mm policy ttl fw st) :=
    ⟨fun p hp => by
        simp [put, eraseKey] at hp
        rcases hp with hp | hp
        · exact ok.hitsBelowMax p hp.1
        · subst hp; simp [u64Max],
      ok.arcBelowMax, ok.arcOrder, ok.tlruBelowMax⟩
  have hq : (match position (fun x => decide (x = k)) order with
      | some pos => (dequeRemove order pos).2
      | none => order) = order.erase k := by
    cases h : position (fun x => decide (x = k)) order with
    | none => simp [List.erase_of_not_mem (position_none k order h)]
    | some i => simp [dequeRemove, (position_some k order i h).2.1]
  simp only [mapInsert, newEntry, pushBack]
  rw [handle_entry_limit_eviction_eq A _ now r _ ok']
  simp [Cachelito.insert, cfgOf, stamp, erasePush]
  simp only [← hq]
  constructor <;> (cases position (fun x => decide (x = k)) order <;> simp [dequeRemove])

end Cachelito.T11
