/-
  C08 — LFU / ARC / TLRU evict the entry with the lowest documented score.

  Property theorems only (helper lemmas and the vocabulary `StrictWeakOn`, `FirstMinAt`, `FirstWith`,
  `EvictChain`, `IsVictim`, `preEvict`, `finishStore`, `MinHits`, `VictimSpec`, `ZeroLike`, `ghostHits`,
  `exactTlru` live in `Cachelito/Lemmas/Score.lean`).  All statements quantify over every flavour
  (sync global, thread-local, async) unless a flavour is named, every TLRU scorer `tl`, every size
  function, every stream of random draws, and every store/queue satisfying the bookkeeping invariant
  `InvMQ` (which holds in every reachable state, `C04.inv_reachable`).

  Reading guide.
  * `FirstMinAt lt score m q k`  : `k` sits at some queue index `i` with entry `e`; no stored queue key
    has a strictly smaller score; every stored queue key in front of `k` has a strictly larger one.
  * `EvictChain Φ m q m' q'`     : `(m', q')` is reached from `(m, q)` by removing keys one after the
    other, each satisfying `Φ` in the store/queue it is removed from ("at eviction time").
  * `preEvict cfg s k v`         : the store/queue the evictions of a store of `k` operate on — for the
    sync engines the newcomer is already in it with `hits = 0`.
-/
import Cachelito.Lemmas.Score
import Cachelito.Props.C04
import Cachelito.Props.C05

set_option linter.unusedSectionVars false
set_option linter.unusedSimpArgs false
set_option linter.unusedVariables false

namespace Cachelito.C08
open Cachelito
variable {K V S : Type} [DecidableEq K]

/-! ## (a) The scan returns the first minimiser -/

/-- **Generic minimality of the scan.**  For a comparison `lt` that is a strict weak order
    (asymmetric, negatively transitive) on the scores occurring in the candidate list `l`: the key
    returned by `firstMin` occurs in `l` with a score `s` such that no candidate has a strictly
    smaller score, and every candidate before it has a strictly larger score — it is the first
    minimiser in list order. -/
theorem firstMin_is_first_minimiser {P : S → Prop} {lt : S → S → Bool} (h : StrictWeakOn P lt)
    {l : List (K × S)} (hP : ∀ x ∈ l, P x.2) {k : K} (hk : firstMin lt l = some k) :
    ∃ pre s post, l = pre ++ (k, s) :: post ∧ (∀ x ∈ pre, lt s x.2 = true) ∧
      (∀ x ∈ l, lt x.2 s = false) :=
  firstMin_spec h hP hk

/-- The same for the scan over a queue with an arbitrary score function (orphan queue keys are
    skipped but count for positions, as in the code): the result is a stored queue key and the first
    minimiser of the score among the stored queue keys. -/
theorem scan_is_first_minimiser {P : S → Prop} {lt : S → S → Bool} (h : StrictWeakOn P lt)
    {score : Entry V → Nat → Nat → S} {m : Store K V} {q : List K}
    (hP : ∀ e i, i < q.length → P (score e i q.length)) {k : K}
    (hk : firstMin lt (cands score m q) = some k) : FirstMinAt lt score m q k :=
  scan_spec h hP hk

/-- The victim of any scored policy is a key that is both queued and stored. -/
theorem victim_is_stored_queue_key {cfg : Cfg} {tl : Tlru S} {now : Nat} {m : Store K V} {q : List K} {k : K}
    (h : victim cfg tl now m q = some k) : k ∈ q ∧ k ∈ keys m :=
  victim_mem h

/-- LFU: the victim is the first minimiser of the hit counter among the stored queue keys. -/
theorem victim_lfu_first_min {cfg : Cfg} (hp : cfg.policy = .lfu) {tl : Tlru S} {now : Nat}
    {m : Store K V} {q : List K} {k : K} (h : victim cfg tl now m q = some k) :
    FirstMinAt natLt lfuScore m q k := by
  rw [victim_lfu_eq tl now m q hp] at h
  exact scan_spec strictWeak_natLt (fun _ _ _ => trivial) h

/-- ARC: the victim is the first minimiser of `hits × rank` among the stored queue keys. -/
theorem victim_arc_first_min {cfg : Cfg} (hp : cfg.policy = .arc) {tl : Tlru S} {now : Nat}
    {m : Store K V} {q : List K} {k : K} (h : victim cfg tl now m q = some k) :
    FirstMinAt natLt (arcScore cfg) m q k := by
  rw [victim_arc_eq tl now m q hp] at h
  exact scan_spec strictWeak_natLt (fun _ _ _ => trivial) h

/-- TLRU, for every scorer whose comparison is a strict weak order on the scores it produces (for
    `f64`: no NaN): the victim is the first minimiser of the TLRU score among the stored queue keys. -/
theorem victim_tlru_first_min {cfg : Cfg} (hp : cfg.policy = .tlru) {tl : Tlru S} {P : S → Prop}
    (hsw : StrictWeakOn P tl.lt) (hP : ∀ h el r, P (tl.score cfg h el r)) {now : Nat}
    {m : Store K V} {q : List K} {k : K} (h : victim cfg tl now m q = some k) :
    FirstMinAt tl.lt (tlruScore cfg tl now) m q k := by
  rw [victim_tlru_eq tl now m q hp] at h
  exact scan_spec (score := tlruScore cfg tl now) hsw (fun _ _ _ => hP _ _ _) h

/-- All three policies at once: the victim satisfies the policy's `VictimSpec` (first minimiser of
    hits / hits × rank / the TLRU score). -/
theorem victim_spec {cfg : Cfg} (hp : Scored cfg) {tl : Tlru S} {P : S → Prop}
    (htl : cfg.policy = .tlru → StrictWeakOn P tl.lt ∧ ∀ h el r, P (tl.score cfg h el r))
    {now : Nat} {m : Store K V} {q : List K} {k : K} (h : victim cfg tl now m q = some k) :
    VictimSpec cfg tl now m q k := by
  unfold VictimSpec
  rcases hp with hp | hp | hp <;> rw [hp] <;> simp only
  · exact victim_lfu_first_min hp h
  · exact victim_arc_first_min hp h
  · exact victim_tlru_first_min hp (htl hp).1 (htl hp).2 h

/-- **Every eviction of a plain store is a first minimiser, all flavours, all three policies.**
    The final store/queue of `insert` is reached from the pre-eviction state by a chain of removals
    (at most one), each removing the key that `VictimSpec` describes in the state at that moment. -/
theorem insert_evicts_first_minimisers {cfg : Cfg} (hp : Scored cfg) {tl : Tlru S} {P : S → Prop}
    (htl : cfg.policy = .tlru → StrictWeakOn P tl.lt ∧ ∀ h el r, P (tl.score cfg h el r))
    (r : Nat) {s : State K V} (k : K) (v : V) (hi : Inv s) :
    ∃ m1 q1, EvictChain (VictimSpec cfg tl s.now) (preEvict cfg s k v).1 (preEvict cfg s k v).2 m1 q1 ∧
      (insert cfg tl r s k v).store = finishStore cfg s k v m1 ∧
      (insert cfg tl r s k v).queue = finishQueue cfg k q1 := by
  obtain ⟨m1, q1, c, h1, h2⟩ := insert_chain hp tl r k v hi
  exact ⟨m1, q1, c.mono (fun _ _ _ hx => victim_spec hp htl hx.2), h1, h2⟩

/-- **Every eviction of a memory-aware store is a first minimiser** (memory loop, then entry-limit
    step), all flavours, all three policies; the only other outcome is the oversize early return,
    which evicts nothing. -/
theorem insertMem_evicts_first_minimisers {cfg : Cfg} (hp : Scored cfg) {tl : Tlru S} {P : S → Prop}
    (htl : cfg.policy = .tlru → StrictWeakOn P tl.lt ∧ ∀ h el r, P (tl.score cfg h el r))
    (size : V → Nat) (rs : List Nat) {s : State K V} (k : K) (v : V) (hi : Inv s) :
    (∃ maxM, cfg.maxMem = some maxM ∧ size v > maxM) ∨
    ∃ m2 q2, EvictChain (VictimSpec cfg tl s.now) (preEvict cfg s k v).1 (preEvict cfg s k v).2 m2 q2 ∧
      (insertMem cfg tl size rs s k v).store = finishStore cfg s k v m2 ∧
      (insertMem cfg tl size rs s k v).queue = finishQueue cfg k q2 := by
  rcases insertMem_chain hp tl size rs k v hi with h | ⟨m2, q2, c, h1, h2⟩
  · left; exact h
  · right; exact ⟨m2, q2, c.mono (fun _ _ _ hx => victim_spec hp htl hx.2), h1, h2⟩

/-- Observable form for a plain store: a key that was present before the eviction and is absent
    afterwards is exactly the scan's victim on the pre-eviction state. -/
theorem insert_removed_key_is_victim {cfg : Cfg} (hp : Scored cfg) (tl : Tlru S) (r : Nat) {s : State K V}
    (k : K) (v : V) (hi : Inv s) {x : K} (hx : x ∈ keys (preEvict cfg s k v).1)
    (hx' : x ∉ keys (insert cfg tl r s k v).store) :
    victim cfg tl s.now (preEvict cfg s k v).1 (preEvict cfg s k v).2 = some x := by
  rcases insert_cases hp tl r k v hi with ⟨h1, _⟩ | ⟨n, y, _, _, hv, h1, _⟩
  · rw [h1] at hx'; exact absurd hx (not_mem_finishStore hx')
  · rw [h1] at hx'
    have := not_mem_finishStore hx'
    rw [keys_eraseKey] at this
    by_cases hxy : x = y
    · rw [hxy]; exact hv
    · exact absurd (List.mem_filter.mpr ⟨hx, by simpa using hxy⟩) this

/-- Observable form for any chain of evictions: every key that disappeared was removed as a
    `Φ`-victim from some intermediate state of the chain. -/
theorem removed_key_was_victim {Φ : Store K V → List K → K → Prop}
    {m : Store K V} {q : List K} {m' : Store K V} {q' : List K} (h : EvictChain Φ m q m' q')
    {x : K} (hx : x ∈ keys m) (hx' : x ∉ keys m') : ∃ mi qi, EvictChain Φ m q mi qi ∧ Φ mi qi x :=
  h.removed hx hx'

/-! ## (b) LFU: fewest successful lookups -/

/-- LFU, any consistent store/queue: the victim has the fewest hits among ALL stored entries. -/
theorem lfu_victim_min_hits {cfg : Cfg} (hp : cfg.policy = .lfu) {tl : Tlru S} {now : Nat}
    {m : Store K V} {q : List K} (hi : InvMQ m q) {x : K} (h : victim cfg tl now m q = some x) :
    MinHits m x := by
  obtain ⟨i, e, hq, hl, hmin, _⟩ := victim_lfu_first_min hp h
  refine ⟨e, hl, ?_⟩
  intro k' e' hl'
  obtain ⟨j, hj⟩ := stored_has_index hi hl'
  have := hmin j k' e' hj hl'
  simp only [natLt, lfuScore, decide_eq_false_iff_not] at this
  omega

/-- LFU tie-break: among the entries with the fewest hits the one nearest the queue front goes
    (every stored queue key in front of the victim has strictly more hits). -/
theorem lfu_victim_first_among_ties {cfg : Cfg} (hp : cfg.policy = .lfu) {tl : Tlru S} {now : Nat}
    {m : Store K V} {q : List K} {x : K} (h : victim cfg tl now m q = some x) :
    ∃ (i : Nat) (e : Entry V), q[i]? = some x ∧ lookup x m = some e ∧
      ∀ (j : Nat) k' e', j < i → q[j]? = some k' → lookup k' m = some e' → e.hits < e'.hits := by
  obtain ⟨i, e, hq, hl, _, hfirst⟩ := victim_lfu_first_min hp h
  refine ⟨i, e, hq, hl, ?_⟩
  intro j k' e' hj hq' hl'
  simpa [natLt, lfuScore] using hfirst j k' e' hj hq' hl'

/-- **LFU, plain store, all flavours**: the final state is reached from the pre-eviction state by
    removing (at most one) key that had the fewest hits among the entries present at that moment —
    for the sync engines that includes the newcomer. -/
theorem lfu_insert_evicts_min_hits {cfg : Cfg} (hp : cfg.policy = .lfu) (tl : Tlru S) (r : Nat)
    {s : State K V} (k : K) (v : V) (hi : Inv s) :
    ∃ m1 q1, EvictChain (fun m _ x => MinHits m x) (preEvict cfg s k v).1 (preEvict cfg s k v).2 m1 q1 ∧
      (insert cfg tl r s k v).store = finishStore cfg s k v m1 ∧
      (insert cfg tl r s k v).queue = finishQueue cfg k q1 := by
  obtain ⟨m1, q1, c, h1, h2⟩ := insert_chain (Or.inl hp) tl r k v hi
  exact ⟨m1, q1, c.mono (fun _ _ _ hx => lfu_victim_min_hits hp hx.1 hx.2), h1, h2⟩

/-- **LFU, memory-aware store, all flavours**: every key removed by the memory loop and by the final
    entry-limit step had the fewest hits among the entries present when it was removed. -/
theorem lfu_insertMem_evicts_min_hits {cfg : Cfg} (hp : cfg.policy = .lfu) (tl : Tlru S) (size : V → Nat)
    (rs : List Nat) {s : State K V} (k : K) (v : V) (hi : Inv s) :
    (∃ maxM, cfg.maxMem = some maxM ∧ size v > maxM) ∨
    ∃ m2 q2, EvictChain (fun m _ x => MinHits m x) (preEvict cfg s k v).1 (preEvict cfg s k v).2 m2 q2 ∧
      (insertMem cfg tl size rs s k v).store = finishStore cfg s k v m2 ∧
      (insertMem cfg tl size rs s k v).queue = finishQueue cfg k q2 := by
  rcases insertMem_chain (Or.inl hp) tl size rs k v hi with h | ⟨m2, q2, c, h1, h2⟩
  · left; exact h
  · right; exact ⟨m2, q2, c.mono (fun _ _ _ hx => lfu_victim_min_hits hp hx.1 hx.2), h1, h2⟩

/-- LFU, observable form: the key that an overflowing plain store removes has the fewest hits among
    the entries of the pre-eviction store. -/
theorem lfu_insert_removed_key_min_hits {cfg : Cfg} (hp : cfg.policy = .lfu) (tl : Tlru S) (r : Nat)
    {s : State K V} (k : K) (v : V) (hi : Inv s) {x : K} (hx : x ∈ keys (preEvict cfg s k v).1)
    (hx' : x ∉ keys (insert cfg tl r s k v).store) : MinHits (preEvict cfg s k v).1 x :=
  lfu_victim_min_hits hp (preEvict_inv cfg k v hi)
    (insert_removed_key_is_victim (Or.inl hp) tl r k v hi hx hx')

/-! ## (c) ARC and TLRU: hits × recency-rank (× remaining lifetime) -/

/-- ARC, both rank orientations: the victim minimises `hits × rank`, and every stored queue key in
    front of it has a strictly larger product. -/
theorem arc_victim_min_score {cfg : Cfg} (hp : cfg.policy = .arc) {tl : Tlru S} {now : Nat}
    {m : Store K V} {q : List K} {x : K} (h : victim cfg tl now m q = some x) :
    ∃ (i : Nat) (e : Entry V), q[i]? = some x ∧ lookup x m = some e ∧
      (∀ (j : Nat) k' e', q[j]? = some k' → lookup k' m = some e' →
        e.hits * rank cfg i q.length ≤ e'.hits * rank cfg j q.length) ∧
      (∀ (j : Nat) k' e', j < i → q[j]? = some k' → lookup k' m = some e' →
        e.hits * rank cfg i q.length < e'.hits * rank cfg j q.length) := by
  obtain ⟨i, e, hq, hl, hmin, hfirst⟩ := victim_arc_first_min hp h
  refine ⟨i, e, hq, hl, ?_, ?_⟩
  · intro j k' e' hq' hl'
    have := hmin j k' e' hq' hl'
    simp only [natLt, arcScore, decide_eq_false_iff_not] at this
    omega
  · intro j k' e' hj hq' hl'
    simpa [natLt, arcScore] using hfirst j k' e' hj hq' hl'

/-- **Async ARC: the documented score.**  With queue position `i` counted from the least recently
    used end, the victim minimises `hits × (i + 1)` — a more recently used entry has the higher rank. -/
theorem arc_async_victim_min_documented_score {cfg : Cfg} (hp : cfg.policy = .arc) (hf : cfg.flavour = .async)
    {tl : Tlru S} {now : Nat} {m : Store K V} {q : List K} {x : K} (h : victim cfg tl now m q = some x) :
    ∃ (i : Nat) (e : Entry V), q[i]? = some x ∧ lookup x m = some e ∧
      ∀ (j : Nat) k' e', q[j]? = some k' → lookup k' m = some e' → e.hits * (i + 1) ≤ e'.hits * (j + 1) := by
  obtain ⟨i, e, hq, hl, hmin, _⟩ := arc_victim_min_score hp h
  refine ⟨i, e, hq, hl, ?_⟩
  intro j k' e' hq' hl'
  have := hmin j k' e' hq' hl'
  simpa only [rank, hf] using this

/-- **Async ARC: among equally popular entries the least recently used one goes first.**  No stored
    queue key with the same hit count as the victim sits in front of the victim. -/
theorem arc_async_equal_hits_lru_first {cfg : Cfg} (hp : cfg.policy = .arc) (hf : cfg.flavour = .async)
    {tl : Tlru S} {now : Nat} {m : Store K V} {q : List K} {x : K} (h : victim cfg tl now m q = some x) :
    ∃ (i : Nat) (e : Entry V), q[i]? = some x ∧ lookup x m = some e ∧
      ∀ (j : Nat) y e', q[j]? = some y → lookup y m = some e' → e'.hits = e.hits → i ≤ j := by
  obtain ⟨i, e, hq, hl, _, hfirst⟩ := arc_victim_min_score hp h
  refine ⟨i, e, hq, hl, ?_⟩
  intro j y e' hq' hl' heq
  apply Classical.byContradiction; intro hn
  have hlt := hfirst j y e' (by omega) hq' hl'
  simp only [rank, hf, heq] at hlt
  have := Nat.mul_le_mul_left e.hits (show j + 1 ≤ i + 1 by omega)
  omega

/-- TLRU, every scorer with a strict weak order, both orientations: the victim's score is minimal and
    every stored queue key in front of it scores strictly higher. -/
theorem tlru_victim_min_score {cfg : Cfg} (hp : cfg.policy = .tlru) {tl : Tlru S} {P : S → Prop}
    (hsw : StrictWeakOn P tl.lt) (hP : ∀ h el r, P (tl.score cfg h el r)) {now : Nat}
    {m : Store K V} {q : List K} {x : K} (h : victim cfg tl now m q = some x) :
    ∃ (i : Nat) (e : Entry V), q[i]? = some x ∧ lookup x m = some e ∧
      (∀ (j : Nat) k' e', q[j]? = some k' → lookup k' m = some e' →
        tl.lt (tl.score cfg e'.hits (elapsedMs cfg now e'.birth) (rank cfg j q.length))
              (tl.score cfg e.hits (elapsedMs cfg now e.birth) (rank cfg i q.length)) = false) ∧
      (∀ (j : Nat) k' e', j < i → q[j]? = some k' → lookup k' m = some e' →
        tl.lt (tl.score cfg e.hits (elapsedMs cfg now e.birth) (rank cfg i q.length))
              (tl.score cfg e'.hits (elapsedMs cfg now e'.birth) (rank cfg j q.length)) = true) :=
  victim_tlru_first_min hp hsw hP h

/-- **Async TLRU: among entries with equal hits and equal age the least recently used one goes first**,
    for every scorer that does not decrease when only the rank grows (true of
    `hits^w × rank × life` for every weight). -/
theorem tlru_async_equal_lru_first {cfg : Cfg} (hp : cfg.policy = .tlru) (hf : cfg.flavour = .async)
    {tl : Tlru S} {P : S → Prop} (hsw : StrictWeakOn P tl.lt) (hP : ∀ h el r, P (tl.score cfg h el r))
    (hmono : ∀ h el r r', r ≤ r' → tl.lt (tl.score cfg h el r') (tl.score cfg h el r) = false)
    {now : Nat} {m : Store K V} {q : List K} {x : K} (h : victim cfg tl now m q = some x) :
    ∃ (i : Nat) (e : Entry V), q[i]? = some x ∧ lookup x m = some e ∧
      ∀ (j : Nat) y e', q[j]? = some y → lookup y m = some e' → e'.hits = e.hits →
        elapsedMs cfg now e'.birth = elapsedMs cfg now e.birth → i ≤ j := by
  obtain ⟨i, e, hq, hl, _, hfirst⟩ := tlru_victim_min_score hp hsw hP h
  refine ⟨i, e, hq, hl, ?_⟩
  intro j y e' hq' hl' heq hel
  apply Classical.byContradiction; intro hn
  have hlt := hfirst j y e' (by omega) hq' hl'
  rw [heq, hel] at hlt
  have := hmono e.hits (elapsedMs cfg now e.birth) (rank cfg j q.length) (rank cfg i q.length)
    (by simp only [rank, hf]; omega)
  rw [hlt] at this; cases this

/-! ## (d) Sync engines: the newcomer competes with score zero -/

/-- ARC with a never-hit entry among the stored queue keys (in the sync engines: the newcomer), for
    EITHER rank orientation: the victim is the first queue key whose entry has `hits = 0`.  In
    particular its documented score `hits × rank` is `0`, below or equal to every other entry's. -/
theorem arc_victim_first_zero_hits {cfg : Cfg} (hp : cfg.policy = .arc) {tl : Tlru S} {now : Nat}
    {m : Store K V} {q : List K}
    (hex : ∃ (j : Nat) (k0 : K) (e0 : Entry V), q[j]? = some k0 ∧ lookup k0 m = some e0 ∧ e0.hits = 0)
    {x : K} (h : victim cfg tl now m q = some x) : FirstWith (fun e => e.hits = 0) m q x := by
  refine FirstMinAt.first_zero (P := fun _ => True) (z := 0) strictWeak_natLt (fun _ _ _ => trivial) trivial
    ?_ ?_ ?_ hex (victim_arc_first_min hp h)
  · intro e i _ hz; simp [natLt, arcScore, hz]
  · intro e i hi hz
    simp only [natLt, arcScore, decide_eq_true_eq]
    exact Nat.mul_pos (Nat.pos_of_ne_zero hz) (rank_pos cfg hi)
  · intro s _; simp

/-- **The `len − idx` orientation of `utils.rs` is unobservable when a never-hit entry is present**:
    ARC then picks the same victim with either rank orientation (any two configurations with policy
    ARC, e.g. a sync flavour and the async flavour, whose rank is the documented `idx + 1`). -/
theorem arc_orientation_unobservable {cfg cfg' : Cfg} (hp : cfg.policy = .arc) (hp' : cfg'.policy = .arc)
    {S' : Type} (tl : Tlru S) (tl' : Tlru S') (now now' : Nat) {m : Store K V} {q : List K}
    (hex : ∃ (j : Nat) (k0 : K) (e0 : Entry V), q[j]? = some k0 ∧ lookup k0 m = some e0 ∧ e0.hits = 0) :
    victim cfg tl now m q = victim cfg' tl' now' m q := by
  rw [victim_arc_eq tl now m q hp, victim_arc_eq tl' now' m q hp']
  obtain ⟨j, k0, e0, h1, h2, h3⟩ := hex
  refine scan_eq_of_first_with (Zp := fun e => e.hits = 0) ?_ ?_ ⟨j, k0, e0, h1, h2⟩
  · intro k hk
    rw [← victim_arc_eq tl now m q hp] at hk
    exact arc_victim_first_zero_hits hp ⟨j, k0, e0, h1, h2, h3⟩ hk
  · intro k hk
    rw [← victim_arc_eq tl' now' m q hp'] at hk
    exact arc_victim_first_zero_hits hp' ⟨j, k0, e0, h1, h2, h3⟩ hk

/-- TLRU with a never-hit entry among the stored queue keys, assuming only that zero hits score `z`
    and that nothing scores below `z`: the victim's score is equivalent to `z` (neither above nor
    below it), hence not above any other candidate's — whatever the weight formula and the rank
    orientation are. -/
theorem tlru_victim_score_zero {cfg : Cfg} (hp : cfg.policy = .tlru) {tl : Tlru S} {P : S → Prop}
    (hsw : StrictWeakOn P tl.lt) (hP : ∀ h el r, P (tl.score cfg h el r))
    {z : S} (hz0 : ∀ el r, tl.score cfg 0 el r = z) (hbot : ∀ s, P s → tl.lt s z = false)
    {now : Nat} {m : Store K V} {q : List K}
    (hex : ∃ (j : Nat) (k0 : K) (e0 : Entry V), q[j]? = some k0 ∧ lookup k0 m = some e0 ∧ e0.hits = 0)
    {x : K} (h : victim cfg tl now m q = some x) :
    ∃ (i : Nat) (e : Entry V), q[i]? = some x ∧ lookup x m = some e ∧
      tl.lt z (tl.score cfg e.hits (elapsedMs cfg now e.birth) (rank cfg i q.length)) = false ∧
      tl.lt (tl.score cfg e.hits (elapsedMs cfg now e.birth) (rank cfg i q.length)) z = false ∧
      ∀ (j : Nat) k' e', q[j]? = some k' → lookup k' m = some e' →
        tl.lt (tl.score cfg e'.hits (elapsedMs cfg now e'.birth) (rank cfg j q.length))
              (tl.score cfg e.hits (elapsedMs cfg now e.birth) (rank cfg i q.length)) = false := by
  obtain ⟨i, e, hq, hl, hmin, _⟩ := tlru_victim_min_score hp hsw hP h
  obtain ⟨j0, k0, e0, hq0, hl0, hz⟩ := hex
  refine ⟨i, e, hq, hl, ?_, hbot _ (hP _ _ _), hmin⟩
  have := hmin j0 k0 e0 hq0 hl0
  rwa [hz, hz0] at this

/-- TLRU with a `ZeroLike` scorer (zero factor ⇔ bottom score) and a never-hit entry among the stored
    queue keys: the victim is the FIRST queue key with a zero factor (`hits = 0`, or no lifetime
    left) — a description that mentions neither the weight nor the rank. -/
theorem tlru_victim_first_zero {cfg : Cfg} (hp : cfg.policy = .tlru) {tl : Tlru S} {P : S → Prop} {z : S}
    {Z : Nat → Nat → Prop} (hz : ZeroLike cfg tl P z Z) {now : Nat} {m : Store K V} {q : List K}
    (hex : ∃ (j : Nat) (k0 : K) (e0 : Entry V), q[j]? = some k0 ∧ lookup k0 m = some e0 ∧ e0.hits = 0)
    {x : K} (h : victim cfg tl now m q = some x) :
    FirstWith (fun e => Z e.hits (elapsedMs cfg now e.birth)) m q x := by
  obtain ⟨j0, k0, e0, hq0, hl0, h0⟩ := hex
  refine FirstMinAt.first_zero (score := tlruScore cfg tl now) hz.sw (fun _ _ _ => hz.carrier _ _ _) hz.zero_mem
    ?_ ?_ hz.bot
    ⟨j0, k0, e0, hq0, hl0, by rw [h0]; exact hz.zero_hits _⟩ (victim_tlru_first_min hp hz.sw hz.carrier h)
  · intro e i _ hZ; exact hz.zero _ _ _ hZ
  · intro e i hi hZ; exact hz.pos _ _ _ (rank_pos cfg hi) hZ

/-- **Linear-vs-power weight and rank orientation are unobservable when a never-hit entry is present.**
    Any other `ZeroLike` scorer `tl'` with the same zero factors, scanned with ANY positive rank
    function `rk'`, selects the same victim as the model's TLRU scan. -/
theorem tlru_weight_and_orientation_unobservable {cfg : Cfg} (hp : cfg.policy = .tlru)
    {tl : Tlru S} {P : S → Prop} {z : S} {S' : Type} {tl' : Tlru S'} {P' : S' → Prop} {z' : S'}
    {Z : Nat → Nat → Prop} (hz : ZeroLike cfg tl P z Z) (hz' : ZeroLike cfg tl' P' z' Z)
    (rk' : Nat → Nat → Nat) (hrk' : ∀ i len, i < len → 0 < rk' i len)
    {now : Nat} {m : Store K V} {q : List K}
    (hex : ∃ (j : Nat) (k0 : K) (e0 : Entry V), q[j]? = some k0 ∧ lookup k0 m = some e0 ∧ e0.hits = 0) :
    victim cfg tl now m q =
      firstMin tl'.lt
        (cands (fun e i len => tl'.score cfg e.hits (elapsedMs cfg now e.birth) (rk' i len)) m q) := by
  obtain ⟨j0, k0, e0, hq0, hl0, h0⟩ := hex
  rw [victim_tlru_eq tl now m q hp]
  refine scan_eq_of_first_with (Zp := fun e => Z e.hits (elapsedMs cfg now e.birth)) ?_ ?_ ⟨j0, k0, e0, hq0, hl0⟩
  · intro k hk
    rw [← victim_tlru_eq tl now m q hp] at hk
    exact tlru_victim_first_zero hp hz ⟨j0, k0, e0, hq0, hl0, h0⟩ hk
  · intro k hk
    refine FirstMinAt.first_zero
      (score := fun e i len => tl'.score cfg e.hits (elapsedMs cfg now e.birth) (rk' i len))
      hz'.sw (fun _ _ _ => hz'.carrier _ _ _) hz'.zero_mem ?_ ?_ hz'.bot
      ⟨j0, k0, e0, hq0, hl0, by rw [h0]; exact hz'.zero_hits _⟩
      (scan_spec (score := fun e i len => tl'.score cfg e.hits (elapsedMs cfg now e.birth) (rk' i len))
        hz'.sw (fun _ _ _ => hz'.carrier _ _ _) hk)
    · intro e i _ hZ; exact hz'.zero _ _ _ hZ
    · intro e i hi hZ; exact hz'.pos _ _ _ (hrk' i _ hi) hZ

/-- **Sync ARC, plain store**: every key the store removes has `hits = 0` and is the first such key in
    the queue (the newcomer itself if every resident was hit). -/
theorem sync_arc_insert_evicts_zero_hits {cfg : Cfg} (hp : cfg.policy = .arc) (hf : cfg.flavour ≠ .async)
    (tl : Tlru S) (r : Nat) {s : State K V} (k : K) (v : V) (hi : Inv s) :
    ∃ m1 q1, EvictChain (FirstWith (fun e => e.hits = 0)) (preEvict cfg s k v).1 (preEvict cfg s k v).2 m1 q1 ∧
      (insert cfg tl r s k v).store = m1 ∧ (insert cfg tl r s k v).queue = q1 := by
  obtain ⟨m1, q1, c, h1, h2⟩ := insert_chain_sync (Or.inr (Or.inl hp)) hf tl r k v hi
  refine ⟨m1, q1, c.mono ?_, h1, h2⟩
  intro m q x ⟨⟨hinv, hv⟩, e0, hl0, h0⟩
  obtain ⟨j, hj⟩ := stored_has_index hinv hl0
  exact arc_victim_first_zero_hits hp ⟨j, k, e0, hj, hl0, h0⟩ hv

/-- **Sync ARC, memory-aware store**, started in a state within the memory bound and the entry limit
    (the C05 / C04 invariants of a cache that stores through this operation): every key removed by the
    memory loop and by the entry-limit step has `hits = 0` and is the first such key in the queue. -/
theorem sync_arc_insertMem_evicts_zero_hits {cfg : Cfg} (hp : cfg.policy = .arc) (hf : cfg.flavour ≠ .async)
    (tl : Tlru S) (size : V → Nat) (rs : List Nat) {s : State K V} (k : K) (v : V) (hi : Inv s)
    (hmem : ∀ maxM, cfg.maxMem = some maxM → totalMem size s.store ≤ maxM)
    (hlim : ∀ n, cfg.limit = some n → s.store.length ≤ n) :
    (∃ maxM, cfg.maxMem = some maxM ∧ size v > maxM) ∨
    ∃ m2 q2, EvictChain (FirstWith (fun e => e.hits = 0)) (preEvict cfg s k v).1 (preEvict cfg s k v).2 m2 q2 ∧
      (insertMem cfg tl size rs s k v).store = m2 ∧ (insertMem cfg tl size rs s k v).queue = q2 := by
  rcases insertMem_chain_sync (Or.inr (Or.inl hp)) hf tl size rs k v hi hmem hlim with h | ⟨m2, q2, c, h1, h2⟩
  · left; exact h
  · right
    refine ⟨m2, q2, c.mono ?_, h1, h2⟩
    intro m q x ⟨⟨hinv, hv⟩, e0, hl0, h0⟩
    obtain ⟨j, hj⟩ := stored_has_index hinv hl0
    exact arc_victim_first_zero_hits hp ⟨j, k, e0, hj, hl0, h0⟩ hv

/-- **Sync TLRU, plain store**, every `ZeroLike` scorer: every key the store removes is the first
    queue key with a zero factor (never hit, or no lifetime left), so its documented score is the
    bottom score. -/
theorem sync_tlru_insert_evicts_zero {cfg : Cfg} (hp : cfg.policy = .tlru) (hf : cfg.flavour ≠ .async)
    {tl : Tlru S} {P : S → Prop} {z : S} {Z : Nat → Nat → Prop} (hz : ZeroLike cfg tl P z Z)
    (r : Nat) {s : State K V} (k : K) (v : V) (hi : Inv s) :
    ∃ m1 q1, EvictChain (FirstWith (fun e => Z e.hits (elapsedMs cfg s.now e.birth)))
        (preEvict cfg s k v).1 (preEvict cfg s k v).2 m1 q1 ∧
      (insert cfg tl r s k v).store = m1 ∧ (insert cfg tl r s k v).queue = q1 := by
  obtain ⟨m1, q1, c, h1, h2⟩ := insert_chain_sync (Or.inr (Or.inr hp)) hf tl r k v hi
  refine ⟨m1, q1, c.mono ?_, h1, h2⟩
  intro m q x ⟨⟨hinv, hv⟩, e0, hl0, h0⟩
  obtain ⟨j, hj⟩ := stored_has_index hinv hl0
  exact tlru_victim_first_zero hp hz ⟨j, k, e0, hj, hl0, h0⟩ hv

/-- **Sync TLRU, memory-aware store**, every `ZeroLike` scorer, started within the memory bound and the
    entry limit: every key removed by the memory loop and by the entry-limit step is the first queue
    key with a zero factor. -/
theorem sync_tlru_insertMem_evicts_zero {cfg : Cfg} (hp : cfg.policy = .tlru) (hf : cfg.flavour ≠ .async)
    {tl : Tlru S} {P : S → Prop} {z : S} {Z : Nat → Nat → Prop} (hz : ZeroLike cfg tl P z Z)
    (size : V → Nat) (rs : List Nat) {s : State K V} (k : K) (v : V) (hi : Inv s)
    (hmem : ∀ maxM, cfg.maxMem = some maxM → totalMem size s.store ≤ maxM)
    (hlim : ∀ n, cfg.limit = some n → s.store.length ≤ n) :
    (∃ maxM, cfg.maxMem = some maxM ∧ size v > maxM) ∨
    ∃ m2 q2, EvictChain (FirstWith (fun e => Z e.hits (elapsedMs cfg s.now e.birth)))
        (preEvict cfg s k v).1 (preEvict cfg s k v).2 m2 q2 ∧
      (insertMem cfg tl size rs s k v).store = m2 ∧ (insertMem cfg tl size rs s k v).queue = q2 := by
  rcases insertMem_chain_sync (Or.inr (Or.inr hp)) hf tl size rs k v hi hmem hlim with h | ⟨m2, q2, c, h1, h2⟩
  · left; exact h
  · right
    refine ⟨m2, q2, c.mono ?_, h1, h2⟩
    intro m q x ⟨⟨hinv, hv⟩, e0, hl0, h0⟩
    obtain ⟨j, hj⟩ := stored_has_index hinv hl0
    exact tlru_victim_first_zero hp hz ⟨j, k, e0, hj, hl0, h0⟩ hv

/-- **Sync ARC, memory-aware store, every reachable state** of a cache that stores only through
    `insertMem` (as the generated code does when `max_memory` is set) and whose entry limit, if any, is
    at least 1: the two invariants are then theorems (`C05.memory_never_exceeded`,
    `C04.limit_never_exceeded`), so every key removed by the memory loop and by the entry-limit step
    has `hits = 0` and is the first such key in the queue. -/
theorem sync_arc_insertMem_evicts_zero_hits_reachable {cfg : Cfg} (hp : cfg.policy = .arc)
    (hf : cfg.flavour ≠ .async) (hn : ∀ n, cfg.limit = some n → 1 ≤ n) (tl : Tlru S) (size : V → Nat)
    (ops : List (Op K V × List Nat)) (hops : AllViaMem ops) (rs : List Nat) (k : K) (v : V) :
    (∃ maxM, cfg.maxMem = some maxM ∧ size v > maxM) ∨
    ∃ m2 q2, EvictChain (FirstWith (fun e => e.hits = 0))
        (preEvict cfg (run cfg tl size (State.init : State K V) ops).1 k v).1
        (preEvict cfg (run cfg tl size (State.init : State K V) ops).1 k v).2 m2 q2 ∧
      (insertMem cfg tl size rs (run cfg tl size (State.init : State K V) ops).1 k v).store = m2 ∧
      (insertMem cfg tl size rs (run cfg tl size (State.init : State K V) ops).1 k v).queue = q2 :=
  sync_arc_insertMem_evicts_zero_hits hp hf tl size rs k v (run_inv cfg tl size _ ops inv_init)
    (fun M hM => C05.memory_never_exceeded cfg tl size M hM ops hops)
    (fun n hl => C04.limit_never_exceeded cfg tl size n hl (hn n hl) ops)

/-- **Sync TLRU, memory-aware store, every reachable state** of a cache that stores only through
    `insertMem`, entry limit (if any) at least 1, every `ZeroLike` scorer: every key removed by the
    memory loop and by the entry-limit step is the first queue key with a zero factor. -/
theorem sync_tlru_insertMem_evicts_zero_reachable {cfg : Cfg} (hp : cfg.policy = .tlru)
    (hf : cfg.flavour ≠ .async) (hn : ∀ n, cfg.limit = some n → 1 ≤ n)
    {tl : Tlru S} {P : S → Prop} {z : S} {Z : Nat → Nat → Prop} (hz : ZeroLike cfg tl P z Z) (size : V → Nat)
    (ops : List (Op K V × List Nat)) (hops : AllViaMem ops) (rs : List Nat) (k : K) (v : V) :
    (∃ maxM, cfg.maxMem = some maxM ∧ size v > maxM) ∨
    ∃ m2 q2, EvictChain (FirstWith (fun e => Z e.hits
          (elapsedMs cfg (run cfg tl size (State.init : State K V) ops).1.now e.birth)))
        (preEvict cfg (run cfg tl size (State.init : State K V) ops).1 k v).1
        (preEvict cfg (run cfg tl size (State.init : State K V) ops).1 k v).2 m2 q2 ∧
      (insertMem cfg tl size rs (run cfg tl size (State.init : State K V) ops).1 k v).store = m2 ∧
      (insertMem cfg tl size rs (run cfg tl size (State.init : State K V) ops).1 k v).queue = q2 :=
  sync_tlru_insertMem_evicts_zero hp hf hz size rs k v (run_inv cfg tl size _ ops inv_init)
    (fun M hM => C05.memory_never_exceeded cfg tl size M hM ops hops)
    (fun n hl => C04.limit_never_exceeded cfg tl size n hl (hn n hl) ops)

/-- Sync LFU: the key removed by a plain store has `hits = 0` (the newcomer never lost a comparison). -/
theorem sync_lfu_insert_removed_key_zero_hits {cfg : Cfg} (hp : cfg.policy = .lfu) (hf : cfg.flavour ≠ .async)
    (tl : Tlru S) (r : Nat) {s : State K V} (k : K) (v : V) (hi : Inv s) {x : K}
    (hx : x ∈ keys (preEvict cfg s k v).1) (hx' : x ∉ keys (insert cfg tl r s k v).store) :
    ∃ e, lookup x (preEvict cfg s k v).1 = some e ∧ e.hits = 0 := by
  obtain ⟨e, hl, hmin⟩ := lfu_insert_removed_key_min_hits hp tl r k v hi hx hx'
  obtain ⟨e0, hl0, h0⟩ := preEvict_sync_newcomer hf s k v
  have := hmin k e0 hl0
  exact ⟨e, hl, by omega⟩

/-! ## (e) The hit counter counts successful lookups since the latest store -/

/-- **Hit counting, every reachable state, all flavours.**  For the policies that count hits
    (LFU, ARC, TLRU) the `hits` field of a stored entry equals `ghostHits`: the number of lookups of
    that key that returned a value since the key was last stored, computed from the history and its
    outputs alone.  Under the other policies the field stays `0`. -/
theorem hits_eq_successful_lookups (cfg : Cfg) (tl : Tlru S) (size : V → Nat) (ops : List (Op K V × List Nat))
    (k : K) (e : Entry V)
    (h : lookup k (run cfg tl size (State.init : State K V) ops).1.store = some e) :
    e.hits = if cfg.policy.bumps then
        ghostHits k 0 ops (run cfg tl size (State.init : State K V) ops).2 else 0 :=
  run_hits cfg tl size ops State.init (fun _ => 0) inv_init (by intro k e h; simp [State.init, lookup] at h) k e h

/-- The same from any consistent state whose counters agree with a ghost assignment `g`. -/
theorem hits_eq_successful_lookups_from (cfg : Cfg) (tl : Tlru S) (size : V → Nat) (ops : List (Op K V × List Nat))
    (s : State K V) (g : K → Nat) (hi : Inv s) (hg : HitsOK cfg s g) :
    HitsOK cfg (run cfg tl size s ops).1 (fun k => ghostHits k (g k) ops (run cfg tl size s ops).2) :=
  run_hits cfg tl size ops s g hi hg

/-- **LFU evicts the entry with the fewest successful lookups** (b) + (e) combined: in every
    reachable state the key the LFU scan selects has, among all cached keys, the smallest number of
    lookups that returned a value since the key's latest store — counted on the history alone. -/
theorem lfu_victim_fewest_successful_lookups {cfg : Cfg} (hp : cfg.policy = .lfu) (tl : Tlru S) (size : V → Nat)
    (ops : List (Op K V × List Nat)) {now : Nat} {x : K}
    (h : victim cfg tl now (run cfg tl size (State.init : State K V) ops).1.store
      (run cfg tl size (State.init : State K V) ops).1.queue = some x) :
    x ∈ keys (run cfg tl size (State.init : State K V) ops).1.store ∧
    ∀ k' ∈ keys (run cfg tl size (State.init : State K V) ops).1.store,
      ghostHits x 0 ops (run cfg tl size (State.init : State K V) ops).2 ≤
      ghostHits k' 0 ops (run cfg tl size (State.init : State K V) ops).2 := by
  have hinv : Inv (run cfg tl size (State.init : State K V) ops).1 := run_inv cfg tl size _ ops inv_init
  obtain ⟨e, hl, hmin⟩ := lfu_victim_min_hits hp hinv h
  refine ⟨lookup_mem_keys hl, ?_⟩
  intro k' hk'
  obtain ⟨e', hl'⟩ := lookup_isSome_of_mem_keys hk'
  have h1 := hits_eq_successful_lookups cfg tl size ops x e hl
  have h2 := hits_eq_successful_lookups cfg tl size ops k' e' hl'
  have hb : cfg.policy.bumps = true := by rw [hp]; rfl
  simp only [hb, if_true] at h1 h2
  rw [← h1, ← h2]; exact hmin k' e' hl'

/-! ## (f) The exact-arithmetic TLRU scorer -/

/-- `exactTlru w` compares with `<` on `Nat`, a strict weak order. -/
theorem exactTlru_strictWeak (w : Nat) : StrictWeak (exactTlru w).lt := strictWeak_natLt

/-- `exactTlru w` with a positive exponent is `ZeroLike`: bottom score `0`, zero factors
    `hits = 0 ∨ remaining lifetime = 0`.  (So the hypotheses of the (d) theorems are satisfiable.) -/
theorem exactTlru_zeroLike (cfg : Cfg) {w : Nat} (hw : 0 < w) :
    ZeroLike cfg (exactTlru w) (fun _ => True) 0 (fun h el => h = 0 ∨ lifeNum cfg el = 0) := by
  refine ⟨strictWeak_natLt, fun _ _ _ => trivial, trivial, ?_, ?_, ?_, fun _ => Or.inl rfl⟩
  · intro s _; simp [exactTlru]
  · intro h el r hZ
    simp only [exactTlru, decide_eq_false_iff_not, Nat.not_lt, Nat.le_zero_eq]
    rcases hZ with hZ | hZ
    · rw [hZ, Nat.zero_pow hw]; simp
    · rw [hZ]; simp
  · intro h el r hr hZ
    simp only [exactTlru, decide_eq_true_eq]
    have h1 : h ≠ 0 := fun hh => hZ (Or.inl hh)
    have h2 : lifeNum cfg el ≠ 0 := fun hh => hZ (Or.inr hh)
    have h3 : 0 < h ^ w := Nat.pos_of_ne_zero (fun hh => h1 (Nat.pow_eq_zero.mp hh).1)
    exact Nat.mul_pos (Nat.mul_pos h3 hr) (Nat.pos_of_ne_zero h2)

/-- `linearTlru w` (the sync engines' linear weight) with a positive weight is `ZeroLike` with the same
    zero factors as the documented power-weight score. -/
theorem linearTlru_zeroLike (cfg : Cfg) {w : Nat} (hw : 0 < w) :
    ZeroLike cfg (linearTlru w) (fun _ => True) 0 (fun h el => h = 0 ∨ lifeNum cfg el = 0) := by
  refine ⟨strictWeak_natLt, fun _ _ _ => trivial, trivial, ?_, ?_, ?_, fun _ => Or.inl rfl⟩
  · intro s _; simp [linearTlru]
  · intro h el r hZ
    simp only [linearTlru, decide_eq_false_iff_not, Nat.not_lt, Nat.le_zero_eq]
    rcases hZ with hZ | hZ
    · rw [hZ]; simp
    · rw [hZ]; simp
  · intro h el r hr hZ
    simp only [linearTlru, decide_eq_true_eq]
    have h1 : h ≠ 0 := fun hh => hZ (Or.inl hh)
    have h2 : lifeNum cfg el ≠ 0 := fun hh => hZ (Or.inr hh)
    exact Nat.mul_pos (Nat.mul_pos (Nat.mul_pos (Nat.pos_of_ne_zero h1) hw) hr) (Nat.pos_of_ne_zero h2)

/-- **Concrete unobservability**: whenever a never-hit entry is among the stored queue keys (always the
    case when a sync engine evicts), the sync formula with linear weight `a` and rank `len − idx`
    selects exactly the key that the documented formula `hits^b × (idx + 1) × remaining lifetime`
    selects, for all positive `a`, `b`. -/
theorem sync_linear_weight_selects_documented_victim {cfg : Cfg} (hp : cfg.policy = .tlru) {a b : Nat}
    (ha : 0 < a) (hb : 0 < b) {now : Nat} {m : Store K V} {q : List K}
    (hex : ∃ (j : Nat) (k0 : K) (e0 : Entry V), q[j]? = some k0 ∧ lookup k0 m = some e0 ∧ e0.hits = 0) :
    victim cfg (linearTlru a) now m q =
      firstMin natLt
        (cands (fun e i _ => e.hits ^ b * (i + 1) * lifeNum cfg (elapsedMs cfg now e.birth)) m q) :=
  tlru_weight_and_orientation_unobservable hp (linearTlru_zeroLike cfg ha) (exactTlru_zeroLike cfg hb)
    (fun i _ => i + 1) (fun _ _ _ => Nat.succ_pos _) hex

/-- `exactTlru w` does not decrease when only the rank grows (hypothesis of `tlru_async_equal_lru_first`). -/
theorem exactTlru_mono_rank (cfg : Cfg) (w : Nat) (h el r r' : Nat) (hr : r ≤ r') :
    (exactTlru w).lt ((exactTlru w).score cfg h el r') ((exactTlru w).score cfg h el r) = false := by
  simp only [exactTlru, decide_eq_false_iff_not, Nat.not_lt]
  exact Nat.mul_le_mul_right _ (Nat.mul_le_mul_left _ hr)

/-- **Without a ttl and with no weight (exponent 1) TLRU coincides with ARC**: the exact TLRU scorer
    selects the same victim as ARC on every store/queue, in every flavour
    (`test_tlru_no_ttl_behaves_like_arc`). -/
theorem tlru_no_ttl_behaves_like_arc (cfg : Cfg) (httl : cfg.ttl = none) (tl : Tlru S) (now : Nat)
    (m : Store K V) (q : List K) :
    victim { cfg with policy := .tlru } (exactTlru 1) now m q = victim { cfg with policy := .arc } tl now m q :=
  victim_tlru_arc cfg httl tl now m q

/-- … and therefore the two caches are indistinguishable: for every history, from every state, the
    TLRU cache (no ttl, exact scorer, exponent 1) and the ARC cache with the same flavour and limits
    go through identical states and produce identical outputs. -/
theorem tlru_no_ttl_runs_like_arc (cfg : Cfg) (httl : cfg.ttl = none) (tl : Tlru S) (size : V → Nat)
    (ops : List (Op K V × List Nat)) (s : State K V) :
    run (asTlru cfg) (exactTlru 1) size s ops = run (asArc cfg) tl size s ops := by
  induction ops generalizing s with
  | nil => rfl
  | cons a ops ih =>
    obtain ⟨op, rs⟩ := a
    simp only [run, step_tlru_arc cfg httl tl, ih]

/-! ## Non-vacuity -/

def exTl : Tlru Nat := exactTlru 1
def cAsyncArc : Cfg := ⟨.async, .arc, some 2, none, none⟩
def cAsyncLfu : Cfg := ⟨.async, .lfu, some 2, none, none⟩
def cSyncArc : Cfg := ⟨.global, .arc, some 2, none, none⟩
def cSyncTlru : Cfg := ⟨.threadLocal, .tlru, some 2, none, some 5⟩

/-- async ARC, limit 2: `1` and `2` are each hit once (equal hits), `1` is the least recently used;
    the overflowing store of `3` evicts `1`. -/
def opsArc : List (Op Nat Nat × List Nat) :=
  [(.insert 1 10, []), (.insert 2 20, []), (.get 1, []), (.get 2, []), (.insert 3 30, [])]
example : (run cAsyncArc exTl (fun _ => 0) (State.init : State Nat Nat) opsArc).1.queue = [2, 3] := by decide
example : (run cAsyncArc exTl (fun _ => 0) (State.init : State Nat Nat) (opsArc.take 4)).1.queue = [1, 2] := by decide
example : ((run cAsyncArc exTl (fun _ => 0) (State.init : State Nat Nat) (opsArc.take 4)).1.store.map
    (fun p => (p.1, p.2.hits))) = [(1, 1), (2, 1)] := by decide
example : victim cAsyncArc exTl 0 (run cAsyncArc exTl (fun _ => 0) (State.init : State Nat Nat) (opsArc.take 4)).1.store
    [1, 2] = some 1 := by decide

/-- async ARC, limit 2: frequency can outweigh recency — `1` (3 hits, least recently used, score 3 × 1)
    survives, `2` (1 hit, most recently used, score 1 × 2) is evicted. -/
def opsArcFreq : List (Op Nat Nat × List Nat) :=
  [(.insert 1 10, []), (.insert 2 20, []), (.get 1, []), (.get 1, []), (.get 1, []), (.get 2, []),
   (.insert 3 30, [])]
example : (run cAsyncArc exTl (fun _ => 0) (State.init : State Nat Nat) (opsArcFreq.take 6)).1.queue = [1, 2] := by decide
example : (run cAsyncArc exTl (fun _ => 0) (State.init : State Nat Nat) opsArcFreq).1.queue = [1, 3] := by decide

/-- LFU, limit 2: the hit on `1` saves it, `2` (never hit, although stored later) is evicted. -/
def opsLfu : List (Op Nat Nat × List Nat) :=
  [(.insert 1 10, []), (.insert 2 20, []), (.get 1, []), (.insert 3 30, [])]
example : keys (run cAsyncLfu exTl (fun _ => 0) (State.init : State Nat Nat) opsLfu).1.store = [1, 3] := by decide
example : keys (run { cAsyncLfu with flavour := .global } exTl (fun _ => 0) (State.init : State Nat Nat) opsLfu).1.store
    = [1, 3] := by decide

/-- sync ARC, limit 2: both residents were hit, so the newcomer `3` (hits = 0) is itself the victim. -/
example : keys (run cSyncArc exTl (fun _ => 0) (State.init : State Nat Nat) opsArc).1.store = [1, 2] := by decide
example : (run cSyncArc exTl (fun _ => 0) (State.init : State Nat Nat) opsArc).1.queue = [1, 2] := by decide
/-- the same with sync TLRU and a ttl -/
example : keys (run cSyncTlru exTl (fun _ => 0) (State.init : State Nat Nat) opsArc).1.store = [1, 2] := by decide

/-- the hypotheses of the sync memory-loop theorems hold in a concrete state, and the loop evicts a
    never-hit resident: max_memory 2, every value of size 1; `1` is hit, `2` is not; storing `3`
    evicts `2`. -/
def cSyncArcMem : Cfg := ⟨.global, .arc, none, some 2, none⟩
def opsMem : List (Op Nat Nat × List Nat) :=
  [(.insertMem 1 10, []), (.insertMem 2 20, []), (.get 1, []), (.insertMem 3 30, [])]
example : totalMem (fun _ => 1) (run cSyncArcMem exTl (fun _ => 1) (State.init : State Nat Nat) (opsMem.take 3)).1.store
    ≤ 2 := by decide
example : keys (run cSyncArcMem exTl (fun _ => 1) (State.init : State Nat Nat) opsMem).1.store = [1, 3] := by decide

/-- The memory-bound hypothesis of the sync memory-loop theorems cannot be dropped.  If the SAME sync
    cache is also filled through the plain `insert` (which ignores `max_memory`; the generated code
    never does this), the loop outlives the newcomer and the `len − idx` rank of `utils.rs` becomes
    visible: `1, 2, 3` are each hit once, `1` is the least recently used, yet storing `4` removes the
    newcomer `4` and then `3`, the MOST recently used of the three. -/
def opsMixed : List (Op Nat Nat × List Nat) :=
  [(.insert 1 10, []), (.insert 2 20, []), (.insert 3 30, []), (.get 1, []), (.get 2, []), (.get 3, []),
   (.insertMem 4 40, [])]
example : keys (run cSyncArcMem exTl (fun _ => 1) (State.init : State Nat Nat) opsMixed).1.store = [1, 2] := by decide
example : ¬ AllViaMem opsMixed := by decide

/-- the ghost hit count on a concrete history: `1` was looked up successfully once since its store. -/
example : ghostHits 1 0 opsLfu (run cAsyncLfu exTl (fun _ => 0) (State.init : State Nat Nat) opsLfu).2 = 1 := by decide
example : (lookup 1 (run cAsyncLfu exTl (fun _ => 0) (State.init : State Nat Nat) opsLfu).1.store).map (·.hits)
    = some 1 := by decide

end Cachelito.C08
