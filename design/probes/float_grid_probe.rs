fn sc(h: u64, rank: usize, w: f64, age: u64, ttl: u64) -> f64 {
    let f = h as f64;
    let fc = if f > 0.0 { f.powf(w) } else { 0.0 };
    let af = (1.0 - (age as f64 / ttl as f64).min(1.0)).max(0.0);
    fc * rank as f64 * af
}
fn main() {
    println!("{}", sc(3,2,0.3,1,4).to_bits());
    println!("{}", sc(7,5,0.3,2,3).to_bits());
    let mut diff = 0; 
    // dump a grid for Lean comparison
    let mut out = String::new();
    for h in 0..40u64 { for r in 1..6usize { for a in 0..5u64 { for t in 1..5u64 {
        out.push_str(&format!("{} {} {} {} {}\n", h, r, a, t, sc(h,r,0.3,a,t).to_bits()));
    }}}}
    std::fs::write("/tmp/probe/grid.txt", out).unwrap();
    let _ = diff; diff += 1; let _ = diff;
}
