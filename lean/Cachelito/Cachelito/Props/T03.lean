/-
  T03 — TRANSLATOR TIE, cache_entry.rs: `is_expired`, `increment_frequency` (C06, C08)

  The functions named here are regenerated from /repo's CURRENT source on every check by `checklib/rust2lean.py`
  (`Generated/Pure*.lean`); the theorems are re-proved against whatever was generated (see `Props/T01.lean`).
  The `f64` code is translated over an ARBITRARY structure of float operations (`RustLite.F64`).  Hypotheses that appear
  are the modelling assumptions of DESIGN.md §9: hit counters below `u64::MAX`, scores below `f64::MAX`, `as f64` exact
  and order-preserving on the products that occur.
-/
import Cachelito.Generated.PureEntry
import Cachelito.Lemmas.Source

set_option linter.unusedSimpArgs false
set_option linter.unusedVariables false

namespace Cachelito.T03
open Cachelito Cachelito.RustLite Cachelito.Generated Cachelito.SourceLemmas
open Cachelito.Generated.Entry

variable {K V F : Type} [DecidableEq K]

/-! ### `CacheEntry` -/

/-- `is_expired` is the model's `expired` (sync engines: whole seconds of `Instant::elapsed` against the ttl) -/
theorem is_expired_eq (cfg : Cfg) (hf : cfg.flavour ≠ .async) (now : Nat) (e : Entry V) :
    is_expired ⟨fun b => now - b, now⟩ e cfg.ttl = expired cfg now e := by
  have hel : elapsedMs cfg now e.birth = now - e.birth := by
    cases hfl : cfg.flavour <;> simp_all [elapsedMs]
  unfold is_expired expired
  cases cfg.ttl <;> simp [asSecs, hel]

/-- `increment_frequency` adds one to the hit counter (what `bumpHits` does to the entry of a key) — below `u64::MAX` -/
theorem increment_frequency_eq (e : Entry V) (h : e.hits < u64Max) :
    increment_frequency e = { e with hits := e.hits + 1 } := by
  unfold increment_frequency
  simp [saturatingAddU64, Nat.succ_le_of_lt h]

/-- on a store: incrementing the frequency of the entry of `k` is the model's `bumpHits` -/
theorem modify_increment_frequency_eq (k : K) (m : Store K V) (h : ∀ p, p ∈ m → p.2.hits < u64Max) :
    modify k increment_frequency m = bumpHits k m := by
  unfold bumpHits
  induction m with
  | nil => rfl
  | cons p m ih =>
    obtain ⟨k', e⟩ := p
    have he := h (k', e) (by simp)
    have ih' := ih (fun p hp => h p (by simp [hp]))
    by_cases hk : k' = k
    · simp [modify, hk, increment_frequency_eq e he]
    · simp [modify, hk, ih']


end Cachelito.T03
