/-
  Cachelito.KeysDriver — correspondence check for C02: the keys of the REAL code (harness
  `keys_diff`) against `Cachelito.Keys.keyOf`.

  Line protocol (fields separated by `|`, tokens inside a field by one space, text = hex of UTF-8):

    K|<path>:<shape>|<sig>|<vals>|<esc>|<keyhex>
    P|<path>:<shape>|<sig>|<valsA>|<valsB>|<esc>|<keyAhex>|<keyBhex>|<shared>
    FL|<32|64>|<bits hex>|<rendering hex>|<round-trip bits hex>
    # …                                                     (comment / statistics, ignored)

    sig    `F <n> <ty>*n`  |  `M <ty> <n> <ty>*n`            (method: receiver type first)
    ty     `u` `i` `b` `c` `s` `f` `n` | `O <ty>` | `V <ty>` | `T <k> <ty>*k`
           | `A <k> <variant>*k`, variant = `U <name>` | `P <name> <k> <ty>*k` | `N <name> <k> (<field> <ty>)*k`
    vals   receiver value first (methods), then the arguments:
           `u<dec>` `i<dec>` `bt` `bf` `c<hex code point>` `s<hex>` `f<32|64>:<bits hex>:<rendering hex>` `n`
           | `O0` | `O1 <v>` | `V<k> <v>*k` | `T<k> <v>*k`
           | `U<name>` | `P<name> <k> <v>*k` | `N<name> <k> (<field> <v>)*k`
    esc    `<hex code point>:<0|1>` for every character of the case outside 0x20..0x7e
           (1 = Rust prints it as `\u{…}`): instantiates the model parameter `Fmt.esc`
    shared `-` | `0` | `1` | `2`   behavioural observation on the macro-generated function:
           1 = the call with tuple B was served tuple A's entry

  The model parameter `Fmt.float` is instantiated from the data (the float token carries the real
  rendering); the driver checks the two float assumptions of C02 on the sample: every rendering is
  a non-empty string over the float alphabet, equal renderings within a line come from equal bits,
  and (FL lines) the rendering parses back to the same bits.

  `handleKeysLine` answers `ok`, `DIFF …` (model and implementation disagree, or an assumption
  fails on the sample), `BAD …` (malformed line) or `MON C02 …` (two different tuples with the same
  real key / served from the same entry).
-/
import Cachelito.Keys

namespace Cachelito.KeysDriver
open Cachelito.Keys

/-- a float sample: width, bit pattern, and the real `{:?}` rendering -/
structure Fl where
  width : Nat
  bits : Nat
  text : Text

/-! ### Decoding helpers -/

def hexDigitVal (c : Char) : Option Nat :=
  if '0' ≤ c ∧ c ≤ '9' then some (c.toNat - 48)
  else if 'a' ≤ c ∧ c ≤ 'f' then some (c.toNat - 87)
  else if 'A' ≤ c ∧ c ≤ 'F' then some (c.toNat - 55)
  else none

def hexNatAux : Nat → List Char → Option Nat
  | acc, [] => some acc
  | acc, c :: cs => match hexDigitVal c with
    | some d => hexNatAux (acc * 16 + d) cs
    | none => none

def hexNat? (cs : List Char) : Option Nat := if cs.isEmpty then none else hexNatAux 0 cs

def hexBytesAux : ByteArray → List Char → Option ByteArray
  | acc, [] => some acc
  | _, [_] => none
  | acc, a :: b :: cs => match hexDigitVal a, hexDigitVal b with
    | some x, some y => hexBytesAux (acc.push (UInt8.ofNat (x * 16 + y))) cs
    | _, _ => none

def hexString? (cs : List Char) : Option String := (hexBytesAux ByteArray.empty cs).bind String.fromUTF8?

def hexText? (cs : List Char) : Option Text := (hexString? cs).map String.toList

def decNat? (cs : List Char) : Option Nat := (String.ofList cs).toNat?

def ident? (cs : List Char) : Option Ident :=
  match hexText? cs with
  | some t => if h : isIdent t = true then some ⟨t, h⟩ else none
  | none => none

def toHex (s : String) : String :=
  let d (n : Nat) : Char := if n < 10 then Char.ofNat (48 + n) else Char.ofNat (87 + n)
  String.ofList (s.toUTF8.toList.flatMap (fun b => [d (b.toNat / 16), d (b.toNat % 16)]))

abbrev Toks := List String

def toks (s : String) : Toks := (s.splitOn " ").filter (fun t => !t.isEmpty)

/-! ### Types -/

mutual
def pTy : Nat → Toks → Option (Ty × Toks)
  | 0, _ => none
  | _ + 1, [] => none
  | f + 1, t :: r =>
    match t with
    | "u" => some (.uint, r)
    | "i" => some (.sint, r)
    | "b" => some (.bool, r)
    | "c" => some (.char, r)
    | "s" => some (.str, r)
    | "f" => some (.float, r)
    | "n" => some (.unit, r)
    | "O" => (pTy f r).map (fun p => (.option p.1, p.2))
    | "V" => (pTy f r).map (fun p => (.vec p.1, p.2))
    | "T" =>
      match r with
      | k :: r => do
        let k ← k.toNat?
        let (ts, r) ← pTys f k r
        some (.tuple ts, r)
      | [] => none
    | "A" =>
      match r with
      | k :: r => do
        let k ← k.toNat?
        let (vs, r) ← pVars f k r
        some (.adt vs, r)
      | [] => none
    | _ => none
def pTys : Nat → Nat → Toks → Option (List Ty × Toks)
  | 0, _, _ => none
  | _ + 1, 0, r => some ([], r)
  | f + 1, k + 1, r => do
    let (t, r) ← pTy f r
    let (ts, r) ← pTys f k r
    some (t :: ts, r)
def pVars : Nat → Nat → Toks → Option (List Variant × Toks)
  | 0, _, _ => none
  | _ + 1, 0, r => some ([], r)
  | f + 1, k + 1, r =>
    match r with
    | tag :: name :: r => do
      let n ← ident? name.toList
      let (v, r) ←
        (match tag with
         | "U" => some (Variant.unit n, r)
         | "P" =>
           match r with
           | c :: r => do
             let c ← c.toNat?
             let (ts, r) ← pTys f c r
             some (Variant.tuple n ts, r)
           | [] => none
         | "N" =>
           match r with
           | c :: r => do
             let c ← c.toNat?
             let (fs, r) ← pFields f c r
             some (Variant.named n fs, r)
           | [] => none
         | _ => none)
      let (vs, r) ← pVars f k r
      some (v :: vs, r)
    | _ => none
def pFields : Nat → Nat → Toks → Option (List (Ident × Ty) × Toks)
  | 0, _, _ => none
  | _ + 1, 0, r => some ([], r)
  | f + 1, k + 1, r =>
    match r with
    | name :: r => do
      let n ← ident? name.toList
      let (t, r) ← pTy f r
      let (fs, r) ← pFields f k r
      some ((n, t) :: fs, r)
    | [] => none
end

/-- `F <n> <ty>*` or `M <ty> <n> <ty>*` -/
def pSig (s : String) : Option Sig :=
  let ts := toks s
  let fuel := 2 * ts.length + 4
  match ts with
  | "F" :: k :: r => do
    let k ← k.toNat?
    let (as, r) ← pTys fuel k r
    if r.isEmpty then some ⟨none, as⟩ else none
  | "M" :: r => do
    let (t, r) ← pTy fuel r
    match r with
    | k :: r => do
      let k ← k.toNat?
      let (as, r) ← pTys fuel k r
      if r.isEmpty then some ⟨some t, as⟩ else none
    | [] => none
  | _ => none

/-! ### Values -/

def pFloat (cs : List Char) : Option Fl :=
  match (String.ofList cs).splitOn ":" with
  | [w, b, t] => do
    let w ← w.toNat?
    let b ← hexNat? b.toList
    let t ← hexText? t.toList
    some ⟨w, b, t⟩
  | _ => none

mutual
def pVal : Nat → Toks → Option (Val Fl × Toks)
  | 0, _ => none
  | _ + 1, [] => none
  | f + 1, t :: r =>
    match t.toList with
    | 'u' :: ds => (decNat? ds).map (fun n => (.nat n, r))
    | 'i' :: ds => ((String.ofList ds).toInt?).map (fun i => (.int i, r))
    | ['b', 't'] => some (.bool true, r)
    | ['b', 'f'] => some (.bool false, r)
    | 'c' :: hs =>
      match hexNat? hs with
      | some n => if n.isValidChar then some (.char (Char.ofNat n), r) else none
      | none => none
    | 's' :: hs => (hexText? hs).map (fun s => (.str s, r))
    | 'f' :: cs => (pFloat cs).map (fun x => (.float x, r))
    | ['n'] => some (.unit, r)
    | ['O', '0'] => some (.none, r)
    | ['O', '1'] => (pVal f r).map (fun p => (.some p.1, p.2))
    | 'V' :: ds => do
      let k ← decNat? ds
      let (vs, r) ← pVals f k r
      some (.vec vs, r)
    | 'T' :: ds => do
      let k ← decNat? ds
      let (vs, r) ← pVals f k r
      some (.tuple vs, r)
    | 'U' :: hs => (ident? hs).map (fun n => (.unitV n, r))
    | 'P' :: hs =>
      match r with
      | k :: r => do
        let n ← ident? hs
        let k ← k.toNat?
        let (vs, r) ← pVals f k r
        some (.tupleV n vs, r)
      | [] => none
    | 'N' :: hs =>
      match r with
      | k :: r => do
        let n ← ident? hs
        let k ← k.toNat?
        let (fs, r) ← pFVals f k r
        some (.namedV n fs, r)
      | [] => none
    | _ => none
def pVals : Nat → Nat → Toks → Option (List (Val Fl) × Toks)
  | 0, _, _ => none
  | _ + 1, 0, r => some ([], r)
  | f + 1, k + 1, r => do
    let (v, r) ← pVal f r
    let (vs, r) ← pVals f k r
    some (v :: vs, r)
def pFVals : Nat → Nat → Toks → Option (List (Ident × Val Fl) × Toks)
  | 0, _, _ => none
  | _ + 1, 0, r => some ([], r)
  | f + 1, k + 1, r =>
    match r with
    | name :: r => do
      let n ← ident? name.toList
      let (v, r) ← pVal f r
      let (fs, r) ← pFVals f k r
      some ((n, v) :: fs, r)
    | [] => none
end

/-- receiver (if the signature has one) and arguments -/
def pCall (sig : Sig) (s : String) : Option (Option (Val Fl) × List (Val Fl)) :=
  let ts := toks s
  let fuel := 2 * ts.length + 4
  match sig.receiver with
  | none => do
    let (as, r) ← pVals fuel sig.args.length ts
    if r.isEmpty then some (none, as) else none
  | some _ => do
    let (v, r) ← pVal fuel ts
    let (as, r) ← pVals fuel sig.args.length r
    if r.isEmpty then some (some v, as) else none

/-! ### Model parameters from the data -/

def pEsc (s : String) : Option (List (Nat × Bool)) :=
  (toks s).mapM (fun t =>
    match t.splitOn ":" with
    | [c, b] => do
      let c ← hexNat? c.toList
      match b with
      | "0" => some (c, false)
      | "1" => some (c, true)
      | _ => none
    | _ => none)

/-- `Fmt.esc` from the table; printable ASCII (never listed) is not escaped -/
def mkFmt (tab : List (Nat × Bool)) : Fmt Fl where
  esc c := match tab.lookup c.toNat with
    | some b => b
    | none => false
  float x := x.text

mutual
def floatsOf : Val Fl → List Fl
  | .float x => [x]
  | .some v => floatsOf v
  | .vec vs => floatsOfList vs
  | .tuple vs => floatsOfList vs
  | .tupleV _ vs => floatsOfList vs
  | .namedV _ fs => floatsOfFields fs
  | _ => []
def floatsOfList : List (Val Fl) → List Fl
  | [] => []
  | v :: vs => floatsOf v ++ floatsOfList vs
def floatsOfFields : List (Ident × Val Fl) → List Fl
  | [] => []
  | (_, v) :: fs => floatsOf v ++ floatsOfFields fs
end

mutual
/-- all characters of string / char leaves (they must be covered by the escape table) -/
def charsOf : Val Fl → List Char
  | .char c => [c]
  | .str s => s
  | .some v => charsOf v
  | .vec vs => charsOfList vs
  | .tuple vs => charsOfList vs
  | .tupleV _ vs => charsOfList vs
  | .namedV _ fs => charsOfFields fs
  | _ => []
def charsOfList : List (Val Fl) → List Char
  | [] => []
  | v :: vs => charsOf v ++ charsOfList vs
def charsOfFields : List (Ident × Val Fl) → List Char
  | [] => []
  | (_, v) :: fs => charsOf v ++ charsOfFields fs
end

/-- the float assumptions of C02 on the sample: non-empty, alphabet, equal text ⇒ equal bits -/
def floatProblem (fs : List Fl) : Option String :=
  match fs.find? (fun x => x.text.isEmpty || !x.text.all isFloatChar) with
  | some x => some s!"float rendering outside the assumed alphabet: {toHex (String.ofList x.text)}"
  | none =>
    match fs.find? (fun x => fs.any (fun y => x.width == y.width && x.text == y.text && x.bits != y.bits)) with
    | some x => some s!"float rendering not injective on the sample: {toHex (String.ofList x.text)}"
    | none => none

structure Call where
  receiver : Option (Val Fl)
  args : List (Val Fl)

def Call.vals (c : Call) : List (Val Fl) := keyVals c.receiver c.args

/-- parse one call and evaluate the model key; `Except` carries the BAD / DIFF message -/
def evalCall (sig : Sig) (tab : List (Nat × Bool)) (valsS keyS : String) : Except String (Call × String × String) := do
  let some (recv, args) := pCall sig valsS | throw s!"BAD vals [{valsS}]"
  if !(sig.wt recv args) then throw s!"BAD ill-typed vals [{valsS}]"
  let call : Call := ⟨recv, args⟩
  let uncovered := (charsOfList call.vals).filter (fun c => (c.toNat < 32 || c.toNat > 126) && (tab.lookup c.toNat).isNone)
  if !uncovered.isEmpty then throw s!"BAD escape table misses code point {uncovered.head!.toNat}"
  let some real := hexString? keyS.toList | throw s!"BAD key hex [{keyS}]"
  let model := String.ofList (keyOf (mkFmt tab) recv args)
  pure (call, model, real)

def handleK (src sigS valsS escS keyS : String) : String :=
  match pSig sigS, pEsc escS with
  | some sig, some tab =>
    match evalCall sig tab valsS keyS with
    | .error e => e
    | .ok (call, model, real) =>
      match floatProblem (floatsOfList call.vals) with
      | some msg => s!"DIFF {src} {msg}"
      | none =>
        if model == real then "ok"
        else s!"DIFF {src} sig=[{sigS}] vals=[{valsS}] esc=[{escS}] model={toHex model} real={keyS}"
  | none, _ => s!"BAD sig [{sigS}]"
  | _, none => s!"BAD esc [{escS}]"

def handleP (src sigS vaS vbS escS kaS kbS shared : String) : String :=
  match pSig sigS, pEsc escS with
  | some sig, some tab =>
    match evalCall sig tab vaS kaS, evalCall sig tab vbS kbS with
    | .error e, _ => e
    | _, .error e => e
    | .ok (ca, ma, ra), .ok (cb, mb, rb) =>
      match floatProblem (floatsOfList ca.vals ++ floatsOfList cb.vals) with
      | some msg => s!"DIFF {src} {msg}"
      | none =>
        -- the monitor looks at the real code only, so it comes first
        if vaS == vbS then s!"BAD pair is not a pair of different tuples [{vaS}]"
        else if ra == rb then
          s!"MON C02 {src} two different tuples have the same real key: sig=[{sigS}] a=[{vaS}] b=[{vbS}] key={kaS}"
        else if shared == "1" then
          s!"MON C02 {src} tuple b was served the cache entry of tuple a: sig=[{sigS}] a=[{vaS}] b=[{vbS}]"
        else if ma != ra then s!"DIFF {src} sig=[{sigS}] vals=[{vaS}] esc=[{escS}] model={toHex ma} real={kaS}"
        else if mb != rb then s!"DIFF {src} sig=[{sigS}] vals=[{vbS}] esc=[{escS}] model={toHex mb} real={kbS}"
        else if ma == mb then s!"DIFF {src} model keys collide: a=[{vaS}] b=[{vbS}]"
        else
          match shared with
          | "-" => "ok"
          | "0" => "ok"
          | "2" => s!"BAD {src} harness sanity: tuple a was not served its own entry: a=[{vaS}]"
          | _ => s!"BAD shared [{shared}]"
  | none, _ => s!"BAD sig [{sigS}]"
  | _, none => s!"BAD esc [{escS}]"

def handleFL (w bitsS rendS backS : String) : String :=
  match w.toNat?, hexNat? bitsS.toList, hexText? rendS.toList, hexNat? backS.toList with
  | some w, some bits, some t, some back =>
    if t.isEmpty || !t.all isFloatChar then
      s!"DIFF float{w} rendering outside the assumed alphabet: bits={bitsS} text={rendS}"
    else if bits != back then
      s!"DIFF float{w} rendering does not determine the value: bits={bitsS} text={rendS} reads back as {backS}"
    else "ok"
  | _, _, _, _ => s!"BAD FL [{w}|{bitsS}|{rendS}|{backS}]"

/-- one line of the `keys_diff` stream -/
def handleKeysLine (line : String) : String :=
  if line.startsWith "#" then "ok"
  else
    match line.splitOn "|" with
    | ["K", src, sig, vals, esc, key] => handleK src sig vals esc key
    | ["P", src, sig, va, vb, esc, ka, kb, shared] => handleP src sig va vb esc ka kb shared
    | ["FL", w, bits, rend, back] => handleFL w bits rend back
    | _ => s!"BAD shape {line}"

end Cachelito.KeysDriver
