/-
  T08 — TRANSLATOR TIE, global_cache.rs: the STORE PATH of the sync global engine
  (`insert`, `handle_entry_limit_eviction`) — C01, C04, C07, C08, C18

  `Generated/PureGlobal.lean` is regenerated from /repo's CURRENT source on every check; the theorems are re-proved
  against whatever was generated.  `self` is the record `RustLite.GlobalCache` (the map behind its `RwLock`, the order
  queue behind its mutex, the configuration); guards (`let mut o = self.order.lock()`, `let mut map_write =
  self.map.write()`) are aliases of those fields written back where their block ends; the translation is SEQUENTIAL — what
  one thread computes when nothing interleaves (the interleavings are C18's model, whose micro-steps are cut out of
  exactly this function).  The helpers it calls are the translated `utils.rs` functions of `Props/T02.lean`.

  Main theorem `insert_eq`: for every cache content, configuration, key, value, clock and draw, the translated
  `GlobalCache::insert` leaves exactly the store and queue of the model's `Cachelito.insert` (global flavour).
-/
import Cachelito.Generated.PureGlobal
import Cachelito.Props.T02
import Cachelito.Props.T07

set_option linter.unusedSimpArgs false
set_option linter.unusedVariables false

namespace Cachelito.T08
open Cachelito Cachelito.RustLite Cachelito.Generated Cachelito.SourceLemmas
open Cachelito.Generated.Global

variable {K V F : Type} [DecidableEq K]

/-- the model configuration a `GlobalCache` stands for -/
def cfgOf (c : GlobalCache K V F) : Cfg := ⟨.global, c.policy, c.limit, c.max_memory, c.ttl⟩

/-- the assumptions under which the float scores order like the documented score (DESIGN.md §9) -/
structure ScoresOK (A : F64 F) (c : GlobalCache K V F) : Prop where
  hitsBelowMax : ∀ p, p ∈ c.map → p.2.hits < u64Max
  arcBelowMax : ∀ a b, A.lt (A.mul (A.ofNat a) (A.ofNat b)) A.maxVal = true
  arcOrder : ∀ a b c d, A.lt (A.mul (A.ofNat a) (A.ofNat b)) (A.mul (A.ofNat c) (A.ofNat d)) = decide (a * b < c * d)
  tlruBelowMax : ∀ hits el rk, A.lt ((T02.srcTlru A c.frequency_weight).score (cfgOf c) hits el rk) A.maxVal = true

/-- `while let Some(k) = o.pop_front() { if map.contains_key(k) { map.remove(k); break } }` is `popStored` -/
theorem whilePop_eq_popStored : ∀ (q : List K) (m : Store K V),
    whilePop q m (fun evict_key (map_write : Store K V) =>
        if hasKey evict_key map_write = true then (true, (mapRemove map_write evict_key).2) else (false, map_write)) =
      ((popStored m q).2.1, (popStored m q).1)
  | [], m => by simp [whilePop, popStored]
  | k :: q, m => by
      simp only [whilePop, popStored]
      by_cases h : hasKey k m = true
      · simp [h, mapRemove]
      · simp [h, whilePop_eq_popStored q m]

/-- **The entry-limit step of the sync global engine** is the model's `limitStep` -/
theorem handle_entry_limit_eviction_eq (A : F64 F) (c : GlobalCache K V F) (now r : Nat) (q : List K)
    (ok : ScoresOK A c) :
    handle_entry_limit_eviction A ⟨fun b => now - b, now⟩ r c q =
      ({ c with map := (limitStep (cfgOf c) (T02.srcTlru A c.frequency_weight) now r c.map q).1 },
       (limitStep (cfgOf c) (T02.srcTlru A c.frequency_weight) now r c.map q).2) := by
  obtain ⟨map, order, limit, mm, policy, ttl, fw, st⟩ := c
  unfold handle_entry_limit_eviction limitStep
  dsimp only at ok ⊢
  have hlk : ∀ k e, lookup k map = some e → e.hits < u64Max :=
    fun k e h => ok.hitsBelowMax (k, e) (T07.lookup_mem' k e _ h)
  cases limit with
  | none => simp [cfgOf]
  | some n =>
    by_cases hfull : q.length > n
    · simp only [cfgOf, overLimit, hfull, decide_true, if_true]
      cases policy with
      | lfu =>
        have hv := T02.find_min_frequency_key_eq (F := F) ⟨.global, .lfu, some n, mm, ttl⟩ (T02.srcTlru A fw) now rfl map q hlk
        simp [evictLimit, evictScored, hv, (T02.remove_key_eq _ _ _).1]
        cases victim _ _ now map q <;> simp [removeBoth]
      | arc =>
        have hv := T02.find_arc_eviction_key_eq A ⟨.global, .arc, some n, mm, ttl⟩ (T02.srcTlru A fw) now rfl (by simp) map q
          ok.arcBelowMax ok.arcOrder
        simp [evictLimit, evictScored, hv, (T02.remove_key_eq _ _ _).1]
        cases victim _ _ now map q <;> simp [removeBoth]
      | tlru =>
        have hv := T02.find_tlru_eviction_key_eq A fw ⟨.global, .tlru, some n, mm, ttl⟩ now rfl (by simp) map q
          (by simpa [cfgOf] using ok.tlruBelowMax)
        simp only [] at hv
        simp [evictLimit, evictScored, hv, (T02.remove_key_eq _ _ _).1]
        cases victim _ _ now map q <;> simp [removeBoth]
      | random =>
        simp [evictLimit, evictRandom, randBelow, dequeRemove, mapRemove]
        cases q with
        | nil => simp
        | cons x xs =>
          simp
          cases h : (x :: xs)[r % (xs.length + 1)]? with
          | some y => simp [h]
          | none =>
            have := Nat.mod_lt r (show 0 < xs.length + 1 by omega)
            simp [List.getElem?_eq_none_iff] at h
            omega
      | fifo =>
        simp only [evictLimit]
        rw [T07.whilePop_congr (g := fun evict_key (map_write : Store K V) =>
            if hasKey evict_key map_write = true then (true, (mapRemove map_write evict_key).2) else (false, map_write))]
        · rw [whilePop_eq_popStored]
        · intro a s; by_cases h : hasKey a s = true <;> simp [h]
      | lru =>
        simp only [evictLimit]
        rw [T07.whilePop_congr (g := fun evict_key (map_write : Store K V) =>
            if hasKey evict_key map_write = true then (true, (mapRemove map_write evict_key).2) else (false, map_write))]
        · rw [whilePop_eq_popStored]
        · intro a s; by_cases h : hasKey a s = true <;> simp [h]
    · simp [cfgOf, overLimit, hfull]

/-- **The sync global engine's `insert` is the model's `insert`.**  For every cache content and configuration, key,
    value, clock and random draw: the translated `GlobalCache::insert` (store the fresh entry, re-queue the key at the
    back, entry-limit step) leaves exactly the store and the queue of `Cachelito.insert` for the global flavour, and does
    not touch the configuration. -/
theorem insert_eq (A : F64 F) (c : GlobalCache K V F) (now r hs ms : Nat) (k : K) (v : V) (ok : ScoresOK A c) :
    Global.insert A ⟨fun b => now - b, now⟩ r c k v =
      { c with
        map := (Cachelito.insert (cfgOf c) (T02.srcTlru A c.frequency_weight) r ⟨c.map, c.order, now, hs, ms⟩ k v).store,
        order := (Cachelito.insert (cfgOf c) (T02.srcTlru A c.frequency_weight) r ⟨c.map, c.order, now, hs, ms⟩ k v).queue } := by
  obtain ⟨map, order, limit, mm, policy, ttl, fw, st⟩ := c
  unfold Global.insert
  have ok' : ScoresOK A (GlobalCache.mk (put k ⟨v, now, 0⟩ map) order limit mm policy ttl fw st) :=
    ⟨fun p hp => by
        simp [put, eraseKey] at hp
        rcases hp with hp | hp
        · exact ok.hitsBelowMax p hp.1
        · subst hp; simp [u64Max],
      ok.arcBelowMax, ok.arcOrder, ok.tlruBelowMax⟩
  have hq : (match position (fun x => decide (x = k)) order with
      | some pos => (dequeRemove order pos).2
      | none => order) = order.erase k := by
    cases h : position (fun x => decide (x = k)) order with
    | none => simp [List.erase_of_not_mem (position_none k order h)]
    | some i => simp [dequeRemove, (position_some k order i h).2.1]
  simp only [mapInsert, newEntry, pushBack]
  rw [handle_entry_limit_eviction_eq A _ now r _ ok']
  simp [Cachelito.insert, cfgOf, stamp, erasePush]
  simp only [← hq]
  constructor <;> (cases position (fun x => decide (x = k)) order <;> simp [dequeRemove])

end Cachelito.T08
