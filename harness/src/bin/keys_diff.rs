//! C02 correspondence stream: cache keys of the REAL code vs `Cachelito.Keys.keyOf`.
//!
//!   keys_diff <seed> <cases_per_shape> [pairs_per_shape]      -> lines on stdout
//!
//! For a fixed set of signature shapes (free functions and methods) the harness generates typed
//! random argument tuples (adversarial strings, boundary integers, nested Option/Vec/tuple,
//! `derive(Debug)` user types) and obtains the key from the real code along four paths:
//!
//!   trait   `CacheableKey::to_cache_key` on each part, joined as the sync macro does
//!   fmt     `format!("{:?}", part)` on each part, joined as the async macro does
//!   sync    a real `#[cache]` function of that shape; the key is read back from its cache through
//!           `cachelito_core::invalidate_with(name, |k| { record k; true })`
//!   async   a real `#[cache_async]` function of that shape, same observation
//!
//! Line protocol (fields separated by `|`, tokens inside a field by one space; text is hex of UTF-8):
//!
//!   K|<path>:<shape>|<sig>|<vals>|<esc>|<keyhex>
//!   P|<path>:<shape>|<sig>|<valsA>|<valsB>|<esc>|<keyAhex>|<keyBhex>|<shared>
//!   FL|<32|64>|<bits hex>|<rendering hex>|<round-trip bits hex>
//!   #STAT …
//!
//!   sig    `F <n> <ty>*n`  or  `M <ty> <n> <ty>*n`  (method: receiver type first)
//!   ty     `u` `i` `b` `c` `s` `f` `n` | `O <ty>` | `V <ty>` | `T <k> <ty>*k`
//!          | `A <k> <variant>*k`,  variant = `U <name>` | `P <name> <k> <ty>*k` | `N <name> <k> (<field> <ty>)*k`
//!   vals   receiver value first (methods), then the arguments:
//!          `u<dec>` `i<dec>` `bt` `bf` `c<hex code point>` `s<hex>` `f<32|64>:<bits hex>:<rendering hex>` `n`
//!          | `O0` | `O1 <v>` | `V<k> <v>*k` | `T<k> <v>*k`
//!          | `U<name>` | `P<name> <k> <v>*k` | `N<name> <k> (<field> <v>)*k`
//!   esc    for every character outside 0x20..0x7e occurring in the case: `<hex code point>:<0|1>`,
//!          1 iff Rust's `{:?}` prints it as `\u{…}` (decided by Rust's Unicode tables)
//!   shared `-` (key-only paths) or, for the macro paths, `0`/`1`: whether the call with tuple B
//!          was served the entry of tuple A (function bodies return a fresh counter value);
//!          `2` = tuple A was not served its own entry on the second call (harness sanity)
//!
//! P lines carry two DIFFERENT tuples of one signature, biased to boundary moves.

#![allow(dead_code, non_local_definitions)]

use cachelito::cache;
use cachelito_async::cache_async;
use cachelito_core::{invalidate_with, CacheableKey, DefaultCacheableKey};
use std::cell::RefCell;
use std::collections::BTreeMap;
use std::future::Future;
use std::io::Write;
use std::pin::pin;
use std::sync::atomic::{AtomicU64, Ordering};
use std::task::{Context, Poll, Waker};
use verif_harness::{hex, Rng};

// ---------------------------------------------------------------------------------------------
// Types and values

#[derive(Clone, Debug, PartialEq)]
enum Ty {
    U(u32),
    I(u32),
    Bool,
    Char,
    Str,
    F32,
    F64,
    Unit,
    Opt(Box<Ty>),
    Vec(Box<Ty>),
    Tup(Vec<Ty>),
    Adt(Vec<Var>),
}

#[derive(Clone, Debug, PartialEq)]
struct Var {
    name: &'static str,
    kind: Kind,
}

#[derive(Clone, Debug, PartialEq)]
enum Kind {
    Unit,
    Tuple(Vec<Ty>),
    Named(Vec<(&'static str, Ty)>),
}

#[derive(Clone, Debug, PartialEq)]
enum V {
    U(u128),
    I(i128),
    Bool(bool),
    Char(char),
    Str(String),
    F32(u32),
    F64(u64),
    Unit,
    Opt(Option<Box<V>>),
    Vec(Vec<V>),
    Tup(Vec<V>),
    Adt(&'static str, Payload),
}

#[derive(Clone, Debug, PartialEq)]
enum Payload {
    Unit,
    Tuple(Vec<V>),
    Named(Vec<(&'static str, V)>),
}

fn enc_ty(t: &Ty, o: &mut Vec<String>) {
    match t {
        Ty::U(_) => o.push("u".into()),
        Ty::I(_) => o.push("i".into()),
        Ty::Bool => o.push("b".into()),
        Ty::Char => o.push("c".into()),
        Ty::Str => o.push("s".into()),
        Ty::F32 | Ty::F64 => o.push("f".into()),
        Ty::Unit => o.push("n".into()),
        Ty::Opt(t) => {
            o.push("O".into());
            enc_ty(t, o)
        }
        Ty::Vec(t) => {
            o.push("V".into());
            enc_ty(t, o)
        }
        Ty::Tup(ts) => {
            o.push("T".into());
            o.push(ts.len().to_string());
            for t in ts {
                enc_ty(t, o)
            }
        }
        Ty::Adt(vars) => {
            o.push("A".into());
            o.push(vars.len().to_string());
            for v in vars {
                match &v.kind {
                    Kind::Unit => {
                        o.push("U".into());
                        o.push(hex(v.name));
                    }
                    Kind::Tuple(ts) => {
                        o.push("P".into());
                        o.push(hex(v.name));
                        o.push(ts.len().to_string());
                        for t in ts {
                            enc_ty(t, o)
                        }
                    }
                    Kind::Named(fs) => {
                        o.push("N".into());
                        o.push(hex(v.name));
                        o.push(fs.len().to_string());
                        for (f, t) in fs {
                            o.push(hex(f));
                            enc_ty(t, o)
                        }
                    }
                }
            }
        }
    }
}

fn enc_val(v: &V, o: &mut Vec<String>) {
    match v {
        V::U(x) => o.push(format!("u{}", x)),
        V::I(x) => o.push(format!("i{}", x)),
        V::Bool(b) => o.push(if *b { "bt".into() } else { "bf".into() }),
        V::Char(c) => o.push(format!("c{:x}", *c as u32)),
        V::Str(s) => o.push(format!("s{}", hex(s))),
        V::F32(b) => o.push(format!("f32:{:x}:{}", b, hex(&format!("{:?}", f32::from_bits(*b))))),
        V::F64(b) => o.push(format!("f64:{:x}:{}", b, hex(&format!("{:?}", f64::from_bits(*b))))),
        V::Unit => o.push("n".into()),
        V::Opt(None) => o.push("O0".into()),
        V::Opt(Some(x)) => {
            o.push("O1".into());
            enc_val(x, o)
        }
        V::Vec(xs) => {
            o.push(format!("V{}", xs.len()));
            for x in xs {
                enc_val(x, o)
            }
        }
        V::Tup(xs) => {
            o.push(format!("T{}", xs.len()));
            for x in xs {
                enc_val(x, o)
            }
        }
        V::Adt(name, Payload::Unit) => o.push(format!("U{}", hex(name))),
        V::Adt(name, Payload::Tuple(xs)) => {
            o.push(format!("P{}", hex(name)));
            o.push(xs.len().to_string());
            for x in xs {
                enc_val(x, o)
            }
        }
        V::Adt(name, Payload::Named(fs)) => {
            o.push(format!("N{}", hex(name)));
            o.push(fs.len().to_string());
            for (f, x) in fs {
                o.push(hex(f));
                enc_val(x, o)
            }
        }
    }
}

fn enc_vals(vs: &[V]) -> String {
    let mut o = Vec::new();
    for v in vs {
        enc_val(v, &mut o)
    }
    o.join(" ")
}

fn enc_sig(recv: &Option<Ty>, args: &[Ty]) -> String {
    let mut o = Vec::new();
    match recv {
        Some(t) => {
            o.push("M".to_string());
            enc_ty(t, &mut o)
        }
        None => o.push("F".to_string()),
    }
    o.push(args.len().to_string());
    for t in args {
        enc_ty(t, &mut o)
    }
    o.join(" ")
}

/// every character of every string / char leaf
fn chars_of(v: &V, out: &mut Vec<char>) {
    match v {
        V::Char(c) => out.push(*c),
        V::Str(s) => out.extend(s.chars()),
        V::Opt(Some(x)) => chars_of(x, out),
        V::Vec(xs) | V::Tup(xs) => xs.iter().for_each(|x| chars_of(x, out)),
        V::Adt(_, Payload::Tuple(xs)) => xs.iter().for_each(|x| chars_of(x, out)),
        V::Adt(_, Payload::Named(fs)) => fs.iter().for_each(|(_, x)| chars_of(x, out)),
        _ => {}
    }
}

fn strings_of(v: &V, out: &mut Vec<String>) {
    match v {
        V::Str(s) => out.push(s.clone()),
        V::Char(c) => out.push(c.to_string()),
        V::Opt(Some(x)) => strings_of(x, out),
        V::Vec(xs) | V::Tup(xs) => xs.iter().for_each(|x| strings_of(x, out)),
        V::Adt(_, Payload::Tuple(xs)) => xs.iter().for_each(|x| strings_of(x, out)),
        V::Adt(_, Payload::Named(fs)) => fs.iter().for_each(|(_, x)| strings_of(x, out)),
        _ => {}
    }
}

fn floats_of(v: &V, out: &mut Vec<V>) {
    match v {
        V::F32(_) | V::F64(_) => out.push(v.clone()),
        V::Opt(Some(x)) => floats_of(x, out),
        V::Vec(xs) | V::Tup(xs) => xs.iter().for_each(|x| floats_of(x, out)),
        V::Adt(_, Payload::Tuple(xs)) => xs.iter().for_each(|x| floats_of(x, out)),
        V::Adt(_, Payload::Named(fs)) => fs.iter().for_each(|(_, x)| floats_of(x, out)),
        _ => {}
    }
}

fn esc_table(tuples: &[&[V]]) -> String {
    let mut cs = Vec::new();
    for t in tuples {
        for v in t.iter() {
            chars_of(v, &mut cs)
        }
    }
    cs.retain(|c| !(' '..='~').contains(c));
    cs.sort();
    cs.dedup();
    cs.iter()
        .map(|c| {
            let escaped = format!("{:?}", c).starts_with("'\\u{");
            format!("{:x}:{}", *c as u32, if escaped { 1 } else { 0 })
        })
        .collect::<Vec<_>>()
        .join(" ")
}

// ---------------------------------------------------------------------------------------------
// Typed arguments

trait Arg: Sized {
    fn ty() -> Ty;
    fn from_v(v: &V) -> Self;
}

macro_rules! arg_uint { ($($t:ty),*) => {$(
    impl Arg for $t {
        fn ty() -> Ty { Ty::U(<$t>::BITS) }
        fn from_v(v: &V) -> Self { match v { V::U(x) => *x as $t, _ => panic!("uint expected") } }
    })*} }
macro_rules! arg_sint { ($($t:ty),*) => {$(
    impl Arg for $t {
        fn ty() -> Ty { Ty::I(<$t>::BITS) }
        fn from_v(v: &V) -> Self { match v { V::I(x) => *x as $t, _ => panic!("sint expected") } }
    })*} }
arg_uint!(u8, u16, u32, u64, u128, usize);
arg_sint!(i8, i16, i32, i64, i128, isize);

impl Arg for bool {
    fn ty() -> Ty {
        Ty::Bool
    }
    fn from_v(v: &V) -> Self {
        match v {
            V::Bool(b) => *b,
            _ => panic!("bool expected"),
        }
    }
}
impl Arg for char {
    fn ty() -> Ty {
        Ty::Char
    }
    fn from_v(v: &V) -> Self {
        match v {
            V::Char(c) => *c,
            _ => panic!("char expected"),
        }
    }
}
impl Arg for String {
    fn ty() -> Ty {
        Ty::Str
    }
    fn from_v(v: &V) -> Self {
        match v {
            V::Str(s) => s.clone(),
            _ => panic!("str expected"),
        }
    }
}
impl Arg for f32 {
    fn ty() -> Ty {
        Ty::F32
    }
    fn from_v(v: &V) -> Self {
        match v {
            V::F32(b) => f32::from_bits(*b),
            _ => panic!("f32 expected"),
        }
    }
}
impl Arg for f64 {
    fn ty() -> Ty {
        Ty::F64
    }
    fn from_v(v: &V) -> Self {
        match v {
            V::F64(b) => f64::from_bits(*b),
            _ => panic!("f64 expected"),
        }
    }
}
impl Arg for () {
    fn ty() -> Ty {
        Ty::Unit
    }
    fn from_v(v: &V) -> Self {
        match v {
            V::Unit => (),
            _ => panic!("unit expected"),
        }
    }
}
impl<T: Arg> Arg for Option<T> {
    fn ty() -> Ty {
        Ty::Opt(Box::new(T::ty()))
    }
    fn from_v(v: &V) -> Self {
        match v {
            V::Opt(o) => o.as_ref().map(|x| T::from_v(x)),
            _ => panic!("option expected"),
        }
    }
}
impl<T: Arg> Arg for Vec<T> {
    fn ty() -> Ty {
        Ty::Vec(Box::new(T::ty()))
    }
    fn from_v(v: &V) -> Self {
        match v {
            V::Vec(xs) => xs.iter().map(T::from_v).collect(),
            _ => panic!("vec expected"),
        }
    }
}
macro_rules! arg_tuple { ($(($($n:tt $t:ident),+))*) => {$(
    impl<$($t: Arg),+> Arg for ($($t,)+) {
        fn ty() -> Ty { Ty::Tup(vec![$($t::ty()),+]) }
        fn from_v(v: &V) -> Self { match v { V::Tup(xs) => ($($t::from_v(&xs[$n]),)+), _ => panic!("tuple expected") } }
    })*} }
arg_tuple! {
    (0 A)
    (0 A, 1 B)
    (0 A, 1 B, 2 C)
    (0 A, 1 B, 2 C, 3 D)
    (0 A, 1 B, 2 C, 3 D, 4 E)
}

// ---- user types with Debug-derived keys ------------------------------------------------------

#[derive(Debug, Clone)]
struct Point {
    x: i32,
    y: i32,
}
impl DefaultCacheableKey for Point {}

#[derive(Debug, Clone)]
struct Tagged(String, Vec<u8>);
impl DefaultCacheableKey for Tagged {}

#[derive(Debug, Clone)]
struct Marker;
impl DefaultCacheableKey for Marker {}

#[derive(Debug, Clone)]
enum Fig {
    Empty,
    Circle(f64),
    Rect { w: u32, h: u32 },
    Label(String, char),
    Maybe(Option<String>),
    Nil(),
    Blank {},
}
impl DefaultCacheableKey for Fig {}

#[derive(Debug, Clone)]
struct Store {
    name: String,
    shard: u8,
    tags: Vec<String>,
}
impl DefaultCacheableKey for Store {}

#[allow(non_snake_case)]
#[derive(Debug, Clone)]
struct Ñandú {
    año: u8,
    r#type: String,
}
impl DefaultCacheableKey for Ñandú {}

#[derive(Debug, Clone)]
struct Outer {
    p: Point,
    f: Fig,
    o: Option<Tagged>,
    m: Marker,
    u: (),
}
impl DefaultCacheableKey for Outer {}

fn named<'a>(v: &'a V, name: &str) -> &'a [(&'static str, V)] {
    match v {
        V::Adt(n, Payload::Named(fs)) if *n == name => fs,
        _ => panic!("{} expected", name),
    }
}

impl Arg for Point {
    fn ty() -> Ty {
        Ty::Adt(vec![Var { name: "Point", kind: Kind::Named(vec![("x", i32::ty()), ("y", i32::ty())]) }])
    }
    fn from_v(v: &V) -> Self {
        let fs = named(v, "Point");
        Point { x: i32::from_v(&fs[0].1), y: i32::from_v(&fs[1].1) }
    }
}
impl Arg for Tagged {
    fn ty() -> Ty {
        Ty::Adt(vec![Var { name: "Tagged", kind: Kind::Tuple(vec![String::ty(), <Vec<u8>>::ty()]) }])
    }
    fn from_v(v: &V) -> Self {
        match v {
            V::Adt("Tagged", Payload::Tuple(xs)) => Tagged(String::from_v(&xs[0]), <Vec<u8>>::from_v(&xs[1])),
            _ => panic!("Tagged expected"),
        }
    }
}
impl Arg for Marker {
    fn ty() -> Ty {
        Ty::Adt(vec![Var { name: "Marker", kind: Kind::Unit }])
    }
    fn from_v(v: &V) -> Self {
        match v {
            V::Adt("Marker", Payload::Unit) => Marker,
            _ => panic!("Marker expected"),
        }
    }
}
impl Arg for Fig {
    fn ty() -> Ty {
        Ty::Adt(vec![
            Var { name: "Empty", kind: Kind::Unit },
            Var { name: "Circle", kind: Kind::Tuple(vec![f64::ty()]) },
            Var { name: "Rect", kind: Kind::Named(vec![("w", u32::ty()), ("h", u32::ty())]) },
            Var { name: "Label", kind: Kind::Tuple(vec![String::ty(), char::ty()]) },
            Var { name: "Maybe", kind: Kind::Tuple(vec![<Option<String>>::ty()]) },
            Var { name: "Nil", kind: Kind::Tuple(vec![]) },
            Var { name: "Blank", kind: Kind::Named(vec![]) },
        ])
    }
    fn from_v(v: &V) -> Self {
        match v {
            V::Adt("Empty", _) => Fig::Empty,
            V::Adt("Circle", Payload::Tuple(xs)) => Fig::Circle(f64::from_v(&xs[0])),
            V::Adt("Rect", Payload::Named(fs)) => Fig::Rect { w: u32::from_v(&fs[0].1), h: u32::from_v(&fs[1].1) },
            V::Adt("Label", Payload::Tuple(xs)) => Fig::Label(String::from_v(&xs[0]), char::from_v(&xs[1])),
            V::Adt("Maybe", Payload::Tuple(xs)) => Fig::Maybe(<Option<String>>::from_v(&xs[0])),
            V::Adt("Nil", _) => Fig::Nil(),
            V::Adt("Blank", _) => Fig::Blank {},
            _ => panic!("Fig expected"),
        }
    }
}
impl Arg for Store {
    fn ty() -> Ty {
        Ty::Adt(vec![Var {
            name: "Store",
            kind: Kind::Named(vec![("name", String::ty()), ("shard", u8::ty()), ("tags", <Vec<String>>::ty())]),
        }])
    }
    fn from_v(v: &V) -> Self {
        let fs = named(v, "Store");
        Store { name: String::from_v(&fs[0].1), shard: u8::from_v(&fs[1].1), tags: <Vec<String>>::from_v(&fs[2].1) }
    }
}
impl Arg for Ñandú {
    fn ty() -> Ty {
        Ty::Adt(vec![Var { name: "Ñandú", kind: Kind::Named(vec![("año", u8::ty()), ("type", String::ty())]) }])
    }
    fn from_v(v: &V) -> Self {
        let fs = named(v, "Ñandú");
        Ñandú { año: u8::from_v(&fs[0].1), r#type: String::from_v(&fs[1].1) }
    }
}
impl Arg for Outer {
    fn ty() -> Ty {
        Ty::Adt(vec![Var {
            name: "Outer",
            kind: Kind::Named(vec![("p", Point::ty()), ("f", Fig::ty()), ("o", <Option<Tagged>>::ty()), ("m", Marker::ty()), ("u", <()>::ty())]),
        }])
    }
    fn from_v(v: &V) -> Self {
        let fs = named(v, "Outer");
        Outer {
            p: Point::from_v(&fs[0].1),
            f: Fig::from_v(&fs[1].1),
            o: <Option<Tagged>>::from_v(&fs[2].1),
            m: Marker::from_v(&fs[3].1),
            u: <()>::from_v(&fs[4].1),
        }
    }
}

// ---------------------------------------------------------------------------------------------
// Observation of the real key

static NEXT: AtomicU64 = AtomicU64::new(1);
fn fresh() -> u64 {
    NEXT.fetch_add(1, Ordering::SeqCst)
}

fn block_on<F: Future>(f: F) -> F::Output {
    let mut f = pin!(f);
    let mut cx = Context::from_waker(Waker::noop());
    loop {
        if let Poll::Ready(v) = f.as_mut().poll(&mut cx) {
            return v;
        }
    }
}

/// all keys currently held by the cache `name`; the cache is emptied
fn drain(name: &str) -> Vec<String> {
    let keys = RefCell::new(Vec::new());
    invalidate_with(name, |k| {
        keys.borrow_mut().push(k.to_string());
        true
    });
    keys.into_inner()
}

fn one_key(name: &str) -> String {
    let ks = drain(name);
    if ks.len() == 1 {
        ks.into_iter().next().unwrap()
    } else {
        format!("<<harness: {} keys in cache {}>>", ks.len(), name)
    }
}

struct Real {
    tr: String,
    fm: String,
    sync: String,
    asy: String,
}

/// whether B was served A's entry: sync global, sync thread-local, async
struct Shared {
    sync: u8,
    thread: u8,
    asy: u8,
}

fn shared_code(v1: u64, v2: u64, v3: u64) -> u8 {
    if v2 == v1 {
        1
    } else if v3 != v1 {
        2
    } else {
        0
    }
}

struct Shape {
    name: &'static str,
    recv: Option<Ty>,
    args: Vec<Ty>,
    run: fn(&[V]) -> Real,
    probe: fn(&[V], &[V]) -> Shared,
}

/// free function whose parameters are owned values
macro_rules! shape {
    ($name:literal, $sync:ident, $thr:ident, $asy:ident, ($($a:ident : [$($t:tt)+]),*)) => {{
        #[cache]
        fn $sync($($a: $($t)+),*) -> u64 { fresh() }
        #[cache(scope = "thread")]
        fn $thr($($a: $($t)+),*) -> u64 { fresh() }
        #[cache_async]
        async fn $asy($($a: $($t)+),*) -> u64 { fresh() }
        #[allow(unused_mut, unused_variables)]
        fn conv(vs: &[V]) -> ($($($t)+,)*) {
            let mut it = vs.iter();
            ($(<$($t)+ as Arg>::from_v(it.next().unwrap()),)*)
        }
        #[allow(unused_mut)]
        fn run(vs: &[V]) -> Real {
            let ($($a,)*) = conv(vs);
            // exactly the statements emitted by generate_key_expr_with_cacheable_key / generate_key_expr
            let tr = { let mut parts: Vec<String> = Vec::new(); $(parts.push(($a).to_cache_key());)* parts.join("|") };
            let fm = { let mut parts: Vec<String> = Vec::new(); $(parts.push(format!("{:?}", $a));)* parts.join("|") };
            drain(stringify!($sync));
            let _ = $sync($($a.clone()),*);
            let sync = one_key(stringify!($sync));
            drain(stringify!($asy));
            let _ = block_on($asy($($a.clone()),*));
            let asy = one_key(stringify!($asy));
            Real { tr, fm, sync, asy }
        }
        fn probe(va: &[V], vb: &[V]) -> Shared {
            let call_sync = |vs: &[V]| { let ($($a,)*) = conv(vs); $sync($($a),*) };
            let call_thr = |vs: &[V]| { let ($($a,)*) = conv(vs); $thr($($a),*) };
            let call_asy = |vs: &[V]| { let ($($a,)*) = conv(vs); block_on($asy($($a),*)) };
            Shared {
                sync: shared_code(call_sync(va), call_sync(vb), call_sync(va)),
                thread: shared_code(call_thr(va), call_thr(vb), call_thr(va)),
                asy: shared_code(call_asy(va), call_asy(vb), call_asy(va)),
            }
        }
        Shape { name: $name, recv: None, args: vec![$(<$($t)+ as Arg>::ty()),*], run, probe }
    }};
}

/// free function whose parameters are borrowed views (`&str`, `&[T]`) of owned values
macro_rules! shape_ref {
    ($name:literal, $sync:ident, $thr:ident, $asy:ident, ($($a:ident : $t:ty => $p:ty),*)) => {{
        #[cache]
        fn $sync($($a: $p),*) -> u64 { fresh() }
        #[cache(scope = "thread")]
        fn $thr($($a: $p),*) -> u64 { fresh() }
        #[cache_async]
        async fn $asy($($a: $p),*) -> u64 { fresh() }
        fn conv(vs: &[V]) -> ($($t,)*) {
            let mut it = vs.iter();
            ($(<$t as Arg>::from_v(it.next().unwrap()),)*)
        }
        fn run(vs: &[V]) -> Real {
            let ($($a,)*) = conv(vs);
            $(let $a: $p = &$a[..];)*
            let tr = { let mut parts: Vec<String> = Vec::new(); $(parts.push(($a).to_cache_key());)* parts.join("|") };
            let fm = { let mut parts: Vec<String> = Vec::new(); $(parts.push(format!("{:?}", $a));)* parts.join("|") };
            drain(stringify!($sync));
            let _ = $sync($($a),*);
            let sync = one_key(stringify!($sync));
            drain(stringify!($asy));
            let _ = block_on($asy($($a),*));
            let asy = one_key(stringify!($asy));
            Real { tr, fm, sync, asy }
        }
        fn probe(va: &[V], vb: &[V]) -> Shared {
            let call_sync = |vs: &[V]| { let ($($a,)*) = conv(vs); $sync($(&$a[..]),*) };
            let call_thr = |vs: &[V]| { let ($($a,)*) = conv(vs); $thr($(&$a[..]),*) };
            let call_asy = |vs: &[V]| { let ($($a,)*) = conv(vs); block_on($asy($(&$a[..]),*)) };
            Shared {
                sync: shared_code(call_sync(va), call_sync(vb), call_sync(va)),
                thread: shared_code(call_thr(va), call_thr(vb), call_thr(va)),
                asy: shared_code(call_asy(va), call_asy(vb), call_asy(va)),
            }
        }
        Shape { name: $name, recv: None, args: vec![$(<$t as Arg>::ty()),*], run, probe }
    }};
}

/// method with a `&self` receiver whose key is Debug-derived; the receiver is the first value
macro_rules! method_shape {
    ($name:literal, $r:ty, $sync:ident, $thr:ident, $asy:ident, ($($a:ident : [$($t:tt)+]),*)) => {{
        impl $r {
            #[cache]
            fn $sync(&self $(, $a: $($t)+)*) -> u64 { fresh() }
            #[cache(scope = "thread")]
            fn $thr(&self $(, $a: $($t)+)*) -> u64 { fresh() }
            #[cache_async]
            async fn $asy(&self $(, $a: $($t)+)*) -> u64 { fresh() }
        }
        #[allow(unused_mut, unused_variables)]
        fn conv(vs: &[V]) -> ($r, ($($($t)+,)*)) {
            let mut it = vs.iter();
            let r = <$r as Arg>::from_v(it.next().unwrap());
            (r, ($(<$($t)+ as Arg>::from_v(it.next().unwrap()),)*))
        }
        #[allow(unused_mut)]
        fn run(vs: &[V]) -> Real {
            let (this, ($($a,)*)) = conv(vs);
            let this = &this;
            let tr = { let mut parts: Vec<String> = Vec::new(); parts.push(this.to_cache_key()); $(parts.push(($a).to_cache_key());)* parts.join("|") };
            let fm = { let mut parts: Vec<String> = Vec::new(); parts.push(format!("{:?}", this)); $(parts.push(format!("{:?}", $a));)* parts.join("|") };
            drain(stringify!($sync));
            let _ = this.$sync($($a.clone()),*);
            let sync = one_key(stringify!($sync));
            drain(stringify!($asy));
            let _ = block_on(this.$asy($($a.clone()),*));
            let asy = one_key(stringify!($asy));
            Real { tr, fm, sync, asy }
        }
        fn probe(va: &[V], vb: &[V]) -> Shared {
            let call_sync = |vs: &[V]| { let (this, ($($a,)*)) = conv(vs); this.$sync($($a),*) };
            let call_thr = |vs: &[V]| { let (this, ($($a,)*)) = conv(vs); this.$thr($($a),*) };
            let call_asy = |vs: &[V]| { let (this, ($($a,)*)) = conv(vs); block_on(this.$asy($($a),*)) };
            Shared {
                sync: shared_code(call_sync(va), call_sync(vb), call_sync(va)),
                thread: shared_code(call_thr(va), call_thr(vb), call_thr(va)),
                asy: shared_code(call_asy(va), call_asy(vb), call_asy(va)),
            }
        }
        Shape { name: $name, recv: Some(<$r as Arg>::ty()), args: vec![$(<$($t)+ as Arg>::ty()),*], run, probe }
    }};
}

fn shapes() -> Vec<Shape> {
    vec![
        shape!("noargs", k_noargs, t_noargs, a_noargs, ()),
        shape!("u64", k_u64, t_u64, a_u64, (a: [u64])),
        shape!("u32_u32", k_u32_u32, t_u32_u32, a_u32_u32, (a: [u32], b: [u32])),
        shape!("i8_i128_usize", k_ints, t_ints, a_ints, (a: [i8], b: [i128], c: [usize])),
        shape!("i64_u128_i16", k_ints2, t_ints2, a_ints2, (a: [i64], b: [u128], c: [i16])),
        shape!("str_str", k_str_str, t_str_str, a_str_str, (a: [String], b: [String])),
        shape!("str_str_str", k_str3, t_str3, a_str3, (a: [String], b: [String], c: [String])),
        shape_ref!("strref_strref", k_strref, t_strref, a_strref, (a: String => &str, b: String => &str)),
        shape_ref!("slice_str_slice_u8", k_slices, t_slices, a_slices, (a: Vec<String> => &[String], b: Vec<u8> => &[u8])),
        shape!("bool_char", k_bool_char, t_bool_char, a_bool_char, (a: [bool], b: [char])),
        shape!("char_str_char", k_char_str, t_char_str, a_char_str, (a: [char], b: [String], c: [char])),
        shape!("f64_f32", k_floats, t_floats, a_floats, (a: [f64], b: [f32])),
        shape!("f64_i32_str", k_float_mix, t_float_mix, a_float_mix, (a: [f64], b: [i32], c: [String])),
        shape!("optstr_vecstr", k_opt_vec, t_opt_vec, a_opt_vec, (a: [Option<String>], b: [Vec<String>])),
        shape!("tuple_str_i32_tuple1", k_tuples, t_tuples, a_tuples, (a: [(String, i32)], b: [(u8,)])),
        shape!("tuple5_tuple2", k_tuple5, t_tuple5, a_tuple5, (a: [(u8, bool, char, String, i64)], b: [(i64, String)])),
        shape!("nested", k_nested, t_nested, a_nested, (a: [Vec<Option<(String, char)>>], b: [Option<Vec<i16>>], c: [Vec<Vec<String>>])),
        shape!("optopt_vecbool_opttuple1", k_optopt, t_optopt, a_optopt, (a: [Option<Option<String>>], b: [Vec<bool>], c: [Option<(f32,)>])),
        shape!("point_fig", k_point_fig, t_point_fig, a_point_fig, (a: [Point], b: [Fig])),
        shape!("tagged_marker_str", k_tagged, t_tagged, a_tagged, (a: [Tagged], b: [Marker], c: [String])),
        shape!("outer_vecfig", k_outer, t_outer, a_outer, (a: [Outer], b: [Vec<Fig>])),
        shape!("unicode_ident", k_nandu, t_nandu, a_nandu, (a: [Ñandú], b: [String])),
        method_shape!("store.get(str)", Store, m_get, mt_get, ma_get, (k: [String])),
        method_shape!("store.noargs", Store, m_all, mt_all, ma_all, ()),
        method_shape!("fig.scale(u32,optstr)", Fig, m_scale, mt_scale, ma_scale, (k: [u32], label: [Option<String>])),
        method_shape!("tagged.find(str,str)", Tagged, m_find, mt_find, ma_find, (a: [String], b: [String])),
        method_shape!("point.noargs", Point, m_norm, mt_norm, ma_norm, ()),
        method_shape!("point.idx(u32,u32)", Point, m_idx, mt_idx, ma_idx, (a: [u32], b: [u32])),
        method_shape!("store.at(i64,u8,u16)", Store, m_at, mt_at, ma_at, (a: [i64], b: [u8], c: [u16])),
    ]
}

// ---------------------------------------------------------------------------------------------
// Generation

const FRAGMENTS: &[&str] = &[
    "|", "|", "\"", "\"", "'", "\\", "\\", "\n", "\r", "\t", "\0", ", ", ",", " ", "(", ")", "[", "]", "{", "}", ":",
    "None", "Some(", "\"|\"", "\\\"", "\\\\", "\\n", "\\u{41}", "\\'", "\u{301}", "\u{200d}", "\u{200b}", "\u{feff}",
    "\u{1F600}", "\u{10FFFF}", "\u{E000}", "\u{7f}", "\u{80}", "\u{a0}", "\u{ad}", "é", "ß", "中", "\u{1}", "\u{1b}",
    "\u{85}", "\u{2028}", "\u{fffd}", "\u{d7ff}", "\u{e0001}", "\u{1d165}", "\u{903}", "\u{1F3FB}", "\u{600}",
    "\u{300}", "\u{20dd}", "\u{fe0f}", "\u{e0100}", "\u{10000}", "\u{378}", "a", "b", "c", "1", "2", "0", "-", ".",
    "e", "x", "true", "()", "'|'", "|\"", "\"|", "a|b", "\\|",
];

fn gen_char(rng: &mut Rng) -> char {
    match rng.below(10) {
        0..=5 => {
            let f = *rng.pick(FRAGMENTS);
            let cs: Vec<char> = f.chars().collect();
            cs[rng.below(cs.len() as u64) as usize]
        }
        6 => (0x20u8 + rng.below(95) as u8) as char,
        7 => char::from_u32(rng.below(0x20) as u32).unwrap(),
        _ => loop {
            let hi = match rng.below(4) {
                0 => 0x800,
                1 => 0x10000,
                2 => 0x30000,
                _ => 0x110000,
            };
            if let Some(c) = char::from_u32(rng.below(hi) as u32) {
                break c;
            }
        },
    }
}

fn gen_string(rng: &mut Rng) -> String {
    let n = match rng.below(10) {
        0 => 0,
        1..=3 => 1,
        4..=6 => 2 + rng.below(2),
        _ => 3 + rng.below(6),
    };
    let mut s = String::new();
    for _ in 0..n {
        if rng.chance(3, 4) {
            s.push_str(*rng.pick(FRAGMENTS));
        } else {
            s.push(gen_char(rng));
        }
    }
    s
}

fn gen_uint(bits: u32, rng: &mut Rng) -> u128 {
    let max: u128 = if bits == 128 { u128::MAX } else { (1u128 << bits) - 1 };
    let raw = ((rng.next() as u128) << 64) | rng.next() as u128;
    let x = match rng.below(10) {
        0 => 0,
        1 => max,
        2 => 1,
        3 => rng.below(100) as u128,
        4 => {
            let p = 10u128.pow(rng.below(39) as u32);
            match rng.below(3) {
                0 => p,
                1 => p.wrapping_sub(1),
                _ => p + 1,
            }
        }
        5 => max - rng.below(3) as u128,
        6 => raw >> (rng.below(128) as u32),
        _ => raw,
    };
    x & max
}

fn gen_sint(bits: u32, rng: &mut Rng) -> i128 {
    let min: i128 = if bits == 128 { i128::MIN } else { -(1i128 << (bits - 1)) };
    let max: i128 = if bits == 128 { i128::MAX } else { (1i128 << (bits - 1)) - 1 };
    match rng.below(10) {
        0 => 0,
        1 => min,
        2 => max,
        3 => -1,
        4 => min + 1,
        5 => rng.below(100) as i128 - 50,
        _ => {
            let raw = (((rng.next() as u128) << 64) | rng.next() as u128) as i128;
            let sh = rng.below(bits as u64) as u32;
            // arithmetic shift then truncate into range
            let x = raw >> (128 - bits + sh).min(127);
            x.clamp(min, max)
        }
    }
}

fn gen_f64(rng: &mut Rng) -> u64 {
    const SPECIAL: &[f64] = &[
        0.0, -0.0, 1.0, -1.0, 1.5, 0.1, 0.3, 1e16, 1e15, 1e-7, 1e-5, 123456789012345680.0, f64::INFINITY,
        f64::NEG_INFINITY, f64::MIN_POSITIVE, f64::MAX, f64::MIN, f64::EPSILON, 5e-324, 1e21, 1e300, 2.5e-10, 100.0,
        12.0, 3.0, 23.0, 1.23,
    ];
    let x = match rng.below(10) {
        0..=3 => *rng.pick(SPECIAL),
        4 => f64::NAN,
        5 => (rng.below(2000) as f64 - 1000.0) / 8.0,
        6 => rng.below(1_000_000) as f64,
        _ => f64::from_bits(rng.next()),
    };
    if x.is_nan() {
        f64::NAN.to_bits()
    } else {
        x.to_bits()
    }
}

fn gen_f32(rng: &mut Rng) -> u32 {
    const SPECIAL: &[f32] = &[
        0.0, -0.0, 1.0, -1.5, 0.1, 1e16, 1e-7, f32::INFINITY, f32::NEG_INFINITY, f32::MIN_POSITIVE, f32::MAX,
        f32::EPSILON, 1e-45, 16777216.0, 3.0,
    ];
    let x = match rng.below(10) {
        0..=3 => *rng.pick(SPECIAL),
        4 => f32::NAN,
        5 => (rng.below(2000) as f32 - 1000.0) / 8.0,
        _ => f32::from_bits(rng.next() as u32),
    };
    if x.is_nan() {
        f32::NAN.to_bits()
    } else {
        x.to_bits()
    }
}

fn gen_len(rng: &mut Rng, depth: u32) -> usize {
    if depth > 2 {
        return rng.below(2) as usize;
    }
    match rng.below(10) {
        0..=2 => 0,
        3..=5 => 1,
        6..=8 => 2,
        _ => 3 + rng.below(3) as usize,
    }
}

fn gen(t: &Ty, rng: &mut Rng, depth: u32) -> V {
    match t {
        Ty::U(b) => V::U(gen_uint(*b, rng)),
        Ty::I(b) => V::I(gen_sint(*b, rng)),
        Ty::Bool => V::Bool(rng.chance(1, 2)),
        Ty::Char => V::Char(gen_char(rng)),
        Ty::Str => V::Str(gen_string(rng)),
        Ty::F32 => V::F32(gen_f32(rng)),
        Ty::F64 => V::F64(gen_f64(rng)),
        Ty::Unit => V::Unit,
        Ty::Opt(t) => {
            if rng.chance(1, 3) {
                V::Opt(None)
            } else {
                V::Opt(Some(Box::new(gen(t, rng, depth + 1))))
            }
        }
        Ty::Vec(t) => {
            let n = gen_len(rng, depth);
            V::Vec((0..n).map(|_| gen(t, rng, depth + 1)).collect())
        }
        Ty::Tup(ts) => V::Tup(ts.iter().map(|t| gen(t, rng, depth + 1)).collect()),
        Ty::Adt(vars) => {
            let v = &vars[rng.below(vars.len() as u64) as usize];
            gen_variant(v, rng, depth)
        }
    }
}

fn gen_variant(v: &Var, rng: &mut Rng, depth: u32) -> V {
    match &v.kind {
        Kind::Unit => V::Adt(v.name, Payload::Unit),
        Kind::Tuple(ts) => V::Adt(v.name, Payload::Tuple(ts.iter().map(|t| gen(t, rng, depth + 1)).collect())),
        Kind::Named(fs) => {
            V::Adt(v.name, Payload::Named(fs.iter().map(|(f, t)| (*f, gen(t, rng, depth + 1))).collect()))
        }
    }
}

// ---------------------------------------------------------------------------------------------
// Pairs: a different tuple of the same signature, biased to boundary moves

/// paths to all leaves of kind string / int, in rendering order
fn leaf_paths(v: &V, path: &mut Vec<usize>, out: &mut Vec<(Vec<usize>, char)>) {
    match v {
        V::Str(_) => out.push((path.clone(), 's')),
        V::U(_) => out.push((path.clone(), 'u')),
        V::I(_) => out.push((path.clone(), 'i')),
        V::Opt(Some(x)) => {
            path.push(0);
            leaf_paths(x, path, out);
            path.pop();
        }
        V::Vec(xs) | V::Tup(xs) | V::Adt(_, Payload::Tuple(xs)) => {
            for (i, x) in xs.iter().enumerate() {
                path.push(i);
                leaf_paths(x, path, out);
                path.pop();
            }
        }
        V::Adt(_, Payload::Named(fs)) => {
            for (i, (_, x)) in fs.iter().enumerate() {
                path.push(i);
                leaf_paths(x, path, out);
                path.pop();
            }
        }
        _ => {}
    }
}

fn at_mut<'a>(v: &'a mut V, path: &[usize]) -> &'a mut V {
    if path.is_empty() {
        return v;
    }
    match v {
        V::Opt(Some(x)) => at_mut(x, &path[1..]),
        V::Vec(xs) | V::Tup(xs) | V::Adt(_, Payload::Tuple(xs)) => at_mut(&mut xs[path[0]], &path[1..]),
        V::Adt(_, Payload::Named(fs)) => at_mut(&mut fs[path[0]].1, &path[1..]),
        _ => panic!("bad path"),
    }
}

/// move material across the boundary between two adjacent leaves (strings: a character; integers:
/// a decimal digit), the boundary being an argument boundary or an element/field boundary
fn boundary_move(tys: &[Ty], vals: &[V], rng: &mut Rng) -> Option<Vec<V>> {
    let mut leaves = Vec::new();
    for (i, v) in vals.iter().enumerate() {
        let mut p = vec![i];
        leaf_paths(v, &mut p, &mut leaves);
    }
    let mut cands = Vec::new();
    for w in 0..leaves.len().saturating_sub(1) {
        let num = |c: char| c == 'u' || c == 'i';
        if leaves[w].1 == leaves[w + 1].1 || (num(leaves[w].1) && num(leaves[w + 1].1)) {
            cands.push(w);
        }
    }
    // prefer boundaries between top-level arguments
    let top: Vec<usize> = cands.iter().cloned().filter(|w| leaves[*w].0[0] != leaves[*w + 1].0[0]).collect();
    let pool = if !top.is_empty() && rng.chance(3, 4) { &top } else { &cands };
    if pool.is_empty() {
        return None;
    }
    let w = *rng.pick(pool);
    let (pa, kind) = leaves[w].clone();
    let pb = leaves[w + 1].0.clone();
    let mut out = vals.to_vec();
    let _ = tys;
    match kind {
        's' => {
            let a = match at_mut(&mut out[pa[0]], &pa[1..]) {
                V::Str(s) => s.clone(),
                _ => unreachable!(),
            };
            let b = match at_mut(&mut out[pb[0]], &pb[1..]) {
                V::Str(s) => s.clone(),
                _ => unreachable!(),
            };
            // a string that CONTAINS what the joined key puts between two string arguments (quote, separator, quote):
            // cut there — ("x\"|\"y", b) vs ("x", "y\"|\"b") collide as soon as quotes inside strings are not escaped
            const SEAM: &str = "\"|\"";
            let seam_a = a.find(SEAM);
            let seam_b = b.find(SEAM);
            let (na, nb) = match rng.below(6) {
                _ if seam_a.is_some() && rng.chance(2, 3) => {
                    let i = seam_a.unwrap();
                    (a[..i].to_string(), format!("{}{}{}", &a[i + SEAM.len()..], SEAM, b))
                }
                _ if seam_b.is_some() && rng.chance(2, 3) => {
                    let i = seam_b.unwrap();
                    (format!("{}{}{}", a, SEAM, &b[..i]), b[i + SEAM.len()..].to_string())
                }
                // move the last character of a to the front of b, or the first of b to the end of a
                0 | 1 if !a.is_empty() => {
                    let mut ca: Vec<char> = a.chars().collect();
                    let c = ca.pop().unwrap();
                    (ca.into_iter().collect::<String>(), format!("{}{}", c, b))
                }
                2 | 3 if !b.is_empty() => {
                    let mut cb: Vec<char> = b.chars().collect();
                    let c = cb.remove(0);
                    (format!("{}{}", a, c), cb.into_iter().collect::<String>())
                }
                // what a missing / naive separator would confuse: ("a|b","c") vs ("a","b|c")
                4 => (format!("{}|{}", a, b), String::new()),
                _ => (String::new(), format!("{}\"|\"{}", a, b)),
            };
            *at_mut(&mut out[pa[0]], &pa[1..]) = V::Str(na);
            *at_mut(&mut out[pb[0]], &pb[1..]) = V::Str(nb);
        }
        'u' | 'i' => {
            // (1, 23) -> (12, 3): concatenate the decimal digits and cut elsewhere; the first number
            // may be negative, the second must not be (its sign would sit in the middle)
            let get = |v: &V| -> Option<(bool, u128)> {
                match v {
                    V::U(x) => Some((false, *x)),
                    V::I(x) => Some((*x < 0, x.unsigned_abs())),
                    _ => None,
                }
            };
            let (na, a) = get(at_mut(&mut out[pa[0]], &pa[1..]))?;
            let (nb, b) = get(at_mut(&mut out[pb[0]], &pb[1..]))?;
            if nb {
                return None;
            }
            let digits = format!("{}{}", a, b);
            if digits.len() < 2 {
                return None;
            }
            let cut = 1 + rng.below(digits.len() as u64 - 1) as usize;
            let (x, y) = digits.split_at(cut);
            if (y.starts_with('0') && y.len() > 1) || (x.starts_with('0') && x.len() > 1) {
                return None;
            }
            let (x, y) = (x.parse::<u128>().ok()?, y.parse::<u128>().ok()?);
            if na && x == 0 {
                return None;
            }
            let leaf_ty = |p: &Vec<usize>| -> Option<Ty> {
                let mut t = &tys[p[0]];
                for i in &p[1..] {
                    t = match t {
                        Ty::Opt(t) | Ty::Vec(t) => t,
                        Ty::Tup(ts) => &ts[*i],
                        _ => return None, // user types: stay conservative
                    };
                }
                Some(t.clone())
            };
            let mk = |t: Ty, neg: bool, val: u128| -> Option<V> {
                match t {
                    Ty::U(bits) if !neg && (bits == 128 || val < (1u128 << bits)) => Some(V::U(val)),
                    Ty::I(bits) if val < (1u128 << (bits - 1)) => Some(V::I(if neg { -(val as i128) } else { val as i128 })),
                    _ => None,
                }
            };
            let va = mk(leaf_ty(&pa)?, na, x)?;
            let vb = mk(leaf_ty(&pb)?, false, y)?;
            *at_mut(&mut out[pa[0]], &pa[1..]) = va;
            *at_mut(&mut out[pb[0]], &pb[1..]) = vb;
        }
        _ => return None,
    }
    if out == vals {
        None
    } else {
        Some(out)
    }
}

/// change one leaf (or one container shape) slightly
fn tweak(t: &Ty, v: &V, rng: &mut Rng) -> V {
    match (t, v) {
        (Ty::U(b), V::U(x)) => {
            let max: u128 = if *b == 128 { u128::MAX } else { (1u128 << b) - 1 };
            // half of the time: differ ONLY above a narrower width (bit 8 / 16 / 32 / 64 flipped) — what a key path
            // that narrows the integer (`as u64`, `as u32`, a hash of the low half) would confuse
            let widths: Vec<u32> = [8u32, 16, 32, 64].iter().copied().filter(|w| w < b).collect();
            if !widths.is_empty() && rng.chance(1, 2) {
                let w = *rng.pick(&widths);
                return V::U(x ^ (1u128 << w));
            }
            V::U(if *x == max { x - 1 } else { x + 1 })
        }
        (Ty::I(b), V::I(x)) => {
            let max: i128 = if *b == 128 { i128::MAX } else { (1i128 << (b - 1)) - 1 };
            let widths: Vec<u32> = [8u32, 16, 32, 64].iter().copied().filter(|w| *w < *b - 1).collect();
            if !widths.is_empty() && rng.chance(1, 2) {
                let w = *rng.pick(&widths);
                return V::I(x ^ (1i128 << w));
            }
            V::I(if *x == max { x - 1 } else if rng.chance(1, 2) && *x != i128::MIN && -*x <= max && *x != 0 { -*x } else { x + 1 })
        }
        (Ty::Bool, V::Bool(b)) => V::Bool(!b),
        (Ty::Char, V::Char(c)) => loop {
            let d = gen_char(rng);
            if d != *c {
                break V::Char(d);
            }
        },
        (Ty::Str, V::Str(s)) => {
            let mut cs: Vec<char> = s.chars().collect();
            match rng.below(4) {
                0 if !cs.is_empty() => {
                    cs.pop();
                }
                1 if !cs.is_empty() => {
                    cs.remove(0);
                }
                2 => cs.insert(0, gen_char(rng)),
                _ => cs.push(gen_char(rng)),
            }
            V::Str(cs.into_iter().collect())
        }
        (Ty::F32, V::F32(b)) => {
            let n = f32::from_bits(*b);
            let m = if n == 0.0 { if *b == 0 { -0.0f32 } else { 0.0f32 } } else if n.is_nan() { 1.0 } else { -n };
            V::F32(m.to_bits())
        }
        (Ty::F64, V::F64(b)) => {
            let n = f64::from_bits(*b);
            let m = if n == 0.0 {
                if *b == 0 { -0.0f64 } else { 0.0f64 }
            } else if n.is_nan() {
                1.0
            } else if n.is_finite() && rng.chance(1, 2) {
                let c = f64::from_bits(b ^ 1);
                if c.is_nan() { -n } else { c }
            } else {
                -n
            };
            V::F64(m.to_bits())
        }
        (Ty::Opt(it), V::Opt(None)) => V::Opt(Some(Box::new(gen(it, rng, 2)))),
        (Ty::Opt(it), V::Opt(Some(x))) => {
            if rng.chance(1, 3) {
                V::Opt(None)
            } else {
                V::Opt(Some(Box::new(tweak(it, x, rng))))
            }
        }
        (Ty::Vec(it), V::Vec(xs)) => {
            let mut ys = xs.clone();
            match rng.below(4) {
                0 if !ys.is_empty() => {
                    ys.pop();
                }
                1 => ys.push(gen(it, rng, 2)),
                // split a string element at ", " into two elements (element-boundary move)
                2 if **it == Ty::Str && !ys.is_empty() => {
                    let i = rng.below(ys.len() as u64) as usize;
                    if let V::Str(s) = ys[i].clone() {
                        let cs: Vec<char> = s.chars().collect();
                        let cut = rng.below(cs.len() as u64 + 1) as usize;
                        ys[i] = V::Str(cs[..cut].iter().collect());
                        ys.insert(i + 1, V::Str(cs[cut..].iter().collect()));
                    }
                }
                _ if !ys.is_empty() => {
                    let i = rng.below(ys.len() as u64) as usize;
                    ys[i] = tweak(it, &ys[i], rng);
                }
                _ => ys.push(gen(it, rng, 2)),
            }
            V::Vec(ys)
        }
        (Ty::Tup(ts), V::Tup(xs)) => {
            let mut ys = xs.clone();
            let cands: Vec<usize> = (0..ts.len()).filter(|i| ts[*i] != Ty::Unit).collect();
            if let Some(&i) = cands.get(rng.below(cands.len().max(1) as u64) as usize) {
                ys[i] = tweak(&ts[i], &xs[i], rng);
            }
            V::Tup(ys)
        }
        (Ty::Adt(vars), V::Adt(name, payload)) => {
            let var = vars.iter().find(|v| v.name == *name).unwrap();
            let fieldless = match &var.kind {
                Kind::Unit => true,
                Kind::Tuple(ts) => ts.is_empty(),
                Kind::Named(fs) => fs.is_empty(),
            };
            if vars.len() > 1 && (fieldless || rng.chance(1, 3)) {
                loop {
                    let other = &vars[rng.below(vars.len() as u64) as usize];
                    if other.name != *name {
                        break gen_variant(other, rng, 2);
                    }
                }
            } else {
                match (&var.kind, payload) {
                    (Kind::Tuple(ts), Payload::Tuple(xs)) if !ts.is_empty() => {
                        let i = rng.below(ts.len() as u64) as usize;
                        let mut ys = xs.clone();
                        ys[i] = tweak(&ts[i], &xs[i], rng);
                        V::Adt(name, Payload::Tuple(ys))
                    }
                    (Kind::Named(fs), Payload::Named(xs)) if !fs.is_empty() => {
                        let cands: Vec<usize> = (0..fs.len())
                            .filter(|i| can_differ(&fs[*i].1))
                            .collect();
                        let i = *rng.pick(&cands);
                        let mut ys = xs.clone();
                        ys[i].1 = tweak(&fs[i].1, &xs[i].1, rng);
                        V::Adt(name, Payload::Named(ys))
                    }
                    _ => v.clone(),
                }
            }
        }
        _ => v.clone(),
    }
}

fn can_differ(t: &Ty) -> bool {
    match t {
        Ty::Unit => false,
        Ty::Tup(ts) => ts.iter().any(can_differ),
        Ty::Adt(vars) => {
            vars.len() > 1
                || vars.iter().any(|v| match &v.kind {
                    Kind::Unit => false,
                    Kind::Tuple(ts) => ts.iter().any(can_differ),
                    Kind::Named(fs) => fs.iter().any(|(_, t)| can_differ(t)),
                })
        }
        _ => true,
    }
}

/// two tuples that agree everywhere except in the middle of one LONG string leaf (same length, same first and last 100+
/// bytes).  Variants: one character differs; two adjacent characters differ so that the sum / the 31-polynomial / the xor of
/// the bytes is unchanged ("Aa" vs "BB" is the classic `h = 31*h + c` collision); two characters swapped.
fn long_twins(a: &[V], rng: &mut Rng) -> Option<(Vec<V>, Vec<V>, &'static str)> {
    let mut leaves = Vec::new();
    for (i, v) in a.iter().enumerate() {
        let mut p = vec![i];
        leaf_paths(v, &mut p, &mut leaves);
    }
    let strs: Vec<&(Vec<usize>, char)> = leaves.iter().filter(|l| l.1 == 's').collect();
    if strs.is_empty() {
        return None;
    }
    let path = rng.pick(&strs).0.clone();
    let n = 300 + rng.below(400) as usize;
    let filler: Vec<char> = "abcdefghijklmnopqrstuvwxyzABCDEFGHIJKLMNOPQRSTUVWXYZ0123456789 _-".chars().collect();
    let mut base: Vec<char> = (0..n).map(|_| *rng.pick(&filler)).collect();
    let mid = 120 + rng.below((n - 240) as u64) as usize;
    let (kind, x, y): (&'static str, [char; 2], [char; 2]) = match rng.below(5) {
        0 => ("long-one-char", ['m', 'q'], ['n', 'q']),
        1 => ("long-poly31", ['A', 'a'], ['B', 'B']),      // 31*65+97 = 31*66+66
        2 => ("long-sum", ['b', 'c'], ['c', 'b']),         // transposition: same multiset, same sum / xor
        3 => ("long-poly33", ['A', 'b'], ['B', 'A']),      // 33*65+98 = 33*66+65 (djb2)
        _ => ("long-xor", ['a', 'b'], ['c', '`']),          // 0x61^0x62 = 0x63^0x60
    };
    base[mid] = x[0];
    base[mid + 1] = x[1];
    let sa: String = base.iter().collect();
    base[mid] = y[0];
    base[mid + 1] = y[1];
    let sb: String = base.iter().collect();
    let mut va = a.to_vec();
    let mut vb = a.to_vec();
    *at_mut(&mut va[path[0]], &path[1..]) = V::Str(sa);
    *at_mut(&mut vb[path[0]], &path[1..]) = V::Str(sb);
    Some((va, vb, kind))
}

fn make_pair(tys: &[Ty], a: &[V], rng: &mut Rng) -> Option<(Vec<V>, &'static str)> {
    let cands: Vec<usize> = (0..tys.len()).filter(|i| can_differ(&tys[*i])).collect();
    if cands.is_empty() {
        return None;
    }
    for _ in 0..20 {
        match rng.below(10) {
            0..=4 => {
                if let Some(b) = boundary_move(tys, a, rng) {
                    return Some((b, "boundary"));
                }
            }
            5 => {
                // swap two arguments of the same type
                let sw: Vec<(usize, usize)> = (0..tys.len())
                    .flat_map(|i| (i + 1..tys.len()).map(move |j| (i, j)))
                    .filter(|(i, j)| tys[*i] == tys[*j] && a[*i] != a[*j])
                    .collect();
                if !sw.is_empty() {
                    let (i, j) = *rng.pick(&sw);
                    let mut b = a.to_vec();
                    b.swap(i, j);
                    return Some((b, "swap"));
                }
            }
            6 => {
                // an independent fresh tuple
                let b: Vec<V> = tys.iter().map(|t| gen(t, rng, 0)).collect();
                if b != a {
                    return Some((b, "fresh"));
                }
            }
            _ => {
                let i = *rng.pick(&cands);
                let mut b = a.to_vec();
                b[i] = tweak(&tys[i], &a[i], rng);
                if b != a {
                    return Some((b, "tweak"));
                }
            }
        }
    }
    None
}

// ---------------------------------------------------------------------------------------------

#[derive(Default)]
struct Stats {
    strings: u64,
    classes: BTreeMap<&'static str, u64>,
}

impl Stats {
    fn note(&mut self, s: &str) {
        self.strings += 1;
        let mut hit = |k: &'static str, b: bool| {
            if b {
                *self.classes.entry(k).or_insert(0) += 1
            }
        };
        hit("empty", s.is_empty());
        hit("pipe", s.contains('|'));
        hit("dquote", s.contains('"'));
        hit("squote", s.contains('\''));
        hit("backslash", s.contains('\\'));
        hit("nl_cr_tab_nul", s.contains(['\n', '\r', '\t', '\0']));
        hit("other_control", s.chars().any(|c| (c.is_control()) && !['\n', '\r', '\t', '\0'].contains(&c)));
        hit("comma_or_space", s.contains([',', ' ']));
        hit("brackets_colon", s.contains(['(', ')', '[', ']', '{', '}', ':']));
        hit("keyword_like", s.contains("None") || s.contains("Some(") || s.contains("true"));
        hit("combining_or_zero_width", s.chars().any(|c| {
            matches!(c as u32, 0x300..=0x36f | 0x200b..=0x200d | 0xfeff | 0x20d0..=0x20ff | 0xfe00..=0xfe0f | 0x1d165..=0x1d169 | 0xe0100..=0xe01ef | 0x1f3fb..=0x1f3ff)
        }));
        hit("astral", s.chars().any(|c| c as u32 > 0xffff));
        hit("non_ascii", s.chars().any(|c| c as u32 > 0x7f));
        hit("unicode_escaped_by_rust", s.chars().any(|c| format!("{:?}", c).starts_with("'\\u{")));
        hit("quote_pipe_quote", s.contains("\"|\""));
    }
}

fn emit_floats(out: &mut impl Write, vals: &[V], seen: &mut BTreeMap<(u8, u64), ()>) {
    let mut fs = Vec::new();
    for v in vals {
        floats_of(v, &mut fs)
    }
    for f in fs {
        match f {
            V::F64(b) => {
                if seen.insert((64, b), ()).is_none() {
                    let r = format!("{:?}", f64::from_bits(b));
                    let back = r.parse::<f64>().map(|x| x.to_bits()).unwrap_or(0xdead);
                    let back = if f64::from_bits(back).is_nan() { f64::NAN.to_bits() } else { back };
                    writeln!(out, "FL|64|{:x}|{}|{:x}", b, hex(&r), back).unwrap();
                }
            }
            V::F32(b) => {
                if seen.insert((32, b as u64), ()).is_none() {
                    let r = format!("{:?}", f32::from_bits(b));
                    let back = r.parse::<f32>().map(|x| x.to_bits()).unwrap_or(0xdead);
                    let back = if f32::from_bits(back).is_nan() { f32::NAN.to_bits() } else { back };
                    writeln!(out, "FL|32|{:x}|{}|{:x}", b, hex(&r), back).unwrap();
                }
            }
            _ => {}
        }
    }
}

fn main() {
    let args: Vec<String> = std::env::args().collect();
    if args.len() < 3 {
        eprintln!("usage: keys_diff <seed> <cases_per_shape> [pairs_per_shape]");
        std::process::exit(2);
    }
    let seed: u64 = args[1].parse().expect("seed");
    let cases: u64 = args[2].parse().expect("cases");
    let pairs: u64 = args.get(3).map(|s| s.parse().expect("pairs")).unwrap_or(cases);
    let stdout = std::io::stdout();
    let mut out = std::io::BufWriter::new(stdout.lock());
    let mut rng = Rng::new(seed);
    let mut stats = Stats::default();
    let mut seen_floats = BTreeMap::new();
    let mut pair_kinds: BTreeMap<&'static str, u64> = BTreeMap::new();
    writeln!(out, "#STAT seed={} cases_per_shape={} pairs_per_shape={}", seed, cases, pairs).unwrap();

    for sh in shapes() {
        let mut tys: Vec<Ty> = Vec::new();
        if let Some(r) = &sh.recv {
            tys.push(r.clone())
        }
        tys.extend(sh.args.iter().cloned());
        let sig = enc_sig(&sh.recv, &sh.args);
        let mut r = rng.fork();
        let mut n_k = 0u64;
        let mut n_p = 0u64;
        // a signature without parts has exactly one tuple
        let n_cases = if tys.is_empty() { 1 } else { cases };
        for _ in 0..n_cases {
            let vals: Vec<V> = tys.iter().map(|t| gen(t, &mut r, 0)).collect();
            let mut ss = Vec::new();
            vals.iter().for_each(|v| strings_of(v, &mut ss));
            ss.iter().for_each(|s| stats.note(s));
            emit_floats(&mut out, &vals, &mut seen_floats);
            let real = (sh.run)(&vals);
            let enc = enc_vals(&vals);
            let esc = esc_table(&[&vals]);
            for (path, key) in [("trait", &real.tr), ("fmt", &real.fm), ("sync", &real.sync), ("async", &real.asy)] {
                writeln!(out, "K|{}:{}|{}|{}|{}|{}", path, sh.name, sig, enc, esc, hex(key)).unwrap();
                n_k += 1;
            }
        }
        if !tys.is_empty() {
            for pi in 0..pairs {
                let mut a: Vec<V> = tys.iter().map(|t| gen(t, &mut r, 0)).collect();
                // every sixth pair: LONG TWINS — both tuples carry a long string (300..700 bytes) in the same leaf, equal in
                // length, prefix and suffix, differing in one or two adjacent characters in the middle; what a key path that
                // abbreviates over-long renderings (prefix + length + weak digest) would confuse
                let twins = if pi % 6 == 5 { long_twins(&a, &mut r) } else { None };
                let made = match twins {
                    Some((a2, b2, kind)) => {
                        a = a2;
                        Some((b2, kind))
                    }
                    None => make_pair(&tys, &a, &mut r),
                };
                let Some((b, kind)) = made else { continue };
                assert!(a != b);
                *pair_kinds.entry(kind).or_insert(0) += 1;
                for vals in [&a, &b] {
                    let mut ss = Vec::new();
                    vals.iter().for_each(|v| strings_of(v, &mut ss));
                    ss.iter().for_each(|s| stats.note(s));
                    emit_floats(&mut out, vals, &mut seen_floats);
                }
                let ra = (sh.run)(&a);
                let rb = (sh.run)(&b);
                let shd = (sh.probe)(&a, &b);
                let (ea, eb) = (enc_vals(&a), enc_vals(&b));
                let esc = esc_table(&[&a, &b]);
                for (path, ka, kb, s) in [
                    ("trait", &ra.tr, &rb.tr, "-".to_string()),
                    ("fmt", &ra.fm, &rb.fm, "-".to_string()),
                    ("sync", &ra.sync, &rb.sync, shd.sync.to_string()),
                    // thread-local scope: same key expression, keys not observable from outside; the
                    // behavioural observation is attached to the trait-path keys
                    ("thread", &ra.tr, &rb.tr, shd.thread.to_string()),
                    ("async", &ra.asy, &rb.asy, shd.asy.to_string()),
                ] {
                    writeln!(out, "P|{}:{}|{}|{}|{}|{}|{}|{}|{}", path, sh.name, sig, ea, eb, esc, hex(ka), hex(kb), s)
                        .unwrap();
                    n_p += 1;
                }
            }
        }
        writeln!(out, "#STAT shape={} sig=[{}] K_lines={} P_lines={}", sh.name, sig, n_k, n_p).unwrap();
    }
    writeln!(out, "#STAT strings_total={}", stats.strings).unwrap();
    for (k, n) in &stats.classes {
        writeln!(out, "#STAT strings_with_{}={}", k, n).unwrap();
    }
    for (k, n) in &pair_kinds {
        writeln!(out, "#STAT pairs_{}={}", k, n).unwrap();
    }
    writeln!(out, "#STAT distinct_floats={}", seen_floats.len()).unwrap();
    out.flush().unwrap();
}
