/-
  Lemmas about the generated wrapper (`callFn`) and the system of caches (`sysStep`, `sysRun`) used by
  the sequential parts of C03, C14, C01(b) and C15 (core Lean only).

  Everything lives in `namespace Cachelito.Calls` so that it can be imported next to
  `Cachelito/Lemmas/System.lean` without name clashes.

  Contents
    1. entry predicates `AllP` preserved by every engine operation (no invariant needed)
    2. statistics counters: what `get` / `insert*` do to them
    3. the wrapper `callFn`: invariant, provenance of values, plain-configuration behaviour
    4. cache instances of a `Sys`: `getCache` after every `sysStep`
    5. histories: `sysRun` over append / at an index, per-instance call lists, counters
-/
import Cachelito.System
import Cachelito.Lemmas.Inv

set_option linter.unusedSectionVars false
set_option linter.unusedSimpArgs false
set_option linter.unusedVariables false

namespace Cachelito.Calls
open Cachelito
variable {K V S : Type} [DecidableEq K]

/-! ## 1. Predicates on the entries of a store -/

/-- every stored entry `(k, e)` satisfies `P k e.val` -/
def AllP (P : K → V → Prop) (m : Store K V) : Prop := ∀ p ∈ m, P p.1 p.2.val

/-- the empty store satisfies every entry predicate -/
theorem AllP.nil (P : K → V → Prop) : AllP P ([] : Store K V) := by
  intro p hp; cases hp

/-- a weaker predicate holds of the same store -/
theorem AllP.mono {P Q : K → V → Prop} (h : ∀ k v, P k v → Q k v) {m : Store K V} (hm : AllP P m) :
    AllP Q m := fun p hp => h _ _ (hm p hp)

/-- a store whose entries all occur in `m` inherits the predicate of `m` -/
theorem AllP.sub {P : K → V → Prop} {m m' : Store K V} (hs : ∀ p, p ∈ m' → p ∈ m) (hm : AllP P m) :
    AllP P m' := fun p hp => hm p (hs p hp)

/-- removing a key only deletes entries -/
theorem eraseKey_sub (k : K) (m : Store K V) : ∀ p, p ∈ eraseKey k m → p ∈ m :=
  fun p hp => (List.mem_filter.mp hp).1

/-- updating an entry without touching its value keeps the predicate -/
theorem AllP.modify {P : K → V → Prop} {m : Store K V} (k : K) (f : Entry V → Entry V)
    (hf : ∀ e, (f e).val = e.val) (hm : AllP P m) : AllP P (modify k f m) := by
  induction m with
  | nil => exact hm
  | cons a m ih =>
    obtain ⟨x, e⟩ := a
    have hm' : AllP P m := fun p hp => hm p (List.mem_cons_of_mem _ hp)
    have ha := hm (x, e) List.mem_cons_self
    rw [modify_cons]
    split
    · intro p hp
      rcases List.mem_cons.mp hp with hp | hp
      · subst hp; simp only [hf]; exact ha
      · exact hm' p hp
    · intro p hp
      rcases List.mem_cons.mp hp with hp | hp
      · subst hp; exact ha
      · exact ih hm' p hp

/-- bumping a hit counter keeps the predicate -/
theorem AllP.bumpHits {P : K → V → Prop} {m : Store K V} (k : K) (hm : AllP P m) : AllP P (bumpHits k m) :=
  AllP.modify k _ (fun _ => rfl) hm

/-- storing a pair that satisfies the predicate keeps it -/
theorem AllP.put {P : K → V → Prop} {m : Store K V} (hm : AllP P m) {k : K} {e : Entry V} (hk : P k e.val) :
    AllP P (put k e m) := by
  intro p hp
  unfold Cachelito.put at hp
  rcases List.mem_append.mp hp with hp | hp
  · exact hm p (eraseKey_sub k m p hp)
  · simp only [List.mem_singleton] at hp; subst hp; exact hk

/-- FIFO/LRU pop-until-stored only deletes entries -/
theorem popStored_sub (m : Store K V) (q : List K) : ∀ p, p ∈ (popStored m q).1 → p ∈ m := by
  induction q with
  | nil => intro p hp; exact hp
  | cons k q ih =>
    simp only [popStored]
    split
    · exact eraseKey_sub k m
    · exact ih

/-- popping one front key only deletes entries -/
theorem popOne_sub (m : Store K V) (q : List K) : ∀ p, p ∈ (popOne m q).1 → p ∈ m := by
  cases q with
  | nil => intro p hp; exact hp
  | cons k q => exact eraseKey_sub k m

/-- a random eviction only deletes entries -/
theorem evictRandom_sub (r : Nat) (m : Store K V) (q : List K) : ∀ p, p ∈ (evictRandom r m q).1 → p ∈ m := by
  unfold evictRandom
  cases q[r % q.length]? with
  | none => intro p hp; exact hp
  | some k => exact eraseKey_sub k m

/-- removing a victim from both structures only deletes entries -/
theorem removeBoth_sub (cfg : Cfg) (k : K) (m : Store K V) (q : List K) :
    ∀ p, p ∈ (removeBoth cfg k m q).1 → p ∈ m := by
  unfold removeBoth
  cases cfg.flavour <;> exact eraseKey_sub k m

/-- an LFU/ARC/TLRU eviction only deletes entries -/
theorem evictScored_sub (cfg : Cfg) (tl : Tlru S) (now : Nat) (m : Store K V) (q : List K) :
    ∀ p, p ∈ (evictScored cfg tl now m q).1 → p ∈ m := by
  unfold evictScored
  cases victim cfg tl now m q with
  | none => intro p hp; exact hp
  | some k => exact removeBoth_sub cfg k m q

/-- one entry-limit eviction only deletes entries (every policy) -/
theorem evictLimit_sub (cfg : Cfg) (tl : Tlru S) (now r : Nat) (m : Store K V) (q : List K) :
    ∀ p, p ∈ (evictLimit cfg tl now r m q).1 → p ∈ m := by
  unfold evictLimit
  cases cfg.policy <;> simp only
  · exact popStored_sub m q
  · exact popStored_sub m q
  · exact evictScored_sub cfg tl now m q
  · exact evictScored_sub cfg tl now m q
  · exact evictRandom_sub r m q
  · exact evictScored_sub cfg tl now m q

/-- one memory-loop eviction only deletes entries (every policy and flavour) -/
theorem evictMem_sub (cfg : Cfg) (tl : Tlru S) (now r : Nat) (m : Store K V) (q : List K) :
    ∀ p, p ∈ (evictMem cfg tl now r m q).1 → p ∈ m := by
  unfold evictMem
  cases cfg.policy <;> simp only
  · cases cfg.flavour <;> simp only
    · exact popStored_sub m q
    · exact popOne_sub m q
    · exact popOne_sub m q
  · cases cfg.flavour <;> simp only
    · exact popStored_sub m q
    · exact popOne_sub m q
    · exact popOne_sub m q
  · exact evictScored_sub cfg tl now m q
  · exact evictScored_sub cfg tl now m q
  · exact evictRandom_sub r m q
  · exact evictScored_sub cfg tl now m q

/-- the entry-limit step only deletes entries -/
theorem limitStep_sub (cfg : Cfg) (tl : Tlru S) (now r : Nat) (m : Store K V) (q : List K) :
    ∀ p, p ∈ (limitStep cfg tl now r m q).1 → p ∈ m := by
  unfold limitStep
  cases cfg.limit with
  | none => intro p hp; exact hp
  | some n =>
    simp only
    split
    · exact evictLimit_sub cfg tl now r m q
    · intro p hp; exact hp

/-- the memory loop only deletes entries -/
theorem memLoop_sub (cfg : Cfg) (tl : Tlru S) (size : V → Nat) (now maxM extra : Nat) (fuel : Nat)
    (rs : List Nat) (m : Store K V) (q : List K) :
    ∀ p, p ∈ (memLoop cfg tl size now maxM extra fuel rs m q).1 → p ∈ m := by
  induction fuel generalizing rs m q with
  | zero => intro p hp; exact hp
  | succ fuel ih =>
    simp only [memLoop]
    split
    · intro p hp; exact hp
    · have hs := evictMem_sub cfg tl now (rs.headD 0) m q
      generalize evictMem cfg tl now (rs.headD 0) m q = r at hs
      obtain ⟨m', q', ev⟩ := r
      simp only
      cases ev
      · exact hs
      · intro p hp; exact hs p (ih rs.tail m' q' p hp)

/-- the store after a hit: the same entries, with the hit counter of the key bumped for LFU/ARC/TLRU -/
theorem hitUpdate_fst (cfg : Cfg) (k : K) (m : Store K V) (q : List K) :
    (hitUpdate cfg k m q).1 = if cfg.policy.bumps then bumpHits k m else m := by
  unfold hitUpdate
  cases cfg.flavour <;> rfl

/-- a lookup keeps the entry predicate, and a value it returns satisfies it for the requested key -/
theorem get_allP {P : K → V → Prop} (cfg : Cfg) (s : State K V) (k : K) (h : AllP P s.store) :
    AllP P (get cfg s k).1.store ∧ ∀ v, (get cfg s k).2 = some v → P k v := by
  unfold get
  cases hl : lookup k s.store with
  | none => exact ⟨h, fun v hv => by cases hv⟩
  | some e =>
    simp only
    split
    · exact ⟨AllP.sub (removeBoth_sub cfg k _ _) h, fun v hv => by cases hv⟩
    · refine ⟨?_, ?_⟩
      · simp only [hitUpdate_fst]
        split
        · exact AllP.bumpHits k h
        · exact h
      · intro v hv
        simp only [Option.some.injEq] at hv
        subst hv
        exact h (k, e) (lookup_mem hl)

/-- the async prologue (drop an existing entry of the key) only deletes entries -/
theorem asyncDrop_sub (k : K) (m : Store K V) (q : List K) :
    ∀ p, p ∈ (if hasKey k m then (eraseKey k m, q.filter (fun x => x ≠ k)) else (m, q)).1 → p ∈ m := by
  split
  · exact eraseKey_sub k m
  · intro p hp; exact hp

/-- a plain store keeps the entry predicate if the stored pair satisfies it -/
theorem insert_allP {P : K → V → Prop} (cfg : Cfg) (tl : Tlru S) (r : Nat) (s : State K V) (k : K) (v : V)
    (h : AllP P s.store) (hk : P k v) : AllP P (insert cfg tl r s k v).store := by
  unfold insert
  cases hf : cfg.flavour <;> simp only
  case async =>
    have h0 := asyncDrop_sub k s.store s.queue
    generalize (if hasKey k s.store then (eraseKey k s.store, s.queue.filter (fun x => x ≠ k))
      else (s.store, s.queue)) = p at h0
    obtain ⟨m0, q0⟩ := p
    simp only at h0 ⊢
    exact AllP.put (AllP.sub (limitStep_sub cfg tl s.now r m0 q0) (AllP.sub h0 h)) hk
  all_goals
    exact AllP.sub (limitStep_sub cfg tl s.now r _ _) (AllP.put h hk)

/-- a memory-aware store keeps the entry predicate if the stored pair satisfies it -/
theorem insertMem_allP {P : K → V → Prop} (cfg : Cfg) (tl : Tlru S) (size : V → Nat) (rs : List Nat)
    (s : State K V) (k : K) (v : V) (h : AllP P s.store) (hk : P k v) :
    AllP P (insertMem cfg tl size rs s k v).store := by
  unfold insertMem
  cases hf : cfg.flavour <;> simp only
  case async =>
    have h0 := asyncDrop_sub k s.store s.queue
    generalize (if hasKey k s.store then (eraseKey k s.store, s.queue.filter (fun x => x ≠ k))
      else (s.store, s.queue)) = p at h0
    obtain ⟨m0, q0⟩ := p
    simp only at h0 ⊢
    have hm0 : AllP P m0 := AllP.sub h0 h
    cases cfg.maxMem with
    | none => exact AllP.put (AllP.sub (limitStep_sub cfg tl s.now _ m0 q0) hm0) hk
    | some maxM =>
      simp only
      split
      · exact hm0
      · have h1 := memLoop_sub cfg tl size s.now maxM (size v) (q0.length + 1) rs m0 q0
        generalize memLoop cfg tl size s.now maxM (size v) (q0.length + 1) rs m0 q0 = r1 at h1
        obtain ⟨m1, q1, rs1⟩ := r1
        simp only at h1 ⊢
        exact AllP.put (AllP.sub (limitStep_sub cfg tl s.now _ m1 q1) (AllP.sub h1 hm0)) hk
  all_goals
    have hm0 : AllP P (put k (⟨v, stamp cfg s.now, 0⟩ : Entry V) s.store) := AllP.put h hk
    cases cfg.maxMem with
    | none => exact AllP.sub (limitStep_sub cfg tl s.now _ _ _) hm0
    | some maxM =>
      simp only
      split
      · exact AllP.sub (eraseKey_sub k _) hm0
      · have h1 := memLoop_sub cfg tl size s.now maxM 0 ((erasePush k s.queue).length + 1) rs
          (put k ⟨v, stamp cfg s.now, 0⟩ s.store) (erasePush k s.queue)
        generalize memLoop cfg tl size s.now maxM 0 ((erasePush k s.queue).length + 1) rs
          (put k ⟨v, stamp cfg s.now, 0⟩ s.store) (erasePush k s.queue) = r1 at h1
        obtain ⟨m1, q1, rs1⟩ := r1
        simp only at h1 ⊢
        exact AllP.sub (limitStep_sub cfg tl s.now _ m1 q1) (AllP.sub h1 hm0)

/-- `clear` leaves nothing behind -/
theorem clear_allP {P : K → V → Prop} (s : State K V) : AllP P (clear s).store := AllP.nil P

/-- conditional invalidation only deletes entries -/
theorem invalidateWith_allP {P : K → V → Prop} (p : K → Bool) (s : State K V) (h : AllP P s.store) :
    AllP P (invalidateWith p s).store :=
  AllP.sub (fun x hx => (List.mem_filter.mp hx).1) h

/-! ## 2. Statistics counters and the outcome of a lookup -/

/-- did the lookup find an unexpired entry? -/
def found (cfg : Cfg) (s : State K V) (k : K) : Bool :=
  match lookup k s.store with
  | some e => !expired cfg s.now e
  | none => false

/-- `found` spelled out: an entry for the key exists and is not expired -/
theorem found_iff (cfg : Cfg) (s : State K V) (k : K) :
    found cfg s k = true ↔ ∃ e, lookup k s.store = some e ∧ expired cfg s.now e = false := by
  unfold found
  cases lookup k s.store with
  | none => simp
  | some e => simp

/-- `get` returns a value exactly when an unexpired entry was found -/
theorem get_isSome (cfg : Cfg) (s : State K V) (k : K) : (get cfg s k).2.isSome = found cfg s k := by
  unfold get found
  cases lookup k s.store with
  | none => rfl
  | some e =>
    simp only
    by_cases hx : expired cfg s.now e = true <;> simp [hx]

/-- a lookup that finds an unexpired entry returns its value -/
theorem get_of_found {cfg : Cfg} {s : State K V} {k : K} {e : Entry V} (hl : lookup k s.store = some e)
    (hx : expired cfg s.now e = false) : (get cfg s k).2 = some e.val := by
  unfold get
  rw [hl]
  simp only [hx, Bool.false_eq_true, if_false]

/-- a lookup that finds nothing unexpired returns `none` -/
theorem get_of_not_found {cfg : Cfg} {s : State K V} {k : K} (h : found cfg s k = false) :
    (get cfg s k).2 = none := by
  have := get_isSome cfg s k
  rw [h] at this
  cases hg : (get cfg s k).2 with
  | none => rfl
  | some v => rw [hg] at this; cases this

/-- one lookup bumps exactly one counter: `hits` if an unexpired entry was found, else `misses` -/
theorem get_stats (cfg : Cfg) (s : State K V) (k : K) :
    (get cfg s k).1.hitStat = s.hitStat + (if found cfg s k then 1 else 0) ∧
    (get cfg s k).1.missStat = s.missStat + (if found cfg s k then 0 else 1) ∧
    (get cfg s k).1.now = s.now := by
  unfold get found
  cases lookup k s.store with
  | none => simp
  | some e =>
    simp only
    by_cases hx : expired cfg s.now e = true <;> simp [hx]

/-- a plain store changes neither the counters nor the clock -/
theorem insert_stats (cfg : Cfg) (tl : Tlru S) (r : Nat) (s : State K V) (k : K) (v : V) :
    (insert cfg tl r s k v).hitStat = s.hitStat ∧ (insert cfg tl r s k v).missStat = s.missStat ∧
    (insert cfg tl r s k v).now = s.now := by
  unfold insert
  cases cfg.flavour <;> simp only
  case async =>
    generalize (if hasKey k s.store then (eraseKey k s.store, s.queue.filter (fun x => x ≠ k))
      else (s.store, s.queue)) = p
    obtain ⟨m0, q0⟩ := p
    first | exact ⟨rfl, rfl, rfl⟩ | simp
  all_goals first | exact ⟨rfl, rfl, rfl⟩ | simp

/-- a memory-aware store changes neither the counters nor the clock -/
theorem insertMem_stats (cfg : Cfg) (tl : Tlru S) (size : V → Nat) (rs : List Nat) (s : State K V) (k : K) (v : V) :
    (insertMem cfg tl size rs s k v).hitStat = s.hitStat ∧ (insertMem cfg tl size rs s k v).missStat = s.missStat ∧
    (insertMem cfg tl size rs s k v).now = s.now := by
  unfold insertMem
  cases cfg.flavour <;> simp only
  case async =>
    generalize (if hasKey k s.store then (eraseKey k s.store, s.queue.filter (fun x => x ≠ k))
      else (s.store, s.queue)) = p
    obtain ⟨m0, q0⟩ := p
    simp only
    cases cfg.maxMem with
    | none => first | exact ⟨rfl, rfl, rfl⟩ | simp
    | some maxM =>
      simp only
      split
      · first | exact ⟨rfl, rfl, rfl⟩ | simp
      · generalize memLoop cfg tl size s.now maxM (size v) (q0.length + 1) rs m0 q0 = r1
        obtain ⟨m1, q1, rs1⟩ := r1
        first | exact ⟨rfl, rfl, rfl⟩ | simp
  all_goals
    cases cfg.maxMem with
    | none => first | exact ⟨rfl, rfl, rfl⟩ | simp
    | some maxM =>
      simp only
      split
      · first | exact ⟨rfl, rfl, rfl⟩ | simp
      · generalize memLoop cfg tl size s.now maxM 0 ((erasePush k s.queue).length + 1) rs
          (put k ⟨v, stamp cfg s.now, 0⟩ s.store) (erasePush k s.queue) = r1
        obtain ⟨m1, q1, rs1⟩ := r1
        first | exact ⟨rfl, rfl, rfl⟩ | simp

/-! ## 3. The generated wrapper -/

/-- the miss path of `callFn`: run the body, consult `cache_if`, maybe store, return the fresh value -/
def missOut (spec : FnSpec) (tl : Tlru S) (size : V → Nat) (isOk : V → Bool) (rs : List Nat)
    (s1 : State K V) (c : CallIn K V) (pre : List (TraceEv K V)) : State K V × V × List (TraceEv K V) :=
  let r := c.bodyVal
  let accept := c.cacheIf c.key r
  let t1 := pre ++ [TraceEv.bodyRun] ++ (if spec.hasCacheIf then [TraceEv.predCalled c.key r accept] else [])
  if shouldStore spec isOk accept r then
    ((if spec.useMem then insertMem spec.cfg tl size rs s1 c.key r
      else insert spec.cfg tl (rs.headD 0) s1 c.key r), r, t1 ++ [TraceEv.stored c.key r, TraceEv.returned r false])
  else (s1, r, t1 ++ [TraceEv.returned r false])

/-- `callFn` written with projections of the lookup result -/
theorem callFn_eq (spec : FnSpec) (tl : Tlru S) (size : V → Nat) (isOk : V → Bool) (rs : List Nat)
    (s : State K V) (c : CallIn K V) :
    callFn spec tl size isOk rs s c =
      match (get spec.cfg s c.key).2 with
      | some cached =>
        if spec.hasInvalidateOn then
          if c.invalidateOn c.key cached then
            missOut spec tl size isOk rs (get spec.cfg s c.key).1 c [TraceEv.checkCalled c.key cached true]
          else ((get spec.cfg s c.key).1, cached,
                [TraceEv.checkCalled c.key cached false, TraceEv.returned cached true])
        else ((get spec.cfg s c.key).1, cached, [TraceEv.returned cached true])
      | none => missOut spec tl size isOk rs (get spec.cfg s c.key).1 c [] := by
  unfold callFn missOut
  generalize get spec.cfg s c.key = g
  obtain ⟨s1, o⟩ := g
  cases o <;> rfl

/-- the miss path returns the body value -/
theorem missOut_val (spec : FnSpec) (tl : Tlru S) (size : V → Nat) (isOk : V → Bool) (rs : List Nat)
    (s1 : State K V) (c : CallIn K V) (pre : List (TraceEv K V)) :
    (missOut spec tl size isOk rs s1 c pre).2.1 = c.bodyVal := by
  unfold missOut
  simp only
  split <;> rfl

/-- the state after the miss path: either untouched or the result of one store of `(key, bodyVal)` -/
theorem missOut_state (spec : FnSpec) (tl : Tlru S) (size : V → Nat) (isOk : V → Bool) (rs : List Nat)
    (s1 : State K V) (c : CallIn K V) (pre : List (TraceEv K V)) :
    ((missOut spec tl size isOk rs s1 c pre).1 = s1 ∧
      ∀ k v, TraceEv.stored k v ∉ (missOut spec tl size isOk rs s1 c pre).2.2) ∨
    ((missOut spec tl size isOk rs s1 c pre).1 =
        (if spec.useMem then insertMem spec.cfg tl size rs s1 c.key c.bodyVal
         else insert spec.cfg tl (rs.headD 0) s1 c.key c.bodyVal) ∧
      TraceEv.stored c.key c.bodyVal ∈ (missOut spec tl size isOk rs s1 c pre).2.2) ∨
    (∃ k v, TraceEv.stored k v ∈ pre) := by
  unfold missOut
  simp only
  by_cases hpre : ∃ k v, TraceEv.stored k v ∈ pre
  · exact Or.inr (Or.inr hpre)
  · split
    · right; left
      exact ⟨rfl, by simp⟩
    · left
      refine ⟨rfl, ?_⟩
      intro k v hm
      by_cases hc : spec.hasCacheIf = true <;> simp [hc] at hm <;> exact hpre ⟨k, v, hm⟩

/-- the state after the miss path: untouched, or one memory-aware / plain store of `(key, bodyVal)` -/
theorem missOut_fst (spec : FnSpec) (tl : Tlru S) (size : V → Nat) (isOk : V → Bool) (rs : List Nat)
    (s1 : State K V) (c : CallIn K V) (pre : List (TraceEv K V)) :
    (missOut spec tl size isOk rs s1 c pre).1 = s1 ∨
    (missOut spec tl size isOk rs s1 c pre).1 = insertMem spec.cfg tl size rs s1 c.key c.bodyVal ∨
    (missOut spec tl size isOk rs s1 c pre).1 = insert spec.cfg tl (rs.headD 0) s1 c.key c.bodyVal := by
  unfold missOut
  simp only
  split
  · split
    · right; left; rfl
    · right; right; rfl
  · left; rfl

/-- the events of the miss path -/
theorem mem_missOut_trace (spec : FnSpec) (tl : Tlru S) (size : V → Nat) (isOk : V → Bool) (rs : List Nat)
    (s1 : State K V) (c : CallIn K V) (pre : List (TraceEv K V)) (ev : TraceEv K V)
    (h : ev ∈ (missOut spec tl size isOk rs s1 c pre).2.2) :
    ev ∈ pre ∨ ev = TraceEv.bodyRun ∨ ev = TraceEv.predCalled c.key c.bodyVal (c.cacheIf c.key c.bodyVal) ∨
    ev = TraceEv.stored c.key c.bodyVal ∨ ev = TraceEv.returned c.bodyVal false := by
  unfold missOut at h
  simp only at h
  by_cases hc : spec.hasCacheIf = true <;> split at h <;>
    simp only [hc, if_true, if_false, Bool.false_eq_true, List.mem_append, List.mem_cons, List.mem_singleton,
      List.not_mem_nil, or_false] at h <;> grind

/-- event classifiers used by the property statements -/
def isBodyRun : TraceEv K V → Bool
  | .bodyRun => true
  | _ => false

/-- the lookup of this call returned a value: the wrapper either consulted `invalidate_on` on it or
    returned it from the cache -/
def isHitEv : TraceEv K V → Bool
  | .checkCalled _ _ _ => true
  | .returned _ true => true
  | _ => false

/-- number of times the body ran during one call (0 or 1) -/
def bodyRuns (tr : List (TraceEv K V)) : Nat := tr.countP isBodyRun

/-- did the lookup of this call return a value? -/
def lookupHit (tr : List (TraceEv K V)) : Bool := tr.any isHitEv

/-- the miss path adds no hit-indicating event to the trace -/
theorem missOut_lookupHit (spec : FnSpec) (tl : Tlru S) (size : V → Nat) (isOk : V → Bool) (rs : List Nat)
    (s1 : State K V) (c : CallIn K V) (pre : List (TraceEv K V)) :
    lookupHit (missOut spec tl size isOk rs s1 c pre).2.2 = lookupHit pre := by
  unfold missOut lookupHit
  simp only
  by_cases hc : spec.hasCacheIf = true <;> split <;> simp [hc, isHitEv]

/-- the miss path runs the body exactly once -/
theorem missOut_bodyRuns (spec : FnSpec) (tl : Tlru S) (size : V → Nat) (isOk : V → Bool) (rs : List Nat)
    (s1 : State K V) (c : CallIn K V) (pre : List (TraceEv K V)) :
    bodyRuns (missOut spec tl size isOk rs s1 c pre).2.2 = bodyRuns pre + 1 := by
  unfold missOut bodyRuns
  simp only
  by_cases hc : spec.hasCacheIf = true <;> split <;> simp [hc, isBodyRun, List.countP_cons]

/-- the three ways a call can go: served from the cache; miss; hit judged stale by `invalidate_on` -/
theorem callFn_cases (spec : FnSpec) (tl : Tlru S) (size : V → Nat) (isOk : V → Bool) (rs : List Nat)
    (s : State K V) (c : CallIn K V) :
    (∃ cached, (get spec.cfg s c.key).2 = some cached ∧
      (spec.hasInvalidateOn = true → c.invalidateOn c.key cached = false) ∧
      callFn spec tl size isOk rs s c = ((get spec.cfg s c.key).1, cached,
        (if spec.hasInvalidateOn then [TraceEv.checkCalled c.key cached false] else []) ++
          [TraceEv.returned cached true])) ∨
    ((get spec.cfg s c.key).2 = none ∧
      callFn spec tl size isOk rs s c = missOut spec tl size isOk rs (get spec.cfg s c.key).1 c []) ∨
    (∃ cached, (get spec.cfg s c.key).2 = some cached ∧ spec.hasInvalidateOn = true ∧
      c.invalidateOn c.key cached = true ∧
      callFn spec tl size isOk rs s c =
        missOut spec tl size isOk rs (get spec.cfg s c.key).1 c [TraceEv.checkCalled c.key cached true]) := by
  rw [callFn_eq]
  cases hg : (get spec.cfg s c.key).2 with
  | none => right; left; exact ⟨rfl, rfl⟩
  | some cached =>
    simp only
    by_cases hi : spec.hasInvalidateOn = true
    · by_cases hs : c.invalidateOn c.key cached = true
      · right; right
        exact ⟨cached, rfl, hi, hs, by simp only [hi, hs, if_true]⟩
      · left
        refine ⟨cached, rfl, fun _ => by simpa using hs, ?_⟩
        simp only [hi, hs, if_true, if_false, Bool.false_eq_true, List.cons_append, List.nil_append]
    · left
      refine ⟨cached, rfl, fun h => absurd h hi, ?_⟩
      simp only [hi, if_false, Bool.false_eq_true, List.nil_append]

/-- the wrapper keeps the store/queue invariant -/
theorem callFn_inv (spec : FnSpec) (tl : Tlru S) (size : V → Nat) (isOk : V → Bool) (rs : List Nat)
    (s : State K V) (c : CallIn K V) (h : Inv s) : Inv (callFn spec tl size isOk rs s c).1 := by
  have hg := get_inv spec.cfg s c.key h
  have hm : ∀ pre, Inv (missOut spec tl size isOk rs (get spec.cfg s c.key).1 c pre).1 := by
    intro pre
    rcases missOut_fst spec tl size isOk rs (get spec.cfg s c.key).1 c pre with e | e | e <;> rw [e]
    · exact hg
    · exact insertMem_inv _ _ _ _ _ _ _ hg
    · exact insert_inv _ _ _ _ _ _ hg
  rcases callFn_cases spec tl size isOk rs s c with ⟨cached, _, _, e⟩ | ⟨_, e⟩ | ⟨cached, _, _, _, e⟩ <;> rw [e]
  · exact hg
  · exact hm _
  · exact hm _

/-- the clock and the counters after a call: one lookup was counted, nothing else -/
theorem callFn_stats (spec : FnSpec) (tl : Tlru S) (size : V → Nat) (isOk : V → Bool) (rs : List Nat)
    (s : State K V) (c : CallIn K V) :
    (callFn spec tl size isOk rs s c).1.hitStat = s.hitStat + (if found spec.cfg s c.key then 1 else 0) ∧
    (callFn spec tl size isOk rs s c).1.missStat = s.missStat + (if found spec.cfg s c.key then 0 else 1) ∧
    (callFn spec tl size isOk rs s c).1.now = s.now ∧
    lookupHit (callFn spec tl size isOk rs s c).2.2 = found spec.cfg s c.key := by
  have hg := get_stats spec.cfg s c.key
  have hsome := get_isSome spec.cfg s c.key
  have hm : ∀ pre, (missOut spec tl size isOk rs (get spec.cfg s c.key).1 c pre).1.hitStat = (get spec.cfg s c.key).1.hitStat ∧
      (missOut spec tl size isOk rs (get spec.cfg s c.key).1 c pre).1.missStat = (get spec.cfg s c.key).1.missStat ∧
      (missOut spec tl size isOk rs (get spec.cfg s c.key).1 c pre).1.now = (get spec.cfg s c.key).1.now := by
    intro pre
    rcases missOut_fst spec tl size isOk rs (get spec.cfg s c.key).1 c pre with e | e | e <;> rw [e]
    · exact ⟨rfl, rfl, rfl⟩
    · exact insertMem_stats _ _ _ _ _ _ _
    · exact insert_stats _ _ _ _ _ _
  rcases callFn_cases spec tl size isOk rs s c with ⟨cached, hc, _, e⟩ | ⟨hc, e⟩ | ⟨cached, hc, _, _, e⟩ <;> rw [e]
  · rw [hc] at hsome
    refine ⟨hg.1, hg.2.1, hg.2.2, ?_⟩
    rw [← hsome]
    by_cases hi : spec.hasInvalidateOn = true <;> simp [hi, lookupHit, isHitEv]
  · rw [hc] at hsome
    obtain ⟨h1, h2, h3⟩ := hm []
    refine ⟨h1.trans hg.1, h2.trans hg.2.1, h3.trans hg.2.2, ?_⟩
    rw [missOut_lookupHit, ← hsome]; rfl
  · rw [hc] at hsome
    obtain ⟨h1, h2, h3⟩ := hm [TraceEv.checkCalled c.key cached true]
    refine ⟨h1.trans hg.1, h2.trans hg.2.1, h3.trans hg.2.2, ?_⟩
    rw [missOut_lookupHit, ← hsome]; rfl

/-- **Provenance of values through one call.**  If every stored entry satisfies `P`, then after the call
    every stored entry satisfies `P` or is the pair this very call handed to the engine (`stored` event);
    a `stored k v` event always carries this call's key and body value; a value returned from the cache
    satisfies `P` for this call's key; and the returned value is the body value or such a cached value. -/
theorem callFn_prov {P : K → V → Prop} (spec : FnSpec) (tl : Tlru S) (size : V → Nat) (isOk : V → Bool)
    (rs : List Nat) (s : State K V) (c : CallIn K V) (h : AllP P s.store) :
    AllP (fun k v => P k v ∨ TraceEv.stored k v ∈ (callFn spec tl size isOk rs s c).2.2)
      (callFn spec tl size isOk rs s c).1.store ∧
    (∀ k v, TraceEv.stored k v ∈ (callFn spec tl size isOk rs s c).2.2 → k = c.key ∧ v = c.bodyVal) ∧
    (∀ v, TraceEv.returned v true ∈ (callFn spec tl size isOk rs s c).2.2 → P c.key v) ∧
    (∀ v b, TraceEv.returned v b ∈ (callFn spec tl size isOk rs s c).2.2 →
      v = (callFn spec tl size isOk rs s c).2.1) ∧
    ((callFn spec tl size isOk rs s c).2.1 = c.bodyVal ∨
      (P c.key (callFn spec tl size isOk rs s c).2.1 ∧
        TraceEv.returned (callFn spec tl size isOk rs s c).2.1 true ∈ (callFn spec tl size isOk rs s c).2.2)) := by
  obtain ⟨hg1, hg2⟩ := get_allP (P := P) spec.cfg s c.key h
  -- the miss path, for a prefix without `stored` / `returned` events
  have hm : ∀ pre : List (TraceEv K V), (∀ k v, TraceEv.stored k v ∉ pre) → (∀ v b, TraceEv.returned v b ∉ pre) →
      AllP (fun k v => P k v ∨ TraceEv.stored k v ∈ (missOut spec tl size isOk rs (get spec.cfg s c.key).1 c pre).2.2)
        (missOut spec tl size isOk rs (get spec.cfg s c.key).1 c pre).1.store ∧
      (∀ k v, TraceEv.stored k v ∈ (missOut spec tl size isOk rs (get spec.cfg s c.key).1 c pre).2.2 →
        k = c.key ∧ v = c.bodyVal) ∧
      (∀ v, TraceEv.returned v true ∈ (missOut spec tl size isOk rs (get spec.cfg s c.key).1 c pre).2.2 → P c.key v) ∧
      (∀ v b, TraceEv.returned v b ∈ (missOut spec tl size isOk rs (get spec.cfg s c.key).1 c pre).2.2 →
        v = (missOut spec tl size isOk rs (get spec.cfg s c.key).1 c pre).2.1) := by
    intro pre hp1 hp2
    refine ⟨?_, ?_, ?_, ?_⟩
    · rcases missOut_state spec tl size isOk rs (get spec.cfg s c.key).1 c pre with ⟨e, _⟩ | ⟨e, hst⟩ | ⟨k, v, hkv⟩
      · rw [e]; exact AllP.mono (fun k v hk => Or.inl hk) hg1
      · rw [e]
        have hg1' := AllP.mono (Q := fun k v => P k v ∨
          TraceEv.stored k v ∈ (missOut spec tl size isOk rs (get spec.cfg s c.key).1 c pre).2.2)
          (fun k v hk => Or.inl hk) hg1
        split
        · exact insertMem_allP _ _ _ _ _ _ _ hg1' (Or.inr hst)
        · exact insert_allP _ _ _ _ _ _ hg1' (Or.inr hst)
      · exact absurd hkv (hp1 k v)
    · intro k v hm
      rcases mem_missOut_trace _ _ _ _ _ _ _ _ _ hm with h' | h' | h' | h' | h'
      · exact absurd h' (hp1 k v)
      · cases h'
      · cases h'
      · cases h'; exact ⟨rfl, rfl⟩
      · cases h'
    · intro v hm
      rcases mem_missOut_trace _ _ _ _ _ _ _ _ _ hm with h' | h' | h' | h' | h'
      · exact absurd h' (hp2 v true)
      · cases h'
      · cases h'
      · cases h'
      · cases h'
    · intro v b hm
      rw [missOut_val]
      rcases mem_missOut_trace _ _ _ _ _ _ _ _ _ hm with h' | h' | h' | h' | h'
      · exact absurd h' (hp2 v b)
      · cases h'
      · cases h'
      · cases h'
      · cases h'; rfl
  rcases callFn_cases spec tl size isOk rs s c with ⟨cached, hc, _, e⟩ | ⟨hc, e⟩ | ⟨cached, hc, _, _, e⟩ <;> rw [e]
  · have hP := hg2 cached hc
    refine ⟨AllP.mono (fun k v hk => Or.inl hk) hg1, ?_, ?_, ?_, Or.inr ⟨hP, by simp⟩⟩
    · intro k v hm
      by_cases hi : spec.hasInvalidateOn = true <;> simp [hi] at hm
    · intro v hm
      by_cases hi : spec.hasInvalidateOn = true <;> simp [hi] at hm <;> (rw [hm]; exact hP)
    · intro v b hm
      by_cases hi : spec.hasInvalidateOn = true <;> simp [hi] at hm <;> exact hm.1
  · obtain ⟨h1, h2, h3, h4⟩ := hm [] (by simp) (by simp)
    exact ⟨h1, h2, h3, h4, Or.inl (missOut_val _ _ _ _ _ _ _ _)⟩
  · obtain ⟨h1, h2, h3, h4⟩ := hm [TraceEv.checkCalled c.key cached true] (by simp) (by simp)
    exact ⟨h1, h2, h3, h4, Or.inl (missOut_val _ _ _ _ _ _ _ _)⟩

/-- entry predicates through one call, in the form used for value correctness: if the body value
    satisfies `P` for the key, so does every stored entry afterwards and so does the returned value -/
theorem callFn_allP {P : K → V → Prop} (spec : FnSpec) (tl : Tlru S) (size : V → Nat) (isOk : V → Bool)
    (rs : List Nat) (s : State K V) (c : CallIn K V) (h : AllP P s.store) (hb : P c.key c.bodyVal) :
    AllP P (callFn spec tl size isOk rs s c).1.store ∧ P c.key (callFn spec tl size isOk rs s c).2.1 := by
  obtain ⟨h1, h2, _, _, h5⟩ := callFn_prov (P := P) spec tl size isOk rs s c h
  refine ⟨?_, ?_⟩
  · intro p hp
    rcases h1 p hp with h' | h'
    · exact h'
    · obtain ⟨e1, e2⟩ := h2 _ _ h'
      rw [e1, e2]; exact hb
  · rcases h5 with h' | h'
    · rw [h']; exact hb
    · exact h'.1

/-- a call whose lookup finds an unexpired entry that `invalidate_on` (if any) does not reject returns
    that entry's value from the cache, without running the body -/
theorem callFn_hit (spec : FnSpec) (tl : Tlru S) (size : V → Nat) (isOk : V → Bool) (rs : List Nat)
    (s : State K V) (c : CallIn K V) {e : Entry V} (hl : lookup c.key s.store = some e)
    (hx : expired spec.cfg s.now e = false)
    (hs : spec.hasInvalidateOn = true → c.invalidateOn c.key e.val = false) :
    callFn spec tl size isOk rs s c = ((get spec.cfg s c.key).1, e.val,
      (if spec.hasInvalidateOn then [TraceEv.checkCalled c.key e.val false] else []) ++
        [TraceEv.returned e.val true]) := by
  have hg := get_of_found hl hx
  rcases callFn_cases spec tl size isOk rs s c with ⟨cached, hc, _, e'⟩ | ⟨hc, _⟩ | ⟨cached, hc, hi, hst, _⟩
  · rw [hg] at hc; cases hc; exact e'
  · rw [hg] at hc; cases hc
  · rw [hg] at hc; cases hc
    rw [hs hi] at hst; cases hst

/-- a call whose lookup finds nothing (absent or expired) runs the body and returns its value -/
theorem callFn_miss (spec : FnSpec) (tl : Tlru S) (size : V → Nat) (isOk : V → Bool) (rs : List Nat)
    (s : State K V) (c : CallIn K V) (hf : found spec.cfg s c.key = false) :
    callFn spec tl size isOk rs s c = missOut spec tl size isOk rs (get spec.cfg s c.key).1 c [] := by
  have hg := get_of_not_found hf
  rcases callFn_cases spec tl size isOk rs s c with ⟨cached, hc, _, _⟩ | ⟨_, e'⟩ | ⟨cached, hc, _, _, _⟩
  · rw [hg] at hc; cases hc
  · exact e'
  · rw [hg] at hc; cases hc

/-! ### The plain configuration of C03: nothing ever removes or rejects an entry -/

/-- no entry limit, no TTL, no memory bound in effect, no `cache_if`, no `invalidate_on`, not a
    `Result` function; any flavour, policy and scope -/
structure Plain (spec : FnSpec) : Prop where
  limit : spec.cfg.limit = none
  ttl : spec.cfg.ttl = none
  mem : spec.useMem = false ∨ spec.cfg.maxMem = none
  noPred : spec.hasCacheIf = false
  noCheck : spec.hasInvalidateOn = false
  notResult : spec.isResult = false

/-- in the plain configuration every fresh result is stored -/
theorem shouldStore_plain {spec : FnSpec} (hp : Plain spec) (isOk : V → Bool) (acc : Bool) (v : V) :
    shouldStore spec isOk acc v = true := by
  unfold shouldStore
  simp [hp.noPred, hp.notResult]

/-- without an entry limit the limit step does nothing -/
theorem limitStep_none {cfg : Cfg} (h : cfg.limit = none) (tl : Tlru S) (now r : Nat) (m : Store K V) (q : List K) :
    limitStep cfg tl now r m q = (m, q) := by
  unfold limitStep; rw [h]

/-- without a TTL nothing ever expires -/
theorem expired_ttl_none {cfg : Cfg} (h : cfg.ttl = none) (now : Nat) (e : Entry V) : expired cfg now e = false := by
  unfold expired; rw [h]

/-- storing a fresh key appends at the back -/
theorem put_of_not_mem {m : Store K V} {k : K} (hk : k ∉ keys m) (e : Entry V) : put k e m = m ++ [(k, e)] := by
  unfold Cachelito.put; rw [eraseKey_of_not_mem hk]

/-- plain store of a fresh key without limit: the store grows by exactly that entry, at the back -/
theorem insert_plain_store {cfg : Cfg} (hl : cfg.limit = none) (tl : Tlru S) (r : Nat) (s : State K V) (k : K) (v : V)
    (hk : k ∉ keys s.store) :
    (insert cfg tl r s k v).store = s.store ++ [(k, ⟨v, stamp cfg s.now, 0⟩)] := by
  have hh : hasKey k s.store = false := (hasKey_false_iff k s.store).mpr hk
  unfold insert
  cases cfg.flavour <;> simp only [limitStep_none hl, hh, Bool.false_eq_true, if_false, put_of_not_mem hk]

/-- memory-aware store of a fresh key without limit and memory bound: same -/
theorem insertMem_plain_store {cfg : Cfg} (hl : cfg.limit = none) (hm : cfg.maxMem = none) (tl : Tlru S)
    (size : V → Nat) (rs : List Nat) (s : State K V) (k : K) (v : V) (hk : k ∉ keys s.store) :
    (insertMem cfg tl size rs s k v).store = s.store ++ [(k, ⟨v, stamp cfg s.now, 0⟩)] := by
  have hh : hasKey k s.store = false := (hasKey_false_iff k s.store).mpr hk
  unfold insertMem
  cases cfg.flavour <;> simp only [limitStep_none hl, hm, hh, Bool.false_eq_true, if_false, put_of_not_mem hk]

/-- a lookup of an absent key only counts a miss -/
theorem get_of_lookup_none {cfg : Cfg} {s : State K V} {k : K} (hl : lookup k s.store = none) :
    get cfg s k = ({ s with missStat := s.missStat + 1 }, none) := by
  unfold get; rw [hl]

/-- plain configuration, first call with this key: the body runs once, the result is stored at the back
    of the store and returned -/
theorem callFn_plain_miss {spec : FnSpec} (hp : Plain spec) (tl : Tlru S) (size : V → Nat) (isOk : V → Bool)
    (rs : List Nat) (s : State K V) (c : CallIn K V) (hl : lookup c.key s.store = none) :
    (callFn spec tl size isOk rs s c).2 =
      (c.bodyVal, [TraceEv.bodyRun, TraceEv.stored c.key c.bodyVal, TraceEv.returned c.bodyVal false]) ∧
    (callFn spec tl size isOk rs s c).1.store = s.store ++ [(c.key, ⟨c.bodyVal, stamp spec.cfg s.now, 0⟩)] := by
  have hf : found spec.cfg s c.key = false := by unfold found; rw [hl]
  have hk : c.key ∉ keys s.store := (lookup_eq_none_iff _ _).mp hl
  rw [callFn_miss spec tl size isOk rs s c hf, get_of_lookup_none hl]
  unfold missOut
  simp only [shouldStore_plain hp, if_true, hp.noPred, Bool.false_eq_true, if_false, List.nil_append,
    List.append_nil, List.cons_append, true_and]
  rcases hp.mem with hm | hm
  · simp only [hm, Bool.false_eq_true, if_false]
    exact insert_plain_store hp.limit tl _ _ _ _ hk
  · split
    · exact insertMem_plain_store hp.limit hm tl size rs _ _ _ hk
    · exact insert_plain_store hp.limit tl _ _ _ _ hk

/-- plain configuration, repeated call: served from the cache, the body does not run, no key is added
    or removed and no stored value changes -/
theorem callFn_plain_hit {spec : FnSpec} (hp : Plain spec) (tl : Tlru S) (size : V → Nat) (isOk : V → Bool)
    (rs : List Nat) (s : State K V) (c : CallIn K V) {e : Entry V} (hl : lookup c.key s.store = some e) :
    (callFn spec tl size isOk rs s c).2 = (e.val, [TraceEv.returned e.val true]) ∧
    keys (callFn spec tl size isOk rs s c).1.store = keys s.store ∧
    ∀ k', (lookup k' (callFn spec tl size isOk rs s c).1.store).map (·.val) = (lookup k' s.store).map (·.val) := by
  have hx := expired_ttl_none hp.ttl s.now e
  rw [callFn_hit spec tl size isOk rs s c hl hx (fun h => by rw [hp.noCheck] at h; cases h)]
  simp only [hp.noCheck, Bool.false_eq_true, if_false, List.nil_append, true_and]
  have hst : (get spec.cfg s c.key).1.store = if spec.cfg.policy.bumps then bumpHits c.key s.store else s.store := by
    unfold get
    rw [hl]
    simp only [hx, Bool.false_eq_true, if_false, hitUpdate_fst]
  rw [hst]
  split
  · exact ⟨keys_bumpHits _ _, fun k' => lookup_modify_val c.key k' (fun e => { e with hits := e.hits + 1 }) (fun _ => rfl) s.store⟩
  · exact ⟨rfl, fun _ => rfl⟩

/-! ## 4. Cache instances of a system -/

/-- the state of a cache instance that was never touched, at clock `n` -/
def initAt (n : Nat) : State K V := { (State.init : State K V) with now := n }

/-- `getCache` with the default instance written as `initAt` -/
theorem getCache_def (sys : Sys K V) (id : CacheId) :
    sys.getCache id = match sys.caches.find? (fun p => p.1 = id) with
      | some p => p.2
      | none => initAt sys.now := rfl

/-- searching for `id'` is not affected by filtering out another identity -/
theorem find_filter_ne (l : List (CacheId × State K V)) {id id' : CacheId} (h : id' ≠ id) :
    (l.filter (fun p => p.1 ≠ id)).find? (fun p => p.1 = id') = l.find? (fun p => p.1 = id') := by
  induction l with
  | nil => rfl
  | cons a l ih =>
    rw [List.filter_cons]
    by_cases ha : a.1 = id
    · have h1 : decide (a.1 ≠ id) = false := by simp [ha]
      have h2 : decide (a.1 = id') = false := by
        simp only [decide_eq_false_iff_not]; intro hh; exact h (hh ▸ ha)
      simp only [h1, Bool.false_eq_true, if_false, List.find?_cons, h2]
      exact ih
    · have h1 : decide (a.1 ≠ id) = true := by simp [ha]
      simp only [h1, if_true, List.find?_cons]
      cases decide (a.1 = id') <;> simp only [ih]

/-- reading after writing one instance -/
theorem getCache_setCache (sys : Sys K V) (id id' : CacheId) (s : State K V) :
    (sys.setCache id s).getCache id' = if id' = id then s else sys.getCache id' := by
  rw [getCache_def, getCache_def]
  unfold Sys.setCache
  by_cases h : id' = id
  · simp [h, List.find?_cons]
  · have h' : ¬ id = id' := fun hh => h hh.symm
    simp only [List.find?_cons, h', decide_false, find_filter_ne _ h, h, if_false]

/-- searching by identity commutes with a map that preserves identities -/
theorem find_map_fst (l : List (CacheId × State K V)) (g : CacheId × State K V → CacheId × State K V)
    (hg : ∀ p, (g p).1 = p.1) (id : CacheId) :
    (l.map g).find? (fun p => p.1 = id) = (l.find? (fun p => p.1 = id)).map g := by
  induction l with
  | nil => rfl
  | cons a l ih =>
    by_cases ha : a.1 = id <;> simp [List.find?_cons, hg, ha, ih]

/-- what `find?` by identity returns has that identity -/
theorem find_some_fst {l : List (CacheId × State K V)} {id : CacheId} {p : CacheId × State K V}
    (h : l.find? (fun p => p.1 = id) = some p) : p.1 = id := by
  have := List.find?_some h
  simpa using this

/-- `mapFn` either leaves an instance alone or applies `f` to it -/
theorem getCache_mapFn_cases (sys : Sys K V) (fn : Nat) (f : State K V → State K V) (id : CacheId) :
    (sys.mapFn fn f).getCache id = sys.getCache id ∨
    ((id.fn = fn ∧ id.thread = none) ∧ (sys.mapFn fn f).getCache id = f (sys.getCache id)) := by
  rw [getCache_def, getCache_def]
  unfold Sys.mapFn
  simp only
  rw [find_map_fst _ _ (by intro p; split <;> rfl)]
  cases hfd : sys.caches.find? (fun p => p.1 = id) with
  | none => left; rfl
  | some p =>
    have hp := find_some_fst hfd
    simp only [Option.map_some]
    by_cases hc : p.1.fn = fn ∧ p.1.thread = none
    · right; rw [if_pos hc]; exact ⟨hp ▸ hc, rfl⟩
    · left; rw [if_neg hc]

/-- `mapFn fn` does not touch thread instances nor instances of other functions -/
theorem getCache_mapFn_ne (sys : Sys K V) (fn : Nat) (f : State K V → State K V) (id : CacheId)
    (h : ¬ (id.fn = fn ∧ id.thread = none)) : (sys.mapFn fn f).getCache id = sys.getCache id := by
  rcases getCache_mapFn_cases sys fn f id with h' | ⟨hc, _⟩
  · exact h'
  · exact absurd hc h

/-- exact form, for functions `f` that leave a never-touched instance as it is -/
theorem getCache_mapFn (sys : Sys K V) (fn : Nat) (f : State K V → State K V)
    (hf : ∀ n, f (initAt n) = initAt n) (id : CacheId) :
    (sys.mapFn fn f).getCache id = if id.fn = fn ∧ id.thread = none then f (sys.getCache id) else sys.getCache id := by
  rw [getCache_def, getCache_def]
  unfold Sys.mapFn
  simp only
  rw [find_map_fst _ _ (by intro p; split <;> rfl)]
  cases hfd : sys.caches.find? (fun p => p.1 = id) with
  | none => simp only [Option.map_none, hf]; split <;> rfl
  | some p =>
    have hp := find_some_fst hfd
    simp only [Option.map_some]
    rw [hp]
    split <;> rfl

/-- a relation that every single `F`-step respects is respected by a whole fold of them -/
theorem foldl_rel {R : State K V → State K V → Prop} (hr : ∀ s, R s s) (ht : ∀ a b c, R a b → R b c → R a c)
    (F : Sys K V → Nat → Sys K V) (id : CacheId) (hF : ∀ sy i, R (sy.getCache id) ((F sy i).getCache id))
    (ts : List Nat) (sys : Sys K V) : R (sys.getCache id) ((ts.foldl F sys).getCache id) := by
  induction ts generalizing sys with
  | nil => exact hr _
  | cons i ts ih => exact ht _ _ _ (hF sys i) (ih (F sys i))

/-- a fold of steps that keep `called` keeps `called` -/
theorem foldl_called (F : Sys K V → Nat → Sys K V) (hF : ∀ sy i, (F sy i).called = sy.called)
    (ts : List Nat) (sys : Sys K V) : (ts.foldl F sys).called = sys.called := by
  induction ts generalizing sys with
  | nil => rfl
  | cons i ts ih => exact (ih (F sys i)).trans (hF sys i)

/-- folding one `mapFn f` over a duplicate-free target list: exactly the targeted shared instances get `f` -/
theorem getCache_foldl_mapFn (f : State K V → State K V) (hf : ∀ n, f (initAt n) = initAt n)
    (ts : List Nat) (hn : ts.Nodup) (sys : Sys K V) (id : CacheId) :
    (ts.foldl (fun sy i => sy.mapFn i f) sys).getCache id =
      if id.thread = none ∧ id.fn ∈ ts then f (sys.getCache id) else sys.getCache id := by
  induction ts generalizing sys with
  | nil => simp
  | cons i ts ih =>
    simp only [List.foldl_cons]
    rw [ih (List.nodup_cons.mp hn).2, getCache_mapFn sys i f hf id]
    have hni := (List.nodup_cons.mp hn).1
    by_cases h1 : id.thread = none
    · by_cases h2 : id.fn = i
      · have : id.fn ∉ ts := h2 ▸ hni
        simp [h1, h2, hni]
      · simp [h1, h2]
    · simp [h1]

/-! ### One system step, seen from one cache instance -/

/-- is this operation a call? -/
def isCall : SysOp K V → Bool
  | .call _ _ _ => true
  | _ => false

/-- the six registry operations that clear or filter caches -/
def isInvalidation : SysOp K V → Bool
  | .invalidateByTag _ | .invalidateByEvent _ | .invalidateByDependency _ | .invalidateCache _
  | .invalidateWith _ _ | .invalidateAllWith _ => true
  | _ => false

section step
variable (fns : List FnSpec) (tls : Nat → Tlru S) (size : V → Nat) (isOk : V → Bool) (rs : List Nat)
  (sys : Sys K V)

/-- a call of an unknown function index does nothing -/
theorem sysStep_call_none {fn : Nat} (th : Nat) (c : CallIn K V) (h : fns[fn]? = none) :
    sysStep fns tls size isOk rs sys (.call fn th c) = (sys, .noSuchFn) := by
  simp only [sysStep, h]

/-- a call replaces the state of its own instance by the wrapper's result and touches no other instance -/
theorem getCache_call {fn : Nat} {spec : FnSpec} (th : Nat) (c : CallIn K V) (h : fns[fn]? = some spec)
    (id' : CacheId) :
    (sysStep fns tls size isOk rs sys (.call fn th c)).1.getCache id' =
      if id' = cacheIdOf spec fn th then
        (callFn spec (tls fn) size isOk rs (sys.getCache (cacheIdOf spec fn th)) c).1
      else sys.getCache id' := by
  simp only [sysStep, h]
  generalize callFn spec (tls fn) size isOk rs (sys.getCache (cacheIdOf spec fn th)) c = r
  obtain ⟨s', v, tr⟩ := r
  simp only
  split
  · exact getCache_setCache sys _ id' s'
  · exact getCache_setCache sys _ id' s'

/-- the output of a call is the wrapper's value and trace -/
theorem out_call {fn : Nat} {spec : FnSpec} (th : Nat) (c : CallIn K V) (h : fns[fn]? = some spec) :
    (sysStep fns tls size isOk rs sys (.call fn th c)).2 =
      .ret (callFn spec (tls fn) size isOk rs (sys.getCache (cacheIdOf spec fn th)) c).2.1
           (callFn spec (tls fn) size isOk rs (sys.getCache (cacheIdOf spec fn th)) c).2.2 := by
  simp only [sysStep, h]

/-- a call registers its function unless it is thread-scope or already registered -/
theorem called_call {fn : Nat} {spec : FnSpec} (th : Nat) (c : CallIn K V) (h : fns[fn]? = some spec) :
    (sysStep fns tls size isOk rs sys (.call fn th c)).1.called =
      if spec.threadScope || sys.called.contains fn then sys.called else fn :: sys.called := by
  simp only [sysStep, h]
  generalize callFn spec (tls fn) size isOk rs (sys.getCache (cacheIdOf spec fn th)) c = r
  obtain ⟨s', v, tr⟩ := r
  simp only [Sys.setCache]
  by_cases hh : (spec.threadScope || sys.called.contains fn) = true <;>
    simp only [hh, if_true, if_false, Bool.false_eq_true]

/-- a tick advances the clock of every instance (touched or not) and changes nothing else -/
theorem getCache_tick (ms : Nat) (id : CacheId) :
    (sysStep fns tls size isOk rs sys (.tick ms)).1.getCache id =
      { sys.getCache id with now := (sys.getCache id).now + ms } := by
  simp only [sysStep]
  rw [getCache_def, getCache_def]
  simp only
  rw [find_map_fst _ (fun p => (p.1, { p.2 with now := p.2.now + ms })) (fun _ => rfl)]
  cases sys.caches.find? (fun p => p.1 = id) <;> rfl

/-- the target list of `statsGet` / `statsReset` / `invalidateWith`: registered functions of that name -/
def statTargets (name : String) : List Nat :=
  (List.range fns.length).filter (fun i =>
    isRegistered fns sys i && (match fns[i]? with | some spec => spec.name = name | none => false))

/-- the target list has no duplicates -/
theorem statTargets_nodup (name : String) : (statTargets fns sys name).Nodup :=
  List.Pairwise.filter _ List.nodup_range

/-- membership in the target list: a shared function of that name that has been called -/
theorem mem_statTargets (name : String) (j : Nat) :
    j ∈ statTargets fns sys name ↔
      ∃ spec, fns[j]? = some spec ∧ spec.threadScope = false ∧ sys.called.contains j = true ∧ spec.name = name := by
  unfold statTargets isRegistered
  simp only [List.mem_filter, List.mem_range]
  cases hj : fns[j]? with
  | none => simp
  | some spec =>
    have hlt : j < fns.length := by
      apply Classical.byContradiction; intro hn
      rw [List.getElem?_eq_none (by omega)] at hj; cases hj
    simp [hlt]
    constructor
    · rintro ⟨⟨h1, h2⟩, h3⟩; exact ⟨h2, h1, h3⟩
    · rintro ⟨h2, h1, h3⟩; exact ⟨⟨h1, h2⟩, h3⟩

/-- `statsReset` written with `statTargets` -/
theorem sysStep_statsReset (name : String) :
    sysStep fns tls size isOk rs sys (.statsReset name) =
      ((statTargets fns sys name).foldl
        (fun sy i => sy.mapFn i (fun s => { s with hitStat := 0, missStat := 0 })) sys,
       .flag (!(statTargets fns sys name).isEmpty)) := rfl

/-- `statsGet` written with `statTargets`: the system is unchanged -/
theorem sysStep_statsGet (name : String) :
    sysStep fns tls size isOk rs sys (.statsGet name) =
      (sys, .stats (match statTargets fns sys name with
        | i :: _ => some ((sys.getCache ⟨i, none⟩).hitStat, (sys.getCache ⟨i, none⟩).missStat)
        | [] => none)) := by
  simp only [sysStep]
  show (match statTargets fns sys name with | i :: _ => _ | [] => _) = _
  cases statTargets fns sys name <;> rfl

/-- resetting the statistics of `name`: exactly the shared instances of registered functions of that name
    get both counters zeroed; every other instance is untouched -/
theorem getCache_statsReset (name : String) (id : CacheId) :
    (sysStep fns tls size isOk rs sys (.statsReset name)).1.getCache id =
      if id.thread = none ∧ id.fn ∈ statTargets fns sys name then
        { sys.getCache id with hitStat := 0, missStat := 0 }
      else sys.getCache id := by
  rw [sysStep_statsReset]
  exact getCache_foldl_mapFn _ (fun _ => rfl) _ (statTargets_nodup fns sys name) sys id

/-- registry invalidations act on each instance by `clear` / `invalidateWith` or not at all -/
theorem getCache_invalidation {R : State K V → State K V → Prop} (hr : ∀ s, R s s)
    (ht : ∀ a b c, R a b → R b c → R a c) (hclear : ∀ s, R s (clear s))
    (hinv : ∀ p s, R s (invalidateWith p s)) (op : SysOp K V) (hop : isInvalidation op = true) (id : CacheId) :
    R (sys.getCache id) ((sysStep fns tls size isOk rs sys op).1.getCache id) := by
  have hclr : ∀ ts : List Nat, R (sys.getCache id) ((clearAll sys ts).getCache id) := by
    intro ts
    unfold clearAll
    apply foldl_rel hr ht
    intro sy i
    rcases getCache_mapFn_cases sy i clear id with e | ⟨_, e⟩ <;> rw [e]
    · exact hr _
    · exact hclear _
  cases op <;> simp only [isInvalidation, Bool.false_eq_true] at hop <;> simp only [sysStep]
  · exact hclr _
  · exact hclr _
  · exact hclr _
  · exact hclr _
  · apply foldl_rel hr ht
    intro sy i
    rcases getCache_mapFn_cases sy i (invalidateWith _) id with e | ⟨_, e⟩ <;> rw [e]
    · exact hr _
    · exact hinv _ _
  · apply foldl_rel hr ht
    intro sy i
    split
    · rcases getCache_mapFn_cases sy i (invalidateWith _) id with e | ⟨_, e⟩ <;> rw [e]
      · exact hr _
      · exact hinv _ _
    · exact hr _

/-- instances of thread-scope functions are touched by calls and by the clock only -/
theorem getCache_thread_frame (op : SysOp K V) (hc : isCall op = false) (htk : ∀ ms, op ≠ .tick ms)
    (id : CacheId) (hid : id.thread ≠ none) :
    (sysStep fns tls size isOk rs sys op).1.getCache id = sys.getCache id := by
  have hmap : ∀ (f : Nat → State K V → State K V) (ts : List Nat),
      (ts.foldl (fun sy i => sy.mapFn i (f i)) sys).getCache id = sys.getCache id := by
    intro f ts
    apply foldl_rel (R := fun a b => b = a) (fun _ => rfl) (fun a b c h1 h2 => h2.trans h1)
    intro sy i
    exact getCache_mapFn_ne sy i _ id (fun h => hid h.2)
  cases op with
  | call fn th c => simp [isCall] at hc
  | tick ms => exact absurd rfl (htk ms)
  | invalidateByTag t => exact hmap (fun _ => clear) _
  | invalidateByEvent t => exact hmap (fun _ => clear) _
  | invalidateByDependency t => exact hmap (fun _ => clear) _
  | invalidateCache t => exact hmap (fun _ => clear) _
  | invalidateWith n p => exact hmap (fun _ => invalidateWith p) _
  | invalidateAllWith p =>
    simp only [sysStep]
    apply foldl_rel (R := fun a b => b = a) (fun _ => rfl) (fun a b c h1 h2 => h2.trans h1)
    intro sy i
    split
    · exact getCache_mapFn_ne sy i _ id (fun h => hid h.2)
    · rfl
  | statsGet n => rw [sysStep_statsGet]
  | statsReset n => exact hmap (fun _ s => { s with hitStat := 0, missStat := 0 }) _

/-- only calls register functions -/
theorem called_noncall (op : SysOp K V) (hc : isCall op = false) :
    (sysStep fns tls size isOk rs sys op).1.called = sys.called := by
  have hmap : ∀ (f : Nat → State K V → State K V) (ts : List Nat),
      (ts.foldl (fun sy i => sy.mapFn i (f i)) sys).called = sys.called :=
    fun f ts => foldl_called (fun sy i => sy.mapFn i (f i)) (fun _ _ => rfl) ts sys
  cases op with
  | call fn th c => simp [isCall] at hc
  | tick ms => rfl
  | invalidateByTag t => exact hmap (fun _ => clear) _
  | invalidateByEvent t => exact hmap (fun _ => clear) _
  | invalidateByDependency t => exact hmap (fun _ => clear) _
  | invalidateCache t => exact hmap (fun _ => clear) _
  | invalidateWith n p => exact hmap (fun _ => invalidateWith p) _
  | invalidateAllWith p =>
    simp only [sysStep]
    apply foldl_called
    intro sy i
    split <;> rfl
  | statsGet n => rw [sysStep_statsGet]
  | statsReset n => exact hmap (fun _ s => { s with hitStat := 0, missStat := 0 }) _

end step

/-! ## 5. Histories -/

/-- the call input, if this operation is a call that lands on cache instance `id` -/
def callOn (fns : List FnSpec) (id : CacheId) : SysOp K V → Option (CallIn K V)
  | .call fn th c =>
    match fns[fn]? with
    | some spec => if cacheIdOf spec fn th = id then some c else none
    | none => none
  | _ => none

/-- the calls of a history that land on instance `id`, in order -/
def callsOn (fns : List FnSpec) (id : CacheId) (ops : List (SysOp K V × List Nat)) : List (CallIn K V) :=
  ops.filterMap (fun p => callOn fns id p.1)

/-- the keys called on instance `id` -/
def keysOn (fns : List FnSpec) (id : CacheId) (ops : List (SysOp K V × List Nat)) : List K :=
  (callsOn fns id ops).map (·.key)

/-- the body value of the first call with key `k` in a list of calls -/
def firstVal (hist : List (CallIn K V)) (k : K) : Option V :=
  (hist.find? (fun c => c.key = k)).map (·.bodyVal)

/-- all trace events of the calls that landed on instance `id`, in order (from the history and the
    outputs the model produced for it) -/
def tracesOn (fns : List FnSpec) (id : CacheId) :
    List (SysOp K V × List Nat) → List (SysOut K V) → List (TraceEv K V)
  | p :: ops, o :: outs =>
    (match callOn fns id p.1, o with
     | some _, .ret _ tr => tr
     | _, _ => []) ++ tracesOn fns id ops outs
  | _, _ => []

/-- number of body executions of calls on instance `id` -/
def runsOn (fns : List FnSpec) (id : CacheId) (ops : List (SysOp K V × List Nat)) (outs : List (SysOut K V)) : Nat :=
  bodyRuns (tracesOn fns id ops outs)

/-- duplicate-free list of the members of a list (first occurrences, in order) -/
def distinct : List K → List K
  | [] => []
  | a :: l => a :: (distinct l).filter (fun x => x ≠ a)

/-- `distinct` keeps exactly the members -/
theorem mem_distinct (l : List K) (x : K) : x ∈ distinct l ↔ x ∈ l := by
  induction l with
  | nil => simp [distinct]
  | cons a l ih =>
    simp only [distinct, List.mem_cons, List.mem_filter, ih]
    by_cases h : x = a <;> simp [h]

/-- `distinct` has no duplicates -/
theorem nodup_distinct (l : List K) : (distinct l).Nodup := by
  induction l with
  | nil => simp [distinct]
  | cons a l ih =>
    simp only [distinct, List.nodup_cons]
    exact ⟨by simp, List.Pairwise.filter _ ih⟩

/-- body executions add up over concatenated traces -/
theorem bodyRuns_append (a b : List (TraceEv K V)) : bodyRuns (a ++ b) = bodyRuns a + bodyRuns b := by
  unfold bodyRuns; exact List.countP_append

/-- no first value iff the key was never called -/
theorem firstVal_none_iff (hist : List (CallIn K V)) (k : K) :
    firstVal hist k = none ↔ k ∉ hist.map (·.key) := by
  unfold firstVal
  simp only [Option.map_eq_none_iff, List.find?_eq_none, List.mem_map, not_exists, not_and]
  constructor
  · intro h c hc he; exact absurd (by simpa using he) (by simpa using h c hc)
  · intro h c hc; simpa using h c hc

/-- first value after one more call: the old first value if any, else the new call's if the key matches -/
theorem firstVal_append (hist : List (CallIn K V)) (c : CallIn K V) (k : K) :
    firstVal (hist ++ [c]) k =
      (firstVal hist k).orElse (fun _ => if c.key = k then some c.bodyVal else none) := by
  unfold firstVal
  rw [List.find?_append]
  cases hist.find? (fun c => c.key = k) with
  | some x => rfl
  | none =>
    by_cases h : c.key = k <;> simp [h, List.find?_cons]

section run
variable (fns : List FnSpec) (tls : Nat → Tlru S) (size : V → Nat) (isOk : V → Bool)

/-- `sysRun` unfolded by one operation, with projections -/
theorem sysRun_cons (sys : Sys K V) (op : SysOp K V) (rs : List Nat) (ops : List (SysOp K V × List Nat)) :
    sysRun fns tls size isOk sys ((op, rs) :: ops) =
      ((sysRun fns tls size isOk (sysStep fns tls size isOk rs sys op).1 ops).1,
       (sysStep fns tls size isOk rs sys op).2 ::
         (sysRun fns tls size isOk (sysStep fns tls size isOk rs sys op).1 ops).2) := rfl

/-- running a concatenation = running the parts in sequence -/
theorem sysRun_append (sys : Sys K V) (a b : List (SysOp K V × List Nat)) :
    sysRun fns tls size isOk sys (a ++ b) =
      ((sysRun fns tls size isOk (sysRun fns tls size isOk sys a).1 b).1,
       (sysRun fns tls size isOk sys a).2 ++ (sysRun fns tls size isOk (sysRun fns tls size isOk sys a).1 b).2) := by
  induction a generalizing sys with
  | nil => rfl
  | cons p a ih =>
    obtain ⟨op, rs⟩ := p
    rw [List.cons_append, sysRun_cons, sysRun_cons, ih]
    rfl

/-- one output per operation -/
theorem sysRun_length (sys : Sys K V) (ops : List (SysOp K V × List Nat)) :
    (sysRun fns tls size isOk sys ops).2.length = ops.length := by
  induction ops generalizing sys with
  | nil => rfl
  | cons p ops ih =>
    obtain ⟨op, rs⟩ := p
    rw [sysRun_cons]; simp [ih]

/-- the `j`-th output of a run is the output of stepping the `j`-th operation from the state reached
    by the first `j` operations -/
theorem sysRun_out (sys : Sys K V) (ops : List (SysOp K V × List Nat)) (j : Nat) (op : SysOp K V) (rs : List Nat)
    (h : ops[j]? = some (op, rs)) :
    (sysRun fns tls size isOk sys ops).2[j]? =
      some (sysStep fns tls size isOk rs (sysRun fns tls size isOk sys (ops.take j)).1 op).2 := by
  induction ops generalizing sys j with
  | nil => simp at h
  | cons p ops ih =>
    obtain ⟨op', rs'⟩ := p
    cases j with
    | zero =>
      simp only [List.getElem?_cons_zero, Option.some.injEq, Prod.mk.injEq] at h
      obtain ⟨h1, h2⟩ := h
      subst h1; subst h2
      rw [sysRun_cons]; rfl
    | succ j =>
      simp only [List.getElem?_cons_succ] at h
      rw [sysRun_cons, List.take_succ_cons, sysRun_cons]
      simp only [List.getElem?_cons_succ]
      exact ih _ j h

end run

/-! ### Steps seen from one instance: calls that land on it, and everything else -/

/-- a call lands on `id` only if it is a call of a known function whose instance for that thread is `id` -/
theorem callOn_some {fns : List FnSpec} {id : CacheId} {op : SysOp K V} {c : CallIn K V}
    (h : callOn fns id op = some c) :
    ∃ fn th spec, op = .call fn th c ∧ fns[fn]? = some spec ∧ cacheIdOf spec fn th = id := by
  cases op with
  | call fn th c' =>
    simp only [callOn] at h
    cases hs : fns[fn]? with
    | none => rw [hs] at h; cases h
    | some spec =>
      rw [hs] at h
      simp only at h
      split at h
      · rename_i hid
        cases h
        exact ⟨fn, th, spec, rfl, hs, hid⟩
      · cases h
  | _ => simp [callOn] at h

/-- a call lands on its own instance -/
theorem callOn_call_self {fns : List FnSpec} {fn : Nat} {spec : FnSpec} (hs : fns[fn]? = some spec)
    (th : Nat) (c : CallIn K V) : callOn fns (cacheIdOf spec fn th) (.call fn th c) = some c := by
  simp only [callOn, hs, if_true]

/-- the calls on `id` are calls of function `id.fn` occurring in the history -/
theorem mem_callsOn {fns : List FnSpec} {id : CacheId} {ops : List (SysOp K V × List Nat)} {c : CallIn K V}
    (h : c ∈ callsOn fns id ops) : ∃ p ∈ ops, ∃ th, p.1 = .call id.fn th c := by
  unfold callsOn at h
  obtain ⟨p, hp, hc⟩ := List.mem_filterMap.mp h
  obtain ⟨fn, th, spec, e1, _, e3⟩ := callOn_some hc
  refine ⟨p, hp, th, ?_⟩
  rw [e1, ← e3]; rfl

/-- an operation that does not land on `id` contributes no events -/
theorem tracesOn_cons_none {fns : List FnSpec} {id : CacheId} {p : SysOp K V × List Nat}
    (h : callOn fns id p.1 = none) (ops : List (SysOp K V × List Nat)) (o : SysOut K V) (outs : List (SysOut K V)) :
    tracesOn fns id (p :: ops) (o :: outs) = tracesOn fns id ops outs := by
  simp only [tracesOn, h, List.nil_append]

/-- a call on `id` contributes its trace -/
theorem tracesOn_cons_some {fns : List FnSpec} {id : CacheId} {p : SysOp K V × List Nat} {c : CallIn K V}
    (h : callOn fns id p.1 = some c) (ops : List (SysOp K V × List Nat)) (v : V) (tr : List (TraceEv K V))
    (outs : List (SysOut K V)) :
    tracesOn fns id (p :: ops) (.ret v tr :: outs) = tr ++ tracesOn fns id ops outs := by
  simp only [tracesOn, h]

section run2
variable (fns : List FnSpec) (tls : Nat → Tlru S) (size : V → Nat) (isOk : V → Bool) (rs : List Nat)
  (sys : Sys K V)

/-- a call that lands on `id` runs the wrapper of function `id.fn` on the state of `id` -/
theorem step_on {id : CacheId} {op : SysOp K V} {c : CallIn K V} (h : callOn fns id op = some c) :
    ∃ spec, fns[id.fn]? = some spec ∧
      (sysStep fns tls size isOk rs sys op).1.getCache id =
        (callFn spec (tls id.fn) size isOk rs (sys.getCache id) c).1 ∧
      (sysStep fns tls size isOk rs sys op).2 =
        .ret (callFn spec (tls id.fn) size isOk rs (sys.getCache id) c).2.1
             (callFn spec (tls id.fn) size isOk rs (sys.getCache id) c).2.2 := by
  obtain ⟨fn, th, spec, e1, e2, e3⟩ := callOn_some h
  have hfn : id.fn = fn := by rw [← e3]; rfl
  subst e1
  refine ⟨spec, hfn ▸ e2, ?_, ?_⟩
  · rw [getCache_call fns tls size isOk rs sys th c e2, e3, if_pos rfl, hfn]
  · rw [out_call fns tls size isOk rs sys th c e2, e3, hfn]

/-- a call that does not land on `id` leaves `id` alone -/
theorem step_off_call {id : CacheId} {fn th : Nat} {c : CallIn K V} (h : callOn fns id (.call fn th c) = none) :
    (sysStep fns tls size isOk rs sys (.call fn th c)).1.getCache id = sys.getCache id := by
  cases hs : fns[fn]? with
  | none => rw [sysStep_call_none fns tls size isOk rs sys th c hs]
  | some spec =>
    rw [getCache_call fns tls size isOk rs sys th c hs]
    simp only [callOn, hs] at h
    split at h
    · cases h
    · rename_i hne
      rw [if_neg (fun hh => hne hh.symm)]

/-- outside the registry invalidations, only a call on `id` changes the store of `id` -/
theorem store_noncall_noninval (op : SysOp K V) (hc : isCall op = false) (hi : isInvalidation op = false)
    (id : CacheId) :
    ((sysStep fns tls size isOk rs sys op).1.getCache id).store = (sys.getCache id).store ∧
    ((sysStep fns tls size isOk rs sys op).1.getCache id).queue = (sys.getCache id).queue := by
  cases op with
  | call fn th c => simp [isCall] at hc
  | tick ms => rw [getCache_tick]; exact ⟨rfl, rfl⟩
  | statsGet n => rw [sysStep_statsGet]; exact ⟨rfl, rfl⟩
  | statsReset n => rw [getCache_statsReset]; split <;> exact ⟨rfl, rfl⟩
  | _ => simp [isInvalidation] at hi

/-- no operation other than a call ever adds or alters an entry -/
theorem store_noncall_sub (op : SysOp K V) (hc : isCall op = false) (id : CacheId) :
    ∀ p, p ∈ ((sysStep fns tls size isOk rs sys op).1.getCache id).store → p ∈ (sys.getCache id).store := by
  by_cases hi : isInvalidation op = true
  · exact getCache_invalidation fns tls size isOk rs sys
      (R := fun s s' => ∀ p, p ∈ s'.store → p ∈ s.store) (fun _ _ h => h)
      (fun a b c h1 h2 p hp => h1 p (h2 p hp)) (fun s p hp => by simp [clear] at hp)
      (fun q s p hp => (List.mem_filter.mp hp).1) op hi id
  · rw [(store_noncall_noninval fns tls size isOk rs sys op hc (by simpa using hi) id).1]
    exact fun _ h => h

/-- registry invalidations never touch the counters -/
theorem stats_invalidation (op : SysOp K V) (hi : isInvalidation op = true) (id : CacheId) :
    ((sysStep fns tls size isOk rs sys op).1.getCache id).hitStat = (sys.getCache id).hitStat ∧
    ((sysStep fns tls size isOk rs sys op).1.getCache id).missStat = (sys.getCache id).missStat :=
  getCache_invalidation fns tls size isOk rs sys
    (R := fun s s' => s'.hitStat = s.hitStat ∧ s'.missStat = s.missStat) (fun _ => ⟨rfl, rfl⟩)
    (fun a b c h1 h2 => ⟨h2.1.trans h1.1, h2.2.trans h1.2⟩) (fun _ => ⟨rfl, rfl⟩) (fun _ _ => ⟨rfl, rfl⟩) op hi id

end run2

/-! ### C03: the plain configuration over whole histories -/

/-- store keys distinct, and the stored value of every key is the body value of the FIRST call with
    that key in `hist` (absent iff never called) -/
def PlainInv (hist : List (CallIn K V)) (m : Store K V) : Prop :=
  (keys m).Nodup ∧ ∀ k, (lookup k m).map (·.val) = firstVal hist k

/-- under `PlainInv` the stored keys are exactly the called keys -/
theorem PlainInv.mem_iff {hist : List (CallIn K V)} {m : Store K V} (h : PlainInv hist m) (k : K) :
    k ∈ keys m ↔ k ∈ hist.map (·.key) := by
  have h2 := h.2 k
  constructor
  · intro hk
    apply Classical.byContradiction; intro hn
    rw [(firstVal_none_iff hist k).mpr hn] at h2
    obtain ⟨e, he⟩ := lookup_isSome_of_mem_keys hk
    rw [he] at h2; cases h2
  · intro hk
    apply Classical.byContradiction; intro hn
    rw [(lookup_eq_none_iff k m).mpr hn] at h2
    exact (firstVal_none_iff hist k).mp h2.symm hk

/-- the empty store satisfies `PlainInv` for the empty history -/
theorem plainInv_nil : PlainInv ([] : List (CallIn K V)) ([] : Store K V) :=
  ⟨by simp, fun _ => rfl⟩

/-- one call in the plain configuration -/
theorem plain_callFn {spec : FnSpec} (hp : Plain spec) (tl : Tlru S) (size : V → Nat) (isOk : V → Bool)
    (rs : List Nat) (s : State K V) (c : CallIn K V) (hist : List (CallIn K V)) (h : PlainInv hist s.store) :
    PlainInv (hist ++ [c]) (callFn spec tl size isOk rs s c).1.store ∧
    bodyRuns (callFn spec tl size isOk rs s c).2.2 + (keys s.store).length =
      (keys (callFn spec tl size isOk rs s c).1.store).length ∧
    (∀ v, firstVal hist c.key = some v →
      (callFn spec tl size isOk rs s c).2 = (v, [TraceEv.returned v true])) ∧
    (firstVal hist c.key = none →
      (callFn spec tl size isOk rs s c).2 =
        (c.bodyVal, [TraceEv.bodyRun, TraceEv.stored c.key c.bodyVal, TraceEv.returned c.bodyVal false])) := by
  have hk := h.2 c.key
  cases hl : lookup c.key s.store with
  | none =>
    rw [hl] at hk
    obtain ⟨h1, h2⟩ := callFn_plain_miss hp tl size isOk rs s c hl
    have hnk : c.key ∉ keys s.store := (lookup_eq_none_iff _ _).mp hl
    refine ⟨⟨?_, ?_⟩, ?_, ?_, fun _ => h1⟩
    · rw [h2, keys_append, List.nodup_append]
      refine ⟨h.1, by simp, ?_⟩
      intro a ha b hb
      simp at hb; subst hb
      intro hab; subst hab; exact hnk ha
    · intro k'
      rw [h2, lookup_append, firstVal_append, ← h.2 k']
      cases lookup k' s.store with
      | some x => rfl
      | none =>
        simp only [lookup, Option.orElse_none, Option.map_none]
        by_cases hkk : c.key = k' <;> simp [hkk]
    · rw [h1, h2]; simp [bodyRuns, isBodyRun, List.countP_cons]; omega
    · intro v hv; rw [← hk] at hv; cases hv
  | some e =>
    rw [hl] at hk
    obtain ⟨h1, h2, h3⟩ := callFn_plain_hit hp tl size isOk rs s c hl
    refine ⟨⟨by rw [h2]; exact h.1, ?_⟩, ?_, ?_, ?_⟩
    · intro k'
      rw [h3 k', firstVal_append, h.2 k']
      cases hf : firstVal hist k' with
      | some x => rfl
      | none =>
        have hne : ¬ c.key = k' := by
          intro hh; rw [hh] at hk; rw [hf] at hk; cases hk
        simp [hne]
    · rw [h1, h2]; simp [bodyRuns, isBodyRun, List.countP_cons]
    · intro v hv
      rw [← hk] at hv
      simp only [Option.map_some, Option.some.injEq] at hv
      rw [← hv]; exact h1
    · intro hv; rw [← hk] at hv; cases hv

section run3
variable (fns : List FnSpec) (tls : Nat → Tlru S) (size : V → Nat) (isOk : V → Bool)

/-- **C03 over a history, from any state.**  In the plain configuration and without registry
    invalidations, the instance `id` always stores exactly the first body value of every key called on
    it, and every body execution adds exactly one key. -/
theorem plain_run {id : CacheId} {spec : FnSpec} (hspec : fns[id.fn]? = some spec) (hp : Plain spec)
    (ops : List (SysOp K V × List Nat)) (hno : ∀ p ∈ ops, isInvalidation p.1 = false)
    (sys : Sys K V) (hist : List (CallIn K V)) (hinv : PlainInv hist (sys.getCache id).store) :
    PlainInv (hist ++ callsOn fns id ops) ((sysRun fns tls size isOk sys ops).1.getCache id).store ∧
    runsOn fns id ops (sysRun fns tls size isOk sys ops).2 + (keys (sys.getCache id).store).length =
      (keys ((sysRun fns tls size isOk sys ops).1.getCache id).store).length := by
  induction ops generalizing sys hist with
  | nil =>
    refine ⟨?_, by simp [runsOn, tracesOn, bodyRuns, sysRun]⟩
    simp only [callsOn, List.filterMap_nil, List.append_nil, sysRun]
    exact hinv
  | cons p ops ih =>
    obtain ⟨op, rs⟩ := p
    have hno' : ∀ p ∈ ops, isInvalidation p.1 = false := fun p hp => hno p (List.mem_cons_of_mem _ hp)
    have hop : isInvalidation op = false := hno (op, rs) List.mem_cons_self
    rw [sysRun_cons]
    cases hc : callOn fns id op with
    | some c =>
      obtain ⟨spec', hs', e1, e2⟩ := step_on fns tls size isOk rs sys hc
      rw [hspec] at hs'; cases hs'
      obtain ⟨g1, g2, _, _⟩ := plain_callFn hp (tls id.fn) size isOk rs (sys.getCache id) c hist hinv
      rw [← e1] at g1 g2
      obtain ⟨i1, i2⟩ := ih hno' _ (hist ++ [c]) g1
      have hcs : callsOn fns id ((op, rs) :: ops) = c :: callsOn fns id ops := by
        simp only [callsOn, List.filterMap_cons, hc]
      refine ⟨?_, ?_⟩
      · rw [hcs]
        have : hist ++ c :: callsOn fns id ops = hist ++ [c] ++ callsOn fns id ops := by simp
        rw [this]; exact i1
      · simp only [e2, runsOn, tracesOn_cons_some (p := (op, rs)) hc, bodyRuns_append]
        simp only [runsOn] at i2
        omega
    | none =>
      have hst : ((sysStep fns tls size isOk rs sys op).1.getCache id).store = (sys.getCache id).store := by
        cases op with
        | call fn th c => rw [step_off_call fns tls size isOk rs sys hc]
        | _ => exact (store_noncall_noninval fns tls size isOk rs sys _ rfl hop id).1
      obtain ⟨i1, i2⟩ := ih hno' (sysStep fns tls size isOk rs sys op).1 hist (by rw [hst]; exact hinv)
      have hcs : callsOn fns id ((op, rs) :: ops) = callsOn fns id ops := by
        simp only [callsOn, List.filterMap_cons, hc]
      refine ⟨by rw [hcs]; exact i1, ?_⟩
      simp only [runsOn, tracesOn_cons_none (p := (op, rs)) hc]
      rw [hst] at i2
      exact i2

end run3

/-! ### Which instance a call lands on -/

/-- thread scope: the instance of thread `th` -/
theorem cacheIdOf_thread {spec : FnSpec} (h : spec.threadScope = true) (fn th : Nat) :
    cacheIdOf spec fn th = ⟨fn, some th⟩ := by simp [cacheIdOf, h]

/-- global scope / async: the one shared instance, whatever the thread -/
theorem cacheIdOf_shared {spec : FnSpec} (h : spec.threadScope = false) (fn th : Nat) :
    cacheIdOf spec fn th = ⟨fn, none⟩ := by simp [cacheIdOf, h]

/-- in the empty system every instance is untouched -/
theorem getCache_init (id : CacheId) : (Sys.init : Sys K V).getCache id = initAt 0 := rfl

/-- called keys of a concatenated history -/
theorem keysOn_append (fns : List FnSpec) (id : CacheId) (a b : List (SysOp K V × List Nat)) :
    keysOn fns id (a ++ b) = keysOn fns id a ++ keysOn fns id b := by
  simp [keysOn, callsOn, List.filterMap_append]

/-! ### C14: the instance of one thread depends on that thread's calls (and the clock) only -/

/-- operations that can touch instance `⟨fn, some t⟩` of a thread-scope function: calls of `fn` by
    thread `t`, and clock ticks -/
def isLocalOp (fn t : Nat) : SysOp K V → Bool
  | .call f th _ => f = fn && th = t
  | .tick _ => true
  | _ => false

/-- the sub-history of thread `t`'s calls to `fn`, with the ticks kept in place -/
def proj (fn t : Nat) (ops : List (SysOp K V × List Nat)) : List (SysOp K V × List Nat) :=
  ops.filter (fun p => isLocalOp fn t p.1)

/-- the outputs of the operations kept by `proj` -/
def projOuts (fn t : Nat) : List (SysOp K V × List Nat) → List (SysOut K V) → List (SysOut K V)
  | p :: ops, o :: outs => if isLocalOp fn t p.1 then o :: projOuts fn t ops outs else projOuts fn t ops outs
  | _, _ => []

section run4
variable (fns : List FnSpec) (tls : Nat → Tlru S) (size : V → Nat) (isOk : V → Bool)

/-- an operation that is not local to `⟨fn, some t⟩` leaves that instance exactly as it was -/
theorem nonlocal_frame {fn t : Nat} {spec : FnSpec} (hspec : fns[fn]? = some spec) (hts : spec.threadScope = true)
    (rs : List Nat) (sys : Sys K V) (op : SysOp K V) (hl : isLocalOp fn t op = false) :
    (sysStep fns tls size isOk rs sys op).1.getCache ⟨fn, some t⟩ = sys.getCache ⟨fn, some t⟩ := by
  cases op with
  | call f th c =>
    apply step_off_call
    simp only [callOn]
    cases hs : fns[f]? with
    | none => rfl
    | some spec' =>
      simp only
      split
      · rename_i hid
        have hf : f = fn := congrArg CacheId.fn hid
        subst hf
        rw [hspec] at hs; cases hs
        rw [cacheIdOf_thread hts] at hid
        have hth : th = t := by injection hid with _ h2; injection h2
        simp [isLocalOp, hth] at hl
      · rfl
  | tick ms => simp [isLocalOp] at hl
  | _ => exact getCache_thread_frame fns tls size isOk rs sys _ rfl (fun ms h => by cases h) _ (by simp)

/-- **Projection.**  Running a whole history and running only thread `t`'s calls to the thread-scope
    function `fn` (plus the ticks) produce the same state of instance `⟨fn, some t⟩` and the same outputs
    for those calls — from any two systems that agree on that instance. -/
theorem thread_proj {fn t : Nat} {spec : FnSpec} (hspec : fns[fn]? = some spec) (hts : spec.threadScope = true)
    (ops : List (SysOp K V × List Nat)) (sys1 sys2 : Sys K V)
    (h : sys1.getCache ⟨fn, some t⟩ = sys2.getCache ⟨fn, some t⟩) :
    (sysRun fns tls size isOk sys1 ops).1.getCache ⟨fn, some t⟩ =
      (sysRun fns tls size isOk sys2 (proj fn t ops)).1.getCache ⟨fn, some t⟩ ∧
    projOuts fn t ops (sysRun fns tls size isOk sys1 ops).2 = (sysRun fns tls size isOk sys2 (proj fn t ops)).2 := by
  induction ops generalizing sys1 sys2 with
  | nil => exact ⟨h, rfl⟩
  | cons p ops ih =>
    obtain ⟨op, rs⟩ := p
    by_cases hl : isLocalOp fn t op = true
    · have hp : proj fn t ((op, rs) :: ops) = (op, rs) :: proj fn t ops := by
        simp only [proj, List.filter_cons, hl, if_true]
      rw [hp, sysRun_cons, sysRun_cons]
      have hstep : (sysStep fns tls size isOk rs sys1 op).1.getCache ⟨fn, some t⟩ =
            (sysStep fns tls size isOk rs sys2 op).1.getCache ⟨fn, some t⟩ ∧
          (sysStep fns tls size isOk rs sys1 op).2 = (sysStep fns tls size isOk rs sys2 op).2 := by
        cases op with
        | call f th c =>
          simp only [isLocalOp, Bool.and_eq_true, decide_eq_true_eq] at hl
          obtain ⟨hf, hth⟩ := hl
          subst hf; subst hth
          have hc : callOn fns ⟨f, some th⟩ (.call f th c : SysOp K V) = some c := by
            rw [← cacheIdOf_thread hts f th]; exact callOn_call_self hspec th c
          obtain ⟨s1, hs1, a1, b1⟩ := step_on fns tls size isOk rs sys1 hc
          obtain ⟨s2, hs2, a2, b2⟩ := step_on fns tls size isOk rs sys2 hc
          rw [hs1] at hs2; cases hs2
          rw [a1, a2, b1, b2, h]; exact ⟨rfl, rfl⟩
        | tick ms => rw [getCache_tick, getCache_tick, h]; exact ⟨rfl, rfl⟩
        | _ => simp [isLocalOp] at hl
      obtain ⟨i1, i2⟩ := ih _ _ hstep.1
      refine ⟨i1, ?_⟩
      simp only [projOuts, hl, if_true]
      rw [i2, hstep.2]
    · have hl' : isLocalOp fn t op = false := by simpa using hl
      have hp : proj fn t ((op, rs) :: ops) = proj fn t ops := by
        simp only [proj, List.filter_cons, hl', Bool.false_eq_true, if_false]
      rw [hp, sysRun_cons]
      have hfr := nonlocal_frame fns tls size isOk hspec hts rs sys1 op hl'
      obtain ⟨i1, i2⟩ := ih (sysStep fns tls size isOk rs sys1 op).1 sys2 (hfr.trans h)
      refine ⟨i1, ?_⟩
      simp only [projOuts, hl', Bool.false_eq_true, if_false]
      exact i2

end run4

/-! ### C01(b): provenance of every stored and every served value, for all configurations -/

section run5
variable (fns : List FnSpec) (tls : Nat → Tlru S) (size : V → Nat) (isOk : V → Bool)

/-- one step, seen from instance `id`: entries satisfy `P0` or were handed to the engine by this very
    step (which then was a call on `id`) -/
theorem step_prov (id : CacheId) (rs : List Nat) (sys : Sys K V) (op : SysOp K V) (P0 : K → V → Prop)
    (h0 : AllP P0 (sys.getCache id).store) :
    AllP (fun k v => P0 k v ∨ TraceEv.stored k v ∈
        tracesOn fns id [(op, rs)] [(sysStep fns tls size isOk rs sys op).2])
      ((sysStep fns tls size isOk rs sys op).1.getCache id).store := by
  cases hc : callOn fns id op with
  | some c =>
    obtain ⟨spec, _, e1, e2⟩ := step_on fns tls size isOk rs sys hc
    rw [e1, e2, tracesOn_cons_some (p := (op, rs)) hc]
    simp only [tracesOn, List.append_nil]
    exact (callFn_prov spec (tls id.fn) size isOk rs (sys.getCache id) c h0).1
  | none =>
    apply AllP.mono (fun k v hk => Or.inl hk)
    cases op with
    | call fn th c => rw [step_off_call fns tls size isOk rs sys hc]; exact h0
    | _ => exact AllP.sub (store_noncall_sub fns tls size isOk rs sys _ rfl id) h0

/-- events of a history = events of its first operation ++ events of the rest -/
theorem tracesOn_cons_eq (id : CacheId) (p : SysOp K V × List Nat) (ops : List (SysOp K V × List Nat))
    (o : SysOut K V) (outs : List (SysOut K V)) :
    tracesOn fns id (p :: ops) (o :: outs) = tracesOn fns id [p] [o] ++ tracesOn fns id ops outs := by
  simp only [tracesOn, List.append_nil]

/-- **Provenance over a history.**  Every entry of instance `id` after a history either descends from an
    entry present at the start (`P0`) or carries a key/value pair that some call ON THAT INSTANCE handed to
    the engine (a `stored k v` event in the traces of the calls on `id`) — whatever the configurations,
    predicates, evictions, expirations and invalidations. -/
theorem run_prov (id : CacheId) (ops : List (SysOp K V × List Nat)) (sys : Sys K V) (P0 : K → V → Prop)
    (h0 : AllP P0 (sys.getCache id).store) :
    AllP (fun k v => P0 k v ∨ TraceEv.stored k v ∈ tracesOn fns id ops (sysRun fns tls size isOk sys ops).2)
      ((sysRun fns tls size isOk sys ops).1.getCache id).store := by
  induction ops generalizing sys P0 with
  | nil => exact AllP.mono (fun k v hk => Or.inl hk) h0
  | cons p ops ih =>
    obtain ⟨op, rs⟩ := p
    rw [sysRun_cons]
    have h1 := step_prov fns tls size isOk id rs sys op P0 h0
    have h2 := ih _ _ h1
    refine AllP.mono ?_ h2
    intro k v hk
    rw [tracesOn_cons_eq]
    rcases hk with (hk | hk) | hk
    · exact Or.inl hk
    · exact Or.inr (List.mem_append_left _ hk)
    · exact Or.inr (List.mem_append_right _ hk)

/-- a `stored k v` event in the traces of the calls on `id` comes from a call on `id` with key `k` whose
    body returned `v` -/
theorem stored_of_tracesOn (id : CacheId) (ops : List (SysOp K V × List Nat)) (sys : Sys K V) (k : K) (v : V)
    (h : TraceEv.stored k v ∈ tracesOn fns id ops (sysRun fns tls size isOk sys ops).2) :
    ∃ c ∈ callsOn fns id ops, c.key = k ∧ c.bodyVal = v := by
  induction ops generalizing sys with
  | nil => simp [tracesOn] at h
  | cons p ops ih =>
    obtain ⟨op, rs⟩ := p
    rw [sysRun_cons] at h
    cases hc : callOn fns id op with
    | some c =>
      obtain ⟨spec, _, e1, e2⟩ := step_on fns tls size isOk rs sys hc
      have hcs : callsOn fns id ((op, rs) :: ops) = c :: callsOn fns id ops := by
        simp only [callsOn, List.filterMap_cons, hc]
      simp only [e2, tracesOn_cons_some (p := (op, rs)) hc] at h
      rw [hcs]
      rcases List.mem_append.mp h with h | h
      · obtain ⟨g1, g2⟩ := (callFn_prov (P := fun _ _ => True) spec (tls id.fn) size isOk rs (sys.getCache id) c
          (fun _ _ => trivial)).2.1 k v h
        exact ⟨c, List.mem_cons_self, g1.symm, g2.symm⟩
      · obtain ⟨c', hc', g⟩ := ih _ h
        exact ⟨c', List.mem_cons_of_mem _ hc', g⟩
    | none =>
      have hcs : callsOn fns id ((op, rs) :: ops) = callsOn fns id ops := by
        simp only [callsOn, List.filterMap_cons, hc]
      rw [tracesOn_cons_none (p := (op, rs)) hc] at h
      rw [hcs]
      exact ih _ h

/-- from the empty system: every stored entry `(k, e)` of instance `id` was produced by a call on `id`
    with key `k` whose body returned `e.val` -/
theorem run_prov_init (id : CacheId) (ops : List (SysOp K V × List Nat)) :
    AllP (fun k v => ∃ c ∈ callsOn fns id ops, c.key = k ∧ c.bodyVal = v)
      ((sysRun fns tls size isOk (Sys.init : Sys K V) ops).1.getCache id).store := by
  have h := run_prov fns tls size isOk id ops Sys.init (fun _ _ => False) (AllP.nil _)
  refine AllP.mono ?_ h
  intro k v hk
  rcases hk with hk | hk
  · exact hk.elim
  · exact stored_of_tracesOn fns tls size isOk id ops Sys.init k v hk

end run5

/-! ### C15 (sequential): the counters of a shared cache -/

/-- the two counters of a cache -/
def ctr (s : State K V) : Nat × Nat := (s.hitStat, s.missStat)

/-- expected effect of one operation (with the output the model gave) on the counters `(hits, misses)`
    of function `i` whose cache name is `name`: a call of `i` counts one lookup — a hit iff the trace shows
    that the lookup returned a value; `statsReset name` zeroes; nothing else matters -/
def statUpd (i : Nat) (name : String) (acc : Nat × Nat) (op : SysOp K V) (out : SysOut K V) : Nat × Nat :=
  match op, out with
  | .call fn _ _, .ret _ tr =>
    if fn = i then (if lookupHit tr then (acc.1 + 1, acc.2) else (acc.1, acc.2 + 1)) else acc
  | .statsReset n, _ => if n = name then (0, 0) else acc
  | _, _ => acc

/-- `(hits, misses)` of function `i` expected after a history, computed from the history and its outputs
    only: lookups counted since the last `statsReset name` -/
def statsSince (i : Nat) (name : String) : Nat × Nat → List (SysOp K V × List Nat) → List (SysOut K V) → Nat × Nat
  | acc, p :: ops, o :: outs => statsSince i name (statUpd i name acc p.1 o) ops outs
  | acc, _, _ => acc

/-- number of calls of function `i` since the last `statsReset name` -/
def callsSince (i : Nat) (name : String) : Nat → List (SysOp K V × List Nat) → Nat
  | n, [] => n
  | n, p :: ops =>
    callsSince i name
      (match p.1 with
       | .call fn _ _ => if fn = i then n + 1 else n
       | .statsReset nm => if nm = name then 0 else n
       | _ => n) ops

/-- cache names of shared (global-scope / async) functions are pairwise distinct -/
def DistinctNames (fns : List FnSpec) : Prop :=
  ∀ (i j : Nat) (si sj : FnSpec), fns[i]? = some si → fns[j]? = some sj → si.threadScope = false → sj.threadScope = false →
    si.name = sj.name → i = j

/-- function `j` was called somewhere in the history -/
def calledIn (j : Nat) (ops : List (SysOp K V × List Nat)) : Prop :=
  ∃ p ∈ ops, ∃ th c, p.1 = SysOp.call j th c

section run6
variable (fns : List FnSpec) (tls : Nat → Tlru S) (size : V → Nat) (isOk : V → Bool)

/-- one step and the counters of the shared function `i` -/
theorem stats_step {i : Nat} {spec : FnSpec} (hspec : fns[i]? = some spec) (hts : spec.threadScope = false)
    (rs : List Nat) (sys : Sys K V) (op : SysOp K V)
    (hreg : sys.called.contains i = false → ctr (sys.getCache ⟨i, none⟩) = (0, 0)) :
    ctr ((sysStep fns tls size isOk rs sys op).1.getCache ⟨i, none⟩) =
      statUpd i spec.name (ctr (sys.getCache ⟨i, none⟩)) op (sysStep fns tls size isOk rs sys op).2 ∧
    ((sysStep fns tls size isOk rs sys op).1.called.contains i = false →
      ctr ((sysStep fns tls size isOk rs sys op).1.getCache ⟨i, none⟩) = (0, 0)) := by
  have hinvl : ∀ op : SysOp K V, isInvalidation op = true → isCall op = false →
      ctr ((sysStep fns tls size isOk rs sys op).1.getCache ⟨i, none⟩) =
        statUpd i spec.name (ctr (sys.getCache ⟨i, none⟩)) op (sysStep fns tls size isOk rs sys op).2 ∧
      ((sysStep fns tls size isOk rs sys op).1.called.contains i = false →
        ctr ((sysStep fns tls size isOk rs sys op).1.getCache ⟨i, none⟩) = (0, 0)) := by
    intro op hi hc
    rw [called_noncall fns tls size isOk rs sys op hc]
    have hst := stats_invalidation fns tls size isOk rs sys op hi ⟨i, none⟩
    have hsame : ctr ((sysStep fns tls size isOk rs sys op).1.getCache ⟨i, none⟩) = ctr (sys.getCache ⟨i, none⟩) := by
      simp only [ctr, hst.1, hst.2]
    rw [hsame]
    refine ⟨?_, hreg⟩
    cases op <;> first | rfl | (simp [isInvalidation] at hi)
  cases op with
  | call fn th c =>
    by_cases hfn : fn = i
    · subst hfn
      have hc : callOn fns ⟨fn, none⟩ (.call fn th c : SysOp K V) = some c := by
        rw [← cacheIdOf_shared hts fn th]; exact callOn_call_self hspec th c
      obtain ⟨s1, hs1, a1, b1⟩ := step_on fns tls size isOk rs sys hc
      rw [hspec] at hs1; cases hs1
      obtain ⟨g1, g2, _, g4⟩ := callFn_stats spec (tls fn) size isOk rs (sys.getCache ⟨fn, none⟩) c
      refine ⟨?_, ?_⟩
      · rw [a1, b1]
        simp only [statUpd, if_true, g4, ctr, g1, g2]
        cases found spec.cfg (sys.getCache ⟨fn, none⟩) c.key <;> simp
      · intro hcon
        rw [called_call fns tls size isOk rs sys th c hspec] at hcon
        simp only [hts, Bool.false_or] at hcon
        split at hcon
        · rename_i h'; rw [h'] at hcon; cases hcon
        · simp at hcon
    · have hoff : callOn fns ⟨i, none⟩ (.call fn th c : SysOp K V) = none := by
        simp only [callOn]
        cases hs : fns[fn]? with
        | none => rfl
        | some spec' =>
          simp only
          split
          · rename_i hid; exact absurd (congrArg CacheId.fn hid) hfn
          · rfl
      have hsame := step_off_call fns tls size isOk rs sys hoff
      rw [hsame]
      refine ⟨?_, ?_⟩
      · cases hs : fns[fn]? with
        | none => rw [sysStep_call_none fns tls size isOk rs sys th c hs]; rfl
        | some spec' =>
          rw [out_call fns tls size isOk rs sys th c hs]
          simp only [statUpd, hfn, if_false]
      · intro hcon
        apply hreg
        cases hs : fns[fn]? with
        | none => rw [sysStep_call_none fns tls size isOk rs sys th c hs] at hcon; exact hcon
        | some spec' =>
          rw [called_call fns tls size isOk rs sys th c hs] at hcon
          split at hcon
          · exact hcon
          · simp only [List.contains_cons, Bool.or_eq_false_iff] at hcon
            exact hcon.2
  | tick ms =>
    refine ⟨by rw [getCache_tick]; rfl, fun hcon => ?_⟩
    rw [getCache_tick]; exact hreg hcon
  | statsGet n =>
    rw [sysStep_statsGet]
    exact ⟨rfl, hreg⟩
  | statsReset n =>
    rw [called_noncall fns tls size isOk rs sys _ rfl, getCache_statsReset]
    have hmem := mem_statTargets fns sys n i
    by_cases hn : n = spec.name
    · subst hn
      cases hcon : sys.called.contains i with
      | true =>
        have hin : i ∈ statTargets fns sys spec.name := hmem.mpr ⟨spec, hspec, hts, hcon, rfl⟩
        rw [if_pos ⟨rfl, hin⟩]
        refine ⟨?_, fun h => by cases h⟩
        simp [statUpd, ctr]
      | false =>
        have hnin : i ∉ statTargets fns sys spec.name := by
          intro h; obtain ⟨_, _, _, h3, _⟩ := hmem.mp h; rw [hcon] at h3; cases h3
        rw [if_neg (fun h => hnin h.2)]
        refine ⟨?_, fun _ => hreg hcon⟩
        rw [hreg hcon]; simp [statUpd]
    · have hnin : i ∉ statTargets fns sys n := by
        intro h
        obtain ⟨spec', h1, _, _, h4⟩ := hmem.mp h
        rw [hspec] at h1; cases h1; exact hn h4.symm
      rw [if_neg (fun h => hnin h.2)]
      refine ⟨?_, hreg⟩
      simp [statUpd, hn]
  | invalidateByTag _ => exact hinvl _ rfl rfl
  | invalidateByEvent _ => exact hinvl _ rfl rfl
  | invalidateByDependency _ => exact hinvl _ rfl rfl
  | invalidateCache _ => exact hinvl _ rfl rfl
  | invalidateWith _ _ => exact hinvl _ rfl rfl
  | invalidateAllWith _ => exact hinvl _ rfl rfl

/-- **Counters over a history, from any state.**  The counters of the shared function `i` after a history
    are exactly `statsSince`, i.e. one count per call of `i` since the last reset of its name, a hit for
    every call whose lookup returned a value. -/
theorem stats_run {i : Nat} {spec : FnSpec} (hspec : fns[i]? = some spec) (hts : spec.threadScope = false)
    (ops : List (SysOp K V × List Nat)) (sys : Sys K V)
    (hreg : sys.called.contains i = false → ctr (sys.getCache ⟨i, none⟩) = (0, 0)) :
    ctr ((sysRun fns tls size isOk sys ops).1.getCache ⟨i, none⟩) =
      statsSince i spec.name (ctr (sys.getCache ⟨i, none⟩)) ops (sysRun fns tls size isOk sys ops).2 ∧
    ((sysRun fns tls size isOk sys ops).1.called.contains i = false →
      ctr ((sysRun fns tls size isOk sys ops).1.getCache ⟨i, none⟩) = (0, 0)) := by
  induction ops generalizing sys with
  | nil => exact ⟨rfl, hreg⟩
  | cons p ops ih =>
    obtain ⟨op, rs⟩ := p
    rw [sysRun_cons]
    obtain ⟨h1, h2⟩ := stats_step fns tls size isOk hspec hts rs sys op hreg
    obtain ⟨i1, i2⟩ := ih _ h2
    refine ⟨?_, i2⟩
    rw [i1, h1]; rfl

/-- hits + misses = number of calls since the last reset -/
theorem statsSince_total {i : Nat} {spec : FnSpec} (hspec : fns[i]? = some spec)
    (ops : List (SysOp K V × List Nat)) (sys : Sys K V) (acc : Nat × Nat) (n : Nat) (h : acc.1 + acc.2 = n) :
    (statsSince i spec.name acc ops (sysRun fns tls size isOk sys ops).2).1 +
      (statsSince i spec.name acc ops (sysRun fns tls size isOk sys ops).2).2 = callsSince i spec.name n ops := by
  induction ops generalizing sys acc n with
  | nil => exact h
  | cons p ops ih =>
    obtain ⟨op, rs⟩ := p
    rw [sysRun_cons]
    simp only [statsSince, callsSince]
    apply ih
    cases op with
    | call fn th c =>
      by_cases hfn : fn = i
      · subst hfn
        rw [out_call fns tls size isOk rs sys th c hspec]
        simp only [statUpd, if_true]
        split <;> simp only <;> omega
      · cases hs : fns[fn]? with
        | none => rw [sysStep_call_none fns tls size isOk rs sys th c hs]; simpa [statUpd, hfn] using h
        | some spec' =>
          rw [out_call fns tls size isOk rs sys th c hs]
          simpa [statUpd, hfn] using h
    | statsReset nm =>
      simp only [statUpd]
      by_cases hnm : nm = spec.name
      · simp only [hnm, if_true]
      · simp only [hnm, if_false]; exact h
    | _ => exact h

/-- which functions are registered after a history -/
theorem called_run (j : Nat) (ops : List (SysOp K V × List Nat)) (sys : Sys K V) :
    (sysRun fns tls size isOk sys ops).1.called.contains j = true ↔
      sys.called.contains j = true ∨
      (∃ spec, fns[j]? = some spec ∧ spec.threadScope = false ∧ calledIn j ops) := by
  induction ops generalizing sys with
  | nil => simp [sysRun, calledIn]
  | cons p ops ih =>
    obtain ⟨op, rs⟩ := p
    rw [sysRun_cons]
    simp only
    rw [ih]
    have hcons : ∀ (P : Prop), (calledIn j ((op, rs) :: ops) ↔ ((∃ th c, op = SysOp.call j th c) ∨ calledIn j ops)) := by
      intro _
      simp only [calledIn, List.mem_cons, exists_eq_or_imp]
    by_cases hcall : ∃ th c, op = SysOp.call j th c
    · obtain ⟨th, c, e⟩ := hcall
      subst e
      cases hs : fns[j]? with
      | none =>
        rw [sysStep_call_none fns tls size isOk rs sys th c hs]
        simp
      | some spec =>
        rw [called_call fns tls size isOk rs sys th c hs]
        cases hts : spec.threadScope with
        | true =>
          simp only [Bool.true_or, if_true, Option.some.injEq, exists_eq_left', hts, Bool.true_eq_false, false_and,
            or_false]
        | false =>
          simp only [Bool.false_or, Option.some.injEq, exists_eq_left', true_and, hcons True]
          by_cases hcon : sys.called.contains j = true
          · have hmem : j ∈ sys.called := by simpa using hcon
            simp [hcon, hmem]
          · have hmem : j ∉ sys.called := by simpa using hcon
            simp [hcon, hmem, hts]
    · have hsame : (sysStep fns tls size isOk rs sys op).1.called.contains j = sys.called.contains j := by
        cases op with
        | call fn th c =>
          have hne : ¬ fn = j := fun hh => hcall ⟨th, c, by rw [hh]⟩
          cases hs : fns[fn]? with
          | none => rw [sysStep_call_none fns tls size isOk rs sys th c hs]
          | some spec' =>
            rw [called_call fns tls size isOk rs sys th c hs]
            split
            · rfl
            · simp only [List.contains_cons]
              have : (j == fn) = false := by simp; exact fun hh => hne hh.symm
              rw [this, Bool.false_or]
        | _ => rw [called_noncall fns tls size isOk rs sys _ rfl]
      rw [hsame]
      have : calledIn j ((op, rs) :: ops) ↔ calledIn j ops := by
        rw [hcons True]; simp [hcall]
      simp only [this]

end run6

/-- a duplicate-free list all of whose members equal `i` and that contains `i` is `[i]` -/
theorem eq_singleton_of_nodup {l : List Nat} {i : Nat} (hn : l.Nodup) (hall : ∀ x ∈ l, x = i) (hi : i ∈ l) :
    l = [i] := by
  cases l with
  | nil => cases hi
  | cons a t =>
    have ha : a = i := hall a List.mem_cons_self
    cases t with
    | nil => rw [ha]
    | cons b t =>
      have hb : b = i := hall b (List.mem_cons_of_mem _ List.mem_cons_self)
      have := (List.nodup_cons.mp hn).1
      rw [ha, hb] at this
      exact absurd List.mem_cons_self this

/-- with distinct names, the registered function of a name is the only target of that name -/
theorem statTargets_registered {fns : List FnSpec} (hd : DistinctNames fns) (sys : Sys K V) {i : Nat} {spec : FnSpec}
    (hspec : fns[i]? = some spec) (hts : spec.threadScope = false) (hcon : sys.called.contains i = true) :
    statTargets fns sys spec.name = [i] := by
  apply eq_singleton_of_nodup (statTargets_nodup fns sys _)
  · intro x hx
    obtain ⟨spec', h1, h2, _, h4⟩ := (mem_statTargets fns sys spec.name x).mp hx
    exact hd x i spec' spec h1 hspec h2 hts h4
  · exact (mem_statTargets fns sys spec.name i).mpr ⟨spec, hspec, hts, hcon, rfl⟩

/-- no registered shared function of that name: no target -/
theorem statTargets_none {fns : List FnSpec} (sys : Sys K V) (name : String)
    (h : ¬ ∃ j spec, fns[j]? = some spec ∧ spec.threadScope = false ∧ sys.called.contains j = true ∧ spec.name = name) :
    statTargets fns sys name = [] := by
  cases hl : statTargets fns sys name with
  | nil => rfl
  | cons a t =>
    have ha : a ∈ statTargets fns sys name := by rw [hl]; exact List.mem_cons_self
    obtain ⟨spec, h1, h2, h3, h4⟩ := (mem_statTargets fns sys name a).mp ha
    exact absurd ⟨a, spec, h1, h2, h3, h4⟩ h

/-! ### Calls that land on the instance of one thread -/

/-- a key is stored iff some entry carries it -/
theorem mem_keys_iff (m : Store K V) (k : K) : k ∈ keys m ↔ ∃ e, (k, e) ∈ m := by
  simp only [keys, List.mem_map]
  constructor
  · rintro ⟨⟨k', e⟩, hp, rfl⟩; exact ⟨e, hp⟩
  · rintro ⟨e, hp⟩; exact ⟨(k, e), hp, rfl⟩

/-- the calls that land on `⟨fn, some t⟩` of a thread-scope function are calls of `fn` by thread `t` -/
theorem mem_callsOn_thread {fns : List FnSpec} {fn t : Nat} {spec : FnSpec} (hspec : fns[fn]? = some spec)
    (hts : spec.threadScope = true) {ops : List (SysOp K V × List Nat)} {c : CallIn K V}
    (h : c ∈ callsOn fns ⟨fn, some t⟩ ops) : ∃ p ∈ ops, p.1 = .call fn t c := by
  unfold callsOn at h
  obtain ⟨p, hp, hc⟩ := List.mem_filterMap.mp h
  obtain ⟨f, th, spec', e1, e2, e3⟩ := callOn_some hc
  have hf : f = fn := congrArg CacheId.fn e3
  subst hf
  rw [hspec] at e2; cases e2
  rw [cacheIdOf_thread hts] at e3
  have hth : th = t := by injection e3 with _ h2; injection h2
  subst hth
  exact ⟨p, hp, e1⟩

/-- every key stored in an instance was called on that instance (any configuration, any history) -/
theorem stored_keys_were_called (fns : List FnSpec) (tls : Nat → Tlru S) (size : V → Nat) (isOk : V → Bool)
    (id : CacheId) (ops : List (SysOp K V × List Nat)) (k : K)
    (hk : k ∈ keys ((sysRun fns tls size isOk (Sys.init : Sys K V) ops).1.getCache id).store) :
    k ∈ keysOn fns id ops := by
  obtain ⟨e, he⟩ := (mem_keys_iff _ k).mp hk
  obtain ⟨c, hc, h1, _⟩ := run_prov_init fns tls size isOk id ops (k, e) he
  simp only [keysOn, List.mem_map]
  exact ⟨c, hc, h1⟩

end Cachelito.Calls
