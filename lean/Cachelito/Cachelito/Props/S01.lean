/-
  S01 — SOURCE-LEVEL COROLLARIES: property theorems stated directly about the TRANSLATED code (C01, C04, C06, C09, C12, C13)

  The `T`-theorems say "translated function = model definition"; the `C`-theorems are about the model.  This file composes
  them, so that the statement a user cares about is a theorem about the definitions `checklib/rust2lean.py` reads off /repo's
  CURRENT source on every check (`Generated/Pure*.lean`) — no hand-written model appears in the statements below.
    * C04: one plain `insert` on a consistent cache within its limit leaves exactly `min(limit, entries + [key is new])`
      entries — never more than the limit, exactly one victim per overflow — for the sync global, thread-local and async engine.
    * C06: a lookup of an entry whose age has reached the ttl returns nothing, and afterwards the key is neither stored nor
      queued (it no longer occupies capacity); every other entry is untouched.
    * C09: the wrapper generated for a `Result` function without `cache_if` leaves the cache exactly as its lookup left it when the
      body returns `Err` (sync: whatever `cache_if` says).
    * C12 / C13: whatever callbacks a group request runs (T20), each empties its cache (T19); a conditional request hands every
      cache's callback the predicate specialised to that cache, and the callback removes exactly the entries it selects.
-/
import Cachelito.Props.C04
import Cachelito.Props.C06
import Cachelito.Props.C05
import Cachelito.Props.C07
import Cachelito.Props.C08
import Cachelito.Props.C15
import Cachelito.Props.T17m
import Cachelito.Props.T18
import Cachelito.Props.T19
import Cachelito.Props.T20

set_option linter.unusedSimpArgs false
set_option linter.unusedVariables false
set_option linter.unusedSectionVars false

namespace Cachelito.S01
open Cachelito Cachelito.RustLite Cachelito.Generated

variable {K V F E T : Type} [DecidableEq K]


/-! ## Global engine -/

/-- **C04 on the translated `Global.insert`** -/
theorem global_insert_exact (A : F64 F) (c : GlobalCache K V F) (now r : Nat) (k : K) (v : V) (n : Nat)
    (ok : T08.ScoresOK A c) (hl : c.limit = some n) (hn : 1 ≤ n)
    (hi : Inv (⟨c.map, c.order, now, 0, 0⟩ : State K V)) (hb : c.map.length ≤ n) :
    (Global.insert A ⟨fun b => now - b, now⟩ r c k v).map.length = min n (C04.sizeWith k c.map) ∧
    (Global.insert A ⟨fun b => now - b, now⟩ r c k v).map.length ≤ n := by
  rw [T08.insert_eq A c now r 0 0 k v ok]
  have h := C04.insert_exact (T08.cfgOf c) (T02.srcTlru A c.frequency_weight) r (⟨c.map, c.order, now, 0, 0⟩ : State K V) k v n
    (by simpa [T08.cfgOf] using hl) hn hi hb
  exact ⟨h, by rw [h]; exact Nat.min_le_left _ _⟩

/-- **C06 on the translated `Global.get`**: an entry whose age has reached the ttl is not served and is purged from store AND queue -/
theorem global_get_expired (c : GlobalCache K V F) (now : Nat) (k : K) (e : Entry V) (T' : Nat)
    (hmax : ∀ p, p ∈ c.map → p.2.hits < u64Max) (ht : c.ttl = some T')
    (hi : Inv (⟨c.map, c.order, now, c.stats.hits, c.stats.misses⟩ : State K V))
    (hl : lookup k c.map = some e) (hage : now - e.birth ≥ 1000 * T') :
    (Global.get ⟨fun b => now - b, now⟩ c k).1 = none ∧
    k ∉ keys (Global.get ⟨fun b => now - b, now⟩ c k).2.map ∧ k ∉ (Global.get ⟨fun b => now - b, now⟩ c k).2.order ∧
    (Global.get ⟨fun b => now - b, now⟩ c k).2.map = eraseKey k c.map ∧
    (Global.get ⟨fun b => now - b, now⟩ c k).2.stats.misses = c.stats.misses + 1 := by
  rw [T09.get_eq c now k hmax]
  obtain ⟨h1, h2, h3, h4, _, _, h7, _⟩ := C06.expired_never_served (T08.cfgOf c) T'
    (by simpa [T08.cfgOf] using ht) (⟨c.map, c.order, now, c.stats.hits, c.stats.misses⟩ : State K V) hi k e hl hage
  exact ⟨h1, h2, h3, h4, h7⟩


/-! ## Thread engine -/

/-- **C04 on the translated `Thread.insert`** -/
theorem thread_insert_exact (A : F64 F) (c : ThreadCache K V F) (now r : Nat) (k : K) (v : V) (n : Nat)
    (ok : T11.ScoresOK A c) (hl : c.limit = some n) (hn : 1 ≤ n)
    (hi : Inv (⟨c.cache, c.order, now, 0, 0⟩ : State K V)) (hb : c.cache.length ≤ n) :
    (Thread.insert A ⟨fun b => now - b, now⟩ r c k v).cache.length = min n (C04.sizeWith k c.cache) ∧
    (Thread.insert A ⟨fun b => now - b, now⟩ r c k v).cache.length ≤ n := by
  rw [T11.insert_eq A c now r 0 0 k v ok]
  have h := C04.insert_exact (T11.cfgOf c) (T02.srcTlru A c.frequency_weight) r (⟨c.cache, c.order, now, 0, 0⟩ : State K V) k v n
    (by simpa [T11.cfgOf] using hl) hn hi hb
  exact ⟨h, by rw [h]; exact Nat.min_le_left _ _⟩

/-- **C06 on the translated `Thread.get`**: an entry whose age has reached the ttl is not served and is purged from store AND queue -/
theorem thread_get_expired (c : ThreadCache K V F) (now : Nat) (k : K) (e : Entry V) (T' : Nat)
    (hmax : ∀ p, p ∈ c.cache → p.2.hits < u64Max) (ht : c.ttl = some T')
    (hi : Inv (⟨c.cache, c.order, now, c.stats.hits, c.stats.misses⟩ : State K V))
    (hl : lookup k c.cache = some e) (hage : now - e.birth ≥ 1000 * T') :
    (Thread.get ⟨fun b => now - b, now⟩ c k).1 = none ∧
    k ∉ keys (Thread.get ⟨fun b => now - b, now⟩ c k).2.cache ∧ k ∉ (Thread.get ⟨fun b => now - b, now⟩ c k).2.order ∧
    (Thread.get ⟨fun b => now - b, now⟩ c k).2.cache = eraseKey k c.cache ∧
    (Thread.get ⟨fun b => now - b, now⟩ c k).2.stats.misses = c.stats.misses + 1 := by
  rw [T12.get_eq c now k hmax]
  obtain ⟨h1, h2, h3, h4, _, _, h7, _⟩ := C06.expired_never_served (T11.cfgOf c) T'
    (by simpa [T11.cfgOf] using ht) (⟨c.cache, c.order, now, c.stats.hits, c.stats.misses⟩ : State K V) hi k e hl hage
  exact ⟨h1, h2, h3, h4, h7⟩


/-! ## Async engine -/

/-- **C04 on the translated `Async.insert`** -/
theorem async_insert_exact (A : F64 F) (c : AsyncCache K V F) (now r : Nat) (k : K) (v : V) (n : Nat)
    (ok : T07.ScoresOK A c) (hl : c.limit = some n) (hn : 1 ≤ n)
    (hi : Inv (⟨c.cache, c.order, now, 0, 0⟩ : State K V)) (hb : c.cache.length ≤ n) :
    (Async.insert A ⟨fun _ => 0, now⟩ r c k v).cache.length = min n (C04.sizeWith k c.cache) ∧
    (Async.insert A ⟨fun _ => 0, now⟩ r c k v).cache.length ≤ n := by
  rw [T07.insert_eq A c now r 0 0 k v ok]
  have h := C04.insert_exact (T06.cfgOf c) (T06.srcTlruAsync A c.frequency_weight) r (⟨c.cache, c.order, now, 0, 0⟩ : State K V) k v n
    (by simpa [T06.cfgOf] using hl) hn hi hb
  exact ⟨h, by rw [h]; exact Nat.min_le_left _ _⟩

/-- **C06 on the translated `Async.get`**: an entry whose age has reached the ttl is not served and is purged from store AND queue -/
theorem async_get_expired (c : AsyncCache K V F) (now : Nat) (k : K) (e : Entry V) (T' : Nat)
    (hmax : ∀ p, p ∈ c.cache → p.2.hits < u64Max) (ht : c.ttl = some T')
    (hi : Inv (⟨c.cache, c.order, now, c.stats.hits, c.stats.misses⟩ : State K V))
    (hl : lookup k c.cache = some e) (hage : now - e.birth ≥ 1000 * T') :
    (Async.get ⟨fun _ => 0, now⟩ c k).1 = none ∧
    k ∉ keys (Async.get ⟨fun _ => 0, now⟩ c k).2.cache ∧ k ∉ (Async.get ⟨fun _ => 0, now⟩ c k).2.order ∧
    (Async.get ⟨fun _ => 0, now⟩ c k).2.cache = eraseKey k c.cache ∧
    (Async.get ⟨fun _ => 0, now⟩ c k).2.stats.misses = c.stats.misses + 1 := by
  rw [T10.get_eq c now k hmax]
  obtain ⟨h1, h2, h3, h4, _, _, h7, _⟩ := C06.expired_never_served (T06.cfgOf c) T'
    (by simpa [T06.cfgOf] using ht) (⟨c.cache, c.order, now, c.stats.hits, c.stats.misses⟩ : State K V) hi k e hl hage
  exact ⟨h1, h2, h3, h4, h7⟩


/-! ## C05 on the translated `insert_with_memory` (memory bound after every completed store) -/

/-- **sync global**: with `max_memory = M`, a consistent cache whose values fit, after `insert_with_memory` (the source's loop run
    with the model's fuel) the estimated sizes of the cached values sum to at most `M` — whatever the value, policy, limit, draws -/
theorem global_insert_with_memory_bound (A : F64 F) (c : GlobalCache K V F) (size : V → Nat) (now : Nat) (rs : List Nat)
    (k : K) (v : V) (M : Nat) (ok : T08.ScoresOK A c) (hM : c.max_memory = some M)
    (hi : Inv (⟨c.map, c.order, now, 0, 0⟩ : State K V)) (hb : totalMem size c.map ≤ M) :
    totalMem size (Global.insert_with_memory A ⟨fun b => now - b, now⟩ size (T17m.memFuelG c k) rs c k v).map ≤ M := by
  unfold T17m.memFuelG
  rw [(T14.insert_with_memory_model A c size now 0 0 rs k v ok).1]
  exact C05.insertMem_bound (T08.cfgOf c) (T02.srcTlru A c.frequency_weight) size rs ⟨c.map, c.order, now, 0, 0⟩ k v M
    (by simpa [T08.cfgOf] using hM) hi hb

/-- **thread-local** -/
theorem thread_insert_with_memory_bound (A : F64 F) (c : ThreadCache K V F) (size : V → Nat) (now : Nat) (rs : List Nat)
    (k : K) (v : V) (M : Nat) (ok : T11.ScoresOK A c) (hM : c.max_memory = some M)
    (hi : Inv (⟨c.cache, c.order, now, 0, 0⟩ : State K V)) (hb : totalMem size c.cache ≤ M) :
    totalMem size (Thread.insert_with_memory A ⟨fun b => now - b, now⟩ size (T17m.memFuelT c k) rs c k v).cache ≤ M := by
  unfold T17m.memFuelT
  rw [(T15.insert_with_memory_model A c size now 0 0 rs k v ok).1]
  exact C05.insertMem_bound (T11.cfgOf c) (T02.srcTlru A c.frequency_weight) size rs ⟨c.cache, c.order, now, 0, 0⟩ k v M
    (by simpa [T11.cfgOf] using hM) hi hb

/-- **async** -/
theorem async_insert_with_memory_bound (A : F64 F) (c : AsyncCache K V F) (size : V → Nat) (now : Nat) (rs : List Nat)
    (k : K) (v : V) (M : Nat) (ok : T07.ScoresOK A c) (hM : c.max_memory = some M)
    (hi : Inv (⟨c.cache, c.order, now, 0, 0⟩ : State K V)) (hb : totalMem size c.cache ≤ M) :
    totalMem size (Async.insert_with_memory A ⟨fun _ => 0, now⟩ size (T18.memFuel c k) rs c k v).cache ≤ M := by
  unfold T18.memFuel
  rw [(T16.insert_with_memory_model A c size now 0 0 rs k v ok).1]
  exact C05.insertMem_bound (T06.cfgOf c) (T06.srcTlruAsync A c.frequency_weight) size rs ⟨c.cache, c.order, now, 0, 0⟩ k v M
    (by simpa [T06.cfgOf] using hM) hi hb

/-- a value that is larger than `max_memory` on its own is not cached by the sync engine: the key is absent afterwards (C05 (3)) -/
theorem global_oversize_not_cached (A : F64 F) (c : GlobalCache K V F) (size : V → Nat) (now : Nat) (rs : List Nat)
    (k : K) (v : V) (M : Nat) (ok : T08.ScoresOK A c) (hM : c.max_memory = some M)
    (hi : Inv (⟨c.map, c.order, now, 0, 0⟩ : State K V)) (hov : size v > M) :
    lookup k (Global.insert_with_memory A ⟨fun b => now - b, now⟩ size (T17m.memFuelG c k) rs c k v).map = none := by
  unfold T17m.memFuelG
  rw [(T14.insert_with_memory_model A c size now 0 0 rs k v ok).1]
  exact C05.oversize_not_cached (T08.cfgOf c) (T02.srcTlru A c.frequency_weight) size rs ⟨c.map, c.order, now, 0, 0⟩ k v M
    (by simpa [T08.cfgOf] using hM) hi hov

/-! ## C07 on the translated `insert` (FIFO / LRU evict what was stored / used longest ago) -/

/-- **sync global**: on a consistent FIFO or LRU cache whose queue (after the key's re-queue) is sorted by a stamp `f` — store
    time for FIFO, last use for LRU —, every key the plain `insert` evicts has a strictly smaller stamp than every key that
    survives it -/
theorem global_insert_victim_oldest (A : F64 F) (c : GlobalCache K V F) (now r : Nat) (k : K) (v : V)
    (ok : T08.ScoresOK A c) (hp : c.policy = .fifo ∨ c.policy = .lru)
    (hi : Inv (⟨c.map, c.order, now, 0, 0⟩ : State K V)) (f : K → Nat)
    (hs : (erasePush k c.order).Pairwise (fun a b => f a < f b)) :
    ∀ x y, x ∈ keys (put k ⟨v, now, 0⟩ c.map) → x ∉ keys (Global.insert A ⟨fun b => now - b, now⟩ r c k v).map →
      y ∈ keys (Global.insert A ⟨fun b => now - b, now⟩ r c k v).map → f x < f y := by
  rw [T08.insert_eq A c now r 0 0 k v ok]
  have h := C07.limit_victim_is_oldest (T08.cfgOf c) (by simpa [T08.cfgOf] using hp) (T02.srcTlru A c.frequency_weight) now r
    (put k ⟨v, now, 0⟩ c.map) (erasePush k c.order) (InvMQ.put_erasePush hi k ⟨v, now, 0⟩) f hs
  simpa [Cachelito.insert, T08.cfgOf, stamp] using h

/-! ## C08 on the translated victim scans (LFU evicts an entry with the fewest successful lookups) -/

/-- **sync engines** (`utils.rs` `find_min_frequency_key`, used by the global and the thread-local cache): on a consistent
    store, the key the translated scan returns is stored and no stored entry has fewer hits -/
theorem utils_lfu_scan_min_hits (m : Store K V) (q : List K) (hi : InvMQ m q)
    (hmax : ∀ k e, lookup k m = some e → e.hits < u64Max) {x : K}
    (h : Utils.find_min_frequency_key m q = some x) : MinHits m x := by
  rw [T02.find_min_frequency_key_eq (⟨.global, .lfu, none, none, none⟩ : Cfg) (T02.srcTlru T02.natTop none) 0 rfl m q hmax] at h
  exact C08.lfu_victim_min_hits (cfg := ⟨.global, .lfu, none, none, none⟩) rfl hi h

/-- **async engine** (`AsyncGlobalCache::find_min_frequency_key`) -/
theorem async_lfu_scan_min_hits (c : AsyncCache K V F) (tl : Tlru F) (q : List K) (hp : c.policy = .lfu)
    (hi : InvMQ c.cache q) (hmax : ∀ k e, lookup k c.cache = some e → e.hits < u64Max) {x : K}
    (h : Async.find_min_frequency_key c q = some x) : MinHits c.cache x := by
  rw [T06.find_min_frequency_key_eq c tl 0 hp q hmax] at h
  exact C08.lfu_victim_min_hits (cfg := T06.cfgOf c) (by simpa [T06.cfgOf] using hp) hi h

/-! ## C15 on the translated `get` (every lookup counts exactly once: a hit iff it returned a value) -/

/-- **sync global** -/
theorem global_get_counts_once (c : GlobalCache K V F) (now : Nat) (k : K) (hmax : ∀ p, p ∈ c.map → p.2.hits < u64Max) :
    ((∃ v, (Global.get ⟨fun b => now - b, now⟩ c k).1 = some v) ∧
        (Global.get ⟨fun b => now - b, now⟩ c k).2.stats.hits = c.stats.hits + 1 ∧
        (Global.get ⟨fun b => now - b, now⟩ c k).2.stats.misses = c.stats.misses) ∨
    ((Global.get ⟨fun b => now - b, now⟩ c k).1 = none ∧
        (Global.get ⟨fun b => now - b, now⟩ c k).2.stats.hits = c.stats.hits ∧
        (Global.get ⟨fun b => now - b, now⟩ c k).2.stats.misses = c.stats.misses + 1) := by
  rw [T09.get_eq c now k hmax]
  exact C15.get_counts_once (T08.cfgOf c) ⟨c.map, c.order, now, c.stats.hits, c.stats.misses⟩ k

/-- **async** -/
theorem async_get_counts_once (c : AsyncCache K V F) (now : Nat) (k : K) (hmax : ∀ p, p ∈ c.cache → p.2.hits < u64Max) :
    ((∃ v, (Async.get ⟨fun _ => 0, now⟩ c k).1 = some v) ∧
        (Async.get ⟨fun _ => 0, now⟩ c k).2.stats.hits = c.stats.hits + 1 ∧
        (Async.get ⟨fun _ => 0, now⟩ c k).2.stats.misses = c.stats.misses) ∨
    ((Async.get ⟨fun _ => 0, now⟩ c k).1 = none ∧
        (Async.get ⟨fun _ => 0, now⟩ c k).2.stats.hits = c.stats.hits ∧
        (Async.get ⟨fun _ => 0, now⟩ c k).2.stats.misses = c.stats.misses + 1) := by
  rw [T10.get_eq c now k hmax]
  exact C15.get_counts_once (T06.cfgOf c) ⟨c.cache, c.order, now, c.stats.hits, c.stats.misses⟩ k

/-! ## C01 / C03 / C10 / C11 on the generated wrappers -/

/-- C01 / C03 (configuration 0000, sync global): a hit is served — the cached value is returned, the body's value is not
    used, nothing is stored -/
theorem wrapGlobal_0000_hit (A : F64 F) (clock : Clock) (size : V → Nat) (fuel : Nat) (rs : List Nat)
    (io ci : K → V → Bool) (c : GlobalCache K V F) (key : K) (body cached : V)
    (hhit : (Global.get clock c key).1 = some cached) :
    Wrap.wrapGlobal_0000 A clock size fuel rs io ci c key body = (cached, (Global.get clock c key).2) := by
  rw [T17.wrapGlobal_0000_eq]
  exact T17.wrapGen_hit _ false false io ci c key body cached hhit (Or.inl rfl)

/-- C10 (configuration 0001, sync global): a result `cache_if` rejects is returned and NOT stored — the cache is as the lookup
    left it, so the next call for the key misses again -/
theorem wrapGlobal_0001_rejected (A : F64 F) (clock : Clock) (size : V → Nat) (fuel : Nat) (rs : List Nat)
    (io ci : K → V → Bool) (c : GlobalCache K V F) (key : K) (body : V)
    (hmiss : (Global.get clock c key).1 = none) (hrej : ci key body = false) :
    Wrap.wrapGlobal_0001 A clock size fuel rs io ci c key body = (body, (Global.get clock c key).2) := by
  rw [T17.wrapGlobal_0001_eq]
  unfold T17.wrapGen
  simp [hmiss, hrej]

/-- C10: … and an accepted one is handed to the engine's `insert` -/
theorem wrapGlobal_0001_accepted (A : F64 F) (clock : Clock) (size : V → Nat) (fuel : Nat) (rs : List Nat)
    (io ci : K → V → Bool) (c : GlobalCache K V F) (key : K) (body : V)
    (hmiss : (Global.get clock c key).1 = none) (hacc : ci key body = true) :
    Wrap.wrapGlobal_0001 A clock size fuel rs io ci c key body =
      (body, Global.insert A clock (headRand rs) (Global.get clock c key).2 key body) := by
  rw [T17.wrapGlobal_0001_eq]
  unfold T17.wrapGen
  simp [hmiss, hacc]

/-- C10, async (configuration 0001): the same -/
theorem wrapAsync_0001_rejected (A : F64 F) (clock : Clock) (size : V → Nat) (fuel : Nat) (rs : List Nat)
    (io ci : K → V → Bool) (c : AsyncCache K V F) (key : K) (body : V)
    (hmiss : (Async.get clock c key).1 = none) (hrej : ci key body = false) :
    WrapAsync.wrapAsync_0001 A clock size fuel rs io ci c key body = (body, (Async.get clock c key).2) := by
  rw [T18.wrapAsync_0001_eq]
  unfold T17.wrapGen
  simp [hmiss, hrej]

/-- C11 (configuration 0010, sync global): a cached entry `invalidate_on` calls stale is NOT served: the body's value is
    returned and stored in its place -/
theorem wrapGlobal_0010_stale (A : F64 F) (clock : Clock) (size : V → Nat) (fuel : Nat) (rs : List Nat)
    (io ci : K → V → Bool) (c : GlobalCache K V F) (key : K) (body cached : V)
    (hhit : (Global.get clock c key).1 = some cached) (hstale : io key cached = true) :
    Wrap.wrapGlobal_0010 A clock size fuel rs io ci c key body =
      (body, Global.insert A clock (headRand rs) (Global.get clock c key).2 key body) := by
  rw [T17.wrapGlobal_0010_eq]
  unfold T17.wrapGen
  simp [hhit, hstale]

/-- C11: … and one it calls valid is served without using the body's value -/
theorem wrapGlobal_0010_valid (A : F64 F) (clock : Clock) (size : V → Nat) (fuel : Nat) (rs : List Nat)
    (io ci : K → V → Bool) (c : GlobalCache K V F) (key : K) (body cached : V)
    (hhit : (Global.get clock c key).1 = some cached) (hvalid : io key cached = false) :
    Wrap.wrapGlobal_0010 A clock size fuel rs io ci c key body = (cached, (Global.get clock c key).2) := by
  rw [T17.wrapGlobal_0010_eq]
  exact T17.wrapGen_hit _ true false io ci c key body cached hhit (Or.inr hvalid)

/-- C11, async (configuration 0010): a stale entry is recomputed and REPLACED (the defect F1 kept the old value) -/
theorem wrapAsync_0010_stale (A : F64 F) (clock : Clock) (size : V → Nat) (fuel : Nat) (rs : List Nat)
    (io ci : K → V → Bool) (c : AsyncCache K V F) (key : K) (body cached : V)
    (hhit : (Async.get clock c key).1 = some cached) (hstale : io key cached = true) :
    WrapAsync.wrapAsync_0010 A clock size fuel rs io ci c key body =
      (body, Async.insert A clock (headRand rs) (Async.get clock c key).2 key body) := by
  rw [T18.wrapAsync_0010_eq]
  unfold T17.wrapGen
  simp [hhit, hstale]

/-! ## C09 on the generated wrappers -/

/-- sync global, `Result`, no `cache_if` (configuration 0100): an `Err` leaves the cache as the lookup left it -/
theorem wrapGlobal_0100_err (A : F64 F) (clock : Clock) (size : Except E T → Nat) (fuel : Nat) (rs : List Nat)
    (io ci : K → Except E T → Bool) (c : GlobalCache K (Except E T) F) (key : K) (e : E)
    (hmiss : (Global.get clock c key).1 = none) :
    Wrap.wrapGlobal_0100 A clock size fuel rs io ci c key (.error e) = (.error e, (Global.get clock c key).2) := by
  rw [T17.wrapGlobal_0100_eq]
  unfold T17.wrapGen
  simp [hmiss, T13.global_insert_result_err]

/-- sync global, `Result` WITH `cache_if` and `max_memory` (configuration 1101): an `Err` is not stored even when `cache_if` accepts it -/
theorem wrapGlobal_1101_err (A : F64 F) (clock : Clock) (size : Except E T → Nat) (fuel : Nat) (rs : List Nat)
    (io ci : K → Except E T → Bool) (c : GlobalCache K (Except E T) F) (key : K) (e : E)
    (hmiss : (Global.get clock c key).1 = none) :
    Wrap.wrapGlobal_1101 A clock size fuel rs io ci c key (.error e) = (.error e, (Global.get clock c key).2) := by
  rw [T17.wrapGlobal_1101_eq]
  unfold T17.wrapGen
  simp [hmiss, T17m.global_insert_result_with_memory_err]

/-- async, `Result`, no `cache_if` (configuration 0100): an `Err` leaves the cache as the lookup left it -/
theorem wrapAsync_0100_err (A : F64 F) (clock : Clock) (size : Except E T → Nat) (fuel : Nat) (rs : List Nat)
    (io ci : K → Except E T → Bool) (c : AsyncCache K (Except E T) F) (key : K) (e : E)
    (hmiss : (Async.get clock c key).1 = none) :
    WrapAsync.wrapAsync_0100 A clock size fuel rs io ci c key (.error e) = (.error e, (Async.get clock c key).2) := by
  rw [T18.wrapAsync_0100_eq]
  unfold T17.wrapGen T18.okOnly
  simp [hmiss, RustLite.isOk]

/-- … and the `Ok` of a later call IS handed to the engine's store -/
theorem wrapAsync_0100_ok (A : F64 F) (clock : Clock) (size : Except E T → Nat) (fuel : Nat) (rs : List Nat)
    (io ci : K → Except E T → Bool) (c : AsyncCache K (Except E T) F) (key : K) (v : T)
    (hmiss : (Async.get clock c key).1 = none) :
    WrapAsync.wrapAsync_0100 A clock size fuel rs io ci c key (.ok v) =
      (.ok v, Async.insert A clock (headRand rs) (Async.get clock c key).2 key (.ok v)) := by
  rw [T18.wrapAsync_0100_eq]
  unfold T17.wrapGen T18.okOnly
  simp [hmiss, RustLite.isOk]

/-! ## C12 / C13: registry and callbacks together -/

/-- the state of the caches a request touches: cache name ↦ engine state; running the clear callback with identifier `id`
    empties the cache registered under it -/
def runClear (caches : Nat → GlobalCache K V F) (ids : List Nat) : Nat → GlobalCache K V F :=
  fun i => if i ∈ ids then Global.macro_clear_callback (caches i) else caches i

/-- **C12 on the translated registry + callbacks**: after `invalidate_by_tag`, every cache whose callback the request ran holds
    nothing and tracks nothing; every other cache is untouched; the returned count is the number of callbacks run -/
theorem by_tag_empties (st : RegistrySt) (t : String) (caches : Nat → GlobalCache K V F) :
    let r := Generated.Registry.invalidate_by_tag st t
    r.1 = r.2.length ∧
    (∀ i, i ∈ r.2 → (runClear caches r.2 i).map = [] ∧ (runClear caches r.2 i).order = []) ∧
    (∀ i, i ∉ r.2 → runClear caches r.2 i = caches i) := by
  simp only [Generated.Registry.invalidate_by_tag, T20.invalidate_caches_eq]
  refine ⟨trivial, ?_, ?_⟩
  · intro i hi
    simp [runClear, hi, T19.global_clear_callback_eq]
  · intro i hi
    simp [runClear, hi]

/-- **C13 on the translated registry + callbacks**: `invalidate_all_with p` removes from the cache registered under `(name, id)`
    exactly the entries whose key satisfies `p name`, and keeps every other entry with its value, birth, hits and position -/
theorem all_with_precise (st : RegistrySt) (p : String → String → Bool) (caches : Nat → GlobalCache String V F)
    (name : String) (id : Nat) (h : (name, id) ∈ st.invalidation_check_callbacks) :
    (id, fun key => p name key) ∈ (Generated.Registry.invalidate_all_with st p).2 ∧
    (Global.macro_cond_callback (caches id) (fun key => p name key)).map =
      (caches id).map.filter (fun e => !p name e.1) := by
  rw [T20.invalidate_all_with_eq]
  refine ⟨?_, T19.global_cond_survivors _ _⟩
  simp only [List.mem_map]
  exact ⟨(name, id), h, rfl⟩

end Cachelito.S01
