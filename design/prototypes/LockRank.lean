namespace Dl

inductive Mode | sh | ex
deriving DecidableEq, Repr

inductive Act (L : Type) | acq (l : L) (m : Mode) | rel (l : L)

structure Thread (L : Type) where
  held : List (L × Mode)
  prog : List (Act L)

variable {L : Type} [DecidableEq L] (rank : L → Nat)

/-- a program is rank-ordered and balanced from a given held set -/
def WfFrom : List (L × Mode) → List (Act L) → Prop
  | held, [] => held = []
  | held, .acq l m :: p => (∀ x ∈ held, rank x.1 < rank l) ∧ WfFrom ((l, m) :: held) p
  | held, .rel l :: p => (∃ m, (l, m) ∈ held) ∧ WfFrom (held.filter (fun x => x.1 ≠ l)) p

def conflicts : Mode → Mode → Bool
  | .sh, .sh => false
  | _, _ => true

/-- thread `t` can take its next step given the other threads `others` -/
def enabled (t : Thread L) (others : List (Thread L)) : Prop :=
  match t.prog with
  | [] => False
  | .rel _ :: _ => True
  | .acq l m :: _ => ∀ o ∈ others, ∀ x ∈ o.held, x.1 = l → conflicts m x.2 = false

def wanted (t : Thread L) : Option L :=
  match t.prog with
  | .acq l _ :: _ => some l
  | _ => none

theorem wf_held_nonempty_prog {held : List (L × Mode)} {p : List (Act L)}
    (h : WfFrom rank held p) (hne : held ≠ []) : p ≠ [] := by
  intro hp; subst hp; simp [WfFrom] at h; exact hne h

/-- Key step: if an unfinished thread `t` is not enabled, it waits for lock `l` held by some
other thread `o`; if `o` is itself not enabled then `o` waits for a lock of strictly larger rank. -/
theorem blocked_chain (t : Thread L) (others : List (Thread L))
    (hwf : ∀ o ∈ others, WfFrom rank o.held o.prog)
    (hun : t.prog ≠ []) (hne : ¬ enabled t others) :
    ∃ l, wanted t = some l ∧ ∃ o ∈ others, o.prog ≠ [] ∧
      ∀ rest, ¬ enabled o rest → ∃ l', wanted o = some l' ∧ rank l < rank l' := by
  unfold enabled at hne
  match hp : t.prog with
  | [] => exact absurd hp hun
  | .rel _ :: _ => simp [hp] at hne
  | .acq l m :: _ =>
    simp only [hp] at hne
    have : ∃ o ∈ others, ∃ x ∈ o.held, x.1 = l := by
      apply Classical.byContradiction
      intro hcon
      apply hne
      intro o ho x hx hxl
      exact absurd ⟨o, ho, x, hx, hxl⟩ hcon
    obtain ⟨o, ho, x, hx, hxl⟩ := this
    refine ⟨l, by simp [wanted, hp], o, ho, ?_, ?_⟩
    · exact wf_held_nonempty_prog rank (hwf o ho) (List.ne_nil_of_mem hx)
    · intro rest hno
      have hw := hwf o ho
      unfold enabled at hno
      match hq : o.prog with
      | [] => exact absurd hq (wf_held_nonempty_prog rank hw (List.ne_nil_of_mem hx))
      | .rel _ :: _ => simp [hq] at hno
      | .acq l' m' :: _ =>
        rw [hq] at hw
        refine ⟨l', by simp [wanted, hq], ?_⟩
        have := hw.1 x hx
        rw [hxl] at this
        exact this

end Dl
