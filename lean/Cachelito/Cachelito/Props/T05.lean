/-
  T05 — TRANSLATOR TIE, eviction_policy.rs: `EvictionPolicy::from(&str)`, `is_valid` (C19)

  The functions named here are regenerated from /repo's CURRENT source on every check by `checklib/rust2lean.py`
  (`Generated/Pure*.lean`); the theorems are re-proved against whatever was generated (see `Props/T01.lean`).
  The `f64` code is translated over an ARBITRARY structure of float operations (`RustLite.F64`).  Hypotheses that appear
  are the modelling assumptions of DESIGN.md §9: hit counters below `u64::MAX`, scores below `f64::MAX`, `as f64` exact
  and order-preserving on the products that occur.
-/
import Cachelito.Generated.PurePolicy
import Cachelito.Lemmas.Source

set_option linter.unusedSimpArgs false
set_option linter.unusedVariables false

namespace Cachelito.T05
open Cachelito Cachelito.RustLite Cachelito.Generated Cachelito.SourceLemmas
open Cachelito.Generated.Policy

variable {K V F : Type} [DecidableEq K]

/-! ### `EvictionPolicy` -/

/-- `is_valid` accepts exactly the names that `from` does not default -/
theorem policy_valid_iff (s : String) :
    policyIsValid s = true ↔ toLowercase s ∈ ["fifo", "lru", "lfu", "arc", "random", "tlru"] := by
  unfold policyIsValid
  split <;> simp_all

theorem policy_from_spec (s : String) :
    policyFrom s = (if toLowercase s = "fifo" then .fifo else if toLowercase s = "lfu" then .lfu
      else if toLowercase s = "arc" then .arc else if toLowercase s = "random" then .random
      else if toLowercase s = "tlru" then .tlru else .lru) := by
  unfold policyFrom
  split <;> simp_all

/-- the six policy names (compared after `to_lowercase`) denote the six policies and are valid; every other string
    falls back to LRU and is not valid -/
theorem policy_names (s : String) :
    (toLowercase s = "fifo" → policyFrom s = .fifo ∧ policyIsValid s = true) ∧
    (toLowercase s = "lru" → policyFrom s = .lru ∧ policyIsValid s = true) ∧
    (toLowercase s = "lfu" → policyFrom s = .lfu ∧ policyIsValid s = true) ∧
    (toLowercase s = "arc" → policyFrom s = .arc ∧ policyIsValid s = true) ∧
    (toLowercase s = "random" → policyFrom s = .random ∧ policyIsValid s = true) ∧
    (toLowercase s = "tlru" → policyFrom s = .tlru ∧ policyIsValid s = true) ∧
    (toLowercase s ∉ ["fifo", "lru", "lfu", "arc", "random", "tlru"] → policyFrom s = .lru ∧ policyIsValid s = false) := by
  have hv := policy_valid_iff s
  rw [policy_from_spec]
  refine ⟨?_, ?_, ?_, ?_, ?_, ?_, ?_⟩ <;> intro h <;> simp_all


end Cachelito.T05
