/-
  Cachelito.ConcData — the DATA-CARRYING interleaving model behind C18 (core Lean only).

  `Cachelito.Conc` abstracts the data away and keeps only lock events (C17).  This file does the
  opposite: the locks are abstracted into ATOMICITY and the data are kept.  One cache is shared by any
  number of threads.  Every thread runs a program (a list of engine operations `Op K V`, each with its
  random draws, exactly the histories of `Cachelito.run`); every operation is executed as a sequence of
  atomic MICRO-STEPS, one per critical section of the real code — the granularity at which a real thread
  can be preempted (between two lock acquisitions).  A schedule is a list of thread ids; `crun` lets the
  named thread perform its next micro-step.

  Shared state = `Cachelito.State K V` (store, queue, clock, the two statistics counters), so that a
  quiescent state of the interleaving model *is* a state of the sequential model `Cachelito.run`.

  Micro-steps, transcribed from the code with the fixes F1–F8 (`O` = queue mutex, `M` = store RwLock,
  `⟨shard⟩` = DashMap guard; see design/transcription-notes.md §2, §4):

  async engine (`async_global_cache.rs`, `cachelito-async-macros`) — every key-set mutation inside `O`:
    get k        : ⟨shard: read entry, decide expired / hit, bump hits (LFU, ARC, TLRU)⟩ ;
                   expired ⇒ [O: remove k from store and queue]
                   hit, refreshing policy and a bound configured ⇒ [O: if k still stored then retainPush k]
    insert k v   : [O: whole body]  = `Cachelito.insert`  (async branch)
    insertMem    : [O: whole body]  = `Cachelito.insertMem`
    clear cb     : [O: clear both]
    cond. cb     : ⟨collect the stored keys satisfying p⟩ ; [O: remove each collected key from store and queue]
  sync engine (`global_cache.rs`, `cachelito-macros`):
    get k        : [M.r: read, decide] ;
                   expired ⇒ [O{M.w}: removeBoth]
                   hit ⇒ LRU: [O: moveToEnd] | LFU: [M.w: bump] | ARC, TLRU: [O: moveToEnd] ; [M.w: bump]
    insert k v   : [M.w: put k] ; [O: erasePush k ; limit step (nested M.w)]       ← the store write comes FIRST
    insertMem    : [M.w: put k] ; [O: erasePush k ; (oversize: erase k, pop_back) | memory loop ; limit step]
    clear cb     : [O{M.w}: clear both]
    cond. cb     : [O{M.w}: filter both]
  legacy variants (`legacy = true`, only used to refute the unfixed code):
    clear        : [M.w / ⟨clear⟩: clear the store] ; [O: clear the queue]                            (F6)
    async get, expired : ⟨read⟩ ; ⟨shard remove k⟩ ; [O: retain ≠ k]                                   (F8)

  Atomicity of a section `[O{ queue-only prefix ; M.w … }]` is exact: nobody else can touch the queue
  while `O` is held and the store-only sections of other threads commute with a queue-only prefix, so
  the whole section takes effect at its nested `M.w` acquisition (at the `O` acquisition if there is
  none).  The sync `insertMem` tail contains several nested `M` sections (one read + one write per loop
  iteration); merging them into one micro-step is an approximation (store-only sections of other
  threads — `put`s, hit bumps — that really fall between two iterations are scheduled before or after
  the tail).  The invariants proved in `Lemmas/ConcData.lean` treat every eviction as an arbitrary
  "shrinking" step and are insensitive to that merge.  The birth stamp is taken in the micro-step that
  writes the store (the real code reads the clock a few instructions earlier); births play no role in C18.

  Replaying a recorded real schedule (H1 yield points = lock acquisitions): every acquisition that is NOT
  nested in a queue-mutex section of the same thread (sync: `M.r` of `get`, the `M.w` of `put` /
  `increment_frequency`; every `O` acquisition) announces one micro-step of that thread; the micro-step of
  an `O` section takes effect at its LAST nested `M` acquisition when it has one (expired removal, limit
  step, clear / conditional callbacks), else at the `O` acquisition.  Emit the thread id at that point;
  operations without any lock (`tick`; an async miss / FIFO hit = one shard access) are emitted where the
  harness performs them.  `creplay` runs such a schedule strictly (`none` on a thread that cannot step);
  the outputs are in `Thread.done`, the shared state is a `Cachelito.State` (same dump format as L1).
-/
import Cachelito.Core

namespace Cachelito.ConcData
open Cachelito

variable {K V S : Type} [DecidableEq K]

/-- `true` for the async engine; every other flavour is the sync engine (`.global`; `.threadLocal`
    caches are not shared, the sync transcription is used for them as well). -/
def isAsync (cfg : Cfg) : Bool :=
  match cfg.flavour with
  | .async => true
  | _ => false

/-- What is left of the operation a thread is in the middle of (its local state between two critical
    sections).  Every constructor carries what the remaining micro-steps need, and what the finished
    operation reports. -/
inductive Pend (K V : Type)
  /-- lookup found an expired entry; next: remove `k` from store and queue -/
  | expire (k : K)
  /-- async hit (value `v` already cloned); next: `[O: if k stored then retainPush k]` -/
  | refresh (k : K) (v : V)
  /-- sync hit, LRU / ARC / TLRU; next: `[O: moveToEnd k]` (ARC, TLRU: then `bump`) -/
  | move (k : K) (v : V)
  /-- sync hit, LFU / ARC / TLRU; next: `[M.w: bumpHits k]` -/
  | bump (k : K) (v : V)
  /-- sync `insert`: the store holds `(k, v)` already; next: `[O: erasePush k; limit step]` -/
  | track (k : K) (v : V) (r : Nat)
  /-- sync `insert_with_memory`: the store holds `(k, v)` already; next: the queue section -/
  | trackMem (k : K) (v : V) (rs : List Nat)
  /-- async conditional invalidation: keys collected; next: `[O: remove each from store and queue]` -/
  | purge (p : K → Bool) (ks : List K)
  /-- LEGACY clear (F6): store cleared; next: `[O: clear the queue]` -/
  | legacyClearQueue
  /-- LEGACY async expired lookup (F8): next: shard remove of `k` (no queue mutex) -/
  | legacyDrop (k : K)
  /-- LEGACY async expired lookup (F8): store entry removed; next: `[O: retain ≠ k]` -/
  | legacyRetain (k : K)

/-- the key of a store that has been written to the store but not yet to the queue -/
def Pend.key? : Pend K V → Option K
  | .track k _ _ => some k
  | .trackMem k _ _ => some k
  | _ => none

/-- result of one micro-step: more to do, or the operation is finished and reports `(op, output)` -/
inductive Res (K V : Type)
  | more (p : Pend K V)
  | fin (op : Op K V) (o : Out V)

/-- `map.get(key).map(|e| e.value.estimate_memory()).unwrap_or(0)` -/
def entrySize (size : V → Nat) (k : K) (m : Store K V) : Nat :=
  match lookup k m with
  | some e => size e.val
  | none => 0

/-- the queue section of the sync `insert_with_memory` (`global_cache.rs`, after the store write):
    re-queue `k`; oversize check on the entry CURRENTLY stored under `k` (`unwrap_or(0)` when it is
    gone); memory loop; entry-limit step. -/
def trackMemStep (cfg : Cfg) (tl : Tlru S) (size : V → Nat) (rs : List Nat) (s : State K V) (k : K) : State K V :=
  let q0 := erasePush k s.queue
  match cfg.maxMem with
  | some maxM =>
    if entrySize size k s.store > maxM then { s with store := eraseKey k s.store, queue := q0.dropLast }
    else
      let (m1, q1, rs1) := memLoop cfg tl size s.now maxM 0 (q0.length + 1) rs s.store q0
      let (m2, q2) := limitStep cfg tl s.now (rs1.headD 0) m1 q1
      { s with store := m2, queue := q2 }
  | none =>
    let (m2, q2) := limitStep cfg tl s.now (rs.headD 0) s.store q0
    { s with store := m2, queue := q2 }

/-- FIRST micro-step of an operation. -/
def first (legacy : Bool) (cfg : Cfg) (tl : Tlru S) (size : V → Nat) (s : State K V) (rs : List Nat) :
    Op K V → State K V × Res K V
  | .get k =>
    -- sync `[M.r]` (`global_cache.rs` get, first block) / async `get_mut` shard guard
    match lookup k s.store with
    | none => ({ s with missStat := s.missStat + 1 }, .fin (.get k) (.val none))
    | some e =>
      if expired cfg s.now e then
        (s, .more (if legacy && isAsync cfg then .legacyDrop k else .expire k))
      else if isAsync cfg then
        let m1 := if cfg.policy.bumps then bumpHits k s.store else s.store
        let s1 := { s with store := m1, hitStat := s.hitStat + 1 }
        if (cfg.limit.isSome || cfg.maxMem.isSome) && cfg.policy.refreshes then (s1, .more (.refresh k e.val))
        else (s1, .fin (.get k) (.val (some e.val)))
      else
        let s1 := { s with hitStat := s.hitStat + 1 }
        if cfg.policy.refreshes then (s1, .more (.move k e.val))
        else if cfg.policy.bumps then (s1, .more (.bump k e.val))
        else (s1, .fin (.get k) (.val (some e.val)))
  | .insert k v =>
    if isAsync cfg then (Cachelito.insert cfg tl (rs.headD 0) s k v, .fin (.insert k v) .unit)
    else ({ s with store := put k ⟨v, stamp cfg s.now, 0⟩ s.store }, .more (.track k v (rs.headD 0)))
  | .insertMem k v =>
    if isAsync cfg then (Cachelito.insertMem cfg tl size rs s k v, .fin (.insertMem k v) .unit)
    else ({ s with store := put k ⟨v, stamp cfg s.now, 0⟩ s.store }, .more (.trackMem k v rs))
  | .clear =>
    if legacy then ({ s with store := [] }, .more .legacyClearQueue)
    else (Cachelito.clear s, .fin .clear .unit)
  | .invalidateWith p =>
    if isAsync cfg then (s, .more (.purge p ((keys s.store).filter p)))
    else (Cachelito.invalidateWith p s, .fin (.invalidateWith p) .unit)
  | .tick ms => ({ s with now := s.now + ms }, .fin (.tick ms) .unit)

/-- a continuation that the engine at hand never creates: finish without touching anything -/
def noop (s : State K V) : State K V × Res K V := (s, .fin (.tick 0) .unit)

/-- removal of an expired entry: `[O{M.w}: remove_key_from_global_cache]` / `[O: cache.remove; retain]` -/
def expireStep (cfg : Cfg) (s : State K V) (k : K) : State K V × Res K V :=
  let r := removeBoth cfg k s.store s.queue
  ({ s with store := r.1, queue := r.2, missStat := s.missStat + 1 }, .fin (.get k) (.val none))

/-- NEXT micro-step of an operation in progress, async engine. -/
def contAsync (legacy : Bool) (cfg : Cfg) (s : State K V) : Pend K V → State K V × Res K V
  | .expire k => expireStep cfg s k
  | .refresh k v =>
    ({ s with queue := if hasKey k s.store then retainPush k s.queue else s.queue }, .fin (.get k) (.val (some v)))
  | .purge p ks =>
    ({ s with store := ks.foldl (fun m k => eraseKey k m) s.store,
              queue := ks.foldl (fun q k => q.erase k) s.queue }, .fin (.invalidateWith p) .unit)
  | .legacyClearQueue => if legacy then ({ s with queue := [] }, .fin .clear .unit) else noop s
  | .legacyDrop k => if legacy then ({ s with store := eraseKey k s.store }, .more (.legacyRetain k)) else noop s
  | .legacyRetain k =>
    if legacy then ({ s with queue := s.queue.filter (fun x => x ≠ k), missStat := s.missStat + 1 },
                    .fin (.get k) (.val none))
    else noop s
  | _ => noop s

/-- NEXT micro-step of an operation in progress, sync engine. -/
def contSync (legacy : Bool) (cfg : Cfg) (tl : Tlru S) (size : V → Nat) (s : State K V) :
    Pend K V → State K V × Res K V
  | .expire k => expireStep cfg s k
  | .move k v =>
    let s1 := { s with queue := moveToEnd k s.queue }
    if cfg.policy.bumps then (s1, .more (.bump k v)) else (s1, .fin (.get k) (.val (some v)))
  | .bump k v => ({ s with store := bumpHits k s.store }, .fin (.get k) (.val (some v)))
  | .track k v r =>
    let res := limitStep cfg tl s.now r s.store (erasePush k s.queue)
    ({ s with store := res.1, queue := res.2 }, .fin (.insert k v) .unit)
  | .trackMem k v rs => (trackMemStep cfg tl size rs s k, .fin (.insertMem k v) .unit)
  | .legacyClearQueue => if legacy then ({ s with queue := [] }, .fin .clear .unit) else noop s
  | _ => noop s

/-- one micro-step of a thread whose current operation is `op` (with draws `rs`) and whose local state
    is `pend` (`none` = the operation has not started) -/
def micro (legacy : Bool) (cfg : Cfg) (tl : Tlru S) (size : V → Nat) (s : State K V)
    (op : Op K V) (rs : List Nat) : Option (Pend K V) → State K V × Res K V
  | none => first legacy cfg tl size s rs op
  | some p => if isAsync cfg then contAsync legacy cfg s p else contSync legacy cfg tl size s p

/-- A thread: the operations still to run (the head is the current one), the local state of the
    operation in progress, and the finished operations with their outputs (oldest first). -/
structure Thread (K V : Type) where
  prog : List (Op K V × List Nat)
  pend : Option (Pend K V)
  done : List (Op K V × Out V)

abbrev ThreadId := Nat

/-- state of the interleaving model: ONE shared cache and the threads -/
structure CState (K V : Type) where
  shared : State K V
  threads : List (Thread K V)

/-- a thread that has not started -/
def Thread.start (prog : List (Op K V × List Nat)) : Thread K V := ⟨prog, none, []⟩

/-- all threads at the start of their programs, sharing the cache state `s` -/
def CState.start (s : State K V) (progs : List (List (Op K V × List Nat))) : CState K V :=
  ⟨s, progs.map Thread.start⟩

/-- initial state: empty cache -/
def CState.init (progs : List (List (Op K V × List Nat))) : CState K V := CState.start State.init progs

/-- the step of one thread on the shared state; `none` when the thread has nothing left to do -/
def tstep (legacy : Bool) (cfg : Cfg) (tl : Tlru S) (size : V → Nat) (s : State K V) (t : Thread K V) :
    Option (State K V × Thread K V) :=
  match t.prog with
  | [] => none
  | (op, rs) :: rest =>
    match micro legacy cfg tl size s op rs t.pend with
    | (s', .more p) => some (s', { t with pend := some p })
    | (s', .fin op' o) => some (s', { prog := rest, pend := none, done := t.done ++ [(op', o)] })

/-- The next micro-step of thread `i`; `none` when there is no such thread or it has finished. -/
def cstepWith (legacy : Bool) (cfg : Cfg) (tl : Tlru S) (size : V → Nat) (c : CState K V) (i : ThreadId) :
    Option (CState K V) :=
  match c.threads[i]? with
  | none => none
  | some t =>
    match tstep legacy cfg tl size c.shared t with
    | none => none
    | some (s', t') => some ⟨s', c.threads.set i t'⟩

/-- the next micro-step of thread `i` in the code WITH the fixes F1–F8 -/
def cstep (cfg : Cfg) (tl : Tlru S) (size : V → Nat) (c : CState K V) (i : ThreadId) : Option (CState K V) :=
  cstepWith false cfg tl size c i

/-- run a schedule (entries naming a finished or non-existent thread are skipped) -/
def crunWith (legacy : Bool) (cfg : Cfg) (tl : Tlru S) (size : V → Nat) : List ThreadId → CState K V → CState K V
  | [], c => c
  | i :: sch, c =>
    match cstepWith legacy cfg tl size c i with
    | none => crunWith legacy cfg tl size sch c
    | some c' => crunWith legacy cfg tl size sch c'

/-- run a schedule on the code with the fixes -/
def crun (cfg : Cfg) (tl : Tlru S) (size : V → Nat) (sch : List ThreadId) (c : CState K V) : CState K V :=
  crunWith false cfg tl size sch c

/-- strict replay of a recorded schedule: `none` as soon as an entry names a thread that cannot step -/
def creplay (cfg : Cfg) (tl : Tlru S) (size : V → Nat) : List ThreadId → CState K V → Option (CState K V)
  | [], c => some c
  | i :: sch, c =>
    match cstep cfg tl size c i with
    | none => none
    | some c' => creplay cfg tl size sch c'

/-- no thread is in the middle of an operation -/
def Quiescent (c : CState K V) : Prop := ∀ t, t ∈ c.threads → t.pend = none

/-- every thread has run its whole program ("all callers have returned") -/
def AllDone (c : CState K V) : Prop := ∀ t, t ∈ c.threads → t.prog = []

/-- executable versions -/
def quiescentB (c : CState K V) : Bool := c.threads.all (fun t => t.pend.isNone)
def allDoneB (c : CState K V) : Bool := c.threads.all (fun t => t.prog.isEmpty)

/-- own in-flight key of a thread: the key it has written to the store but not yet to the queue -/
def ownKeys : Option (Pend K V) → List K
  | some p => (match p.key? with | some k => [k] | none => [])
  | none => []

/-- keys written to the store whose queue section has not run yet (one per such thread) -/
def pendKeys (ts : List (Thread K V)) : List K := ts.flatMap (fun t => ownKeys t.pend)

/-- round-robin schedule long enough to finish everything -/
def roundRobin (c : CState K V) : List ThreadId :=
  (List.range (3 * (c.threads.map (fun t => t.prog.length)).foldl max 0)).flatMap
    (fun _ => List.range c.threads.length)

end Cachelito.ConcData
