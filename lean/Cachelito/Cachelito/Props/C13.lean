/-
  C13 — Invalidation is precise and leaves capacity bookkeeping exact.

  "Invalidation touches nothing else: caches that do not declare the tag, event, dependency or name keep
   every entry, and invalidate_with / invalidate_all_with remove exactly the entries whose key satisfies
   the predicate and keep the rest.  After any invalidation, limits, eviction order and memory totals
   behave as if the removed entries had never been stored."

  Property theorems only (helper lemmas: `Cachelito/Lemmas/System.lean`).  Stated for every list of cached
  functions `fns` (sync global, async, thread scope mixed; any metadata, policy, limit, memory bound,
  TTL per function), every TLRU algebra, size function, `Result` classifier, random draws, every
  predicate, and every system state (`SysInv sys`, which holds after every history from `Sys.init`, is
  assumed only where the order queue is described).
-/
import Cachelito.Lemmas.System
import Cachelito.Props.C04

set_option linter.unusedSectionVars false
set_option linter.unusedSimpArgs false
set_option linter.unusedVariables false

namespace Cachelito.C13
open Cachelito Cachelito.SysLemmas
variable {K V S : Type} [DecidableEq K]

/-! ### (1) Frame: group invalidations touch nothing but their targets -/

/-- **Frame, all four requests at once.**  A tag / event / dependency / name invalidation `op` leaves
    every cache instance unchanged (full state equality: entries, values, birth stamps, hit counters,
    order queue, clock, statistics) unless it is the shared instance of a target, i.e. of a function
    that is global/async, has been called, declares metadata and matches the request.  The registration
    set and the system clock do not change either. -/
theorem group_invalidation_frame (fns : List FnSpec) (tls : Nat → Tlru S) (size : V → Nat) (isOk : V → Bool)
    (rs : List Nat) (sys : Sys K V) (op : SysOp K V) (sel : FnSpec → Bool) (hsel : groupSel op = some sel)
    (id : CacheId) (h : ¬ (id.thread = none ∧ Target fns sys op id.fn)) :
    (sysStep fns tls size isOk rs sys op).1.getCache id = sys.getCache id ∧
    (sysStep fns tls size isOk rs sys op).1.called = sys.called ∧
    (sysStep fns tls size isOk rs sys op).1.now = sys.now := by
  refine ⟨(group_getCache fns tls size isOk rs sys hsel id).2 h, ?_, ?_⟩
  · rw [sysStep_group fns tls size isOk rs sys hsel]; exact (clearAll_called _ _).1
  · rw [sysStep_group fns tls size isOk rs sys hsel]; exact (clearAll_called _ _).2

/-- every thread-scope cache instance survives every group invalidation untouched -/
theorem group_invalidation_thread_scope_untouched (fns : List FnSpec) (tls : Nat → Tlru S) (size : V → Nat)
    (isOk : V → Bool) (rs : List Nat) (sys : Sys K V) (op : SysOp K V) (sel : FnSpec → Bool)
    (hsel : groupSel op = some sel) (fn th : Nat) :
    (sysStep fns tls size isOk rs sys op).1.getCache ⟨fn, some th⟩ = sys.getCache ⟨fn, some th⟩ :=
  (group_invalidation_frame fns tls size isOk rs sys op sel hsel ⟨fn, some th⟩
    (fun hh => by cases hh.1)).1

/-- a cache whose function does not match the request keeps everything -/
theorem group_invalidation_non_matching_untouched (fns : List FnSpec) (tls : Nat → Tlru S) (size : V → Nat)
    (isOk : V → Bool) (rs : List Nat) (sys : Sys K V) (op : SysOp K V) (sel : FnSpec → Bool)
    (hsel : groupSel op = some sel) (id : CacheId)
    (h : ∀ spec, fns[id.fn]? = some spec → ¬ Matches op spec) :
    (sysStep fns tls size isOk rs sys op).1.getCache id = sys.getCache id :=
  (group_invalidation_frame fns tls size isOk rs sys op sel hsel id
    (fun ⟨_, spec, h1, _, _, _, h5⟩ => h spec h1 h5)).1

/-- `invalidate_by_tag t`: caches of functions that do not declare `t`, that were never called, and
    all thread-scope caches are unchanged -/
theorem invalidateByTag_untouched (fns : List FnSpec) (tls : Nat → Tlru S) (size : V → Nat) (isOk : V → Bool)
    (rs : List Nat) (sys : Sys K V) (t : String) (id : CacheId)
    (h : id.thread ≠ none ∨ id.fn ∉ sys.called ∨ ∀ spec, fns[id.fn]? = some spec → t ∉ spec.tags) :
    (sysStep fns tls size isOk rs sys (.invalidateByTag t)).1.getCache id = sys.getCache id :=
  (group_invalidation_frame fns tls size isOk rs sys _ _ rfl id (by
    rintro ⟨h0, spec, h1, _, h3, _, h5⟩
    rcases h with h | h | h
    · exact h h0
    · exact h h3
    · exact h spec h1 h5)).1

/-- `invalidate_by_event e`: likewise -/
theorem invalidateByEvent_untouched (fns : List FnSpec) (tls : Nat → Tlru S) (size : V → Nat) (isOk : V → Bool)
    (rs : List Nat) (sys : Sys K V) (e : String) (id : CacheId)
    (h : id.thread ≠ none ∨ id.fn ∉ sys.called ∨ ∀ spec, fns[id.fn]? = some spec → e ∉ spec.events) :
    (sysStep fns tls size isOk rs sys (.invalidateByEvent e)).1.getCache id = sys.getCache id :=
  (group_invalidation_frame fns tls size isOk rs sys _ _ rfl id (by
    rintro ⟨h0, spec, h1, _, h3, _, h5⟩
    rcases h with h | h | h
    · exact h h0
    · exact h h3
    · exact h spec h1 h5)).1

/-- `invalidate_by_dependency d`: likewise -/
theorem invalidateByDependency_untouched (fns : List FnSpec) (tls : Nat → Tlru S) (size : V → Nat)
    (isOk : V → Bool) (rs : List Nat) (sys : Sys K V) (d : String) (id : CacheId)
    (h : id.thread ≠ none ∨ id.fn ∉ sys.called ∨ ∀ spec, fns[id.fn]? = some spec → d ∉ spec.deps) :
    (sysStep fns tls size isOk rs sys (.invalidateByDependency d)).1.getCache id = sys.getCache id :=
  (group_invalidation_frame fns tls size isOk rs sys _ _ rfl id (by
    rintro ⟨h0, spec, h1, _, h3, _, h5⟩
    rcases h with h | h | h
    · exact h h0
    · exact h h3
    · exact h spec h1 h5)).1

/-- `invalidate_cache name`: caches of functions with another name (and never-called, metadata-free
    and thread-scope ones) are unchanged -/
theorem invalidateCache_untouched (fns : List FnSpec) (tls : Nat → Tlru S) (size : V → Nat) (isOk : V → Bool)
    (rs : List Nat) (sys : Sys K V) (name : String) (id : CacheId)
    (h : id.thread ≠ none ∨ id.fn ∉ sys.called ∨ ∀ spec, fns[id.fn]? = some spec → spec.name ≠ name ∨ ¬ HasMeta spec) :
    (sysStep fns tls size isOk rs sys (.invalidateCache name)).1.getCache id = sys.getCache id :=
  (group_invalidation_frame fns tls size isOk rs sys _ _ rfl id (by
    rintro ⟨h0, spec, h1, _, h3, h4, h5⟩
    rcases h with h | h | h
    · exact h h0
    · exact h h3
    · rcases h spec h1 with h | h
      · exact h h5
      · exact h h4)).1

/-- with pairwise distinct names, `invalidate_cache name` changes at most the one cache of that name -/
theorem invalidateCache_only_named (fns : List FnSpec) (hnames : (fns.map (·.name)).Nodup)
    (tls : Nat → Tlru S) (size : V → Nat) (isOk : V → Bool) (rs : List Nat) (sys : Sys K V)
    (i : Nat) (spec : FnSpec) (hs : fns[i]? = some spec) (id : CacheId) (hid : id ≠ ⟨i, none⟩) :
    (sysStep fns tls size isOk rs sys (.invalidateCache spec.name)).1.getCache id = sys.getCache id :=
  (group_invalidation_frame fns tls size isOk rs sys _ _ rfl id (by
    rintro ⟨h0, spec', h1, _, _, _, h5⟩
    apply hid
    have : id.fn = i := index_unique_of_name hnames h1 hs h5
    cases id; simp only at h0 this; subst h0; subst this; rfl)).1

/-! ### (2) conditional invalidation removes exactly the matching entries -/

/-- **`invalidate_with name p`, the named cache.**  For a registered (called, global/async) function
    of that name, in a consistent system: the store afterwards is the old store with the entries whose
    key satisfies `p` filtered out — as a list, so survivors keep their relative order, values, birth
    stamps and hit counters — and the order queue is the old queue with those keys filtered out;
    clock and statistics are untouched. -/
theorem invalidateWith_exact (fns : List FnSpec) (tls : Nat → Tlru S) (size : V → Nat) (isOk : V → Bool)
    (rs : List Nat) (sys : Sys K V) (hinv : SysInv sys) (name : String) (p : K → Bool)
    (i : Nat) (spec : FnSpec) (hs : fns[i]? = some spec) (hts : spec.threadScope = false)
    (hc : i ∈ sys.called) (hn : spec.name = name) :
    (sysStep fns tls size isOk rs sys (.invalidateWith name p)).1.getCache ⟨i, none⟩ =
      { sys.getCache ⟨i, none⟩ with
          store := (sys.getCache ⟨i, none⟩).store.filter (fun e => !p e.1),
          queue := (sys.getCache ⟨i, none⟩).queue.filter (fun k => !p k) } := by
  rw [sysStep_invalidateWith]
  have := getCache_foldl_mapFn_pos (fun _ => invalidateWith p) (fun _ n => invalidateWith_fresh p n) _
    (regTargets_nodup fns sys (fun spec => spec.name = name)) sys ⟨i, none⟩
    ⟨rfl, (mem_regTargets _ _ _ _).mpr ⟨spec, hs, hts, hc, by simpa using hn⟩⟩
  rw [this]
  exact invalidateWith_eq p _ (hinv _)

/-- the store part of the previous theorem needs no consistency assumption -/
theorem invalidateWith_store_exact (fns : List FnSpec) (tls : Nat → Tlru S) (size : V → Nat) (isOk : V → Bool)
    (rs : List Nat) (sys : Sys K V) (name : String) (p : K → Bool)
    (i : Nat) (spec : FnSpec) (hs : fns[i]? = some spec) (hts : spec.threadScope = false)
    (hc : i ∈ sys.called) (hn : spec.name = name) :
    ((sysStep fns tls size isOk rs sys (.invalidateWith name p)).1.getCache ⟨i, none⟩).store =
      (sys.getCache ⟨i, none⟩).store.filter (fun e => !p e.1) := by
  rw [sysStep_invalidateWith]
  have := getCache_foldl_mapFn_pos (fun _ => invalidateWith p) (fun _ n => invalidateWith_fresh p n) _
    (regTargets_nodup fns sys (fun spec => spec.name = name)) sys ⟨i, none⟩
    ⟨rfl, (mem_regTargets _ _ _ _).mpr ⟨spec, hs, hts, hc, by simpa using hn⟩⟩
  rw [this]; rfl

/-- per key: a key satisfying `p` is absent afterwards; any other key has exactly the entry (value,
    birth stamp, hit counter) it had before -/
theorem invalidateWith_lookup (fns : List FnSpec) (tls : Nat → Tlru S) (size : V → Nat) (isOk : V → Bool)
    (rs : List Nat) (sys : Sys K V) (name : String) (p : K → Bool)
    (i : Nat) (spec : FnSpec) (hs : fns[i]? = some spec) (hts : spec.threadScope = false)
    (hc : i ∈ sys.called) (hn : spec.name = name) (k : K) :
    lookup k ((sysStep fns tls size isOk rs sys (.invalidateWith name p)).1.getCache ⟨i, none⟩).store =
      if p k then none else lookup k (sys.getCache ⟨i, none⟩).store := by
  rw [invalidateWith_store_exact fns tls size isOk rs sys name p i spec hs hts hc hn,
    lookup_filter_key (fun k => !p k)]
  cases p k <;> rfl

/-- `invalidate_with name p` leaves every cache of a function with another name, every never-called
    function's cache and every thread-scope cache unchanged -/
theorem invalidateWith_untouched (fns : List FnSpec) (tls : Nat → Tlru S) (size : V → Nat) (isOk : V → Bool)
    (rs : List Nat) (sys : Sys K V) (name : String) (p : K → Bool) (id : CacheId)
    (h : id.thread ≠ none ∨ id.fn ∉ sys.called ∨ ∀ spec, fns[id.fn]? = some spec → spec.name ≠ name) :
    (sysStep fns tls size isOk rs sys (.invalidateWith name p)).1.getCache id = sys.getCache id :=
  sysStep_frame fns tls size isOk rs sys (.invalidateWith name p) id (by
    rintro ⟨h0, spec, h1, _, h3, h5⟩
    rcases h with h | h | h
    · exact h h0
    · exact h h3
    · exact h spec h1 (by simpa using h5))

/-- with pairwise distinct names, `invalidate_with name p` changes only the cache of that name -/
theorem invalidateWith_only_named (fns : List FnSpec) (hnames : (fns.map (·.name)).Nodup)
    (tls : Nat → Tlru S) (size : V → Nat) (isOk : V → Bool) (rs : List Nat) (sys : Sys K V) (p : K → Bool)
    (i : Nat) (spec : FnSpec) (hs : fns[i]? = some spec) (id : CacheId) (hid : id ≠ ⟨i, none⟩) :
    (sysStep fns tls size isOk rs sys (.invalidateWith spec.name p)).1.getCache id = sys.getCache id :=
  sysStep_frame fns tls size isOk rs sys (.invalidateWith spec.name p) id (by
    rintro ⟨h0, spec', h1, _, _, h5⟩
    apply hid
    have : id.fn = i := index_unique_of_name hnames h1 hs (by simpa using h5)
    cases id; simp only at h0 this; subst h0; subst this; rfl)

/-- `invalidate_with` returns `true` exactly when a registered (called, global/async) function has
    that name — whether or not it declares tags, events or dependencies -/
theorem invalidateWith_flag (fns : List FnSpec) (tls : Nat → Tlru S) (size : V → Nat) (isOk : V → Bool)
    (rs : List Nat) (sys : Sys K V) (name : String) (p : K → Bool) :
    ∃ b, (sysStep fns tls size isOk rs sys (.invalidateWith name p)).2 = .flag b ∧
      (b = true ↔ ∃ i spec, fns[i]? = some spec ∧ spec.threadScope = false ∧ i ∈ sys.called ∧ spec.name = name) := by
  refine ⟨_, by rw [sysStep_invalidateWith], ?_⟩
  rw [isEmpty_eq_false_iff_exists_mem]
  constructor
  · rintro ⟨i, hi⟩
    obtain ⟨spec, h1, h2, h3, h4⟩ := (mem_regTargets _ _ _ _).mp hi
    exact ⟨i, spec, h1, h2, h3, by simpa using h4⟩
  · rintro ⟨i, spec, h1, h2, h3, h4⟩
    exact ⟨i, (mem_regTargets _ _ _ _).mpr ⟨spec, h1, h2, h3, by simpa using h4⟩⟩

/-- a name nobody registered: `false`, and the whole system state is unchanged -/
theorem invalidateWith_unknown (fns : List FnSpec) (tls : Nat → Tlru S) (size : V → Nat) (isOk : V → Bool)
    (rs : List Nat) (sys : Sys K V) (name : String) (p : K → Bool)
    (hno : ∀ i spec, fns[i]? = some spec → spec.threadScope = false → i ∈ sys.called → spec.name ≠ name) :
    sysStep fns tls size isOk rs sys (.invalidateWith name p) = (sys, .flag false) := by
  have hnil : regTargets fns sys (fun spec => spec.name = name) = [] := by
    cases hl : regTargets fns sys (fun spec => spec.name = name) with
    | nil => rfl
    | cons a l =>
      exfalso
      obtain ⟨spec, h1, h2, h3, h4⟩ := (mem_regTargets fns sys _ a).mp (by rw [hl]; exact List.mem_cons_self)
      exact hno a spec h1 h2 h3 (by simpa using h4)
  rw [sysStep_invalidateWith, hnil]; rfl

/-- **`invalidate_all_with p`, every registered cache.**  For each registered function, in a consistent
    system, the store and the queue afterwards are the old ones with the keys satisfying
    `p spec.name` filtered out (order, values, birth stamps, hit counters of survivors kept). -/
theorem invalidateAllWith_exact (fns : List FnSpec) (tls : Nat → Tlru S) (size : V → Nat) (isOk : V → Bool)
    (rs : List Nat) (sys : Sys K V) (hinv : SysInv sys) (p : String → K → Bool)
    (i : Nat) (spec : FnSpec) (hs : fns[i]? = some spec) (hts : spec.threadScope = false) (hc : i ∈ sys.called) :
    (sysStep fns tls size isOk rs sys (.invalidateAllWith p)).1.getCache ⟨i, none⟩ =
      { sys.getCache ⟨i, none⟩ with
          store := (sys.getCache ⟨i, none⟩).store.filter (fun e => !p spec.name e.1),
          queue := (sys.getCache ⟨i, none⟩).queue.filter (fun k => !p spec.name k) } := by
  rw [sysStep_invalidateAllWith]
  have := getCache_foldl_mapFn_pos (allWith fns p) (allWith_fresh fns p) _ (regAll_nodup fns sys) sys ⟨i, none⟩
    ⟨rfl, (mem_regAll _ _ _).mpr ⟨spec, hs, hts, hc⟩⟩
  rw [this]
  unfold allWith; simp only [hs]
  exact invalidateWith_eq (p spec.name) _ (hinv _)

/-- `invalidate_all_with` leaves never-called functions' caches and all thread-scope caches unchanged -/
theorem invalidateAllWith_untouched (fns : List FnSpec) (tls : Nat → Tlru S) (size : V → Nat) (isOk : V → Bool)
    (rs : List Nat) (sys : Sys K V) (p : String → K → Bool) (id : CacheId)
    (h : id.thread ≠ none ∨ id.fn ∉ sys.called) :
    (sysStep fns tls size isOk rs sys (.invalidateAllWith p)).1.getCache id = sys.getCache id :=
  sysStep_frame fns tls size isOk rs sys (.invalidateAllWith p) id (by
    rintro ⟨h0, spec, h1, _, h3⟩
    rcases h with h | h
    · exact h h0
    · exact h h3)

/-- `invalidate_all_with` returns the number of registered functions: the length of a duplicate-free
    list containing exactly the existing global/async functions that have been called -/
theorem invalidateAllWith_count (fns : List FnSpec) (tls : Nat → Tlru S) (size : V → Nat) (isOk : V → Bool)
    (rs : List Nat) (sys : Sys K V) (p : String → K → Bool) :
    ∃ l : List Nat, l.Nodup ∧
      (∀ i, i ∈ l ↔ ∃ spec, fns[i]? = some spec ∧ spec.threadScope = false ∧ i ∈ sys.called) ∧
      (sysStep fns tls size isOk rs sys (.invalidateAllWith p)).2 = .count l.length :=
  ⟨regAll fns sys, regAll_nodup fns sys, mem_regAll fns sys, by rw [sysStep_invalidateAllWith]⟩

/-! ### (3) the bookkeeping invariant survives every system operation -/

/-- the generated function keeps its cache consistent (lookup followed by at most one store) -/
theorem callFn_preserves_inv (spec : FnSpec) (tl : Tlru S) (size : V → Nat) (isOk : V → Bool) (rs : List Nat)
    (s : State K V) (c : CallIn K V) (h : Inv s) : Inv (callFn spec tl size isOk rs s c).1 :=
  callFn_inv spec tl size isOk rs s c h

/-- **Every system operation keeps every cache instance consistent** (store keys distinct, queue
    duplicate-free, queue and store tracking the same keys): calls, ticks, all six invalidation entry
    points, statistics operations. -/
theorem sysStep_preserves_inv (fns : List FnSpec) (tls : Nat → Tlru S) (size : V → Nat) (isOk : V → Bool)
    (rs : List Nat) (sys : Sys K V) (op : SysOp K V) (h : SysInv sys) :
    SysInv (sysStep fns tls size isOk rs sys op).1 :=
  sysStep_inv fns tls size isOk rs sys op h

/-- every cache instance is consistent after every history from the initial system -/
theorem inv_reachable (fns : List FnSpec) (tls : Nat → Tlru S) (size : V → Nat) (isOk : V → Bool)
    (ops : List (SysOp K V × List Nat)) (id : CacheId) :
    Inv ((sysRun fns tls size isOk (Sys.init : Sys K V) ops).1.getCache id) :=
  sysRun_inv fns tls size isOk _ ops sysInv_init id

/-! ### (4) afterwards the cache behaves as if the removed entries had never been stored -/

/-- **The post-invalidation state is the survivors' state.**  On a consistent cache the callback's
    result is exactly the state with the matching keys deleted from store and queue (survivors in
    their original relative order), and that state is again consistent — so every later operation is
    `step` on a consistent state that contains the survivors and nothing else. -/
theorem invalidateWith_is_deletion (p : K → Bool) (s : State K V) (h : Inv s) :
    invalidateWith p s =
      { s with store := s.store.filter (fun e => !p e.1), queue := s.queue.filter (fun k => !p k) } ∧
    Inv (invalidateWith p s) :=
  ⟨invalidateWith_eq p s h, invalidateWith_inv p s h⟩

/-- no leftover queue slot: afterwards the queue has exactly as many keys as the store has entries, and
    both equal the number of survivors -/
theorem invalidateWith_counts (p : K → Bool) (s : State K V) (h : Inv s) :
    (invalidateWith p s).store.length = (s.store.filter (fun e => !p e.1)).length ∧
    (invalidateWith p s).queue.length = (s.store.filter (fun e => !p e.1)).length :=
  ⟨rfl, (invalidateWith_inv p s h).length_eq⟩

/-- entries before = survivors + removed -/
theorem invalidateWith_length_split (p : K → Bool) (s : State K V) :
    (invalidateWith p s).store.length + (s.store.filter (fun e => p e.1)).length = s.store.length := by
  unfold invalidateWith
  simp only
  induction s.store with
  | nil => rfl
  | cons a m ih =>
    by_cases ha : p a.1 = true
    · simp only [List.filter_cons, ha, Bool.not_true, Bool.false_eq_true, if_false, if_true, List.length_cons]
      omega
    · simp only [Bool.not_eq_true] at ha
      simp only [List.filter_cons, ha, Bool.not_false, Bool.false_eq_true, if_false, if_true, List.length_cons]
      omega

/-- **Memory total.**  The memory total after the invalidation is the sum over the survivors, and the
    total before is that plus the sizes of the removed entries. -/
theorem invalidateWith_memory (size : V → Nat) (p : K → Bool) (s : State K V) :
    totalMem size (invalidateWith p s).store = totalMem size (s.store.filter (fun e => !p e.1)) ∧
    totalMem size (invalidateWith p s).store + totalMem size (s.store.filter (fun e => p e.1)) =
      totalMem size s.store := by
  refine ⟨rfl, ?_⟩
  have := totalMem_filter_add size (fun e : K × Entry V => !p e.1) s.store
  rw [invalidateWith_store]
  simpa using this

/-- **Entry limit.**  C04's exactness applies to the invalidated cache with the survivors' count: a plain
    store after the invalidation leaves `min limit (survivors + [key is new])` entries — slots of removed
    entries are free again, and nothing is evicted while survivors + 1 ≤ limit. -/
theorem insert_after_invalidation_exact (cfg : Cfg) (tl : Tlru S) (r : Nat) (p : K → Bool) (s : State K V)
    (k : K) (v : V) (n : Nat) (hl : cfg.limit = some n) (hn : 1 ≤ n) (hi : Inv s) (hb : s.store.length ≤ n) :
    (insert cfg tl r (invalidateWith p s) k v).store.length =
      min n (C04.sizeWith k (s.store.filter (fun e => !p e.1))) :=
  C04.insert_exact cfg tl r (invalidateWith p s) k v n hl hn (invalidateWith_inv p s hi)
    (Nat.le_trans (C04.invalidateWith_length_le p s) hb)

/-- **Eviction order.**  Under FIFO/LRU, if the survivors fill the cache (`limit` of them) and the oldest
    survivor — the head of the filtered queue — is `a`, then storing a fresh key evicts exactly `a`:
    the queue becomes the remaining survivors followed by the new key.  The removed entries play no role.
    All flavours. -/
theorem overflow_after_invalidation_evicts_oldest_survivor {cfg : Cfg}
    (hp : cfg.policy = .fifo ∨ cfg.policy = .lru) (tl : Tlru S) (r : Nat) (p : K → Bool) (s : State K V)
    (hi : Inv s) {a : K} {rest : List K} (hq : s.queue.filter (fun k => !p k) = a :: rest)
    {k : K} (hk : k ∉ keys (invalidateWith p s).store) {n : Nat} (hl : cfg.limit = some n)
    (hfull : (s.store.filter (fun e => !p e.1)).length = n) (v : V) :
    (insert cfg tl r (invalidateWith p s) k v).queue = rest ++ [k] ∧
    keys (insert cfg tl r (invalidateWith p s) k v).store =
      (keys (s.store.filter (fun e => !p e.1))).filter (fun x => x ≠ a) ++ [k] := by
  have hinv := invalidateWith_inv p s hi
  have hq' : (invalidateWith p s).queue = a :: rest := by rw [invalidateWith_eq p s hi]; exact hq
  exact insert_full_head hp tl r hinv hq' hk hl hfull v

/-- **Commutation ("never stored").**  Start from a consistent cache, perform plain stores and time steps
    that cannot overflow (no entry limit, or room for all of them), then invalidate the keys satisfying
    `p`.  The result is *equal* — entries with values, birth stamps and hit counters, order queue, clock,
    statistics — to invalidating first and then performing only the stores of keys not satisfying `p`.
    Every flavour and policy. -/
theorem invalidateWith_commutes_with_stores (cfg : Cfg) (tl : Tlru S) (size : V → Nat) (p : K → Bool)
    (ops : List (Op K V × List Nat)) (s : State K V) (h : Inv s) (hso : StoresOnly ops)
    (hroom : ∀ n, cfg.limit = some n → s.store.length + storeCount ops ≤ n) :
    invalidateWith p (run cfg tl size s ops).1 =
      (run cfg tl size (invalidateWith p s) (withoutKeys p ops)).1 := by
  rw [invalidateWith_eq_dropKeys p _ (run_inv cfg tl size s ops h), invalidateWith_eq_dropKeys p s h]
  exact dropKeys_run_commute cfg tl size p ops s h hso hroom

/-- in particular from the empty cache: storing a set of keys and invalidating a subset is the same as
    storing only the survivors, in the same order -/
theorem store_then_invalidate_eq_store_survivors (cfg : Cfg) (tl : Tlru S) (size : V → Nat) (p : K → Bool)
    (ops : List (Op K V × List Nat)) (hso : StoresOnly ops)
    (hroom : ∀ n, cfg.limit = some n → storeCount ops ≤ n) :
    invalidateWith p (run cfg tl size (State.init : State K V) ops).1 =
      (run cfg tl size (State.init : State K V) (withoutKeys p ops)).1 := by
  have := invalidateWith_commutes_with_stores cfg tl size p ops (State.init : State K V) inv_init hso
    (by intro n hl; have := hroom n hl; simp [State.init]; omega)
  rw [this]; rfl

/-! ### Non-vacuity (K = V = Nat)

  `f` (sync global, FIFO, limit 3, tag "a"), `g` (async, LRU, limit 3, tag "b"), `h` (thread scope, tag "a").
  After calls `f 1, f 2, f 3, g 1, g 2, h 7`:
  * `invalidate_by_tag "a"` empties `f` only — `g` and the thread-scope `h` keep entries and queue;
  * `invalidate_with "f" (· = 1)` keeps `[2, 3]` (store and queue), returns `true`, leaves `g` alone;
    the freed slot is usable: `f 4` evicts nothing (`[2, 3, 4]`), and the next overflow `f 5` evicts `2`,
    the oldest survivor (`[3, 4, 5]`);
  * `invalidate_all_with (name = "g" ∧ key = 2)` returns 2 and removes only `g`'s key 2. -/

def exTl : Nat → Tlru Nat := fun _ => ⟨fun a b => decide (a < b), fun _ h _ r => h * r⟩
def exSpec (name : String) (isAsync threadScope : Bool) (fl : Flavour) (pol : Policy) (tags : List String) : FnSpec :=
  { name := name, isAsync := isAsync, threadScope := threadScope, cfg := ⟨fl, pol, some 3, none, none⟩,
    useMem := false, isResult := false, hasCacheIf := false, hasInvalidateOn := false,
    tags := tags, events := [], deps := [] }
def exFns : List FnSpec :=
  [exSpec "f" false false .global .fifo ["a"], exSpec "g" true false .async .lru ["b"],
   exSpec "h" false true .threadLocal .fifo ["a"]]
def exCall (k v : Nat) : CallIn Nat Nat := ⟨k, v, fun _ _ => true, fun _ _ => false⟩
def exHist : List (SysOp Nat Nat × List Nat) :=
  [(.call 0 0 (exCall 1 10), []), (.call 0 0 (exCall 2 20), []), (.call 0 1 (exCall 3 30), []),
   (.call 1 0 (exCall 1 11), []), (.call 1 0 (exCall 2 21), []), (.call 2 0 (exCall 7 70), [])]
def exRun (sys : Sys Nat Nat) (ops : List (SysOp Nat Nat × List Nat)) : Sys Nat Nat × List (SysOut Nat Nat) :=
  sysRun exFns exTl (fun _ => 0) (fun _ => true) sys ops
def exSys : Sys Nat Nat := (exRun Sys.init exHist).1
def exStep (sys : Sys Nat Nat) (op : SysOp Nat Nat) : Sys Nat Nat × SysOut Nat Nat :=
  sysStep exFns exTl (fun _ => 0) (fun _ => true) [] sys op
/-- keys of the store and the order queue of one cache instance -/
def view (sys : Sys Nat Nat) (id : CacheId) : List Nat × List Nat :=
  (keys (sys.getCache id).store, (sys.getCache id).queue)
def isCount : SysOut Nat Nat → Option Nat
  | .count n => some n
  | _ => none
def isFlag : SysOut Nat Nat → Option Bool
  | .flag b => some b
  | _ => none

example : (exFns.map (·.name)).Nodup := by decide
example : view exSys ⟨0, none⟩ = ([1, 2, 3], [1, 2, 3]) ∧ view exSys ⟨1, none⟩ = ([1, 2], [1, 2]) ∧
    view exSys ⟨2, some 0⟩ = ([7], [7]) := by decide
-- (1) frame of a group invalidation
example : let s := (exStep exSys (.invalidateByTag "a")).1
    view s ⟨0, none⟩ = ([], []) ∧ view s ⟨1, none⟩ = ([1, 2], [1, 2]) ∧ view s ⟨2, some 0⟩ = ([7], [7]) := by
  decide
-- (2) conditional invalidation: exactly key 1 goes, order of the survivors kept, `g` untouched
def exAfter : Sys Nat Nat := (exStep exSys (.invalidateWith "f" (fun k => k == 1))).1
example : isFlag (exStep exSys (.invalidateWith "f" (fun k => k == 1))).2 = some true := by decide
example : view exAfter ⟨0, none⟩ = ([2, 3], [2, 3]) ∧ view exAfter ⟨1, none⟩ = ([1, 2], [1, 2]) := by decide
example : (lookup 2 (exAfter.getCache ⟨0, none⟩).store).map (·.val) = some 20 ∧
    (lookup 1 (exAfter.getCache ⟨0, none⟩).store).map (·.val) = none := by decide
-- (4) the freed slot is free: the next store evicts nothing …
example : view (exStep exAfter (.call 0 0 (exCall 4 40))).1 ⟨0, none⟩ = ([2, 3, 4], [2, 3, 4]) := by decide
-- … and the following overflow evicts the oldest survivor, key 2
example : view (exRun exAfter [(.call 0 0 (exCall 4 40), []), (.call 0 0 (exCall 5 50), [])]).1 ⟨0, none⟩
    = ([3, 4, 5], [3, 4, 5]) := by decide
-- removing a middle key: survivors [1, 3]; overflow then evicts 1
example : view (exRun exSys [(.invalidateWith "f" (fun k => k == 2), []), (.call 0 0 (exCall 4 40), []),
    (.call 0 0 (exCall 5 50), [])]).1 ⟨0, none⟩ = ([3, 4, 5], [3, 4, 5]) := by decide
-- invalidate_all_with: per-name predicate, count = number of registered functions
example : isCount (exStep exSys (.invalidateAllWith (fun name k => name == "g" && k == 2))).2 = some 2 := by decide
example : let s := (exStep exSys (.invalidateAllWith (fun name k => name == "g" && k == 2))).1
    view s ⟨0, none⟩ = ([1, 2, 3], [1, 2, 3]) ∧ view s ⟨1, none⟩ = ([1], [1]) ∧ view s ⟨2, some 0⟩ = ([7], [7]) := by
  decide
-- thread-scope and unknown names: false, nothing changes
example : isFlag (exStep exSys (.invalidateWith "h" (fun _ => true))).2 = some false := by decide
example : isFlag (exStep exSys (.invalidateWith "nobody" (fun _ => true))).2 = some false := by decide
example : view (exStep exSys (.invalidateWith "h" (fun _ => true))).1 ⟨2, some 0⟩ = ([7], [7]) := by decide
-- commutation on one cache: store 1..4, invalidate the even keys = store 1 and 3
def exCfg : Cfg := ⟨.async, .fifo, some 4, none, none⟩
def exOps : List (Op Nat Nat × List Nat) :=
  [(.insert 1 10, []), (.insert 2 20, []), (.tick 1500, []), (.insert 3 30, []), (.insert 4 40, [])]
example : StoresOnly exOps ∧ (∀ n, exCfg.limit = some n → (State.init : State Nat Nat).store.length + storeCount exOps ≤ n) := by
  refine ⟨trivial, ?_⟩
  intro n h; cases h; decide
example :
    let a := invalidateWith (fun k => k % 2 == 0) (run exCfg (exTl 0) (fun _ => 0) (State.init : State Nat Nat) exOps).1
    let b := (run exCfg (exTl 0) (fun _ => 0) (State.init : State Nat Nat) (withoutKeys (fun k => k % 2 == 0) exOps)).1
    keys a.store = [1, 3] ∧ a.queue = [1, 3] ∧ keys b.store = [1, 3] ∧ b.queue = [1, 3] ∧
    a.store.map (·.2.birth) = [0, 1000] ∧ b.store.map (·.2.birth) = [0, 1000] ∧ a.now = b.now := by decide

end Cachelito.C13
