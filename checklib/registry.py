"""Registry of claimed properties: which theorem modules, correspondence streams and monitors decide each."""

TRUSTED_BASE = [
    "Lean 4.33.0 kernel (thorough tier: re-checked by leanchecker); axioms allowed: propext, Classical.choice, Quot.sound",
    "hand-written Lean model lean/Cachelito/Cachelito/{Basic,Core}.lean as a transcription of /repo (checked per step by the correspondence streams, not proved)",
    "Lean compiler/runtime executing the model in the driver (incl. Float = C double, libm pow)",
    "Rust harness /verif/harness (drives the real code, dumps its state), python orchestrator ./check",
    "HashMap/DashMap as finite maps, VecDeque as a list, monotone Instant, fastrand as an arbitrary choice < len",
    "source translators checklib/static_scopes.py (lock / RefCell nesting -> Generated/*.lean, C16s / C17s) and checklib/static_sites.py (lock-site inventory): lexical scanners, trusted",
    "source translator checklib/rust2lean.py (pure helper code of memory_estimator.rs, utils.rs, cache_entry.rs, stats.rs, eviction_policy.rs and the victim scans + insert / is_already_key_inserted / handle_entry_limit_eviction of async_global_cache.rs -> Generated/Pure*.lean, theorems T01..T22): a parser + emitter for the Rust subset these files use, trusted; the meaning of the library calls (usize subtraction, VecDeque / HashMap / iterator methods, atomics, f64 as an abstract structure) is the hand-written Cachelito/RustLite.lean, trusted; Rust's trait resolution (which MemoryEstimator impl a shape uses) is transcribed in Cachelito/Source/Mem.lean",
]

HOOK_COMMITS = [
    "f518ce9e89af33be127441eb77c949ae8b13801b",   # H2 dump/age closures + hook API (cachelito_core::verif)
    "ad9f6206a4ed585ee68ca44747c6976aeb4fdd0d",   # H1 yield points before every lock acquisition
    "c012f53beae847c4b0ebb6615d9afb207e26f42c",   # H1 correction: three hold markers on statement temporaries dropped
]

ALL_POLICIES = ["fifo", "lru", "lfu", "arc", "random", "tlru"]

def core_stream(filters=None, nontrivial=(), quick=1000, thorough=20000, what="", enumerate_=None):
    return {
        "kind": "core",
        "what": what or "L1: real GlobalCache / ThreadLocalCache / AsyncGlobalCache over harness-owned stores vs Cachelito.step, full state per step",
        "filters": filters or [[]],
        "episodes": {"quick": quick, "thorough": thorough},
        "ops": {"quick": (30, 50), "thorough": (40, 120)},
        "nontrivial": list(nontrivial),
        "enumerate": enumerate_ or [],
    }

SMALL_SCOPE = [(fl, pol, lim, 5) for fl in ("global", "thread", "async") for pol in ALL_POLICIES for lim in (1, 2)]

def macro_stream(nontrivial=(), quick=1200, thorough=20000, what=""):
    return {
        "kind": "macro",
        "what": what or "L2: real #[cache]/#[cache_async] generated functions (corpus of 130 decorated functions: 48 random attribute x signature x return-type combinations, 4 fixed ones, 30 systematic flavour x policy combinations with limit+invalidate_on / max_memory+cache_if, 12 further signature shapes (two integers, methods with string+integer and three scalars, Vec, tuple, Option+f64, destructuring tuple patterns) sync and async, 12 plain functions (every policy, sync global and async), 4 plain Result functions, 8 TTL+limit functions, 8 Result functions with TTL+limit in every flavour), real invalidation and statistics registries, real threads for thread scope, virtual time through the verif hooks vs Cachelito.sysStep; outputs, predicate logs, statistics and the dump of every cache instance compared per operation",
        "episodes": {"quick": quick, "thorough": thorough},
        "ops": {"quick": 50, "thorough": 80},
        "nontrivial": list(nontrivial),
    }

def sched_stream(nontrivial=(), quick=(6, 8, 100), thorough=(36, 12, 1000), what=""):
    return {"kind": "sched", "budget": {"quick": quick, "thorough": thorough}, "nontrivial": list(nontrivial),
            "what": what or "L3: 2-3 real threads running short programs (calls that overflow a hot cache, tag/event/name/conditional invalidations, statistics queries) on real generated functions under a deterministic scheduler that switches at every lock acquisition (hook H1): seeded random schedules, then stateless DFS (exhaustive when the space fits the budget); deadlock = all unfinished threads parked at held locks; every operation's real lock trace checked against the Lean skeleton; the real schedule replayed on the data-carrying interleaving model; quiescent dumps; sequential probe history vs the model"}

def hammer_stream(quick=(3, 8, 400), thorough=(20, 12, 2500)):
    return {"kind": "hammer", "budget": {"quick": quick, "thorough": thorough}, "nontrivial": [],
            "what": "free-running parallel stress: 8-12 real threads call plain generated functions (sync global and async, every policy) whose results are already stored, with large values; any body execution or wrong value is a violation for SOME real schedule (the scheduler of the L3 stream serialises threads and cannot contend inside DashMap shards); second phase: callers race with a thread that keeps invalidating the same tagged cache (by tag and conditionally): at the end hits+misses must equal the number of completed calls and misses the number of body executions (caches with a ttl are aged past it over and over, so expired-lookup paths race too); third phase: parallel memory-aware stores of values of 0.6 x max_memory: at every quiescent point the estimated total is within max_memory and every stored key has its queue slot"}

def static_stream():
    return {"kind": "static", "nontrivial": [],
            "what": "static lock inventory of the CURRENT source (checklib/static_sites.py): every parking_lot acquisition expression in the non-test, non-hook code of cachelito-core and the macro crates is preceded by its H1 yield point (64 sites), every declared lock object belongs to the known set (rank table of Conc.lean), no guard bound by let is in scope at an .await in the async engine / async macro"}

def reg_stream():
    return lines_stream("reg_diff", "reg", ["gen", "{seed}", "{n}"], 3000, 60000,
                        "registry: the REAL InvalidationRegistry (private instance) through arbitrary registration histories (macro-like once-only registrations in any order interleaved with requests; free histories with re-registration under other metadata, replaced callbacks, shared tags/events/dependencies, undeclared requests, clear()) vs Cachelito.Registry.run; per operation the return value and the set of callbacks that really ran",
                        r"c[1-9]\d*:|f1:")

def stats_stream():
    return lines_stream("stats_diff", "stats", ["gen", "{seed}", "{n}"], 3000, 60000,
                        "statistics registry: the REAL process-global stats_registry + CacheStats through arbitrary histories (macro-like once-only registration of each cache's own cell followed by recordings; free histories with re-registration under another cell, one cell under two names, record_hit/record_miss/reset on the cells, get (snapshot) / get_ref (pointer identity) / reset of registered and unknown names, list, clear) vs Cachelito.StatsReg.run; per operation the returned counters, total_accesses, hit/miss rate bits, flag, name list",
                        r"s:\d|r:\d|f1")

def counters_stream():
    return {"kind": "static", "what_kind": "counters", "nontrivial": [],
            "what": "static check of the atomicity assumption on the CURRENT source: every update of CacheStats' hit / miss counters is a single fetch_add (reset stores 0), nobody else writes them"}

def lines_stream(bin_, mode, args, quick, thorough, what, nontrivial_re="."):
    return {"kind": "lines", "bin": bin_, "mode": mode, "args": args, "n": {"quick": quick, "thorough": thorough},
            "what": what, "nontrivial_re": nontrivial_re}

MODEL_NOTE = ("Theorems are about the hand-written Lean model; its agreement with the Rust code is tested per step "
              "(full state) on generated histories, not proved. HashMap/DashMap/VecDeque are lists, usize overflow is not modelled.")
TECH = "Lean 4 theorem (induction over operation histories / invariants) + per-step model-vs-implementation correspondence + property monitors on the real code"

PROPS = {
    "C01": {
        "lean_modules": ["Cachelito.Props.C01", "Cachelito.Props.C01b", "Cachelito.Props.C01c", "Cachelito.Props.T07", "Cachelito.Props.T08", "Cachelito.Props.T09", "Cachelito.Props.T10", "Cachelito.Props.T11", "Cachelito.Props.T12", "Cachelito.Props.T17", "Cachelito.Props.T17m", "Cachelito.Props.T18", "Cachelito.Props.S01"],
        "streams": [core_stream(nontrivial=["hit", "re-store"]), macro_stream(nontrivial=["hit"]),
                    sched_stream(nontrivial=['served-call-source-checked'], quick=(6, 8, 60), what="L3: scheduled runs of 2-3 real threads (calls racing with stores of the same key and with invalidations): every call returns the function's value for its own arguments, and a call served from the cache has a legitimate source (a store for the same arguments that no completed invalidation separates from it)"), hammer_stream()],
        "monitors": ["C01"],
        "rule": "L1: generated engine histories; non-trivial = a lookup that returned a value or a store that replaced one. L2: generated call histories on real generated functions; non-trivial = a call served from the cache; distinct by (config, pre-state, op) resp. (op, observation)",
        "level_text": "Lean theorems: in every history of every flavour/policy/configuration a lookup returns exactly the value of the latest store under that key (never a value stored under another key, never a replaced one); the store always holds the latest value per key. Tied to the code by per-step full-state comparison (engines) and per-call comparison of returned values, traces and cache dumps (generated functions); monitors: returned value = value of the latest store (L1), = the deterministic body's value for the arguments (L2).",
        "level_note": MODEL_NOTE + " C01c combines C01b with C02's key injectivity: for every signature and deterministic body on well-typed ARGUMENTS, a cached call returns the body's value for the same arguments and a served value never comes from other arguments.",
        "technique": TECH, "design_ref": "DESIGN.md §7 C01",
        "assumptions": ["deterministic body", "sequential use (interleavings: C18)"],
    },
    "C02": {
        "lean_modules": ["Cachelito.Props.C02", "Cachelito.Props.T21"],
        "streams": [lines_stream("keys_diff", "keys", ["{seed}", "{n}", "{n}"], 60, 1000,
                                 "keys: typed random argument tuples of 27 signature shapes (adversarial strings with separators, quotes, backslashes, control/combining/astral chars; ints incl. min/max; nested Option/Vec/tuple; methods with struct/enum receivers) rendered by the REAL to_cache_key / format!({:?}) and by real #[cache] / #[cache_async] functions (keys observed through invalidate_with) vs Keys.keyOf; pairs of DIFFERENT tuples biased to boundary moves must get different real keys", r"^[KP]\|")],
        "monitors": ["C02"],
        "rule": "one case per line: K = one tuple (model key vs real key), P = two different tuples of one signature (real keys must differ; for real decorated functions the second call must not be served the first one's entry), FL = float rendering assumptions; distinct lines counted",
        "level_text": "Lean theorem: for every signature over the nested type grammar (ints, bool, char, str, float, unit, Option, Vec/slices, tuples, Debug-derived structs/tuple structs/enums) and every escaping table, keyOf a = keyOf b implies a = b, proved by a parser that is a left inverse of the Debug rendering (so argument boundaries are unambiguous); without the separator (1,23) and (12,3) collide (kernel-checked). Tied to the code by comparing the model's key with the real key on generated tuples through all four real key paths.",
        "level_note": MODEL_NOTE + " Assumed (explicit hypotheses): the float printer is injective on non-NaN values, non-empty and uses only [0-9.eE+-infNa]; which non-ASCII chars Rust escapes is a parameter (theorem holds for all). NaNs of different payload share the key `NaN` (excluded by the injectivity hypothesis). User-written CacheableKey impls are outside the property.",
        "technique": "Lean 4 theorem (parser as left inverse of the renderer) + model-vs-implementation key comparison + collision monitor on real keys",
        "design_ref": "DESIGN.md §7 C02", "assumptions": ["float Debug injective on non-NaN"],
    },
    "C03": {
        "lean_modules": ["Cachelito.Props.C03", "Cachelito.Props.C03c", "Cachelito.Props.T17", "Cachelito.Props.T17m", "Cachelito.Props.T18", "Cachelito.Props.T21", "Cachelito.Props.S01"],
        "streams": [macro_stream(nontrivial=["c03-call"]), hammer_stream(),
                    sched_stream(nontrivial=["c03-plain-concurrent-run", "calls-only-quiescent-check"], quick=(6, 8, 60),
                                 what="L3 calls-only programs: 2-3 real threads call ONE cache with overlapping arguments under the deterministic scheduler (switches at every lock acquisition, so lookups fall between the two halves of another thread's store); plain caches of every policy: once a storing call has returned no later call may run the body; limited caches: a stored key may vanish only from a FULL cache")],
        "monitors": ["C03"],
        "rule": "call histories on real generated functions; non-trivial = a call of a function configured without limit/ttl/max_memory/predicates before any invalidation touched it (the configuration the property speaks about)",
        "level_text": "Lean theorems (sequential histories): in the plain configuration the stored key set equals the set of keys called on that cache instance, the body runs exactly once per distinct key and instance (per thread for thread scope), every repeated call is served the first value without running the body. Tied to the code by execution counters and cache dumps of real generated functions. Concurrent clause (C03c, interleaving model of wrapper calls = lookup; body; store at critical-section granularity, any number of callers, any schedule, both engines): a stored key stays stored, no lookup after a store-write misses, so a call starting after a storing call returned never runs the body, and the number of body runs for a key is at most the number of lookups that read before the first store-write. Tied to the code by a free-running parallel stress stream (any body execution for a stored key is a violation).",
        "level_note": MODEL_NOTE,
        "technique": TECH, "design_ref": "DESIGN.md §7 C03", "assumptions": ["sequential histories"],
    },
    "C14": {
        "lean_modules": ["Cachelito.Props.C14", "Cachelito.Props.T11", "Cachelito.Props.T12", "Cachelito.Props.T21"],
        "streams": [macro_stream(nontrivial=["c14-shared-hit", "call"]), hammer_stream(),
                    sched_stream(nontrivial=["c03-plain-concurrent-run", "calls-only-quiescent-check"], quick=(6, 8, 60),
                                 what="L3 calls-only programs on shared (global / async) caches under the deterministic scheduler: a value stored by a call that has returned is served to every call that starts later on any thread; a stored key vanishes only from a full cache")],
        "monitors": ["C14"],
        "rule": "call histories distributed over 3 real threads (thread-scope functions called on any of them, global/async functions too); non-trivial = any call (every call checks the frame: no other instance changes) ",
        "level_text": "Lean theorems: a call of a thread-scope function changes only the calling thread's instance (all other instances equal), the state and outputs of a thread are determined by its own sub-history (interleaving independence), a thread is never served another thread's value; global/async functions have one instance whatever the calling thread, and a stored, unexpired key is a hit for any thread. Tied to the code with real OS threads and per-thread dumps.",
        "level_note": MODEL_NOTE + " That thread_local! gives one instance per OS thread is Rust's guarantee: modelled (the index ThreadId), tested, not proved.",
        "technique": TECH, "design_ref": "DESIGN.md §7 C14", "assumptions": [],
    },
    "C19": {
        "lean_modules": ["Cachelito.Props.C19", "Cachelito.Props.T05", "Cachelito.Props.T17", "Cachelito.Props.T17m", "Cachelito.Props.T18", "Cachelito.Props.T21"],
        "streams": [lines_stream("attrs_diff", "attrs", ["gen", "{seed}", "{n}", "{n}"], 1500, 20000,
                                 "attrs: generated attribute lists (mostly valid: every attribute present/absent, six policies, limits, ttls, max_memory in all forms and letter cases, weights, names, arrays, paths; plus a malformed stream: unknown names, typos, wrong literal kinds, out-of-set policy/scope, negative/overflowing numbers, repeated attributes with an invalid occurrence) through the REAL parse_sync_attributes / parse_async_attributes (catch_unwind) vs Attrs.parse; is_result and has_max_memory expressions copied verbatim", r"^[AR]\|"),
                    {"kind": "compile", "nontrivial": [], "what": "compile corpus through rustc: 22 invalid attribute lists (unknown names, typos, wrong literal kinds, out-of-set policy/scope, negative/float/overflowing numbers, repeated attribute with an invalid occurrence) must fail to compile with the REAL macros, 5 valid controls must compile (one cargo check --examples --keep-going)"},
                    macro_stream(nontrivial=["call"], what="L2 behavioural fidelity: 130 generated functions covering attribute values x signature shapes (0-4 args of integer, bool, char, string, Option, Vec, tuple and float types, &self / &mut self / self / none) x return types compile and behave like the core cache configured with the values as written (full cache dumps compared per call)")],
        "monitors": ["C19"],
        "rule": "attrs: one attribute list per line, distinct lines counted; L2: every call on a generated function",
        "level_text": "Lean theorems about the transcribed attribute parser: every Valid list is accepted with exactly its meaning (last occurrence wins, defaults otherwise, n KB/MB/GB = n*1024^k in any letter case), every list containing an unknown name or an invalid policy/scope/limit/ttl/max_memory/frequency_weight value ANYWHERE is rejected (parser error, spliced compile_error or panic - all compile failures), overflowing sizes are rejected, the textual has_max_memory test equals maxMemory.isSome, isResultSpelling accepts exactly the two spellings. Tied to the code by running the real parser on generated token streams and by the compiled corpus of generated functions whose behaviour is compared with the model per call. Rejection 'at compile time' is checked end to end by compiling invalid lists with the real macros. That rustc accepts the generated code for EVERY valid program is sampled by the corpora, not proved.",
        "level_note": MODEL_NOTE + " syn's tokenisation is trusted (the harness encodes what syn parsed). Quirks reproduced by the model and not alarmed: name = <non-string> ignored, \"1GBGB\" = 1 GB, leading + accepted, integer frequency_weight 0 accepted.",
        "technique": "Lean 4 theorem (parser = independent specification on valid lists; rejection lemmas) + real parser vs model on generated attribute lists + compiled corpus behaviour vs model + source-to-model translator for EvictionPolicy::from / is_valid",
        "design_ref": "DESIGN.md §7 C19", "assumptions": [],
    },
    "C04": {
        "lean_modules": ["Cachelito.Props.C04", "Cachelito.Props.X01", "Cachelito.Props.T02", "Cachelito.Props.T07", "Cachelito.Props.T08", "Cachelito.Props.T11", "Cachelito.Props.T14", "Cachelito.Props.T15", "Cachelito.Props.T16", "Cachelito.Props.S01"],
        "streams": [core_stream(nontrivial=["eviction", "expiry"], enumerate_=SMALL_SCOPE),
                    macro_stream(nontrivial=["call"], what="L2: real generated functions with an entry limit: after every call the dumped cache holds at most `limit` entries, and an accepted result of a FIFO / LRU plain store is present afterwards (exactly one victim per overflow)"),
                    sched_stream(nontrivial=['quiescent-cache-checked'], quick=(6, 8, 60), what="L3: scheduled runs of real threads (stores racing with each other, with group / name / conditional invalidations and with expired lookups): once every operation has completed, no cache holds more entries than its limit and every stored key is tracked by the eviction queue (an untracked entry is never counted and never evicted)"),
                    hammer_stream()],
        "monitors": ["C04"],
        "rule": "generated episodes (config product flavour x policy x limit x max_memory x ttl x fw, key alphabet limit+2) run on the real engines; a step is non-trivial when it evicts or purges an entry; distinct = distinct (config, pre-state, operation)",
        "level_text": "Machine-checked Lean theorems: the store/queue bookkeeping invariant holds in every reachable state, |store| <= limit after every operation of every history, and a plain store leaves exactly min(limit, held + [key new]) entries (one victim per overflow, none otherwise), for all flavours, policies, score algebras, sizes and random draws. The model is tied to the code by per-step full-state comparison on generated and (thorough) exhaustively enumerated histories.",
        "level_note": MODEL_NOTE,
        "technique": TECH + " + source-to-model translator for the pure helper code (utils.rs / cache_entry.rs / memory_estimator.rs / stats.rs / eviction_policy.rs and the store path of async_global_cache.rs regenerated into Lean on every run, translated function = model definition re-proved)", "design_ref": "DESIGN.md §7 C04",
        "assumptions": ["limit >= 1", "sequential use (concurrency is C18)"],
    },
    "C05": {
        "lean_modules": ["Cachelito.Props.C05", "Cachelito.Props.C05a", "Cachelito.Props.T01", "Cachelito.Props.T14", "Cachelito.Props.T15", "Cachelito.Props.T16", "Cachelito.Props.T17m", "Cachelito.Props.S01"],
        "streams": [core_stream(filters=[[], ["shape=crowd"]], quick=1600, thorough=30000, nontrivial=["memory-store"], what="L1 restricted to nothing: all flavours/policies, memory-aware stores with sizes around max_memory; half of the episodes in the 'crowd' shape (a bound that holds five to eight small residents, large newcomers that displace several of them in one store)"),
                    lines_stream("mem_diff", "mem", ["{seed}", "{n}"], 60, 600,
                                 "estimator: random values of 85 Rust types (String/Vec with chosen capacities, nested Option/Result/tuple/Box/Arc/Rc, CacheEntry) through the REAL estimate_memory() vs MemEst.estimate; independent footprint walk", r"\|"),
                    sched_stream(nontrivial=['quiescent-cache-checked'], quick=(6, 8, 60), what="L3: scheduled runs on memory-bounded caches (memory-aware stores racing with each other and with invalidations): at quiescence the estimated total is within max_memory"), hammer_stream()],
        "monitors": ["C05"],
        "rule": "L1: memory-aware stores on the real engines with value sizes around max_memory (exact fit, one byte over, oversize); non-trivial = a memory-aware store with max_memory set. Estimator: one random value per line, distinct lines counted",
        "level_text": "Lean theorems: (engine) after every memory-aware store total size <= max_memory for every history, an oversize value changes nothing but its own key, the memory loop removes exactly the shortest prefix of the policy's victim sequence after which the total fits (nothing when it already fits) and always terminates; (estimator) estimate = inline + owned heap (+ borrowed bytes for &str/&[T]), never below the inline size. Tied to the code per step (engines, full state) and per value (estimator).",
        "level_note": MODEL_NOTE + " Rust's size_of values are parameters reported by the harness.",
        "technique": TECH + " + source-to-model translator for the pure helper code (utils.rs / cache_entry.rs / memory_estimator.rs / stats.rs / eviction_policy.rs and the store path of async_global_cache.rs regenerated into Lean on every run, translated function = model definition re-proved)", "design_ref": "DESIGN.md §7 C05",
        "assumptions": ["all stores of a history go through insert_with_memory (as the macros generate when max_memory is set)", "size_of table as reported by rustc"],
    },
    "C06": {
        "lean_modules": ["Cachelito.Props.C06", "Cachelito.Props.T03", "Cachelito.Props.T09", "Cachelito.Props.T10", "Cachelito.Props.T12", "Cachelito.Props.S01"],
        "streams": [core_stream(nontrivial=["expiry", "ttl-boundary"]),
                    sched_stream(nontrivial=['served-call-source-checked', 'concurrent-call'], quick=(6, 8, 60), what="L3: scheduled runs that start from EXPIRED entries (stored, then aged past the ttl through the verif hook): a call is served from the cache only if some call stored the key again; expired-lookup paths race with stores and with each other")],
        "monitors": ["C06"],
        "rule": "generated episodes with time steps around the TTL boundary (T-0.1s, T, T+0.1s, whole seconds for async); non-trivial = a lookup of an entry within one second of the boundary or an expiry purge",
        "level_text": "Lean theorems: with ttl = T a lookup of an entry of age >= T s returns nothing, counts a miss and removes the key from store and queue (so it no longer occupies capacity: a following store into the previously full cache evicts nothing); a younger entry (sync: age < T; async: real age <= T-1 s, exact characterisation by the whole-second stamps) is served; at history level a served value always has real age < T. All flavours, policies, limits.",
        "level_note": MODEL_NOTE + " Virtual time: the harness re-stamps entry birth times; Instant is assumed monotone.",
        "technique": TECH + " + source-to-model translator for the pure helper code (utils.rs / cache_entry.rs / memory_estimator.rs / stats.rs / eviction_policy.rs and the store path of async_global_cache.rs regenerated into Lean on every run, translated function = model definition re-proved)", "design_ref": "DESIGN.md §7 C06",
        "assumptions": ["monotone clock"],
    },
    "C07": {
        "lean_modules": ["Cachelito.Props.C07", "Cachelito.Props.T02", "Cachelito.Props.T07", "Cachelito.Props.T08", "Cachelito.Props.T09", "Cachelito.Props.T10", "Cachelito.Props.T11", "Cachelito.Props.T12", "Cachelito.Props.T14", "Cachelito.Props.T15", "Cachelito.Props.T16", "Cachelito.Props.S01"],
        "streams": [core_stream(filters=[["policy=fifo"], ["policy=lru"]], nontrivial=["eviction"]), hammer_stream()],
        "monitors": ["C07"],
        "rule": "FIFO and LRU episodes on all three engines under entry limits 1..4, memory limits and both; non-trivial = a store that evicted",
        "level_text": "Lean theorems with ghost stamps derived from the history: the queue is sorted by last-store time (FIFO) / last-use time (LRU) in every reachable state, every eviction pops the queue head, hence every key removed by a store (entry limit or memory loop, several victims) is older than every surviving key; reads never change FIFO order. All flavours.",
        "level_note": MODEL_NOTE,
        "technique": TECH + " + source-to-model translator for the pure helper code (utils.rs / cache_entry.rs / memory_estimator.rs / stats.rs / eviction_policy.rs and the store path of async_global_cache.rs regenerated into Lean on every run, translated function = model definition re-proved)", "design_ref": "DESIGN.md §7 C07",
        "assumptions": [],
    },
    "C08": {
        "lean_modules": ["Cachelito.Props.C08", "Cachelito.Props.T02", "Cachelito.Props.T03", "Cachelito.Props.T06", "Cachelito.Props.T07", "Cachelito.Props.T08", "Cachelito.Props.T09", "Cachelito.Props.T10", "Cachelito.Props.T11", "Cachelito.Props.T12", "Cachelito.Props.T14", "Cachelito.Props.T15", "Cachelito.Props.T16", "Cachelito.Props.S01"],
        "streams": [core_stream(filters=[["policy=lfu"], ["policy=arc"], ["policy=tlru"], ["policy=lfu", "shape=crowd"],
                                            ["policy=arc", "shape=crowd"], ["policy=tlru", "shape=crowd"],
                                            ["policy=arc", "shape=crowd", "flavour=async"], ["policy=tlru", "shape=crowd", "flavour=async"]],
                                   nontrivial=["eviction"], quick=4800, thorough=48000),
                    macro_stream(nontrivial=["c08-l2-victim-checked"], what="L2: real #[cache_async] functions with policy lfu / arc / tlru, an entry limit and the frequency_weight WRITTEN on the attribute (anywhere in the list): when a call stores a new key into a full cache, the evicted entry must have the lowest documented score hits^frequency_weight x rank computed from the dumped hit counters and queue order (decisive cases only)")],
        "monitors": ["C08"],
        "rule": "LFU / ARC / TLRU episodes on all three engines, limits 1..4, ttl none/1..3, frequency_weight none/0.1/0.3/1/1.5/3, entry and memory pressure; non-trivial = a store that evicted; the driver mirrors the f64 score exactly",
        "level_text": "Lean theorems: the victim scan returns the FIRST minimiser of the policy's score among stored queue keys for any strict-weak-order comparison (LFU: hits; ARC: hits x rank; TLRU: any scorer), every eviction of a store (limit step and memory loop) is such a victim; LFU victims have the fewest successful lookups (hit counters equal the history's count); async ARC/TLRU: among equally popular entries the least recently used goes first; sync engines: the victim is the first entry with a zero factor, so weight form and rank orientation are unobservable there; TLRU without ttl and weight coincides with ARC on every history.",
        "level_note": MODEL_NOTE + " TLRU theorems assume the f64 comparison is a strict weak order on the scores produced (no NaN) and positive weights; the driver's Float scorer mirrors libm pow.",
        "technique": TECH + " + source-to-model translator for the pure helper code (utils.rs / cache_entry.rs / memory_estimator.rs / stats.rs / eviction_policy.rs and the store path of async_global_cache.rs regenerated into Lean on every run, translated function = model definition re-proved)", "design_ref": "DESIGN.md §7 C08",
        "assumptions": ["frequency_weight > 0", "scores below f64::MAX / hit counters below u64::MAX"],
    },
    "C09": {
        "lean_modules": ["Cachelito.Props.C09", "Cachelito.Props.C09c", "Cachelito.Props.T13", "Cachelito.Props.T17", "Cachelito.Props.T17m", "Cachelito.Props.T18", "Cachelito.Props.S01"],
        "streams": [macro_stream(nontrivial=["c09-call"]),
                    sched_stream(nontrivial=["c09-concurrent-run"], quick=(6, 8, 80), what="L3 calls-only programs on PLAIN Result functions with an impure body (one thread's calls succeed, the others' fail for the same arguments) under the deterministic scheduler: an Err is never served from the cache, and once an Ok-storing call has returned every call started later is served without running the body (a failing call that finishes late does not disturb the stored Ok)"), hammer_stream()],
        "monitors": ["C09"],
        "rule": "generated call histories on real generated functions with scripted Ok/Err outcomes per call (impure body driven by the harness), both recognised Result spellings, all flavours, with and without max_memory; non-trivial = a call of a Result function without cache_if",
        "level_text": "Lean theorems about the generated wrapper: an Err outcome leaves the cache exactly as the lookup left it, an Ok is handed to the engine, the body runs iff the lookup missed, every stored value is Ok in every reachable state (no call is ever served an Err), while all outcomes for a key were Err every call runs the body, and after the first Ok (absent eviction pressure) every later call is served it. Under concurrency (C09c: interleaving model of wrapper calls with IMPURE per-call outcomes, any number of callers, any schedule, both engines): a call whose result is not stored performs exactly the micro-steps of a lookup; no stored pair and no served value is ever an Err; in the plain configuration a stored Ok stays stored and, once an Ok-storing call has returned, no later call runs the body whatever failing calls finish later; while nothing was written every failing call runs the body. Tied to the code by per-call comparison of return values, body-execution counts and cache dumps of real generated functions, and by scheduled runs of real threads on plain Result functions whose calls succeed on one thread and fail on the others.",
        "level_note": MODEL_NOTE + " KNOWN FINDING F7: return types that are Result but spelled through an alias, core::result::Result or a leading :: are not recognised by the macro (textual test) and their Err values are cached; the theorem is about the recognised spellings.",
        "technique": TECH, "design_ref": "DESIGN.md §7 C09",
        "assumptions": ["return type spelled Result<..> or std::result::Result<..>"],
    },
    "C10": {
        "lean_modules": ["Cachelito.Props.C10", "Cachelito.Props.C09c", "Cachelito.Props.T17", "Cachelito.Props.T17m", "Cachelito.Props.T18", "Cachelito.Props.S01"],
        "streams": [macro_stream(nontrivial=["c10-call"])],
        "monitors": ["C10"],
        "rule": "generated call histories on real generated functions with logged cache_if predicates answering from a script; non-trivial = a call of a function with cache_if",
        "level_text": "Lean theorems: the predicate is consulted exactly once per body execution, immediately after it, with that call's key and result, never on a hit; the engine store happens iff shouldStore (characterised in the four cases sync/async x Result or not); a rejected result leaves the post-lookup state so the next call runs the body; an accepted one is served afterwards (absent eviction pressure). Tied to the code by predicate logs, execution counts and cache dumps of real generated functions.",
        "level_note": MODEL_NOTE,
        "technique": TECH, "design_ref": "DESIGN.md §7 C10", "assumptions": [],
    },
    "C11": {
        "lean_modules": ["Cachelito.Props.C11", "Cachelito.Props.T17", "Cachelito.Props.T17m", "Cachelito.Props.T18", "Cachelito.Props.S01"],
        "streams": [macro_stream(nontrivial=["c11-call"]), hammer_stream()],
        "monitors": ["C11"],
        "rule": "generated call histories on real generated functions (sync global, thread-local, async) with logged invalidate_on checks whose verdict changes between calls; non-trivial = a call of a function with invalidate_on",
        "level_text": "Lean theorems: a value is served from the cache iff the lookup hit and the check answered false (then the body does not run); a stale entry re-executes the body and whatever is held under the key afterwards is the fresh entry (the old value never survives, all flavours); the next call's check sees the fresh value. Tied to the code by check logs, execution counts and cache dumps.",
        "level_note": MODEL_NOTE,
        "technique": TECH, "design_ref": "DESIGN.md §7 C11", "assumptions": [],
    },
    "C12": {
        "lean_modules": ["Cachelito.Props.C12", "Cachelito.Props.C12r", "Cachelito.Props.T13", "Cachelito.Props.T19", "Cachelito.Props.T20", "Cachelito.Props.S01"],
        "streams": [macro_stream(nontrivial=["group-invalidation-hit"]), reg_stream(),
                    sched_stream(nontrivial=['concurrent-tag', 'concurrent-cache', 'concurrent-event'], quick=(6, 8, 60), what="L3: scheduled runs in which group / name invalidations race with calls: a call that starts after an invalidation has COMPLETED is never served an entry stored before that invalidation began")],
        "monitors": ["C12"],
        "rule": "episodes over 4 real generated functions drawn from a corpus with random tag/event/dependency/name metadata (sync and async mixed, name overrides), requests including undeclared names; non-trivial = a group invalidation that matched at least one registered cache",
        "level_text": "Lean theorems over the system model (caches + invalidation registry): after a tag/event/dependency/name request every registered matching cache has empty store and queue, the returned count/boolean equals the number of such caches, unknown names change nothing, and the next call for any arguments runs the body (also after arbitrary other operations). Tied to the code by return values and the verif dumps of every cache instance after each operation.",
        "level_note": MODEL_NOTE + " Cache names are assumed pairwise distinct.",
        "technique": TECH, "design_ref": "DESIGN.md §7 C12", "assumptions": ["distinct cache names"],
    },
    "C13": {
        "lean_modules": ["Cachelito.Props.C13", "Cachelito.Props.C12r", "Cachelito.Props.T02", "Cachelito.Props.T13", "Cachelito.Props.T19", "Cachelito.Props.T20", "Cachelito.Props.S01"],
        "streams": [macro_stream(nontrivial=["conditional-invalidation-removed", "group-invalidation-hit"]), reg_stream(),
                    sched_stream(nontrivial=['concurrent-with', 'concurrent-allwith'], quick=(6, 8, 60), what="L3: scheduled runs in which conditional invalidations race with calls: a key matched by a completed invalidate_with / invalidate_all_with is not served from an entry stored before it began; non-matching caches and keys are untouched at quiescence (dump replayed on the interleaving model)")],
        "monitors": ["C13"],
        "rule": "episodes with invalidate_with / invalidate_all_with over random subsets of the stored keys and group invalidations, followed by further overflow histories; non-trivial = an invalidation that removed something",
        "level_text": "Lean theorems: group invalidations leave every non-matching cache instance (incl. thread-scope ones) equal; invalidate_with / invalidate_all_with yield exactly store.filter(not p) and queue.filter(not p) with survivors' order, values, births and hit counters kept; the invariant is preserved system-wide; sizes and memory totals afterwards are those of the survivors, a following overflow evicts the oldest survivor, and invalidation commutes with stores of the survivors. Tied to the code by dumps of every cache instance after each operation.",
        "level_note": MODEL_NOTE,
        "technique": TECH + " + source-to-model translator for the pure helper code (utils.rs / cache_entry.rs / memory_estimator.rs / stats.rs / eviction_policy.rs and the store path of async_global_cache.rs regenerated into Lean on every run, translated function = model definition re-proved)", "design_ref": "DESIGN.md §7 C13", "assumptions": ["distinct cache names"],
    },
    "C17": {
        "lean_modules": ["Cachelito.Props.C17", "Cachelito.Props.C17s"],
        "streams": [sched_stream(nontrivial=["nested-acquisition"]), static_stream(),
                    macro_stream(nontrivial=["c20-suspended"], what="L2 histories with async calls SUSPENDED at their await while other calls, invalidations and statistics queries of the same caches run to completion on the same thread (manual polling): every operation must return - a guard (queue mutex, DashMap shard) kept alive by a suspended future blocks them; a hung episode is a violation with the episode as replay"),
                    core_stream(nontrivial=["eviction", "expiry"], quick=600, thorough=12000,
                                what="L1 engine histories with injected orphan queue slots (the states concurrent invalidations leave behind) under a watchdog: every operation must RETURN - an eviction loop that stops making progress while it holds the queue mutex blocks every other caller for ever")],
        "monitors": ["C17"],
        "rule": "scheduled runs of real threads; a run is non-trivial when some thread acquired a lock while holding another (nesting is what can deadlock); distinct by (schedule, event trace)",
        "level_text": "Lean theorems: for any number of threads running operations whose lock skeletons are rank-disciplined (every nested acquisition strictly increases the rank registry < queue mutex < store lock), in every reachable state with an unfinished thread some thread is enabled (also under writer preference and any work-conserving granting policy), every maximal run finishes all threads, and EVERY operation of cachelito (46-entry skeleton table, any universe of caches) is rank-disciplined; the pre-fix conditional-invalidation callback is not, with a kernel-checked deadlocked state. Tied to the code by recording every real lock acquisition/release (hook H1) under a deterministic scheduler: each operation's real trace must be a path of its skeleton and rank-ordered; no explored schedule deadlocks. Translator tie: the lock nesting of the current source (lexical guard scopes, calls, registry callbacks) is extracted on every run (Generated/LockNesting.lean); C17s proves that every nesting strictly increases the rank, is a nesting of THE TABLE, and that any skeleton with only such nestings is rank-disciplined.",
        "level_note": MODEL_NOTE + " parking_lot fairness beyond writer preference, DashMap shard locks (never held at a yield point) and `Once` cells are modelled, not observed; user predicates that call back into a cache are outside the property.",
        "technique": "Lean 4 theorem (lock-rank argument over all interleavings) + source-to-model translator (lock nesting regenerated from the code and re-proved on every run) + real lock traces checked against the model's skeletons + deterministic schedule exploration of real threads",
        "design_ref": "DESIGN.md §7 C17", "assumptions": ["user callbacks do not re-enter the cache or the registries"],
    },
    "C20": {
        "lean_modules": ["Cachelito.Props.C20", "Cachelito.Props.C17s", "Cachelito.Props.T10", "Cachelito.Props.T18"],
        "streams": [macro_stream(nontrivial=["c20-suspended", "c20-dropped", "c20-resumed"], quick=1000,
                                 what="L2 with manual polling: real #[cache_async] functions whose bodies have 1-3 await points (a gate future) are polled until they suspend at a chosen await; while suspended a conditional invalidation of the same cache must complete on another thread (3 s watchdog), arbitrary other calls (same and other arguments) and invalidations run, then the call is resumed or dropped; outputs and the dump of every cache instance compared with Cachelito.aStep per operation"), static_stream(),
                    sched_stream(nontrivial=["concurrent-call"], quick=(6, 8, 60),
                                 what="L3: real threads run async calls (each suspends at the awaits of its body and stores on resumption) against group and conditional invalidations of the same cache under the deterministic scheduler; at quiescence every async cache must be consistent (store = queue as sets, no duplicates, within its limit)"), hammer_stream()],
        "monitors": ["C20"],
        "rule": "episodes over real async generated functions with begin / resume / drop operations at every await point (k-th of 1..3) interleaved with other operations; non-trivial = a call actually suspended in its body, resumed, or dropped",
        "level_text": "Lean theorems: (locks) after any complete operation skeleton - in particular the lookup phase of an async call - the held set is empty, and threads that hold nothing and are never scheduled cannot block the others (C17.suspended_holds_nothing, progress_despite_suspended); (data) over the model of suspended calls (Async.lean: lookup phase, pending record, finish phase on the CURRENT state): a call begun and resumed at once is exactly an ordinary call; the lookup phase adds or changes no entry; every entry of every cache comes from a COMPLETED call (a value no completed call produced is nowhere); begin; h; drop leaves exactly the state of `lookup only; h` for every history h (pending records never influence other operations); a resume is the ordinary store on the current state, preserves the invariant and the entry limit, returns the body value and (async) leaves the fresh entry stored unless rejected or oversize. The model is compared with the real code per operation.",
        "level_note": MODEL_NOTE + " That the compiler-generated future holds no hidden guard across the await is checked at run time (watchdog), not proved.",
        "technique": "Lean 4 theorem (balanced lock skeletons => nothing held at the await) + manual polling of real futures compared with the model per operation + monitors",
        "design_ref": "DESIGN.md §7 C20", "assumptions": ["the async runtime polls the future only through its public poll interface"],
    },
    "C18": {
        "lean_modules": ["Cachelito.Props.C18", "Cachelito.Props.C18f", "Cachelito.Props.T07", "Cachelito.Props.T08", "Cachelito.Props.T16", "Cachelito.Props.T19"],
        "streams": [sched_stream(nontrivial=["nested-acquisition", "concurrent-call"]), hammer_stream(), static_stream()],
        "monitors": ["C18"],
        "rule": "scheduled runs of 2-3 real threads (calls overflowing a hot cache, group and conditional invalidations) followed by quiescent dumps and a 5-call sequential probe; non-trivial = a run with nested acquisitions or concurrent calls; distinct by (schedule, event trace)",
        "level_text": "Lean theorems over a data-carrying interleaving model (one atomic micro-step per critical section, any number of threads, programs and schedules): every call returns f(k) for its own key; ASYNC: the store/queue invariant, the entry limit and the memory bound hold after EVERY micro-step; SYNC (store write precedes the queue push): at every point stored keys missing from the queue belong to in-flight stores and |store| <= limit + |in flight|; at quiescence every stored key is queued (evictable, expirable, invalidatable), the queue is duplicate-free, |store| <= limit under every policy and total memory <= max_memory; sequential use after quiescence keeps the bounds and correct values under the weaker invariant (orphan queue keys allowed); a one-thread system is exactly Cachelito.run. C18f re-proves values, the in-flight invariant, quiescent tracking, the entry limit and the memory bound for the FINE model in which every store-lock section of the sync insert_with_memory (size read, oversize removal, each sum and each eviction of the memory loop, limit step) is its own micro-step, other threads' store-only sections fall between them and the queue mutex is explicit (exclusive, its holder never blocked); one thread alone computes exactly the coarse step, and every coarse schedule is a fine schedule. The pre-fix clear (F6) and async expired lookup (F8) are refuted with concrete schedules. Tied to the code by the scheduled runs: every recorded REAL schedule (one thread id per critical section, derived from the hook events) is replayed on the interleaving model (ConcData.creplay) from the dumped initial state and must reproduce the final store/queue and every lookup result; plus values per call, quiescent dumps checked directly, probe history vs the model from the dumped state, lock traces vs skeletons; plus a free-running parallel stress stream.",
        "level_note": MODEL_NOTE + " The replay covers the hot cache of each program (policies other than Random, whose draws are not recorded). DashMap operations are atomic in the model; the REPLAY uses the coarse model (sync insert_with_memory's queue section one micro-step; runs it cannot represent are skipped), the fine model C18f is not replayed.",
        "technique": "Lean 4 theorem (invariants over all interleavings of atomic critical sections) + deterministic schedule exploration of real threads with quiescent-state and probe comparison",
        "design_ref": "DESIGN.md §7 C18", "assumptions": ["DashMap operations are linearizable"],
    },
    "C15": {
        "lean_modules": ["Cachelito.Props.C15", "Cachelito.Props.C15b", "Cachelito.Props.C15c", "Cachelito.Props.C15r", "Cachelito.Props.T04", "Cachelito.Props.T09", "Cachelito.Props.T10", "Cachelito.Props.T22", "Cachelito.Props.S01"],
        "streams": [core_stream(nontrivial=["hit", "expiry"]), macro_stream(nontrivial=["stats-get", "stats-reset", "hit"]),
                    sched_stream(nontrivial=["quiescent-stats-checked"], quick=(6, 8, 50)), hammer_stream(), counters_stream(), stats_stream()],
        "monitors": ["C15"],
        "rule": "L1: counters in every state dump; L2: stats_registry::get(name) after every call, get/reset by name incl. unknown names; non-trivial = hit, expiry-as-miss, stats query or reset",
        "level_text": "Lean theorems (sequential): every lookup bumps exactly one counter, hits iff it returned a value (an expired entry is a miss), nothing else touches the counters, hits+misses = number of lookups for every history. Tied to the code by the counters in every L1 state dump and by the registry's per-name statistics after every L2 call. Concurrent part: in scheduled runs of real threads (incl. lookups of expired entries racing with each other and with stores) hits+misses at quiescence must equal the number of completed calls and hits the number of calls served from the cache; and (C15c) in the interleaving model the counters equal the number of counted lookups at every point of every schedule and are exact at quiescence, hits = lookups that returned a value (fetch_add atomicity is assumed). Registry level (C15r: the statistics registry as the table name -> counters cell it is, every public operation of stats_registry and CacheStats, every operation history): get(name) returns exactly the counters of the cell registered last under that name (a reference to the cache's own counters: recordings after registration are visible), counters = recordings since the last reset, reset(name) zeroes exactly that cell and is a frame for every other name with a distinct cell, list = the registered names, clear empties the table and changes no cell; and the abstract per-name counters of the system model are what the table computes for the macros' registrations (refinement). Tied to the code by driving the real stats_registry / CacheStats through arbitrary histories.",
        "level_note": MODEL_NOTE + " AtomicU64::fetch_add is assumed atomic.",
        "technique": TECH + " + source-to-model translator for the pure helper code (utils.rs / cache_entry.rs / memory_estimator.rs / stats.rs / eviction_policy.rs and the store path of async_global_cache.rs regenerated into Lean on every run, translated function = model definition re-proved)", "design_ref": "DESIGN.md §7 C15",
        "assumptions": ["distinct cache names"],
    },
    "C16": {
        "lean_modules": ["Cachelito.Props.C16", "Cachelito.Props.C05a", "Cachelito.Props.C16s", "Cachelito.Props.T01", "Cachelito.Props.T11", "Cachelito.Props.T14", "Cachelito.Props.T15", "Cachelito.Props.T16"],
        "streams": [core_stream(nontrivial=["eviction", "expiry", "oversize"], quick=1200, thorough=24000,
                                what="L1 over the full product flavour x policy x limit x ttl x max_memory x fw; every operation under catch_unwind, debug assertions and overflow checks on"),
                    macro_stream(nontrivial=["call"], quick=600, what="L2: every operation on the real generated functions (calls on all flavours incl. thread scope under every policy, invalidations, statistics) runs under catch_unwind; a panic is a C16 violation"),
                    sched_stream(nontrivial=["concurrent-call"], quick=(6, 8, 50), what="L3: scheduled runs of real threads (memory-aware stores racing with each other and with invalidations leave map entries without queue slot in flight): no call may panic under any explored schedule"),
                    hammer_stream()],
        "monitors": ["C16"],
        "rule": "every operation of every generated episode runs under catch_unwind with overflow checks on; non-trivial = a step that evicts, purges or takes the oversize path (the paths that used to panic)",
        "level_text": "Lean theorems for each panic-capable primitive: random index always in range and guarded on the empty queue, scan positions below the queue length, every eviction on a non-empty consistent cache finds a victim, the thread-local RefCell borrow regions of every operation/policy/branch never conflict (and the pre-fix code's did), built-in estimators never underflow, eviction loops terminate. Tied to the code by running the full configuration product under catch_unwind. Translator tie: the RefCell borrow nesting of thread_local_cache.rs is extracted from the current source on every run (Generated/BorrowNesting.lean) and C16s proves that no borrow is taken while a conflicting borrow of the same cell is alive.",
        "level_note": MODEL_NOTE + " The RefCell borrow traces are a hand transcription tied to the code only through observed panics. Not modelled: allocation failure, usize overflow of sums, panics in user code (bodies, predicates, user estimators reporting less than size_of).",
        "technique": TECH + " + source-to-model translators (borrow nesting structure and the memory-estimator impls regenerated from the code and re-proved on every run)",
        "assumptions": ["limit >= 1", "user code does not panic"],
    },
}

NOT_APPLICABLE = {pid: "check not built yet (work in progress in this session; see DESIGN.md §12 build order)"
                  for pid in ["C%02d" % i for i in range(1, 21)]}
