/-
  Hit / miss counters in the data-carrying interleaving model `Cachelito.ConcData` (C15, concurrent clause).

  WHERE `micro` bumps the counters (same places as the real code):
    * lookup of an absent key        : `missStat + 1` in the READ micro-step (sync: after `M.r`; async: `get_mut` is `None`)
    * lookup of an unexpired entry   : `hitStat + 1` in the READ micro-step (sync: `record_hit` after the `M.r` block and
                                       BEFORE the `[O]` / `[M.w]` update sections; async: after dropping the shard guard,
                                       before the `[O]` refresh section)
    * lookup of an expired entry     : nothing in the read micro-step; `missStat + 1` in the REMOVAL micro-step
                                       (sync: inside the `[O{M.w}]` section; async: right after the removal, the queue
                                       mutex guard still alive) — LEGACY async: in the `retain` micro-step
  Hence a lookup has been COUNTED iff it has finished, or it is a hit between its read micro-step and its
  last micro-step (local state `refresh` / `move` / `bump`); an expired lookup waiting for its removal
  section (`expire`, legacy `legacyDrop` / `legacyRetain`) has not been counted yet.
-/
import Cachelito.Lemmas.ConcData

set_option linter.unusedSectionVars false
set_option linter.unusedSimpArgs false
set_option linter.unusedVariables false

namespace Cachelito.ConcData
open Cachelito

variable {K V S : Type} [DecidableEq K]

/-- 1 iff the thread is a HIT between its read micro-step and its last micro-step (already counted) -/
def hitPend : Option (Pend K V) → Nat
  | some (.refresh _ _) => 1
  | some (.move _ _) => 1
  | some (.bump _ _) => 1
  | _ => 0

def isHitOut : Out V → Bool
  | .val (some _) => true
  | _ => false

def isMissOut : Out V → Bool
  | .val none => true
  | _ => false

def isValOut : Out V → Bool
  | .val _ => true
  | .unit => false

def isGet : Op K V → Bool
  | .get _ => true
  | _ => false

/-- hits accounted for by the result of a micro-step -/
def resHit : Res K V → Nat
  | .more p => hitPend (some p)
  | .fin _ o => if isHitOut o then 1 else 0

/-- misses accounted for by the result of a micro-step -/
def resMiss : Res K V → Nat
  | .more _ => 0
  | .fin _ o => if isMissOut o then 1 else 0

theorem insert_stats (cfg : Cfg) (tl : Tlru S) (r : Nat) (s : State K V) (k : K) (v : V) :
    (Cachelito.insert cfg tl r s k v).hitStat = s.hitStat ∧ (Cachelito.insert cfg tl r s k v).missStat = s.missStat := by
  unfold Cachelito.insert
  cases cfg.flavour <;> simp

theorem insertMem_stats (cfg : Cfg) (tl : Tlru S) (size : V → Nat) (rs : List Nat) (s : State K V) (k : K) (v : V) :
    (Cachelito.insertMem cfg tl size rs s k v).hitStat = s.hitStat ∧
    (Cachelito.insertMem cfg tl size rs s k v).missStat = s.missStat := by
  unfold Cachelito.insertMem
  cases cfg.flavour <;> simp only <;> cases cfg.maxMem <;> simp only <;> (try split) <;> simp

theorem trackMemStep_stats (cfg : Cfg) (tl : Tlru S) (size : V → Nat) (rs : List Nat) (s : State K V) (k : K) :
    (trackMemStep cfg tl size rs s k).hitStat = s.hitStat ∧ (trackMemStep cfg tl size rs s k).missStat = s.missStat := by
  unfold trackMemStep
  cases cfg.maxMem <;> simp only <;> (try split) <;> simp

/-- **Counters, one micro-step** (fixed and legacy code): the hit counter plus "hit already counted,
    lookup still in progress" before = the same after plus the hits reported; the miss counter grows by
    the misses reported. -/
theorem micro_counts (legacy : Bool) (cfg : Cfg) (tl : Tlru S) (size : V → Nat) (s : State K V)
    (op : Op K V) (rs : List Nat) (pend : Option (Pend K V)) (hp : PendFits legacy cfg op pend) :
    (micro legacy cfg tl size s op rs pend).1.hitStat + hitPend pend
        = s.hitStat + resHit (micro legacy cfg tl size s op rs pend).2 ∧
    (micro legacy cfg tl size s op rs pend).1.missStat
        = s.missStat + resMiss (micro legacy cfg tl size s op rs pend).2 := by
  cases pend with
  | none =>
    simp only [micro, hitPend, Nat.add_zero]
    cases op with
    | get k =>
      simp only [first]
      cases lookup k s.store with
      | none => exact ⟨rfl, rfl⟩
      | some e =>
        simp only
        split
        · split <;> exact ⟨rfl, rfl⟩
        · split
          · split <;> exact ⟨rfl, rfl⟩
          · split
            · exact ⟨rfl, rfl⟩
            · split <;> exact ⟨rfl, rfl⟩
    | insert k v =>
      simp only [first]
      split
      · have := insert_stats cfg tl (rs.headD 0) s k v
        exact ⟨this.1, this.2⟩
      · exact ⟨rfl, rfl⟩
    | insertMem k v =>
      simp only [first]
      split
      · have := insertMem_stats cfg tl size rs s k v
        exact ⟨this.1, this.2⟩
      · exact ⟨rfl, rfl⟩
    | clear => simp only [first]; split <;> exact ⟨rfl, rfl⟩
    | invalidateWith p => simp only [first]; split <;> exact ⟨rfl, rfl⟩
    | tick ms => exact ⟨rfl, rfl⟩
  | some p =>
    obtain ⟨hok, _⟩ := hp
    simp only [micro]
    split
    · rename_i ha
      cases p with
      | expire k => exact ⟨rfl, rfl⟩
      | refresh k v => exact ⟨rfl, rfl⟩
      | purge p ks => exact ⟨rfl, rfl⟩
      | legacyClearQueue => simp only [contAsync]; split <;> exact ⟨rfl, rfl⟩
      | legacyDrop k => simp only [contAsync]; split <;> exact ⟨rfl, rfl⟩
      | legacyRetain k => simp only [contAsync]; split <;> exact ⟨rfl, rfl⟩
      | move k v => have : isAsync cfg = false := hok; simp [this] at ha
      | bump k v => have : isAsync cfg = false := hok; simp [this] at ha
      | track k v r => exact ⟨rfl, rfl⟩
      | trackMem k v rs => exact ⟨rfl, rfl⟩
    · rename_i ha
      have ha' : isAsync cfg = false := by simpa using ha
      cases p with
      | expire k => exact ⟨rfl, rfl⟩
      | move k v => simp only [contSync]; split <;> exact ⟨rfl, rfl⟩
      | bump k v => exact ⟨rfl, rfl⟩
      | track k v r => exact ⟨rfl, rfl⟩
      | trackMem k v rs =>
        have := trackMemStep_stats cfg tl size rs s k
        exact ⟨this.1, this.2⟩
      | legacyClearQueue => simp only [contSync]; split <;> exact ⟨rfl, rfl⟩
      | refresh k v => have : isAsync cfg = true := hok; simp [this] at ha'
      | purge p ks => exact ⟨rfl, rfl⟩
      | legacyDrop k => exact ⟨rfl, rfl⟩
      | legacyRetain k => exact ⟨rfl, rfl⟩

/-- a finished operation reports a value (`.val _`) iff it is a lookup -/
theorem micro_shape (legacy : Bool) (cfg : Cfg) (tl : Tlru S) (size : V → Nat) (s : State K V)
    (op : Op K V) (rs : List Nat) (pend : Option (Pend K V)) (op' : Op K V) (o : Out V)
    (h : (micro legacy cfg tl size s op rs pend).2 = .fin op' o) : isGet op' = isValOut o := by
  cases pend with
  | none =>
    simp only [micro] at h
    cases op with
    | get k =>
      simp only [first] at h
      cases hl : lookup k s.store with
      | none => rw [hl] at h; simp only [Res.fin.injEq] at h; rw [← h.1, ← h.2]; rfl
      | some e =>
        rw [hl] at h
        simp only at h
        split at h
        · cases h
        · split at h
          · split at h
            · cases h
            · simp only [Res.fin.injEq] at h; rw [← h.1, ← h.2]; rfl
          · split at h
            · cases h
            · split at h
              · cases h
              · simp only [Res.fin.injEq] at h; rw [← h.1, ← h.2]; rfl
    | insert k v =>
      simp only [first] at h
      split at h
      · simp only [Res.fin.injEq] at h; rw [← h.1, ← h.2]; rfl
      · cases h
    | insertMem k v =>
      simp only [first] at h
      split at h
      · simp only [Res.fin.injEq] at h; rw [← h.1, ← h.2]; rfl
      · cases h
    | clear =>
      simp only [first] at h
      split at h
      · cases h
      · simp only [Cachelito.clear, Res.fin.injEq] at h; rw [← h.1, ← h.2]; rfl
    | invalidateWith p =>
      simp only [first] at h
      split at h
      · cases h
      · simp only [Res.fin.injEq] at h; rw [← h.1, ← h.2]; rfl
    | tick ms => simp only [first, Res.fin.injEq] at h; rw [← h.1, ← h.2]; rfl
  | some p =>
    simp only [micro] at h
    split at h
    · cases p <;> simp only [contAsync, noop, expireStep] at h <;>
        first
          | (cases h <;> rfl)
          | (split at h <;> cases h <;> rfl)
    · cases p <;> simp only [contSync, noop, expireStep] at h <;>
        first
          | (cases h <;> rfl)
          | (split at h <;> cases h <;> rfl)

/-! ### Thread-level and system-level bookkeeping -/

/-- lookups of a thread counted as hits so far: finished ones that returned a value + a hit in progress -/
def hitsT (t : Thread K V) : Nat := (t.done.filter (fun r => isHitOut r.2)).length + hitPend t.pend

/-- lookups of a thread counted as misses so far: finished ones that returned nothing -/
def missesT (t : Thread K V) : Nat := (t.done.filter (fun r => isMissOut r.2)).length

/-- lookups of a thread whose counting micro-step has executed -/
def countedT (t : Thread K V) : Nat := (t.done.filter (fun r => isValOut r.2)).length + hitPend t.pend

theorem countedT_eq (t : Thread K V) : countedT t = hitsT t + missesT t := by
  unfold countedT hitsT missesT
  have : ∀ l : List (Op K V × Out V), (l.filter (fun r => isValOut r.2)).length =
      (l.filter (fun r => isHitOut r.2)).length + (l.filter (fun r => isMissOut r.2)).length := by
    intro l
    induction l with
    | nil => rfl
    | cons a l ih =>
      obtain ⟨op, o⟩ := a
      cases o with
      | unit =>
        have e1 : isValOut (Out.unit : Out V) = false := rfl
        have e2 : isHitOut (Out.unit : Out V) = false := rfl
        have e3 : isMissOut (Out.unit : Out V) = false := rfl
        simp only [List.filter_cons, e1, e2, e3, Bool.false_eq_true, if_false]
        exact ih
      | val x =>
        cases x with
        | none =>
          have e1 : isValOut (Out.val none : Out V) = true := rfl
          have e2 : isHitOut (Out.val none : Out V) = false := rfl
          have e3 : isMissOut (Out.val none : Out V) = true := rfl
          simp only [List.filter_cons, e1, e2, e3, Bool.false_eq_true, if_false, if_true, List.length_cons]
          omega
        | some v =>
          have e1 : isValOut (Out.val (some v) : Out V) = true := rfl
          have e2 : isHitOut (Out.val (some v) : Out V) = true := rfl
          have e3 : isMissOut (Out.val (some v) : Out V) = false := rfl
          simp only [List.filter_cons, e1, e2, e3, Bool.false_eq_true, if_false, if_true, List.length_cons]
          omega
  rw [this]; omega

/-- the counters are the initial counters plus the counted lookups of all threads -/
def CountInv (h0 m0 : Nat) (c : CState K V) : Prop :=
  c.shared.hitStat = h0 + (c.threads.map hitsT).sum ∧ c.shared.missStat = m0 + (c.threads.map missesT).sum

/-- every record of every thread is `(get _, .val _)` or `(not a get, .unit)` -/
def RecShape (c : CState K V) : Prop := ∀ t, t ∈ c.threads → ∀ r, r ∈ t.done → isGet r.1 = isValOut r.2

theorem cstepWith_counts {legacy : Bool} {cfg : Cfg} {tl : Tlru S} {size : V → Nat} (h0 m0 : Nat)
    (c : CState K V) (i : Nat) (c' : CState K V) (hfit : Fits legacy cfg c) (hc : CountInv h0 m0 c)
    (hs : RecShape c) (h : cstepWith legacy cfg tl size c i = some c') : CountInv h0 m0 c' ∧ RecShape c' := by
  obtain ⟨t, op, rs, rest, l1, l2, hl, hprog, hsh, hth⟩ := cstepWith_cases h
  have htm : t ∈ c.threads := by rw [hl]; simp
  have hothers : ∀ x, x ∈ l1 ∨ x ∈ l2 → x ∈ c.threads := by
    intro x hx; rw [hl]
    rcases hx with hx | hx
    · exact List.mem_append_left _ hx
    · exact List.mem_append_right _ (List.mem_cons_of_mem _ hx)
  have htf : PendFits legacy cfg op t.pend := by
    have := hfit t htm
    unfold ThreadFits at this
    rw [hprog] at this
    exact this
  have hm := micro_counts legacy cfg tl size c.shared op rs t.pend htf
  unfold CountInv at hc ⊢
  rw [hl] at hc
  simp only [List.map_append, List.map_cons, List.sum_append, List.sum_cons] at hc
  rcases hth with ⟨p, hr, hts⟩ | ⟨op', o, hr, hts⟩
  · rw [hr] at hm
    refine ⟨?_, ?_⟩
    · rw [hsh, hts]
      simp only [List.map_append, List.map_cons, List.sum_append, List.sum_cons]
      have h1 : hitsT { t with pend := some p } + hitPend t.pend = hitsT t + hitPend (some p) := by
        unfold hitsT; simp only; omega
      have h2 : missesT { t with pend := some p } = missesT t := rfl
      simp only [resHit, resMiss] at hm
      constructor <;> omega
    · intro x hx
      rw [hts] at hx
      rcases List.mem_append.mp hx with hx | hx
      · exact hs x (hothers x (Or.inl hx))
      · rcases List.mem_cons.mp hx with hx | hx
        · subst hx; exact hs t htm
        · exact hs x (hothers x (Or.inr hx))
  · have hshape := micro_shape legacy cfg tl size c.shared op rs t.pend op' o hr
    rw [hr] at hm
    refine ⟨?_, ?_⟩
    · rw [hsh, hts]
      simp only [List.map_append, List.map_cons, List.sum_append, List.sum_cons]
      have h1 : hitsT ({ prog := rest, pend := none, done := t.done ++ [(op', o)] } : Thread K V) + hitPend t.pend
          = hitsT t + (if isHitOut o then 1 else 0) := by
        unfold hitsT
        simp only [List.filter_append, List.length_append, hitPend]
        by_cases ho : isHitOut o = true <;> simp [List.filter_cons, ho] <;> omega
      have h2 : missesT ({ prog := rest, pend := none, done := t.done ++ [(op', o)] } : Thread K V)
          = missesT t + (if isMissOut o then 1 else 0) := by
        unfold missesT
        simp only [List.filter_append, List.length_append]
        by_cases ho : isMissOut o = true <;> simp [List.filter_cons, ho]
      simp only [resHit, resMiss] at hm
      constructor <;> omega
    · intro x hx
      rw [hts] at hx
      rcases List.mem_append.mp hx with hx | hx
      · exact hs x (hothers x (Or.inl hx))
      · rcases List.mem_cons.mp hx with hx | hx
        · subst hx
          intro r hr'
          rcases List.mem_append.mp hr' with h1 | h1
          · exact hs t htm r h1
          · simp only [List.mem_singleton] at h1; subst h1; exact hshape
        · exact hs x (hothers x (Or.inr hx))

theorem sum_map_zero {α : Type} (l : List α) (g : α → Nat) (h : ∀ x, x ∈ l → g x = 0) : (l.map g).sum = 0 := by
  induction l with
  | nil => rfl
  | cons a l ih =>
    simp only [List.map_cons, List.sum_cons, h a List.mem_cons_self, ih (fun x hx => h x (List.mem_cons_of_mem _ hx))]

theorem countInv_start (s : State K V) (progs : List (List (Op K V × List Nat))) :
    CountInv s.hitStat s.missStat (CState.start s progs) ∧ RecShape (CState.start s progs) := by
  refine ⟨⟨?_, ?_⟩, ?_⟩
  · have : ((CState.start s progs).threads.map hitsT).sum = 0 := by
      apply sum_map_zero
      intro x hx
      simp only [CState.start, List.mem_map] at hx
      obtain ⟨p, _, rfl⟩ := hx
      rfl
    rw [this]; rfl
  · have : ((CState.start s progs).threads.map missesT).sum = 0 := by
      apply sum_map_zero
      intro x hx
      simp only [CState.start, List.mem_map] at hx
      obtain ⟨p, _, rfl⟩ := hx
      rfl
    rw [this]; rfl
  · intro t ht r hr
    simp only [CState.start, List.mem_map] at ht
    obtain ⟨prog, _, rfl⟩ := ht
    simp [Thread.start] at hr

/-- the full invariant along a schedule -/
theorem crunWith_counts (legacy : Bool) (cfg : Cfg) (tl : Tlru S) (size : V → Nat)
    (s0 : State K V) (progs : List (List (Op K V × List Nat))) (sch : List ThreadId) :
    CountInv s0.hitStat s0.missStat (crunWith legacy cfg tl size sch (CState.start s0 progs)) ∧
    RecShape (crunWith legacy cfg tl size sch (CState.start s0 progs)) := by
  have h := crunWith_invariant (legacy := legacy) (cfg := cfg) (tl := tl) (size := size)
    (fun c => Fits legacy cfg c ∧ CountInv s0.hitStat s0.missStat c ∧ RecShape c)
    (fun c i c' hc hs => by
      have h1 := cstepWith_fits c i c' hc.1 hs
      have h2 := cstepWith_counts s0.hitStat s0.missStat c i c' hc.1 hc.2.1 hc.2.2 hs
      exact ⟨h1.1, h2.1, h2.2⟩)
    sch _ ⟨fits_start legacy cfg s0 progs, (countInv_start s0 progs).1, (countInv_start s0 progs).2⟩
  exact h.2

end Cachelito.ConcData
