//! L3: deterministic scheduling of REAL threads at lock-acquisition granularity (hook H1).
//!
//! Every harness thread parks in `before_acquire` before each parking_lot acquisition; exactly one
//! thread runs at a time; the controller picks the next thread among those whose lock is free right
//! now.  "All unfinished threads parked, none acquirable" = deadlock.  Schedules are explored
//! exhaustively (stateless DFS, re-running the program for every schedule) up to a run budget, then
//! randomly (seeded).  After every run the caches are dumped at quiescence and a sequential probe
//! history is run.
//!
//!   sched explore <seed> <programs> <max_runs_per_program>     -> report lines on stdout
//!   sched replay <file>                                        -> re-run one recorded program + schedule
//!
//! Output lines (one run = X line, V line, Q line, then the probe as L2 lines `R|…`, `S|…`):
//!   P|<program text>
//!   X|run=<n>|sched=<t,t,…>|result=ok|deadlock|hang
//!   V|<events>           S<t>:<op>  A<t>:<site>:<lock#>:<mode>  R<t>:<lock#>  E<t>:<observation>
//!   Q|<dumps>|<stats>|<called>

use cachelito_core::verif::{Acq, Hooks};
use std::cell::Cell;
use std::collections::HashMap;
use std::sync::{Arc, Condvar, Mutex};
use std::time::{Duration, Instant};
use verif_harness::l2::hex;
use verif_harness::Rng;

use verif_harness::l2 as md;
use verif_harness::l2::{corpus, rt};

thread_local! {
    static TID: Cell<Option<usize>> = Cell::new(None);
    /// learning mode (warm-up call of function f on the main thread): every lock seen belongs to cache f
    static LEARN: Cell<Option<usize>> = Cell::new(None);
}

#[derive(Clone, Debug, PartialEq)]
enum TSt {
    Running,
    Parked,
    Blocked,
    Finished,
}

struct CtlState {
    th: Vec<TSt>,
    current: Option<usize>,
    events: Vec<String>,
    locks: HashMap<usize, usize>, // address -> lock number (first seen; persistent for the process)
    owner: HashMap<usize, usize>, // address -> function whose cache the lock belongs to (learned in warm-up)
    pending: Vec<Option<(u32, usize, Acq)>>,
}

struct Ctl {
    st: Mutex<CtlState>,
    cv: Condvar,
}

impl Ctl {
    fn lock_no(st: &mut CtlState, addr: usize) -> usize {
        let n = st.locks.len();
        *st.locks.entry(addr).or_insert(n)
    }
}

struct SchedHooks(Arc<Ctl>);

impl Hooks for SchedHooks {
    fn before_acquire(&self, site: u32, addr: usize, mode: Acq, free: &dyn Fn() -> bool) {
        if let Some(f) = LEARN.with(|l| l.get()) {
            if site / 1000 == 1 || site / 1000 == 2 {
                self.0.st.lock().unwrap().owner.insert(addr, f);
            }
            return;
        }
        let me = match TID.with(|t| t.get()) {
            Some(m) => m,
            None => return,
        };
        let c = &self.0;
        let mut st = c.st.lock().unwrap();
        st.th[me] = TSt::Parked;
        st.pending[me] = Some((site, addr, mode));
        st.current = None;
        c.cv.notify_all();
        loop {
            st = c.cv.wait_while(st, |s| s.current != Some(me)).unwrap();
            if free() {
                // progress: whatever the others are waiting for may become free — let them retry
                for s in st.th.iter_mut() {
                    if *s == TSt::Blocked {
                        *s = TSt::Parked;
                    }
                }
                st.th[me] = TSt::Running;
                st.pending[me] = None;
                let ln = Ctl::lock_no(&mut st, addr);
                let m = if mode == Acq::Shared { "s" } else { "x" };
                let own = st.owner.get(&addr).map(|f| f.to_string()).unwrap_or_else(|| "-".to_string());
                st.events.push(format!("A{me}:{site}:{ln}:{m}:{own}"));
                return;
            }
            st.th[me] = TSt::Blocked;
            st.current = None;
            c.cv.notify_all();
        }
    }
    fn released(&self, addr: usize) {
        let me = match TID.with(|t| t.get()) {
            Some(m) => m,
            None => return,
        };
        let mut st = self.0.st.lock().unwrap();
        let ln = Ctl::lock_no(&mut st, addr);
        st.events.push(format!("R{me}:{ln}"));
    }
}

/// one operation of a thread program
fn exec_op(op: &str) -> String {
    let p: Vec<&str> = op.split(' ').collect();
    match p[0] {
        "call" => {
            // call <fn> <j> <n> <ok> <len>
            let fi: usize = p[1].parse().unwrap();
            let j: usize = p[2].parse().unwrap();
            // the scripted value is a function of (fn, j): set just before the call; threads may race on
            // NEXT, so the body value is taken from a per-thread slot instead
            md::rt::NEXT_TL.with(|n| {
                n.set(Some(rt::Next { n: p[3].parse().unwrap(), ok: p[4] == "1", len: p[5].parse().unwrap(), ci: true, io: false }))
            });
            let (wv, wsz, _) = corpus::WOULD[fi]();
            let e0 = rt::EXEC_TL.with(|e| e.get());
            let (k, r) = corpus::CALLS[fi](j);
            let e1 = rt::EXEC_TL.with(|e| e.get());
            format!("ret={} {} exec={} would={} wsize={}", hex(&k), hex(&r), e1 - e0, hex(&wv), wsz)
        }
        "tag" => format!("count={}", cachelito_core::invalidate_by_tag(p[1])),
        "event" => format!("count={}", cachelito_core::invalidate_by_event(p[1])),
        "dep" => format!("count={}", cachelito_core::invalidate_by_dependency(p[1])),
        "cache" => format!("flag={}", cachelito_core::invalidate_cache(p[1]) as u8),
        "with" => {
            let mask: u64 = p[2].parse().unwrap();
            let r = cachelito_core::invalidate_with(p[1], |k: &str| (k.len() as u64 + k.bytes().map(|b| b as u64).sum::<u64>()) % 4 < mask);
            format!("flag={}", r as u8)
        }
        "allwith" => {
            let mask: u64 = p[1].parse().unwrap();
            let r = cachelito_core::invalidate_all_with(|_n: &str, k: &str| (k.len() as u64 + k.bytes().map(|b| b as u64).sum::<u64>()) % 4 < mask);
            format!("count={}", r)
        }
        "sget" => match cachelito_core::stats_registry::get(p[1]) {
            Some(s) => format!("stats={},{}", s.hits(), s.misses()),
            None => "stats=-".to_string(),
        },
        "slist" => format!("n={}", cachelito_core::stats_registry::list().len()),
        "sreset" => format!("flag={}", cachelito_core::stats_registry::reset(p[1]) as u8),
        _ => panic!("bad op {op}"),
    }
}

struct RunResult {
    sched: Vec<usize>,
    choices: Vec<(Vec<usize>, usize)>, // candidates, index chosen
    events: Vec<String>,
    result: &'static str,
}

/// runs the thread programs under the scheduler following `prefix` (indices into the candidate lists),
/// then `default` (None = first candidate, Some(rng) = random)
fn run_once(ctl: &Arc<Ctl>, programs: &[Vec<String>], prefix: &[usize], rng: &mut Option<Rng>, by_tid: Option<&[usize]>) -> RunResult {
    let n = programs.len();
    {
        let mut st = ctl.st.lock().unwrap();
        st.th = vec![TSt::Parked; n];
        st.current = None;
        st.events.clear();
        st.pending = vec![None; n];
    }
    let mut handles = Vec::new();
    for (t, prog) in programs.iter().enumerate() {
        let ctl = ctl.clone();
        let prog = prog.clone();
        handles.push(std::thread::spawn(move || {
            TID.with(|c| c.set(Some(t)));
            // wait for the first turn
            {
                let st = ctl.st.lock().unwrap();
                let mut st = ctl.cv.wait_while(st, |s| s.current != Some(t)).unwrap();
                st.th[t] = TSt::Running;
            }
            for op in prog {
                {
                    let mut st = ctl.st.lock().unwrap();
                    st.events.push(format!("S{t}:{}", op.replace(' ', "_")));
                }
                let out = std::panic::catch_unwind(std::panic::AssertUnwindSafe(|| exec_op(&op)))
                    .unwrap_or_else(|e| format!("PANIC {}", verif_harness::panic_msg(e)));
                let mut st = ctl.st.lock().unwrap();
                st.events.push(format!("E{t}:{}", out.replace(' ', "_")));
            }
            let mut st = ctl.st.lock().unwrap();
            for s in st.th.iter_mut() {
                if *s == TSt::Blocked {
                    *s = TSt::Parked;
                }
            }
            st.th[t] = TSt::Finished;
            st.current = None;
            ctl.cv.notify_all();
        }));
    }
    let mut sched = Vec::new();
    let mut choices = Vec::new();
    let mut result = "ok";
    let deadline = Instant::now() + Duration::from_secs(20);
    loop {
        let mut st = ctl.st.lock().unwrap();
        // wait until nobody is running
        loop {
            if st.current.is_none() && !st.th.iter().any(|s| *s == TSt::Running) {
                break;
            }
            let (g, to) = ctl.cv.wait_timeout(st, Duration::from_millis(200)).unwrap();
            st = g;
            if to.timed_out() && Instant::now() > deadline {
                result = "hang";
                break;
            }
        }
        if result == "hang" {
            break;
        }
        if st.th.iter().all(|s| *s == TSt::Finished) {
            break;
        }
        let cands: Vec<usize> = (0..n).filter(|t| st.th[*t] == TSt::Parked).collect();
        if cands.is_empty() {
            // every unfinished thread is parked at an acquisition that cannot succeed
            result = "deadlock";
            let waits: Vec<String> = (0..n)
                .filter(|t| st.th[*t] == TSt::Blocked)
                .map(|t| {
                    let (site, addr, _) = st.pending[t].unwrap();
                    let ln = *st.locks.get(&addr).unwrap_or(&999);
                    format!("W{t}:{site}:{ln}")
                })
                .collect();
            st.events.extend(waits);
            break;
        }
        let idx = if let Some(tids) = by_tid {
            // replay of a recorded schedule (thread ids)
            match tids.get(choices.len()).and_then(|t| cands.iter().position(|c| c == t)) {
                Some(i) => i,
                None => 0,
            }
        } else if choices.len() < prefix.len() {
            prefix[choices.len()].min(cands.len() - 1)
        } else {
            match rng {
                Some(r) => r.below(cands.len() as u64) as usize,
                None => 0,
            }
        };
        let t = cands[idx];
        choices.push((cands.clone(), idx));
        sched.push(t);
        // the chosen one may turn out blocked: it then marks itself Blocked and hands control back
        st.th[t] = TSt::Running;
        st.current = Some(t);
        ctl.cv.notify_all();
    }
    let events = ctl.st.lock().unwrap().events.clone();
    if result == "ok" {
        for h in handles {
            let _ = h.join();
        }
    }
    RunResult { sched, choices, events, result }
}

fn reset_all(fns: &[md::Spec]) {
    for sp in fns {
        cachelito_core::invalidate_with(&sp.name, |_| true);
        cachelito_core::stats_registry::reset(&sp.name);
    }
}

fn quiescent(fns: &[md::Spec]) -> String {
    let mut dumps = Vec::new();
    let mut stats = Vec::new();
    for sp in fns {
        let d = match cachelito_core::verif::dump_global(&sp.name) {
            Some(d) => md::render_dump(&d, sp.is_async),
            None => "-".to_string(),
        };
        dumps.push(format!("{}:g={}", sp.idx, d));
        stats.push(format!("{}={}", sp.idx, md::stats_of(&sp.name)));
    }
    let called: Vec<String> = fns.iter().map(|s| s.idx.to_string()).collect();
    format!("{}|{}|{}", dumps.join("@"), stats.join(";"), called.join(","))
}

fn det_val(fi: usize, j: usize) -> (u64, bool) {
    let key = corpus::KEYS[fi](j);
    let mut h: u64 = fi as u64 * 1_000_003 + 17;
    for b in key.bytes() {
        h = h.wrapping_mul(31).wrapping_add(b as u64);
    }
    let h = h % 997;
    (h, true)
}

fn call_op(sp: &md::Spec, j: usize) -> String {
    let (n, ok) = det_val(sp.idx, j);
    let len = match sp.max_mem {
        Some(m) => 4 + (n as usize * 29) % (m.saturating_sub(24) / 2 + 8),
        None => 4 + (n % 5) as usize,
    };
    format!("call {} {} {} {} {}", sp.idx, j, n, ok as u8, len)
}

/// thread programs biased towards conflicts on ONE hot cache (`fns[0]`, which has an entry limit):
/// thread 0 stores distinct keys into it (overflowing its limit, so evictions nest queue -> store),
/// the other threads mix invalidations that address the hot cache with calls and statistics queries.
fn gen_program(rng: &mut Rng, fns: &[md::Spec], nthreads: usize, ops_per_thread: usize) -> Vec<Vec<String>> {
    let hot = &fns[0];
    let names: Vec<String> = fns.iter().map(|s| s.name.clone()).collect();
    let mut progs = Vec::new();
    for t in 0..nthreads {
        let mut p = Vec::new();
        for i in 0..ops_per_thread {
            let c = rng.below(100);
            if t == 0 {
                if c < 80 {
                    p.push(call_op(hot, i));
                } else {
                    let sp = rng.pick(fns);
                    p.push(call_op(sp, rng.below(3) as usize));
                }
                continue;
            }
            if c < 30 {
                p.push(format!("with {} {}", if rng.chance(3, 4) { hot.name.clone() } else { rng.pick(&names).clone() }, 1 + rng.below(4)));
            } else if c < 40 {
                p.push(format!("allwith {}", 1 + rng.below(4)));
            } else if c < 52 {
                let tag = if !hot.tags.is_empty() && rng.chance(2, 3) { hot.tags[0].clone() } else { rng.pick(&["t0", "t1", "t2"]).to_string() };
                p.push(format!("tag {}", tag));
            } else if c < 57 {
                p.push(format!("event {}", rng.pick(&["e0", "e1"])));
            } else if c < 64 {
                p.push(format!("cache {}", if rng.chance(1, 2) { hot.name.clone() } else { rng.pick(&names).clone() }));
            } else if c < 84 {
                let sp = if rng.chance(2, 3) { hot } else { rng.pick(fns) };
                p.push(call_op(sp, rng.below(sp.limit.unwrap_or(1) as u64 + 2) as usize));
            } else if c < 92 {
                p.push(format!("sget {}", rng.pick(&names)));
            } else if c < 95 {
                p.push("slist".to_string());
            } else {
                p.push(format!("sreset {}", rng.pick(&names)));
            }
        }
        progs.push(p);
    }
    progs
}

/// RACING INVALIDATIONS: thread 0 stores a key, then EVERY thread invalidates the hot cache (all by tag, all by name, or all
/// conditionally with a predicate that matches every key) and calls that key again.  Two invalidations of one cache overlap,
/// so an invalidation that returns while another one is still pending (a "someone else is already clearing" shortcut) lets the
/// caller be served an entry stored before its own invalidation began.
fn gen_racing_invalidations(rng: &mut Rng, fns: &[md::Spec], nthreads: usize) -> Vec<Vec<String>> {
    let hot = &fns[0];
    let inv = if !hot.tags.is_empty() {
        match rng.below(3) {
            0 => format!("tag {}", hot.tags[0]),
            1 => format!("cache {}", hot.name),
            _ => format!("with {} 4", hot.name),
        }
    } else {
        format!("with {} 4", hot.name)
    };
    let mut progs = Vec::new();
    for t in 0..nthreads {
        let mut p = Vec::new();
        if t == 0 {
            p.push(call_op(hot, 0));
        }
        p.push(inv.clone());
        p.push(call_op(hot, 0));
        progs.push(p);
    }
    progs
}

/// CALLS-ONLY programs (no invalidation, no statistics reset): every thread calls the hot cache with argument
/// indices from one small set, so that lookups race with the two halves of another thread's store of the SAME key
/// and stores of different keys race with each other.  Nothing but an eviction can remove an entry in such a run,
/// which is what the C03 / C14 monitors of these runs rely on.
fn gen_calls_only(rng: &mut Rng, fns: &[md::Spec], nthreads: usize, ops_per_thread: usize) -> Vec<Vec<String>> {
    let hot = &fns[0];
    let nk = hot.limit.map(|l| l + 1).unwrap_or(2) as u64;
    let mut progs = Vec::new();
    for t in 0..nthreads {
        let mut p = Vec::new();
        for i in 0..ops_per_thread {
            // thread 0 walks the keys in order, the others start from a random one: same-key collisions are frequent
            let j = if t == 0 { i as u64 % nk } else { rng.below(nk) };
            p.push(call_op(hot, j as usize));
        }
        progs.push(p);
    }
    progs
}

fn probe_ops(rng: &mut Rng, fns: &[md::Spec], n: usize) -> Vec<String> {
    let mut ops = Vec::new();
    for _ in 0..n {
        let sp = rng.pick(fns);
        let nk = sp.limit.map(|l| l + 2).unwrap_or(3) as u64;
        let j = rng.below(nk) as usize;
        let (nv, ok) = det_val(sp.idx, j);
        let len = match sp.max_mem {
            Some(m) => 4 + (nv as usize * 29) % (m.saturating_sub(24) / 2 + 8),
            None => 4 + (nv % 5) as usize,
        };
        ops.push(format!("call {} 0 {} {} {} {} 1 0", sp.idx, j, nv, ok as u8, len));
    }
    ops
}

fn main() {
    let args: Vec<String> = std::env::args().collect();
    std::panic::set_hook(Box::new(|_| {}));
    let specs = md::all_specs();
    // candidate functions: global / async ones with a bound, without scripted predicates
    let usable: Vec<md::Spec> = specs.iter().filter(|s| !s.thread && !s.has_pred).cloned().collect();
    let ctl = Arc::new(Ctl {
        st: Mutex::new(CtlState { th: vec![], current: None, events: vec![], locks: HashMap::new(), owner: HashMap::new(), pending: vec![] }),
        cv: Condvar::new(),
    });
    cachelito_core::verif::install_hooks(Some(Arc::new(SchedHooks(ctl.clone()))));
    verif_harness::l2::AGE_GRAIN.store(1000, std::sync::atomic::Ordering::Relaxed);
    let mode = args.get(1).map(|s| s.as_str()).unwrap_or("");
    if mode == "replay" {
        // replay file: the `P|…` line of the program and the `X|…sched=…` line of the run
        let text = std::fs::read_to_string(&args[2]).expect("replay file");
        let mut fns: Vec<md::Spec> = Vec::new();
        let mut progs: Vec<Vec<String>> = Vec::new();
        let mut tids: Vec<usize> = Vec::new();
        for line in text.lines() {
            if let Some(rest) = line.strip_prefix("P|") {
                let (fl, pt) = rest.split_once('|').unwrap();
                fns = fl.split(',').map(|i| specs[i.parse::<usize>().unwrap()].clone()).collect();
                progs = pt.split("||").map(|p| p.split(';').map(|s| s.to_string()).collect()).collect();
            } else if line.starts_with("X|") {
                if let Some(i) = line.find("sched=") {
                    let sc = line[i + 6..].split('|').next().unwrap();
                    tids = sc.split(',').filter(|s| !s.is_empty()).map(|s| s.parse().unwrap()).collect();
                }
            }
        }
        for s in corpus::SPECS.iter() {
            println!("{s}");
        }
        for sp in &fns {
            md::rt::NEXT_TL.with(|n| n.set(Some(rt::Next { n: 1, ok: true, len: 4, ci: true, io: false })));
            LEARN.with(|l| l.set(Some(sp.idx)));
            let _ = corpus::CALLS[sp.idx](0);
            let _ = corpus::CALLS[sp.idx](1);
            LEARN.with(|l| l.set(None));
        }
        md::rt::NEXT_TL.with(|n| n.set(None));
        reset_all(&fns);
        let ptxt: Vec<String> = progs.iter().map(|p| p.join(";")).collect();
        let ftxt: Vec<String> = fns.iter().map(|f| f.idx.to_string()).collect();
        println!("P|{}|{}", ftxt.join(","), ptxt.join("||"));
        let mut none: Option<Rng> = None;
        let r = run_once(&ctl, &progs, &[], &mut none, Some(&tids));
        let sched: Vec<String> = r.sched.iter().map(|t| t.to_string()).collect();
        println!("X|run=1|sched={}|result={}", sched.join(","), r.result);
        println!("V|{}", r.events.join(" "));
        if r.result == "ok" {
            println!("Q|{}", quiescent(&fns));
        }
        use std::io::Write;
        std::io::stdout().flush().unwrap();
        std::process::exit(0);
    }
    if mode != "explore" {
        eprintln!("usage: sched explore <seed> <programs> <max_runs> | sched replay <file>");
        std::process::exit(2);
    }
    let seed: u64 = args[2].parse().unwrap();
    let nprog: usize = args[3].parse().unwrap();
    let max_runs: usize = args[4].parse().unwrap();
    let mut rng = Rng::new(seed);
    for s in corpus::SPECS.iter() {
        println!("{s}");
    }
    for pi in 0..nprog {
        // 2 or 3 functions, prefer ones sharing a tag
        let mut fns: Vec<md::Spec> = Vec::new();
        // the hot cache: one with an entry limit (alternating sync global / async)
        // every fourth program is CALLS-ONLY; its hot cache alternates between a PLAIN one (no limit / ttl / max_memory,
        // any policy: nothing may ever remove an entry) and a limited one without ttl
        let calls_only = pi % 4 == 3;
        let variant = (seed as usize).wrapping_add(pi / 4);
        // every second calls-only program runs on a PLAIN Result function with an IMPURE body: thread 0's calls succeed,
        // the other threads' calls fail for the same arguments (C09 under concurrency: an Err is never stored and never
        // disturbs a stored Ok; once an Ok-storing call has returned, later calls are served)
        // sync caches are drawn too (development switch VERIF_SCHED_ASYNC_ONLY_TTLRES restricts the variant to async caches)
        let sync_too = std::env::var("VERIF_SCHED_ASYNC_ONLY_TTLRES").is_err();
        let cvar = (pi / 4 + seed as usize) % 4;
        // cvar 3: a recognised Result function WITH a ttl (and an entry limit), entries all EXPIRED at the start, thread 0's
        // calls succeed and the others' FAIL: a failing call performs the expired-lookup purge and then stores nothing, so a purge
        // that is not atomic with respect to another thread's complete call (miss, body, store) leaves its damage — a stored key
        // without queue slot — visible at quiescence (the succeeding variants repair it by re-storing the key)
        let ttl_result_hot = calls_only && cvar == 3
            && usable.iter().any(|s| s.ttl.is_some() && s.limit.map(|l| l <= 3).unwrap_or(false) && s.max_mem.is_none() && s.recognised_result && (s.is_async || sync_too));
        let result_hot = (calls_only && cvar == 1) || ttl_result_hot;
        // every third calls-only program runs on a cache with a TTL (and an entry limit) whose entries are all EXPIRED when
        // the threads start: expired-lookup paths (lookup sees the expired entry, drops its read lock, takes the queue mutex
        // and the write lock) race with each other and with the re-stores of the same keys
        let ttl_hot = (calls_only && cvar == 2) || ttl_result_hot;
        let plain_hot = calls_only && cvar == 0 && variant % 2 == 0;
        let hot_pool: Vec<&md::Spec> = if ttl_result_hot {
            // (runs on a SYNC TLRU cache with a ttl are not replayed on the interleaving model: exact score ties are broken by real
            // sub-second ages there — see checklib/sched_stream.py and DESIGN.md)
            usable.iter().filter(|s| s.ttl.is_some() && s.limit.map(|l| l <= 3).unwrap_or(false) && s.max_mem.is_none() && s.recognised_result && (s.is_async || (sync_too && !s.is_async))).collect()
        } else if ttl_hot {
            usable.iter().filter(|s| s.ttl.is_some() && s.limit.map(|l| l <= 3).unwrap_or(false) && s.max_mem.is_none() && !s.is_result && s.is_async == (variant % 2 == 1)).collect()
        } else if result_hot {
            usable.iter().filter(|s| s.limit.is_none() && s.max_mem.is_none() && s.ttl.is_none() && s.recognised_result && s.is_async == (variant % 2 == 1)).collect()
        } else if plain_hot {
            usable.iter().filter(|s| s.limit.is_none() && s.max_mem.is_none() && s.ttl.is_none() && !s.is_result && s.is_async == ((variant / 2) % 2 == 1)).collect()
        } else if calls_only {
            usable.iter().filter(|s| s.limit.map(|l| l <= 2).unwrap_or(false) && s.ttl.is_none() && s.max_mem.is_none() && !s.is_result && s.is_async == ((variant / 2) % 2 == 1)).collect()
        } else if pi % 4 == 2 {
            // memory-bounded hot cache (memory-aware store path under contention)
            usable.iter().filter(|s| s.max_mem.is_some() && s.limit.map(|l| l <= 3).unwrap_or(true) && s.is_async == (variant % 2 == 1)).collect()
        } else {
            usable.iter().filter(|s| s.limit.map(|l| l <= 2).unwrap_or(false) && s.is_async == (pi % 3 == 1)).collect()
        };
        fns.push((*rng.pick(&hot_pool)).clone());
        while fns.len() < 2 + (pi % 2) {
            let s = rng.pick(&usable).clone();
            if !fns.iter().any(|f| f.idx == s.idx) {
                fns.push(s);
            }
        }
        // warm-up: first calls (registrations run inside `Once`) happen before any scheduling
        for sp in &fns {
            md::rt::NEXT_TL.with(|n| n.set(Some(rt::Next { n: 1, ok: true, len: 4, ci: true, io: false })));
            LEARN.with(|l| l.set(Some(sp.idx)));
            let _ = corpus::CALLS[sp.idx](0);
            let _ = corpus::CALLS[sp.idx](1);
            LEARN.with(|l| l.set(None));
        }
        md::rt::NEXT_TL.with(|n| n.set(None));
        let nthreads = 2 + (pi % 3 == 2) as usize;
        let progs = if calls_only {
            let mut ps = gen_calls_only(&mut rng, &fns, nthreads, if nthreads == 2 { 3 } else { 2 });
            if !result_hot {
                // IMPURE values: thread t's calls produce value n + 1000 t for the same arguments, so that a replaced value
                // that is served again (C01 "last store wins" under concurrency) is distinguishable from the latest one
                for (ti, p) in ps.iter_mut().enumerate().skip(1) {
                    for op in p.iter_mut() {
                        let mut f: Vec<String> = op.split(' ').map(|s| s.to_string()).collect();
                        let n: u64 = f[3].parse().unwrap();
                        f[3] = (n + 1000 * ti as u64).to_string();
                        *op = f.join(" ");
                    }
                }
            }
            if result_hot {
                // `call <fn> <j> <n> <ok> <len>`: every thread but the first fails
                for p in ps.iter_mut().skip(1) {
                    for op in p.iter_mut() {
                        let mut f: Vec<String> = op.split(' ').map(|s| s.to_string()).collect();
                        f[4] = "0".to_string();
                        *op = f.join(" ");
                    }
                }
            }
            ps
        } else if pi % 8 == 1 || pi % 8 == 6 {
            gen_racing_invalidations(&mut rng, &fns, nthreads)
        } else {
            gen_program(&mut rng, &fns, nthreads, if nthreads == 2 { 3 } else { 2 })
        };
        let ptxt: Vec<String> = progs.iter().map(|p| p.join(";")).collect();
        let ftxt: Vec<String> = fns.iter().map(|f| f.idx.to_string()).collect();
        println!("P|{}|{}", ftxt.join(","), ptxt.join("||"));
        {
            // key table of the hot cache: the key each argument index renders to
            let ks: Vec<String> = (0..6).map(|j| format!("{}={}", j, hex(&corpus::KEYS[fns[0].idx](j)))).collect();
            println!("K|{}|{}", fns[0].idx, ks.join(","));
        }
        // first half of the budget: random schedules (finds early-divergence bugs fast); second half: stateless
        // DFS, which reports `exhaustive=1` when it enumerates the whole schedule space within the budget
        let mut prefix: Vec<usize> = Vec::new();
        let mut runs = 0usize;
        let mut exhausted = false;
        let mut rrng: Option<Rng> = Some(Rng::new(seed ^ 0xABCD ^ pi as u64));
        while runs < max_runs {
            if runs >= max_runs / 2 && rrng.is_some() {
                rrng = None;
                prefix.clear();
            }
            reset_all(&fns);
            // every other program with a TTL'd hot cache starts from EXPIRED entries (stored, then aged past the
            // ttl through the verif hook), so that the expired-lookup path races with stores and other lookups
            if pi % 2 == 0 || ttl_hot {
                if let Some(ttl) = fns[0].ttl {
                    for j in 0..3 {
                        let (n, ok) = det_val(fns[0].idx, j);
                        // (a Result function's initial entries must exist: the setup calls succeed)
                        md::rt::NEXT_TL.with(|x| x.set(Some(rt::Next { n, ok: ok || ttl_result_hot, len: 4 + (n % 5) as usize, ci: true, io: false })));
                        let _ = corpus::CALLS[fns[0].idx](j);
                    }
                    md::rt::NEXT_TL.with(|x| x.set(None));
                    cachelito_core::verif::age_global(&fns[0].name, (ttl + 1) * 1000);
                    cachelito_core::stats_registry::reset(&fns[0].name);
                }
            }
            // ages in the dumps have a 1 s grain (async births are whole unix seconds): a run into which a wall-clock
            // second boundary or too much real time falls (loaded machine) is marked, its dumps' ages are not compared
            md::wait_safe_start();
            let run_s0 = md::now_s();
            println!("I|{}", quiescent(&fns));
            let run_t0 = Instant::now();
            let r = run_once(&ctl, &progs, &prefix, &mut rrng, None);
            runs += 1;
            let sched: Vec<String> = r.sched.iter().map(|t| t.to_string()).collect();
            println!("X|run={}|sched={}|result={}", runs, sched.join(","), r.result);
            println!("V|{}", r.events.join(" "));
            if r.result != "ok" {
                // threads are stuck for good: nothing more can be run in this process
                println!("#STOP {} — process ends", r.result);
                use std::io::Write;
                std::io::stdout().flush().unwrap();
                std::process::exit(0);
            }
            let qd = quiescent(&fns);
            if md::now_s() != run_s0 || run_t0.elapsed() >= Duration::from_millis(700) {
                println!("#AGE-UNSAFE run: a clock boundary or too much real time fell into the run");
            }
            println!("Q|{}", qd);
            // sequential probe history, L2 format, starting from the dumped state.  Buffered: it is dropped
            // when a wall-clock second boundary (async timestamps) or too much real time fell into it.
            {
                md::wait_safe_start();
                let t0 = Instant::now();
                let s0 = md::now_s();
                let mut buf = Vec::new();
                let idxs: Vec<String> = fns.iter().map(|s| s.idx.to_string()).collect();
                buf.push(format!("E|{}|0|det={}", idxs.join(","), if calls_only { 0 } else { 1 }));
                buf.push(format!("R|{}", quiescent(&fns)));
                let mut prng = Rng::new(seed ^ (runs as u64 * 7919 + pi as u64));
                let mut ep = md::Episode::new(fns.clone(), 1);
                for op in probe_ops(&mut prng, &fns, 5) {
                    let out = ep.exec(&op);
                    buf.push(format!("S|{}||{}", op, out));
                }
                if md::now_s() == s0 && run_t0.elapsed() < Duration::from_millis(700) {
                    for l in buf {
                        println!("{l}");
                    }
                } else {
                    println!("#ABORT probe: clock boundary crossed");
                }
            }
            if rrng.is_some() {
                continue;
            }
            // next schedule: backtrack to the last choice with an untried alternative
            let mut ch = r.choices;
            loop {
                match ch.pop() {
                    None => {
                        exhausted = true;
                        break;
                    }
                    Some((cands, idx)) => {
                        if idx + 1 < cands.len() {
                            prefix = ch.iter().map(|c| c.1).collect();
                            prefix.push(idx + 1);
                            break;
                        }
                    }
                }
            }
            if exhausted {
                break;
            }
        }
        println!("#STAT program={} runs={} exhaustive={}", pi, runs, exhausted as u8);
        reset_all(&fns);
    }
}
