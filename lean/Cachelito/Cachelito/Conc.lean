/-
  Conc — the abstract concurrency theory behind C17 (and C20 (a)).

  Data is abstracted away: only LOCK EVENTS matter.  An operation of the library is described by its
  *skeleton* (`Skel`): the RAII guard scopes it opens, in which order, nested how, with which choices and
  loops.  A thread is a sequence of operations; once the thread has made its choices (`alt`, `star`) its
  behaviour is a finite list of lock events (`Ev`); a system is a list of threads, and a step of the system
  lets one enabled thread perform its next lock event.

  This file is the executable model (core Lean only, linked into the driver):
    * `Lock`, `Mode`, `Ev`, `Skel`, `Runs` (the event lists of a skeleton), `Skel.wf` (rank discipline),
    * `Rx` + derivatives and the matcher `accepts : Skel → List Ev → Bool`,
    * `Thread`, `State`, `enabledB`, `enabledWPB` (writer preference), `stepThread`, `runSchedule`,
      `explore` (exhaustive search for a stuck state),
    * `checkTrace` (is a recorded trace rank-ordered and balanced?), `WfFrom` and friends,
    * `Table`: the lock skeleton of every operation of cachelito (after the fixes F5, F6, F8), the legacy
      skeletons, and `opTable`.
  Theorems are in `Cachelito/Lemmas/Conc.lean` and `Cachelito/Props/C17.lean`.
-/

namespace Cachelito.Conc

/-! ## Locks, modes, events -/

/-- A lock.  `rank` is its level in the lock hierarchy, `id` tells locks of the same level apart (the queue
    mutexes of two different caches have the same rank and different ids).  Two locks are the same lock iff
    both fields agree. -/
structure Lock where
  rank : Nat
  id : Nat
deriving DecidableEq, Repr

/-- `Mutex::lock` and `RwLock::write` are `excl`; `RwLock::read` is `shared`. -/
inductive Mode | shared | excl
deriving DecidableEq, Repr

/-- Two holders of the same lock are compatible only when both are readers. -/
def Mode.compat : Mode → Mode → Bool
  | .shared, .shared => true
  | _, _ => false

/-- A lock event: a guard is created (`acq`) or dropped (`rel`). -/
inductive Ev
  | acq (l : Lock) (m : Mode)
  | rel (l : Lock)
deriving DecidableEq, Repr

/-! ## Skeletons -/

/-- The lock skeleton of an operation, mirroring RAII guard scopes.
    `crit l m body` = acquire `l` in mode `m`, run `body` while holding it, release `l`. -/
inductive Skel
  | done
  | crit (l : Lock) (m : Mode) (body : Skel)
  | seq (a b : Skel)
  | alt (a b : Skel)
  | star (body : Skel)
deriving DecidableEq, Repr

namespace Skel

/-- optional part -/
def opt (s : Skel) : Skel := .alt .done s
/-- sequence of several skeletons -/
def seqs : List Skel → Skel
  | [] => .done
  | s :: ss => .seq s (seqs ss)
/-- choice between several skeletons (the empty choice does nothing) -/
def alts : List Skel → Skel
  | [] => .done
  | s :: ss => .alt s (alts ss)

/-- Rank discipline: every `crit l` is entered while all locks held have rank strictly below `l.rank`.
    `held` = the locks held by the enclosing scopes. -/
def wf (held : List Lock) : Skel → Bool
  | .done => true
  | .crit l _ b => held.all (fun h => decide (h.rank < l.rank)) && b.wf (l :: held)
  | .seq a b => a.wf held && b.wf held
  | .alt a b => a.wf held && b.wf held
  | .star b => b.wf held

/-- Some of the event lists of a skeleton: every choice explored, every loop unrolled `0..n` times.
    Used by the correspondence check for branch coverage and to generate thread programs. -/
def paths (n : Nat) : Skel → List (List Ev)
  | .done => [[]]
  | .crit l m b => (b.paths n).map fun t => .acq l m :: t ++ [.rel l]
  | .seq a b => (a.paths n).flatMap fun t₁ => (b.paths n).map fun t₂ => t₁ ++ t₂
  | .alt a b => a.paths n ++ b.paths n
  | .star b =>
      let once := b.paths n
      let rec rep : Nat → List (List Ev)
        | 0 => [[]]
        | k + 1 => [] :: once.flatMap fun t₁ => (rep k).map fun t₂ => t₁ ++ t₂
      rep n

end Skel

/-- `Runs s t`: `t` is one of the lock-event lists the skeleton `s` can produce. -/
inductive Runs : Skel → List Ev → Prop
  | done : Runs .done []
  | crit {l m b t} : Runs b t → Runs (.crit l m b) (.acq l m :: t ++ [.rel l])
  | seq {a b t₁ t₂} : Runs a t₁ → Runs b t₂ → Runs (.seq a b) (t₁ ++ t₂)
  | altL {a b t} : Runs a t → Runs (.alt a b) t
  | altR {a b t} : Runs b t → Runs (.alt a b) t
  | starNil {b} : Runs (.star b) []
  | starCons {b t₁ t₂} : Runs b t₁ → Runs (.star b) t₂ → Runs (.star b) (t₁ ++ t₂)

/-! ## The matcher: regular expressions over events, Brzozowski derivatives -/

/-- Plain regular expressions over lock events (a skeleton with its brackets flattened). -/
inductive Rx
  | empty
  | eps
  | ev (e : Ev)
  | seq (a b : Rx)
  | alt (a b : Rx)
  | star (a : Rx)
deriving DecidableEq, Repr

namespace Rx

inductive Matches : Rx → List Ev → Prop
  | eps : Matches .eps []
  | ev (e : Ev) : Matches (.ev e) [e]
  | seq {a b t₁ t₂} : Matches a t₁ → Matches b t₂ → Matches (.seq a b) (t₁ ++ t₂)
  | altL {a b t} : Matches a t → Matches (.alt a b) t
  | altR {a b t} : Matches b t → Matches (.alt a b) t
  | starNil {a} : Matches (.star a) []
  | starCons {a t₁ t₂} : Matches a t₁ → Matches (.star a) t₂ → Matches (.star a) (t₁ ++ t₂)

def nullable : Rx → Bool
  | .empty => false
  | .eps => true
  | .ev _ => false
  | .seq a b => a.nullable && b.nullable
  | .alt a b => a.nullable || b.nullable
  | .star _ => true

/-- `seq` that simplifies `∅·b = ∅` and `ε·b = b` (keeps derivatives small) -/
def mkSeq : Rx → Rx → Rx
  | .empty, _ => .empty
  | .eps, b => b
  | a, b => .seq a b

/-- `alt` that simplifies `∅ + b = b`, `a + ∅ = a` -/
def mkAlt : Rx → Rx → Rx
  | .empty, b => b
  | a, .empty => a
  | a, b => .alt a b

/-- Brzozowski derivative: the expression matching `t` iff the original matches `e :: t`. -/
def deriv (e : Ev) : Rx → Rx
  | .empty => .empty
  | .eps => .empty
  | .ev e' => if e = e' then .eps else .empty
  | .seq a b => if a.nullable then mkAlt (mkSeq (a.deriv e) b) (b.deriv e) else mkSeq (a.deriv e) b
  | .alt a b => mkAlt (a.deriv e) (b.deriv e)
  | .star a => mkSeq (a.deriv e) (.star a)

def derivs : Rx → List Ev → Rx
  | r, [] => r
  | r, e :: t => derivs (r.deriv e) t

def matchesB (r : Rx) (t : List Ev) : Bool := (r.derivs t).nullable

end Rx

def Skel.toRx : Skel → Rx
  | .done => .eps
  | .crit l m b => .seq (.ev (.acq l m)) (.seq b.toRx (.ev (.rel l)))
  | .seq a b => .seq a.toRx b.toRx
  | .alt a b => .alt a.toRx b.toRx
  | .star b => .star b.toRx

/-- Is the recorded lock-event trace `t` one of the event lists of skeleton `s`?
    (`accepts s t = true ↔ Runs s t`, theorem `accepts_iff`.) -/
def accepts (s : Skel) (t : List Ev) : Bool := s.toRx.matchesB t

/-- Is `t` a PREFIX of one of the event lists of `s`?  (for traces of operations cut short) -/
def Rx.nonEmptyB : Rx → Bool
  | .empty => false
  | .eps => true
  | .ev _ => true
  | .seq a b => a.nonEmptyB && b.nonEmptyB
  | .alt a b => a.nonEmptyB || b.nonEmptyB
  | .star _ => true
def acceptsPrefix (s : Skel) (t : List Ev) : Bool := (s.toRx.derivs t).nonEmptyB

/-! ## Traces: rank order and balance -/

/-- what a thread holds after performing `e` -/
def heldAfter (held : List (Lock × Mode)) : Ev → List (Lock × Mode)
  | .acq l m => (l, m) :: held
  | .rel l => held.filter (fun x => decide (x.1 ≠ l))

/-- Starting with `held`, every acquisition in the trace is of a lock ranked strictly above everything
    held at that moment (in particular a held lock is never re-acquired). -/
def RankedFrom : List (Lock × Mode) → List Ev → Prop
  | _, [] => True
  | held, .acq l m :: p => (∀ x ∈ held, x.1.rank < l.rank) ∧ RankedFrom ((l, m) :: held) p
  | held, .rel l :: p => RankedFrom (held.filter (fun x => decide (x.1 ≠ l))) p

/-- Starting with `held`, only held locks are released and nothing is held at the end. -/
def BalancedFrom : List (Lock × Mode) → List Ev → Prop
  | held, [] => held = []
  | held, .acq l m :: p => BalancedFrom ((l, m) :: held) p
  | held, .rel l :: p => (∃ m, (l, m) ∈ held) ∧ BalancedFrom (held.filter (fun x => decide (x.1 ≠ l))) p

/-- rank-ordered and balanced -/
def WfFrom : List (Lock × Mode) → List Ev → Prop
  | held, [] => held = []
  | held, .acq l m :: p => (∀ x ∈ held, x.1.rank < l.rank) ∧ WfFrom ((l, m) :: held) p
  | held, .rel l :: p => (∃ m, (l, m) ∈ held) ∧ WfFrom (held.filter (fun x => decide (x.1 ≠ l))) p

/-- A complete trace of an operation (or of a whole thread) is well ranked / balanced. -/
def WellRanked (t : List Ev) : Prop := RankedFrom [] t
def Balanced (t : List Ev) : Prop := BalancedFrom [] t

/-- executable version of `WfFrom` (monitor for recorded traces; `checkTrace_iff`) -/
def checkTrace : List (Lock × Mode) → List Ev → Bool
  | held, [] => held.isEmpty
  | held, .acq l m :: p => held.all (fun x => decide (x.1.rank < l.rank)) && checkTrace ((l, m) :: held) p
  | held, .rel l :: p =>
      held.any (fun x => decide (x.1 = l)) && checkTrace (held.filter (fun x => decide (x.1 ≠ l))) p

/-! ## Systems of threads -/

/-- A thread: what it holds and the lock events it still has to perform (its choices already made —
    the thread itself, not the scheduler, resolves `alt` and `star`; every theorem quantifies over all the
    event lists the thread's skeletons can produce). -/
structure Thread where
  held : List (Lock × Mode) := []
  todo : List Ev
deriving DecidableEq, Repr

abbrev State := List Thread
abbrev ThreadId := Nat

def Thread.finished (t : Thread) : Bool := t.todo.isEmpty

/-- the thread after performing its next event -/
def Thread.advance (t : Thread) : Thread :=
  match t.todo with
  | [] => t
  | e :: p => ⟨heldAfter t.held e, p⟩

/-- the lock a thread is about to acquire -/
def Thread.wanted (t : Thread) : Option Lock :=
  match t.todo with
  | .acq l _ :: _ => some l
  | _ => none

/-- May `l` be granted in mode `m`, given what the threads `others` hold?
    `excl` needs nobody else on `l`; `shared` needs no exclusive holder. -/
def grantable (l : Lock) (m : Mode) (others : List Thread) : Bool :=
  others.all fun o => o.held.all fun x => !(decide (x.1 = l)) || m.compat x.2

/-- Thread `i` can take its next step: it is unfinished and its next event is a release, or an
    acquisition compatible with what the OTHER threads hold. -/
def enabledB (s : State) (i : ThreadId) : Bool :=
  match s[i]? with
  | none => false
  | some th =>
    match th.todo with
    | [] => false
    | .rel _ :: _ => true
    | .acq l m :: _ => grantable l m (s.eraseIdx i)

/-- thread is about to write-lock `l` -/
def Thread.wantsExcl (l : Lock) (t : Thread) : Bool :=
  match t.todo with
  | .acq l' .excl :: _ => decide (l' = l)
  | _ => false

/-- Writer preference (parking_lot's `RwLock`, taken at its most restrictive): a NEW reader is also refused
    while some other thread is about to write-lock the same lock. -/
def enabledWPB (s : State) (i : ThreadId) : Bool :=
  match s[i]? with
  | none => false
  | some th =>
    match th.todo with
    | [] => false
    | .rel _ :: _ => true
    | .acq l .excl :: _ => grantable l .excl (s.eraseIdx i)
    | .acq l .shared :: _ =>
        grantable l .shared (s.eraseIdx i) && !((s.eraseIdx i).any (Thread.wantsExcl l))

/-- perform the next event of thread `i`, no questions asked -/
def advanceAt (s : State) (i : ThreadId) : Option State :=
  match s[i]? with
  | some th => some (s.set i th.advance)
  | none => none

/-- one step under a lock-granting policy `E` (`E s i` = may thread `i` move in state `s`?) -/
def stepWith (E : State → ThreadId → Bool) (s : State) (i : ThreadId) : Option State :=
  if E s i then advanceAt s i else none

/-- replay a schedule under policy `E` -/
def runScheduleWith (E : State → ThreadId → Bool) : List ThreadId → State → Option State
  | [], s => some s
  | i :: is, s => (stepWith E s i).bind (runScheduleWith E is)

/-- one step of the system: thread `i` performs its next lock event, if enabled -/
def stepThread (s : State) (i : ThreadId) : Option State := stepWith enabledB s i

/-- the same under writer preference -/
def stepThreadWP (s : State) (i : ThreadId) : Option State := stepWith enabledWPB s i

/-- replay a recorded schedule (one thread id per lock event); `none` if some step was not enabled -/
def runSchedule (sched : List ThreadId) (s : State) : Option State := runScheduleWith enabledB sched s

def runScheduleWP (sched : List ThreadId) (s : State) : Option State := runScheduleWith enabledWPB sched s

def allFinished (s : State) : Bool := s.all Thread.finished

/-- number of lock events still to be performed -/
def remaining : State → Nat
  | [] => 0
  | t :: s => t.todo.length + remaining s

/-- all threads at the start of their event lists, holding nothing -/
def State.init (paths : List (List Ev)) : State := paths.map fun p => { held := [], todo := p }

/-- the threads that can move -/
def enabledThreads (s : State) : List ThreadId := (List.range s.length).filter (enabledB s)

/-- unfinished, and nobody can move -/
def stuck (s : State) : Bool := !allFinished s && (enabledThreads s).isEmpty

/-- Run a scheduler `pick` under policy `E` for at most `n` steps, stopping when everybody has finished. -/
def runPickWith (E : State → ThreadId → Bool) (pick : State → ThreadId) : Nat → State → Option State
  | 0, s => some s
  | n + 1, s => if allFinished s then some s else (stepWith E s (pick s)).bind (runPickWith E pick n)

def runPick (pick : State → ThreadId) (n : Nat) (s : State) : Option State := runPickWith enabledB pick n s

/-- Exhaustive exploration: `true` iff no state reachable from `s` within `fuel` steps is stuck
    (use `fuel = remaining s`). -/
def explore : Nat → State → Bool
  | 0, s => !stuck s
  | n + 1, s =>
      let en := enabledThreads s
      if en.isEmpty then allFinished s
      else en.all fun i =>
        match advanceAt s i with
        | some s' => explore n s'
        | none => false

/-- Search for a schedule leading to a stuck state (the replayable deadlock witness). -/
def findStuck : Nat → State → Option (List ThreadId)
  | 0, s => if stuck s then some [] else none
  | n + 1, s =>
      if stuck s then some [] else
        (enabledThreads s).findSome? fun i =>
          match stepThread s i with
          | some s' => (findStuck n s').map (i :: ·)
          | none => none

/-! ## The skeleton table of cachelito -/

namespace Table
open Skel

/-!
  Lock hierarchy (ranks).  Strictly increasing rank on every nested acquisition is what `Skel.wf` demands,
  so two locks may share a rank exactly when no operation ever holds both — e.g. the queue mutexes of two
  caches (registry callbacks release everything of one cache before touching the next).

    0  the `Once`/`OnceCell` of a function's first-call registrations (three per function)
    1  STATS            stats_registry::STATS_REGISTRY
    2  Rt  3 Re  4 Rd   tag/event/dependency → caches
    5  Rm               cache_metadata
    6  Rc               clear_callbacks                 (held, shared, while clear callbacks run)
    7  Rk               invalidation_check_callbacks    (held, shared, while conditional callbacks run)
    8  O c              order-queue mutex of cache c
    9  M c              store RwLock of (sync) cache c
   10  S c              DashMap shard guards of (async) cache c — leaf locks, never held across an await

  Two levels of detail: `full = false` is what the H1 hook records (registry locks, queue mutex, store
  lock); `full = true` also shows the `Once` cells (as mutexes: more blocking than the real thing) and the
  DashMap shard guards (coarsened to one leaf lock per cache, one guard at a time).
  `once_cell::Lazy`/`OnceLock` initialisers of the statics acquire nothing and are atomic steps.
-/

def onceStats (c : Nat) : Lock := ⟨0, 3 * c⟩
def onceInv (c : Nat) : Lock := ⟨0, 3 * c + 1⟩
def onceCb (c : Nat) : Lock := ⟨0, 3 * c + 2⟩
def STATS : Lock := ⟨1, 0⟩
def Rt : Lock := ⟨2, 0⟩
def Re : Lock := ⟨3, 0⟩
def Rd : Lock := ⟨4, 0⟩
def Rm : Lock := ⟨5, 0⟩
def Rc : Lock := ⟨6, 0⟩
def Rk : Lock := ⟨7, 0⟩
def O (c : Nat) : Lock := ⟨8, c⟩
def M (c : Nat) : Lock := ⟨9, c⟩
def S (c : Nat) : Lock := ⟨10, c⟩

/-- `[l.r]`, `[l.w]`: a critical section with nothing nested -/
def rd (l : Lock) : Skel := .crit l .shared .done
def wr (l : Lock) : Skel := .crit l .excl .done

/-- DashMap operations of async cache `c`: any number of shard guards, one at a time (hidden at hook level) -/
def shards (full : Bool) (c : Nat) : Skel := if full then .star (wr (S c)) else .done

/-- `Once::call_once(body)` / `OnceCell::get_or_init(body)`: already done | wait for the initialiser |
    be the initialiser -/
def once (full : Bool) (l : Lock) (body : Skel) : Skel :=
  if full then .alt .done (.alt (wr l) (.crit l .excl body)) else opt body

/-- policy classes of the sync hit path -/
inductive PolClass | fifoRandom | lru | lfu | arcTlru
deriving DecidableEq, Repr

/-- `GlobalCache::get` (global_cache.rs 348-416): `[M.r]`; expired ⇒ `[O{[M.w]}]`;
    hit ⇒ LRU `[O]`, LFU `[M.w]`, ARC/TLRU `[O];[M.w]`. -/
def syncGet (c : Nat) (pc : PolClass) : Skel :=
  .seq (rd (M c)) <| .alt (.crit (O c) .excl (wr (M c))) <|
    match pc with
    | .fifoRandom => .done
    | .lru => opt (wr (O c))
    | .lfu => opt (wr (M c))
    | .arcTlru => opt (.seq (wr (O c)) (wr (M c)))

/-- entry-limit eviction, inside the queue mutex (529-585): at most one `[M.w]` -/
def entryLimit (c : Nat) : Skel := opt (wr (M c))

/-- `GlobalCache::insert` (481-496): `[M.w] ; [O{ ([M.w])? }]` -/
def syncInsert (c : Nat) : Skel := .seq (wr (M c)) (.crit (O c) .excl (entryLimit c))

/-- `GlobalCache::insert_with_memory` (657-779):
    `[M.w] ; [O{ entryLimit | [M.r] ; ( [M.w]  |  ([M.r][M.w])* ; [M.r] ; ([M.w])? ; entryLimit ) }]` -/
def syncInsertMem (c : Nat) : Skel :=
  .seq (wr (M c)) <| .crit (O c) .excl <|
    .alt (entryLimit c) <|
      .seq (rd (M c)) <|
        .alt (wr (M c)) <|
          seqs [.star (.seq (rd (M c)) (wr (M c))), rd (M c), opt (wr (M c)), entryLimit c]

/-- clear callback, conditional-invalidation callback (user predicate runs inside), `GlobalCache::clear`:
    `[O{ [M.w] }]` -/
def syncClearCb (c : Nat) : Skel := .crit (O c) .excl (wr (M c))
def syncCondCb (c : Nat) : Skel := .crit (O c) .excl (wr (M c))
def globalClear (c : Nat) : Skel := .crit (O c) .excl (wr (M c))

/-- LEGACY (before the fixes): clear in two sections `[M.w];[O]` (F6, no rank problem) and the
    conditional-invalidation callback `[M.w{ [O] }]` (F5: store before queue — rank inversion). -/
def legacyClearCb (c : Nat) : Skel := .seq (wr (M c)) (wr (O c))
def legacyCondCb (c : Nat) : Skel := .crit (M c) .excl (wr (O c))

/-- `AsyncGlobalCache::get`: `⟨shard⟩ ; ( [O{⟨shard⟩}] )?` -/
def asyncGet (full : Bool) (c : Nat) : Skel :=
  .seq (shards full c) (opt (.crit (O c) .excl (shards full c)))
/-- `AsyncGlobalCache::insert` / `insert_with_memory`: `[O{ ⟨shard ops⟩ }]` -/
def asyncInsert (full : Bool) (c : Nat) : Skel := .crit (O c) .excl (shards full c)
def asyncInsertMem (full : Bool) (c : Nat) : Skel := .crit (O c) .excl (shards full c)
/-- async clear callback `[O{ ⟨clear⟩ }]`, async conditional callback `⟨iter⟩ ; [O{ ⟨removes⟩ }]` -/
def asyncClearCb (full : Bool) (c : Nat) : Skel := .crit (O c) .excl (shards full c)
def asyncCondCb (full : Bool) (c : Nat) : Skel :=
  .seq (shards full c) (.crit (O c) .excl (shards full c))
/-- LEGACY async: expired lookup and clear touched the map before taking the queue mutex (F8, F6) -/
def legacyAsyncExpired (full : Bool) (c : Nat) : Skel := .seq (shards full c) (wr (O c))

/-- first call of a `#[cache]`/`#[cache_async]` function:
    `Once{ [STATS.w] } ; ( Once{ [Rt.w];[Re.w];[Rd.w];[Rm.w];[Rc.w] } )? ; Once{ [Rk.w] }` -/
def firstCall (full : Bool) (c : Nat) : Skel :=
  seqs [ once full (onceStats c) (wr STATS),
         opt (once full (onceInv c) (seqs [wr Rt, wr Re, wr Rd, wr Rm, wr Rc])),
         once full (onceCb c) (wr Rk) ]

/-- `invalidate_by_tag|event|dependency` (invalidation.rs 202-251, 280-292): `[Rx.r] ; [Rc.r{ (clear cb)* }]` -/
def invalidateBy (x : Lock) (clearCbs : List Skel) : Skel :=
  .seq (rd x) (.crit Rc .shared (.star (alts clearCbs)))
/-- `invalidate_cache` (262-269): `[Rc.r{ (clear cb)? }]` -/
def invalidateCache (clearCb : Skel) : Skel := .crit Rc .shared (opt clearCb)
/-- `invalidate_with` (344-354): `[Rk.r{ (cond cb)? }]` -/
def invalidateWith (condCb : Skel) : Skel := .crit Rk .shared (opt condCb)
/-- `invalidate_all_with` (378-392): `[Rk.r{ (cond cb)* }]` -/
def invalidateAllWith (condCbs : List Skel) : Skel := .crit Rk .shared (.star (alts condCbs))
/-- `stats_registry::get|get_ref|list|reset|…` : `[STATS.r]`; `stats_registry::clear`: `[STATS.w]` -/
def statsQuery : Skel := rd STATS
def statsClear : Skel := wr STATS
/-- readers `get_caches_by_tag|event`, `get_dependent_caches` -/
def registryQuery (x : Lock) : Skel := rd x
/-- `InvalidationRegistry::clear` (395-402): six write sections one after the other -/
def registryClear : Skel := seqs [wr Rt, wr Re, wr Rd, wr Rm, wr Rc, wr Rk]

def clearCbs (full : Bool) (syncs asyncs : List Nat) : List Skel :=
  syncs.map syncClearCb ++ asyncs.map (asyncClearCb full)
def condCbs (full : Bool) (syncs asyncs : List Nat) : List Skel :=
  syncs.map syncCondCb ++ asyncs.map (asyncCondCb full)

/-- operations on sync cache `c` -/
def syncOps (full : Bool) (c : Nat) : List (String × Skel) :=
  [ (s!"sync_get_fifo_random@{c}", syncGet c .fifoRandom),
    (s!"sync_get_lru@{c}", syncGet c .lru),
    (s!"sync_get_lfu@{c}", syncGet c .lfu),
    (s!"sync_get_arc_tlru@{c}", syncGet c .arcTlru),
    (s!"sync_insert@{c}", syncInsert c),
    (s!"sync_insert_mem@{c}", syncInsertMem c),
    (s!"sync_clear_cb@{c}", syncClearCb c),
    (s!"sync_cond_cb@{c}", syncCondCb c),
    (s!"global_clear@{c}", globalClear c),
    (s!"first_call@{c}", firstCall full c),
    (s!"invalidate_cache@{c}", invalidateCache (syncClearCb c)),
    (s!"invalidate_with@{c}", invalidateWith (syncCondCb c)) ]

/-- operations on async cache `c` -/
def asyncOps (full : Bool) (c : Nat) : List (String × Skel) :=
  [ (s!"async_get@{c}", asyncGet full c),
    (s!"async_insert@{c}", asyncInsert full c),
    (s!"async_insert_mem@{c}", asyncInsertMem full c),
    (s!"async_clear_cb@{c}", asyncClearCb full c),
    (s!"async_cond_cb@{c}", asyncCondCb full c),
    (s!"first_call@{c}", firstCall full c),
    (s!"invalidate_cache@{c}", invalidateCache (asyncClearCb full c)),
    (s!"invalidate_with@{c}", invalidateWith (asyncCondCb full c)) ]

/-- operations of the registries, over the universe of caches `syncs ∪ asyncs` -/
def registryOps (full : Bool) (syncs asyncs : List Nat) : List (String × Skel) :=
  [ ("invalidate_by_tag", invalidateBy Rt (clearCbs full syncs asyncs)),
    ("invalidate_by_event", invalidateBy Re (clearCbs full syncs asyncs)),
    ("invalidate_by_dependency", invalidateBy Rd (clearCbs full syncs asyncs)),
    ("invalidate_cache@none", invalidateCache .done),
    ("invalidate_with@none", invalidateWith .done),
    ("invalidate_all_with", invalidateAllWith (condCbs full syncs asyncs)),
    ("stats_get", statsQuery), ("stats_list", statsQuery), ("stats_reset", statsQuery),
    ("stats_clear", statsClear),
    ("registry_query_tag", registryQuery Rt), ("registry_query_event", registryQuery Re),
    ("registry_query_dependency", registryQuery Rd),
    ("registry_clear", registryClear) ]

/-- the whole table for a universe of sync caches `syncs` and async caches `asyncs` (disjoint numbers) -/
def opTableOf (full : Bool) (syncs asyncs : List Nat) : List (String × Skel) :=
  syncs.flatMap (syncOps full) ++ asyncs.flatMap (asyncOps full) ++ registryOps full syncs asyncs

/-- THE TABLE at hook level for two sync caches (0, 1) and one async cache (2). -/
def opTable : List (String × Skel) := opTableOf false [0, 1] [2]
/-- the same with `Once` cells and DashMap shard guards shown -/
def opTableFull : List (String × Skel) := opTableOf true [0, 1] [2]

/-- the legacy (pre-fix) callbacks and the operations that run them -/
def legacyTable : List (String × Skel) :=
  [ ("legacy_sync_clear_cb@0", legacyClearCb 0),
    ("legacy_sync_cond_cb@0", legacyCondCb 0),
    ("legacy_invalidate_with@0", invalidateWith (legacyCondCb 0)),
    ("legacy_invalidate_all_with", invalidateAllWith [legacyCondCb 0, legacyCondCb 1]),
    ("legacy_async_expired@2", legacyAsyncExpired false 2) ]

def lookupIn (tbl : List (String × Skel)) (name : String) : Option Skel :=
  (tbl.find? (·.1 == name)).map (·.2)
def lookup (name : String) : Option Skel := lookupIn opTable name

/-- a thread's program (a list of operations) as one skeleton -/
def program (ops : List Skel) : Skel := seqs ops

/-- lock by name and cache number, for the line protocol: `STATS Rt Re Rd Rm Rc Rk` (cache number ignored),
    `O M S` (of cache `c`), `OnceStats OnceInv OnceCb` (of function `c`) -/
def lockNamed (name : String) (c : Nat) : Option Lock :=
  match name with
  | "STATS" => some STATS | "Rt" => some Rt | "Re" => some Re | "Rd" => some Rd
  | "Rm" => some Rm | "Rc" => some Rc | "Rk" => some Rk
  | "O" => some (O c) | "M" => some (M c) | "S" => some (S c)
  | "OnceStats" => some (onceStats c) | "OnceInv" => some (onceInv c) | "OnceCb" => some (onceCb c)
  | _ => none

/-- one event token: `acq.<lock>.<c>.<r|w>` or `rel.<lock>.<c>`, e.g. `acq.M.0.r`, `rel.Rk.0` -/
def parseEv (tok : String) : Option Ev :=
  match tok.splitOn "." with
  | ["acq", n, c, "r"] => (lockNamed n c.toNat!).map (Ev.acq · .shared)
  | ["acq", n, c, "w"] => (lockNamed n c.toNat!).map (Ev.acq · .excl)
  | ["rel", n, c] => (lockNamed n c.toNat!).map Ev.rel
  | _ => none

/-- a whole trace: tokens separated by blanks (`none` if any token is malformed) -/
def parseTrace (line : String) : Option (List Ev) :=
  ((line.splitOn " ").filter (· ≠ "")).mapM parseEv

end Table

/-! ## Sample threads (used by the examples of `Props/C17.lean`) -/

namespace Sample
open Table

/-- thread A: a call on sync cache 0 (LRU) that misses and stores with an eviction:
    `get` = `[M.r]`, `insert` = `[M.w] ; [O{ [M.w] }]` -/
def pathCall : List Ev :=
  [.acq (M 0) .shared, .rel (M 0),
   .acq (M 0) .excl, .rel (M 0), .acq (O 0) .excl, .acq (M 0) .excl, .rel (M 0), .rel (O 0)]
/-- thread A': a call on sync cache 0 (LRU) that hits: `[M.r] ; [O]` -/
def pathHit : List Ev := [.acq (M 0) .shared, .rel (M 0), .acq (O 0) .excl, .rel (O 0)]
/-- thread B: `invalidate_with` on cache 0: `[Rk.r{ [O{ [M.w] }] }]` -/
def pathInvalidateWith : List Ev :=
  [.acq Rk .shared, .acq (O 0) .excl, .acq (M 0) .excl, .rel (M 0), .rel (O 0), .rel Rk]
/-- thread C: a statistics query `[STATS.r]` -/
def pathStats : List Ev := [.acq STATS .shared, .rel STATS]
/-- thread B before the fix of F5: `[Rk.r{ [M.w{ [O] }] }]` -/
def pathLegacyInvalidateWith : List Ev :=
  [.acq Rk .shared, .acq (M 0) .excl, .acq (O 0) .excl, .rel (O 0), .rel (M 0), .rel Rk]

def progs3 : List (List Skel) :=
  [[syncGet 0 .lru, syncInsert 0], [invalidateWith (syncCondCb 0)], [statsQuery]]
/-- evicting call ‖ invalidate_with ‖ stats query -/
def sys3 : State := State.init [pathCall, pathInvalidateWith, pathStats]
/-- hit with recency update ‖ invalidate_with ‖ stats query -/
def sys3' : State := State.init [pathHit, pathInvalidateWith, pathStats]
/-- the legacy system: an evicting store against the pre-fix conditional invalidation -/
def sysLegacy : State := State.init [pathCall.drop 2, pathLegacyInvalidateWith]

end Sample

end Cachelito.Conc
