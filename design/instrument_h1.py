#!/usr/bin/env python3
"""Adds the H1 hooks (yield_point before every parking_lot lock acquisition, `hold` markers for guards bound
by `let` / held across an `if let` block) to cachelito-core.  Add-only: every inserted line is new, no existing
line is changed.  Run once; kept for reference (the result is committed in /repo behind feature `verif`)."""
import re, json, sys

FILES = {
    "cachelito-core/src/global_cache.rs": (1, 960, {"self.map": "&**self.map", "self.order": "&**self.order"}),
    "cachelito-core/src/async_global_cache.rs": (2, 925, {"self.order": "self.order"}),
    "cachelito-core/src/invalidation.rs": (3, 410, None),
    "cachelito-core/src/stats_registry.rs": (4, 190, {"STATS_REGISTRY": "&*STATS_REGISTRY"}),
}
sites = {}
for path, (fid, limit, addrmap) in FILES.items():
    lines = open("/repo/" + path).read().split("\n")
    out = []
    ordinal = 0
    i = 0
    # collect statement starts
    inserts = {}   # line index -> list of lines to insert before
    for idx, line in enumerate(lines):
        if idx + 1 >= limit:
            break
        st = line.strip()
        if st.startswith("//"):
            continue
        m = re.search(r"\.(read|write|lock)\(\)", line)
        if not m:
            continue
        # statement start
        s = idx
        while lines[s].strip().startswith("."):
            s -= 1
        stmt = "".join(l.strip() for l in lines[s:idx + 1])
        mm = re.search(r"((?:self|STATS_REGISTRY)(?:\.\w+)*)\.(read|write|lock)\(\)(.*)$", stmt)
        assert mm, (path, idx + 1, stmt)
        lock, meth, rest = mm.group(1), mm.group(2), mm.group(3)
        if addrmap is None:
            addr = f"&{lock}"
        else:
            addr = addrmap[lock]
        mode = "Shared" if meth == "read" else "Exclusive"
        probe = f"!{lock}.is_locked_exclusive()" if meth == "read" else f"!{lock}.is_locked()"
        ordinal += 1
        site = fid * 1000 + ordinal
        indent = re.match(r"\s*", lines[s]).group(0)
        head = lines[s].strip()
        bound = (head.startswith("let ") and rest.strip() in (";", "")) or head.startswith("if let ")
        ins = [f'{indent}#[cfg(feature = "verif")]',
               f'{indent}crate::verif::yield_point({site}, crate::verif::addr_of({addr}), crate::verif::Acq::{mode}, &|| {probe});']
        if bound:
            ins += [f'{indent}#[cfg(feature = "verif")]',
                    f'{indent}let _verif_held_{ordinal} = crate::verif::hold(crate::verif::addr_of({addr}));']
        inserts.setdefault(s, []).extend(ins)
        sites[site] = {"file": path, "line": idx + 1, "lock": lock.split(".")[-1], "mode": mode, "held": bound}
    for idx, line in enumerate(lines):
        if idx in inserts:
            out.extend(inserts[idx])
        out.append(line)
    open("/repo/" + path, "w").write("\n".join(out))
json.dump(sites, open("/verif/harness/sites_core.json", "w"), indent=1)
print(len(sites), "sites")
