/-
  X01 — The thread-local engine and the sync global engine are the same machine.

  `Core.lean` transcribes `global_cache.rs` and `thread_local_cache.rs` into ONE `step` function with a
  flavour switch.  Every flavour-dependent definition (`elapsedMs`, `expired`, `stamp`, `rank`,
  `removeBoth`, `overLimit`, `hitUpdate`, `insert`, `insertMem`) branches `| .async => … | _ => …`, so
  `.global` and `.threadLocal` take the same branch.  The ONLY textual difference is the FIFO/LRU arm of
  one iteration of the memory loop (`evictMem`): the global engine pops queue keys until it finds a
  stored one (`popStored`, `global_cache.rs:755-768`), the thread-local engine pops exactly one
  (`popOne`, `thread_local_cache.rs:635-644`).

  Results.
  * On consistent states (`InvMQ`: queue and store track the same keys) the two iterations coincide, and
    so do the whole memory loops INCLUDING the random draws they leave over
    (`evictMem_global_eq_threadLocal`, `memLoop_global_eq_threadLocal`).
  * Without the invariant one iteration differs, and the loops differ in the number of iterations and
    of draws consumed (examples at the end: a state with one orphan queue key) — this is why the model
    keeps the two arms separate: the per-iteration behaviour on the inconsistent states that concurrent
    use can leave behind is different code.
  * But the difference never reaches an operation's result: popping an orphan frees no memory, so the
    thread-local loop goes on popping until it has removed the very key `popStored` removes, and FIFO/LRU
    use no random draws.  Hence `step` (state AND output) agrees on EVERY state, consistent or not
    (`step_global_eq_threadLocal`), and so does every history from every start state
    (`run_global_eq_threadLocal`).  The version with `Inv s` asked for by the design
    (`step_global_eq_threadLocal_of_inv`) is the special case.

  One hypothesis is unavoidable: the TLRU scorer `tl.score` receives the whole `Cfg`, so an arbitrary
  scorer could inspect the flavour.  `SyncBlind tl cfg` says it does not distinguish `.global` from
  `.threadLocal`; it is only needed for `policy = .tlru`, it holds for every scorer of the development
  (`exactTlru`, `linearTlru`, the driver's `tlruFloat` — `syncBlind_*` below), and it cannot be dropped
  (last example).
-/
import Cachelito.Lemmas.Extra
import Cachelito.Lemmas.Score
import Cachelito.Driver

set_option linter.unusedSectionVars false
set_option linter.unusedVariables false

namespace Cachelito.X01
open Cachelito Cachelito.Extra
variable {K V S : Type} [DecidableEq K]

/-- **One memory-loop iteration, consistent states.**  If queue and store track the same keys, the
    global engine's "pop until a stored key" and the thread-local engine's "pop one key" are the same
    eviction (all policies: the other arms are shared code). -/
theorem evictMem_global_eq_threadLocal (cfg : Cfg) (tl : Tlru S)
    (htl : cfg.policy = .tlru → SyncBlind tl cfg) (now r : Nat) (m : Store K V) (q : List K) (h : InvMQ m q) :
    evictMem { cfg with flavour := .global } tl now r m q =
      evictMem { cfg with flavour := .threadLocal } tl now r m q :=
  evictMem_gt cfg tl htl now r h

/-- **The memory loop, consistent states.**  Started on a consistent store/queue the two loops pass
    through the same intermediate states (each is consistent again, `Evicted.inv`) and return the same
    store, queue AND left-over random draws, for every fuel. -/
theorem memLoop_global_eq_threadLocal (cfg : Cfg) (tl : Tlru S)
    (htl : cfg.policy = .tlru → SyncBlind tl cfg) (size : V → Nat) (now maxM extra fuel : Nat) (rs : List Nat)
    (m : Store K V) (q : List K) (h : InvMQ m q) :
    memLoop { cfg with flavour := .global } tl size now maxM extra fuel rs m q =
      memLoop { cfg with flavour := .threadLocal } tl size now maxM extra fuel rs m q :=
  memLoop_gt cfg tl htl size now maxM extra fuel rs h

/-- **X01, one operation, every state.**  For every configuration, scorer (flavour-blind if the policy
    is TLRU), size function, random draws, operation and EVERY state — consistent or not — the sync
    global engine and the thread-local engine produce the same successor state and the same output. -/
theorem step_global_eq_threadLocal (cfg : Cfg) (tl : Tlru S)
    (htl : cfg.policy = .tlru → SyncBlind tl cfg) (size : V → Nat) (rs : List Nat) (s : State K V) (op : Op K V) :
    step { cfg with flavour := .global } tl size rs s op =
      step { cfg with flavour := .threadLocal } tl size rs s op :=
  step_gt_any cfg tl htl size rs s op

/-- **X01 as stated in the design** (states satisfying `Inv`): a special case of
    `step_global_eq_threadLocal`; also provable directly from `popStored = popOne` under `InvMQ`
    (`Extra.step_gt`). -/
theorem step_global_eq_threadLocal_of_inv (cfg : Cfg) (tl : Tlru S)
    (htl : cfg.policy = .tlru → SyncBlind tl cfg) (size : V → Nat) (rs : List Nat) (s : State K V) (op : Op K V)
    (h : Inv s) :
    step { cfg with flavour := .global } tl size rs s op =
      step { cfg with flavour := .threadLocal } tl size rs s op :=
  step_gt cfg tl htl size rs s op h

/-- **X01, whole histories, from every start state.**  Equal final states and equal output lists. -/
theorem run_global_eq_threadLocal (cfg : Cfg) (tl : Tlru S)
    (htl : cfg.policy = .tlru → SyncBlind tl cfg) (size : V → Nat) (s : State K V)
    (ops : List (Op K V × List Nat)) :
    run { cfg with flavour := .global } tl size s ops =
      run { cfg with flavour := .threadLocal } tl size s ops :=
  run_gt_any cfg tl htl size s ops

/-- **X01, whole histories from the empty cache**: the same final state and the same outputs for every
    history. -/
theorem run_init_global_eq_threadLocal (cfg : Cfg) (tl : Tlru S)
    (htl : cfg.policy = .tlru → SyncBlind tl cfg) (size : V → Nat) (ops : List (Op K V × List Nat)) :
    (run { cfg with flavour := .global } tl size (State.init : State K V) ops).1 =
      (run { cfg with flavour := .threadLocal } tl size (State.init : State K V) ops).1 ∧
    (run { cfg with flavour := .global } tl size (State.init : State K V) ops).2 =
      (run { cfg with flavour := .threadLocal } tl size (State.init : State K V) ops).2 := by
  rw [run_global_eq_threadLocal cfg tl htl size State.init ops]
  exact ⟨rfl, rfl⟩

/-- For FIFO, LRU, LFU, ARC and Random no assumption about the scorer is needed: every scorer, every
    state, every history. -/
theorem run_global_eq_threadLocal_of_not_tlru (cfg : Cfg) (hp : cfg.policy ≠ .tlru) (tl : Tlru S)
    (size : V → Nat) (s : State K V) (ops : List (Op K V × List Nat)) :
    run { cfg with flavour := .global } tl size s ops =
      run { cfg with flavour := .threadLocal } tl size s ops :=
  run_global_eq_threadLocal cfg tl (fun h => absurd h hp) size s ops

/-- Same statement for configurations given with their flavour: two configurations that differ only in
    the flavour field, one `.global` and one `.threadLocal`, run every history alike. -/
theorem run_eq_of_sync_flavours (cg ct : Cfg) (hg : cg.flavour = .global) (ht : ct.flavour = .threadLocal)
    (hpol : cg.policy = ct.policy) (hlim : cg.limit = ct.limit) (hmem : cg.maxMem = ct.maxMem)
    (httl : cg.ttl = ct.ttl) (tl : Tlru S) (htl : cg.policy = .tlru → SyncBlind tl cg) (size : V → Nat)
    (s : State K V) (ops : List (Op K V × List Nat)) :
    run cg tl size s ops = run ct tl size s ops := by
  have e1 : cg = { cg with flavour := .global } := by
    cases cg; simp only at hg; subst hg; rfl
  have e2 : ct = { cg with flavour := .threadLocal } := by
    cases cg; cases ct; simp only at ht hpol hlim hmem httl; subst ht hpol hlim hmem httl; rfl
  rw [e2, e1]
  exact run_global_eq_threadLocal cg tl htl size s ops

/-! ### The scorers of the development are flavour-blind -/

/-- the exact-arithmetic TLRU scorer (`Lemmas/Score.lean`) ignores the flavour -/
theorem syncBlind_exactTlru (w : Nat) (cfg : Cfg) : SyncBlind (exactTlru w) cfg := fun _ _ _ => rfl

/-- the linear-weight exact scorer ignores the flavour -/
theorem syncBlind_linearTlru (w : Nat) (cfg : Cfg) : SyncBlind (linearTlru w) cfg := fun _ _ _ => rfl

/-- the `f64` scorer the correspondence driver runs against the real engines distinguishes only
    async from sync -/
theorem syncBlind_tlruFloat (fw : Option Float) (cfg : Cfg) : SyncBlind (Driver.tlruFloat fw) cfg :=
  fun _ _ _ => rfl

/-! ### Non-vacuity and the precise non-equivalence -/

def exTl : Tlru Nat := exactTlru 1
def exSize : Nat → Nat := fun _ => 1
def fifoMem (maxM : Nat) : Cfg := ⟨.global, .fifo, none, some maxM, none⟩
/-- store `{2}`, queue `[1, 2]`: key 1 is an orphan (in the queue, not in the store) — a state no
    single-threaded history reaches, but concurrent use can leave behind -/
def orphanStore : Store Nat Nat := [(2, ⟨20, 0, 0⟩)]
def orphanQueue : List Nat := [1, 2]
def orphanState : State Nat Nat := ⟨orphanStore, orphanQueue, 0, 0, 0⟩

/-- the orphan state violates the invariant -/
example : ¬ Inv orphanState := by
  intro h
  have := (h.2.2 1).mp (by decide)
  revert this; decide

/-- **Non-equivalence of one iteration without the invariant.**  On the orphan state the global
    iteration skips the orphan and removes key 2 (store and queue empty), the thread-local iteration
    pops only the orphan (store untouched, queue `[2]`). -/
example :
    (keys (evictMem { fifoMem 0 with flavour := .global } exTl 0 0 orphanStore orphanQueue).1,
      (evictMem { fifoMem 0 with flavour := .global } exTl 0 0 orphanStore orphanQueue).2.1) = ([], []) ∧
    (keys (evictMem { fifoMem 0 with flavour := .threadLocal } exTl 0 0 orphanStore orphanQueue).1,
      (evictMem { fifoMem 0 with flavour := .threadLocal } exTl 0 0 orphanStore orphanQueue).2.1) = ([2], [2]) := by
  decide

/-- **Non-equivalence of the loop without the invariant.**  Same state, bound 0, draws `[7, 8, 9]`: both
    loops end with an empty store and queue, but the global loop ran one eviction (draws `[8, 9]` left),
    the thread-local loop two (`[9]` left).  So `memLoop_global_eq_threadLocal` needs `InvMQ`. -/
example :
    (memLoop { fifoMem 0 with flavour := .global } exTl exSize 0 0 0 3 [7, 8, 9] orphanStore orphanQueue).2 =
      ([], [8, 9]) ∧
    (memLoop { fifoMem 0 with flavour := .threadLocal } exTl exSize 0 0 0 3 [7, 8, 9] orphanStore orphanQueue).2 =
      ([], [9]) ∧
    keys (memLoop { fifoMem 0 with flavour := .global } exTl exSize 0 0 0 3 [7, 8, 9] orphanStore orphanQueue).1 = [] ∧
    keys (memLoop { fifoMem 0 with flavour := .threadLocal } exTl exSize 0 0 0 3 [7, 8, 9] orphanStore orphanQueue).1 = [] := by
  decide

/-- … and yet a whole operation on the orphan state ends alike (instance of
    `step_global_eq_threadLocal`): a memory-aware store of key 3 under bound 1 evicts key 2 and drops
    the orphan in both engines. -/
example :
    let sg := (step { fifoMem 1 with flavour := .global } exTl exSize [] orphanState (.insertMem 3 30)).1
    let st := (step { fifoMem 1 with flavour := .threadLocal } exTl exSize [] orphanState (.insertMem 3 30)).1
    (keys sg.store, sg.queue) = ([3], [3]) ∧ (keys st.store, st.queue) = ([3], [3]) := by
  decide

/-- the theorem is not about trivial runs: a consistent history with memory evictions, a hit, an
    invalidation and a tick, LRU with both bounds; both engines end with keys `[4, 5]` and serve 20
    for the lookup -/
def exOps : List (Op Nat Nat × List Nat) :=
  [(.insertMem 1 10, []), (.insertMem 2 20, []), (.get 2, []), (.insertMem 3 30, []), (.tick 5, []),
   (.invalidateWith (fun k => k == 3), []), (.insertMem 4 40, []), (.insertMem 5 50, [])]
def exCfg : Cfg := ⟨.global, .lru, some 3, some 2, none⟩
example :
    let rg := run { exCfg with flavour := .global } exTl exSize (State.init : State Nat Nat) exOps
    let rt := run { exCfg with flavour := .threadLocal } exTl exSize (State.init : State Nat Nat) exOps
    (keys rg.1.store, rg.1.queue) = ([4, 5], [4, 5]) ∧ (keys rt.1.store, rt.1.queue) = ([4, 5], [4, 5]) := by
  decide

/-- **`SyncBlind` cannot be dropped.**  A scorer that inspects the flavour (ascending in the hit count
    for `.global`, descending otherwise) makes the two engines evict different keys under TLRU, from a
    consistent state: limit 1, store `{1 (0 hits), 2 (5 hits)}`, store key 3. -/
def flavourTl : Tlru Nat :=
  ⟨fun a b => decide (a < b), fun cfg h _ _ => match cfg.flavour with | .global => h | _ => 100 - h⟩
def twoState : State Nat Nat := ⟨[(1, ⟨10, 0, 0⟩), (2, ⟨20, 0, 5⟩)], [1, 2], 0, 0, 0⟩
def tlruCfg : Cfg := ⟨.global, .tlru, some 1, none, none⟩
example :
    (step { tlruCfg with flavour := .global } flavourTl exSize [] twoState (.insert 3 30)).1.queue = [2, 3] ∧
    (step { tlruCfg with flavour := .threadLocal } flavourTl exSize [] twoState (.insert 3 30)).1.queue = [1, 3] := by
  decide

end Cachelito.X01
