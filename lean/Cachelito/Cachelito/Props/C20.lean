/-
  C20 — A suspended or dropped async call never blocks or corrupts the cache.

  "An async cached call that is suspended at an await inside its body, or dropped there, holds no cache lock
   and leaves no entry for a result it never produced: other calls (same or different arguments) and
   invalidations complete meanwhile.  If the call is resumed later it stores its result normally; if it is
   dropped, the cache afterwards behaves as if that call had only performed its initial lookup."

  Model (`Cachelito/Async.lean`, transcribing `cachelito-async-macros/src/lib.rs` `generate_cache_logic_block`:
  lookup → `(async #block).await` → store): a `#[cache_async]` call is `callLookup` (phase 1), the body's
  awaits (no cache access; the call is a `PendingCall` record: key, oracles, trace so far — no lock, no
  entry), `callFinish` (phase 3, on the CURRENT state of the cache).  `aStep` interleaves `callBegin`,
  `callResume`, `callDrop` of any number of overlapping calls with every `SysOp` (calls by other callers,
  ticks, all invalidations, statistics).

    (1) factorisation      `call_is_lookup_then_finish`, `begin_then_resume_is_call`, `begin_resume_run`
    (2) no phantom entry   `lookup_phase_adds_nothing`, `begin_adds_nothing`, `provenance_step`, `provenance`,
                           `provenance_init`, `completed_calls_characterised`, `unproduced_value_nowhere`,
                           `dropped_call_result_irrelevant`
    (3) drop = lookup only `drop_leaves_caches_unchanged`, `dropped_call_cannot_be_resumed`,
                           `base_ops_ignore_pending`, `other_ops_ignore_pending`, `drop_is_lookup_only`,
                           `drop_is_lookup_only_base`, `never_resumed_is_lookup_only`
    (4) resume stores normally  `inv_preserved`, `inv_reachable`, `limit_preserved`, `limit_never_exceeded`,
                           `resume_returns_body_value`, `resume_stores_fresh_entry`,
                           `resume_rejected_changes_nothing`, `resume_oversize_not_held`,
                           `resume_touches_only_own_cache`
    (5) locks              `lookup_phase_holds_nothing`, `finish_phase_holds_nothing`,
                           `suspended_call_holds_nothing`, `others_progress_while_suspended`,
                           `others_finish_while_suspended`, `resumed_calls_finish`

  Not proved here (DESIGN.md §7 C20, *Partial*): that the state machine rustc generates for the `async fn`
  keeps no hidden guard alive across the await — checked by the run-time probe of the harness.
-/
import Cachelito.Lemmas.Async
import Cachelito.Props.C17

set_option linter.unusedSectionVars false
set_option linter.unusedSimpArgs false
set_option linter.unusedVariables false

namespace Cachelito.C20
open Cachelito Cachelito.SysLemmas Cachelito.AsyncLemmas
variable {K V S : Type} [DecidableEq K]

/-! ## (1) Factorisation: begin + resume with nothing in between is an ordinary call -/

/-- **(1) on one cache.**  The generated function `callFn` is exactly its lookup phase followed — when the
    lookup phase says the body has to run — by its finish phase on the post-lookup state; when the lookup
    phase serves the call from the cache, its state, value and trace are those of the whole call. -/
theorem call_is_lookup_then_finish (spec : FnSpec) (tl : Tlru S) (size : V → Nat) (isOk : V → Bool) (rs : List Nat)
    (s : State K V) (c : CallIn K V) :
    callFn spec tl size isOk rs s c =
      match callLookup spec s c with
      | (s1, .inl (v, tr)) => (s1, v, tr)
      | (s1, .inr pre) => callFinish spec tl size isOk rs s1 c pre :=
  callFn_factor spec tl size isOk rs s c

section sys
variable (fns : List FnSpec) (tls : Nat → Tlru S) (size : V → Nat) (isOk : V → Bool)

/-- **(1) at system level.**  For an existing non-thread-scope function `fn` (every `#[cache_async]` function
    is one), whatever is parked already and whatever id is used: `callBegin id fn c` either completes the
    call exactly as the ordinary call `sysStep (.call fn t c)` does — same caches, same `called` registration,
    same clock, same value and trace, nothing parked — or parks it with the trace so far, and then an
    immediate `callResume id` produces exactly the system, value and trace of the ordinary call and removes
    the record.  (`callBegin` consumes no random draws; `callResume` consumes those of the ordinary call.) -/
theorem begin_then_resume_is_call {fn : Nat} {spec : FnSpec} (hs : fns[fn]? = some spec)
    (hts : spec.threadScope = false) (a : ASys K V) (id t : Nat) (c : CallIn K V) (rs rs0 : List Nat) :
    (∃ v tr, aStep fns tls size isOk rs0 a (.callBegin id fn c) =
        (⟨(sysStep fns tls size isOk rs a.sys (.call fn t c)).1, a.pending⟩, .ret v tr) ∧
      (sysStep fns tls size isOk rs a.sys (.call fn t c)).2 = .ret v tr) ∨
    (∃ pre v tr,
      (aStep fns tls size isOk rs0 a (.callBegin id fn c)).2 = .suspended pre ∧
      (aStep fns tls size isOk rs0 a (.callBegin id fn c)).1.pending = ⟨id, fn, c, pre⟩ :: a.pending ∧
      (sysStep fns tls size isOk rs a.sys (.call fn t c)).2 = .ret v tr ∧
      aStep fns tls size isOk rs (aStep fns tls size isOk rs0 a (.callBegin id fn c)).1 (.callResume id) =
        (⟨(sysStep fns tls size isOk rs a.sys (.call fn t c)).1, a.pending.filter (fun q => q.id ≠ id)⟩,
         .ret v tr)) :=
  begin_resume_eq_call fns tls size isOk hs hts a id t c rs rs0

/-- (1) as a two-step history with a fresh id: the final `ASys` is the system after the ordinary call with the
    pending list as it was, and the value/trace of the ordinary call is output — by `callBegin` itself when the
    cache served the call (the `callResume` then finds nothing), else by `callResume`. -/
theorem begin_resume_run {fn : Nat} {spec : FnSpec} (hs : fns[fn]? = some spec) (hts : spec.threadScope = false)
    (a : ASys K V) (id t : Nat) (c : CallIn K V) (rs rs0 : List Nat) (hfresh : ∀ p ∈ a.pending, p.id ≠ id) :
    ∃ v tr, (sysStep fns tls size isOk rs a.sys (.call fn t c)).2 = .ret v tr ∧
      (aRun fns tls size isOk a [(.callBegin id fn c, rs0), (.callResume id, rs)]).1 =
        ⟨(sysStep fns tls size isOk rs a.sys (.call fn t c)).1, a.pending⟩ ∧
      ((aRun fns tls size isOk a [(.callBegin id fn c, rs0), (.callResume id, rs)]).2 = [.ret v tr, .noSuchCall] ∨
       ∃ pre, (aRun fns tls size isOk a [(.callBegin id fn c, rs0), (.callResume id, rs)]).2 =
          [.suspended pre, .ret v tr]) := by
  have hfilter : a.pending.filter (fun q => q.id ≠ id) = a.pending := by
    rw [List.filter_eq_self]; intro p hp; simpa using hfresh p hp
  have hfind : a.pending.find? (fun p => p.id = id) = none := by
    rw [List.find?_eq_none]; intro p hp; simpa using hfresh p hp
  rw [aRun_cons, aRun_cons]
  rcases begin_resume_eq_call fns tls size isOk hs hts a id t c rs rs0 with ⟨v, tr, h1, h2⟩ | ⟨pre, v, tr, h1, _, h3, h4⟩
  · refine ⟨v, tr, h2, ?_⟩
    rw [h1]
    simp only
    rw [aStep_resume_none fns tls size isOk rs
      (⟨(sysStep fns tls size isOk rs a.sys (.call fn t c)).1, a.pending⟩ : ASys K V) id hfind]
    exact ⟨rfl, Or.inl rfl⟩
  · refine ⟨v, tr, h3, ?_⟩
    rw [h4, h1, hfilter]
    exact ⟨rfl, Or.inr ⟨pre, rfl⟩⟩

end sys

/-! ## (2) No entry for a result that was never produced -/

/-- **(2) the lookup phase adds nothing.**  Every entry of the store after the lookup phase was in the store
    before it, under the same key and with the same value (only a hit counter, the queue position and the
    statistics may have moved; an expired entry of the key is purged); a key absent before is absent after. -/
theorem lookup_phase_adds_nothing (spec : FnSpec) (s : State K V) (c : CallIn K V) :
    (∀ x e', lookup x (callLookup spec s c).1.store = some e' → ∃ e, lookup x s.store = some e ∧ e.val = e'.val) ∧
    (∀ x, lookup x s.store = none → lookup x (callLookup spec s c).1.store = none) ∧
    (callLookup spec s c).1.store.length ≤ s.store.length :=
  ⟨fun _ _ h => callLookup_sub_val spec s c h, fun x h => callLookup_absent spec s c x h,
   callLookup_length_le spec s c⟩

section sys
variable (fns : List FnSpec) (tls : Nat → Tlru S) (size : V → Nat) (isOk : V → Bool)

/-- (2) `callBegin` adds nothing to ANY cache instance: every entry held afterwards was held before with the
    same value — whether the call was served or parked. -/
theorem begin_adds_nothing (rs : List Nat) (a : ASys K V) (id fn : Nat) (c : CallIn K V) (cid : CacheId)
    {x : K} {e' : Entry V}
    (h : lookup x ((aStep fns tls size isOk rs a (.callBegin id fn c)).1.sys.getCache cid).store = some e') :
    ∃ e, lookup x (a.sys.getCache cid).store = some e ∧ e.val = e'.val := by
  rw [aStep_begin_sys] at h
  cases hs : fns[fn]? with
  | none => rw [lookupOnly_none hs] at h; exact ⟨e', h, rfl⟩
  | some spec =>
    rw [getCache_lookupOnly hs] at h
    split at h
    · rename_i hid; subst hid; exact callLookup_sub_val spec _ c h
    · exact ⟨e', h, rfl⟩

/-- **(2) provenance through one step.**  If every entry of every cache instance satisfies `P`, then after
    any `aStep` every entry satisfies `P` or is the `(key, bodyVal)` of the call that this very step COMPLETED
    (`completedBy`: an ordinary call, or the resume of a call parked at that moment).  `callBegin` and `callDrop`
    complete nothing, so they preserve every entry predicate. -/
theorem provenance_step (P : CacheId → K → V → Prop) (rs : List Nat) (a : ASys K V) (op : AOp K V)
    (h : ∀ id, Calls.AllP (P id) (a.sys.getCache id).store) (id : CacheId) :
    Calls.AllP (fun k v => P id k v ∨ completedBy fns a op = some (id, k, v))
      ((aStep fns tls size isOk rs a op).1.sys.getCache id).store :=
  aStep_prov fns tls size isOk P rs a op h id

/-- **(2) provenance over every history.**  After ANY history of base operations, begins, resumes and drops
    of any number of overlapping calls, every entry of every cache instance descends from an entry present at
    the start (`P0`) or carries the key and the body value of a call that was COMPLETED on that instance —
    never of a call that is still parked or was dropped. -/
theorem provenance (P0 : CacheId → K → V → Prop) (a : ASys K V) (ops : List (AOp K V × List Nat))
    (h : ∀ id, Calls.AllP (P0 id) (a.sys.getCache id).store) (id : CacheId) :
    Calls.AllP (fun k v => P0 id k v ∨ (id, k, v) ∈ completions fns tls size isOk a ops)
      ((aRun fns tls size isOk a ops).1.sys.getCache id).store :=
  aRun_prov fns tls size isOk P0 a ops h id

/-- (2) from the empty system every stored entry is the `(key, bodyVal)` of a completed call -/
theorem provenance_init (ops : List (AOp K V × List Nat)) (id : CacheId) :
    Calls.AllP (fun k v => (id, k, v) ∈ completions fns tls size isOk (ASys.init : ASys K V) ops)
      ((aRun fns tls size isOk (ASys.init : ASys K V) ops).1.sys.getCache id).store :=
  aRun_prov_init fns tls size isOk ops id

/-- (2) who the completed calls are: an ordinary call of the history on that instance, or a `callResume` of the
    history acting on a record that was parked at the start or whose `callBegin` is in the history. -/
theorem completed_calls_characterised (a : ASys K V) (ops : List (AOp K V × List Nat)) (id : CacheId) (k : K) (v : V)
    (h : (id, k, v) ∈ completions fns tls size isOk a ops) :
    (∃ fn th c rs spec, (AOp.base (.call fn th c), rs) ∈ ops ∧ fns[fn]? = some spec ∧
        id = cacheIdOf spec fn th ∧ k = c.key ∧ v = c.bodyVal) ∨
    (∃ rs p, (AOp.callResume p.id, rs) ∈ ops ∧
        (p ∈ a.pending ∨ ∃ rs', (AOp.callBegin p.id p.fn p.c, rs') ∈ ops) ∧
        id = ⟨p.fn, none⟩ ∧ k = p.c.key ∧ v = p.c.bodyVal) :=
  mem_completions fns tls size isOk a ops id k v h

/-- **(2) a value nobody completed is nowhere.**  If `w` is not stored at the start and no COMPLETED call of
    the history produced `w` — e.g. `w` is the value only a still-parked or a dropped call would have
    produced — then after the history no entry of any cache instance carries `w`. -/
theorem unproduced_value_nowhere (a : ASys K V) (ops : List (AOp K V × List Nat)) (w : V)
    (h0 : ∀ id, Calls.AllP (fun _ v => v ≠ w) (a.sys.getCache id).store)
    (hc : ∀ x ∈ completions fns tls size isOk a ops, x.2.2 ≠ w) (id : CacheId) :
    Calls.AllP (fun _ v => v ≠ w) ((aRun fns tls size isOk a ops).1.sys.getCache id).store := by
  refine Calls.AllP.mono ?_ (aRun_prov fns tls size isOk (fun _ _ v => v ≠ w) a ops h0 id)
  intro k v hk
  rcases hk with hk | hk
  · exact hk
  · exact hc _ hk

/-- **(2) the result of a dropped call is irrelevant.**  Two calls with the same key and the same
    `invalidate_on` oracle but ANY two body values (and `cache_if` oracles), begun, left parked during an
    arbitrary history `h` of other operations, then dropped: the two runs end in the same state (caches,
    registrations, clock, other pending calls) with the same outputs.  Nothing anywhere depends on the value
    the dropped call would have produced. -/
theorem dropped_call_result_irrelevant (a : ASys K V) (id fn : Nat) {c c' : CallIn K V}
    (hk : c.key = c'.key) (hio : c.invalidateOn = c'.invalidateOn) (rs0 rs1 : List Nat)
    (h : List (AOp K V × List Nat)) (hh : ∀ x ∈ h, mentions id x.1 = false) :
    aRun fns tls size isOk a ((.callBegin id fn c, rs0) :: h ++ [(.callDrop id, rs1)]) =
      aRun fns tls size isOk a ((.callBegin id fn c', rs0) :: h ++ [(.callDrop id, rs1)]) := by
  rw [begin_drop_eq_lookupOnly fns tls size isOk a id fn c rs0 rs1 h hh,
    begin_drop_eq_lookupOnly fns tls size isOk a id fn c' rs0 rs1 h hh,
    lookupOnly_congr fns a.sys fn hk hio, aStep_begin_out_congr fns tls size isOk rs0 a id fn hk hio]

/-! ## (3) Drop = only the initial lookup happened -/

/-- **(3) `callDrop` leaves every cache exactly unchanged**: the system part (all cache instances, the
    registrations, the clock) is untouched, the output is `unit`, only records parked under `id` disappear. -/
theorem drop_leaves_caches_unchanged (rs : List Nat) (a : ASys K V) (id : Nat) :
    aStep fns tls size isOk rs a (.callDrop id) = (⟨a.sys, a.pending.filter (fun q => q.id ≠ id)⟩, .unit) :=
  aStep_drop fns tls size isOk rs a id

/-- (3) a dropped call can not be resumed: `callResume id` right after `callDrop id` finds nothing and changes
    nothing -/
theorem dropped_call_cannot_be_resumed (rs rs' : List Nat) (a : ASys K V) (id : Nat) :
    aStep fns tls size isOk rs' (aStep fns tls size isOk rs a (.callDrop id)).1 (.callResume id) =
      ((aStep fns tls size isOk rs a (.callDrop id)).1, .noSuchCall) :=
  aStep_resume_after_drop fns tls size isOk rs rs' a id

/-- **(3) frame: base operations do not read the pending calls.**  A call by another caller (same or other
    arguments), a tick, any invalidation, any statistics operation acts on the system part exactly as
    `sysStep` does and leaves the pending records alone — whatever is parked. -/
theorem base_ops_ignore_pending (rs : List Nat) (a : ASys K V) (op : SysOp K V) :
    aStep fns tls size isOk rs a (.base op) =
      (⟨(sysStep fns tls size isOk rs a.sys op).1, a.pending⟩, .base (sysStep fns tls size isOk rs a.sys op).2) :=
  aStep_base fns tls size isOk rs a op

/-- (3) frame for all operations: an operation that does not name call `id` (a base operation, or the begin /
    resume / drop of ANOTHER call) yields the same system, the same output and the same other records whether
    or not records of `id` are parked. -/
theorem other_ops_ignore_pending (rs : List Nat) (a : ASys K V) (id : Nat) (op : AOp K V)
    (h : mentions id op = false) :
    aStep fns tls size isOk rs (forget id a) op =
      (forget id (aStep fns tls size isOk rs a op).1, (aStep fns tls size isOk rs a op).2) :=
  aStep_forget fns tls size isOk rs a id op h

/-- **(3) drop = only the initial lookup happened.**  `callBegin id fn c ; h ; callDrop id`, for ANY history
    `h` of operations not naming `id` (base operations of every kind and begins / resumes / drops of any
    number of other, overlapping calls), from ANY state: the final state — caches, registrations, clock and
    the other pending calls — and the outputs of `h` are exactly those of `h` run from the state in which
    just the lookup phase of the call was performed (`lookupOnly`), no pending record. -/
theorem drop_is_lookup_only (a : ASys K V) (id fn : Nat) (c : CallIn K V) (rs0 rs1 : List Nat)
    (h : List (AOp K V × List Nat)) (hh : ∀ x ∈ h, mentions id x.1 = false) :
    aRun fns tls size isOk a ((.callBegin id fn c, rs0) :: h ++ [(.callDrop id, rs1)]) =
      ((aRun fns tls size isOk ⟨lookupOnly fns a.sys fn c, a.pending.filter (fun q => q.id ≠ id)⟩ h).1,
       (aStep fns tls size isOk rs0 a (.callBegin id fn c)).2 ::
         (aRun fns tls size isOk ⟨lookupOnly fns a.sys fn c, a.pending.filter (fun q => q.id ≠ id)⟩ h).2 ++
           [.unit]) :=
  begin_drop_eq_lookupOnly fns tls size isOk a id fn c rs0 rs1 h hh

/-- (3) for a history of base operations: the final system of `begin id; h; drop id` is `sysRun` of `h` from
    `lookupOnly` -/
theorem drop_is_lookup_only_base (a : ASys K V) (id fn : Nat) (c : CallIn K V) (rs0 rs1 : List Nat)
    (h : List (SysOp K V × List Nat)) :
    (aRun fns tls size isOk a
        ((.callBegin id fn c, rs0) :: h.map (fun x => (AOp.base x.1, x.2)) ++ [(.callDrop id, rs1)])).1.sys =
      (sysRun fns tls size isOk (lookupOnly fns a.sys fn c) h).1 := by
  rw [begin_drop_eq_lookupOnly fns tls size isOk a id fn c rs0 rs1 _ (by
    intro x hx
    obtain ⟨y, _, rfl⟩ := List.mem_map.mp hx
    rfl)]
  simp only [aRun_base]

/-- (3) a call that is never resumed nor dropped (still parked when the history ends): the caches evolve, and
    the other operations answer, as if only its lookup phase had happened -/
theorem never_resumed_is_lookup_only (a : ASys K V) (id fn : Nat) (c : CallIn K V) (rs0 : List Nat)
    (h : List (AOp K V × List Nat)) (hh : ∀ x ∈ h, mentions id x.1 = false) :
    (aRun fns tls size isOk a ((.callBegin id fn c, rs0) :: h)).1.sys =
      (aRun fns tls size isOk ⟨lookupOnly fns a.sys fn c, a.pending.filter (fun q => q.id ≠ id)⟩ h).1.sys ∧
    (aRun fns tls size isOk a ((.callBegin id fn c, rs0) :: h)).2.tail =
      (aRun fns tls size isOk ⟨lookupOnly fns a.sys fn c, a.pending.filter (fun q => q.id ≠ id)⟩ h).2 :=
  begin_parked_sys fns tls size isOk a id fn c rs0 h hh

/-! ## (4) Resume stores normally -/

/-- **(4) every `aStep` keeps the store/queue invariant of every cache instance** (store keys distinct, queue
    duplicate-free, queue and store track the same keys) — in particular the late store of a resumed call,
    which runs on whatever the cache has become meanwhile. -/
theorem inv_preserved (rs : List Nat) (a : ASys K V) (op : AOp K V) (h : SysInv a.sys) :
    SysInv (aStep fns tls size isOk rs a op).1.sys :=
  aStep_inv fns tls size isOk rs a op h

/-- (4) the invariant holds in every reachable state -/
theorem inv_reachable (ops : List (AOp K V × List Nat)) :
    SysInv (aRun fns tls size isOk (ASys.init : ASys K V) ops).1.sys :=
  aRun_inv fns tls size isOk _ ops sysInv_init

/-- **(4) every `aStep` respects the entry limit.**  For a cache instance whose function has `limit = n ≥ 1`
    (every flavour — in particular async — and every policy): a consistent instance with at most `n` entries has
    at most `n` entries after any `aStep`, also after the late store of a resumed call into a cache that other
    callers have filled meanwhile. -/
theorem limit_preserved (rs : List Nat) (a : ASys K V) (op : AOp K V) (id : CacheId) {spec : FnSpec} (n : Nat)
    (hs : fns[id.fn]? = some spec) (hl : spec.cfg.limit = some n) (hn : 1 ≤ n)
    (hi : Inv (a.sys.getCache id)) (hb : (a.sys.getCache id).store.length ≤ n) :
    ((aStep fns tls size isOk rs a op).1.sys.getCache id).store.length ≤ n :=
  aStep_bound fns tls size isOk rs a op id n hs hl hn hi hb

/-- (4) the entry limit is never exceeded, after any history of base operations, begins, resumes and drops -/
theorem limit_never_exceeded (ops : List (AOp K V × List Nat)) (id : CacheId) {spec : FnSpec} (n : Nat)
    (hs : fns[id.fn]? = some spec) (hl : spec.cfg.limit = some n) (hn : 1 ≤ n) :
    ((aRun fns tls size isOk (ASys.init : ASys K V) ops).1.sys.getCache id).store.length ≤ n :=
  aRun_bound fns tls size isOk _ ops id n hs hl hn sysInv_init (Nat.zero_le _)

/-- **(4) a resumed call returns the value its body produced**, and its trace continues the trace recorded at
    the suspension. -/
theorem resume_returns_body_value (rs : List Nat) (a : ASys K V) (id : Nat) {p : PendingCall K V} {spec : FnSpec}
    (hp : a.pending.find? (fun p => p.id = id) = some p) (hs : fns[p.fn]? = some spec) :
    ∃ tr, (aStep fns tls size isOk rs a (.callResume id)).2 = .ret p.c.bodyVal (p.pre ++ TraceEv.bodyRun :: tr) := by
  rw [aStep_resume_some fns tls size isOk rs a id hp hs]
  simp only [callFinish_val]
  unfold callFinish
  simp only
  split
  · exact ⟨_, by simp only [List.append_assoc, List.singleton_append]; rfl⟩
  · exact ⟨_, by simp only [List.append_assoc, List.singleton_append]; rfl⟩

/-- **(4) a resumed call stores normally.**  Async flavour; the value is accepted (`shouldStore`: `cache_if` /
    the `Result` filter) and not refused as oversize by the memory-aware store.  After `callResume`, the key
    of the call holds the body's value in the shared cache of its function, stamped with the cache's CURRENT
    time, hit counter 0 — whatever other callers stored, evicted or invalidated meanwhile, and whatever this
    store itself had to evict. -/
theorem resume_stores_fresh_entry (rs : List Nat) (a : ASys K V) (id : Nat) {p : PendingCall K V} {spec : FnSpec}
    (hp : a.pending.find? (fun p => p.id = id) = some p) (hs : fns[p.fn]? = some spec)
    (hf : spec.cfg.flavour = .async)
    (hst : shouldStore spec isOk (p.c.cacheIf p.c.key p.c.bodyVal) p.c.bodyVal = true)
    (hno : spec.useMem = true → oversize spec.cfg size p.c.bodyVal = false) :
    lookup p.c.key ((aStep fns tls size isOk rs a (.callResume id)).1.sys.getCache ⟨p.fn, none⟩).store =
      some ⟨p.c.bodyVal, stamp spec.cfg (a.sys.getCache ⟨p.fn, none⟩).now, 0⟩ := by
  rw [aStep_resume_some fns tls size isOk rs a id hp hs]
  simp only
  rw [getCache_setCache_same]
  exact callFinish_lookup_self spec hf (tls p.fn) size isOk rs _ p.c p.pre hst hno

/-- (4) a resumed call whose value is rejected (`cache_if` says no, or an `Err` without `cache_if`) leaves every
    cache instance as it is -/
theorem resume_rejected_changes_nothing (rs : List Nat) (a : ASys K V) (id : Nat) {p : PendingCall K V}
    {spec : FnSpec} (hp : a.pending.find? (fun p => p.id = id) = some p) (hs : fns[p.fn]? = some spec)
    (hst : shouldStore spec isOk (p.c.cacheIf p.c.key p.c.bodyVal) p.c.bodyVal = false) (cid : CacheId) :
    (aStep fns tls size isOk rs a (.callResume id)).1.sys.getCache cid = a.sys.getCache cid := by
  rw [aStep_resume_some fns tls size isOk rs a id hp hs]
  simp only
  rw [Calls.getCache_setCache]
  split
  · rename_i hid; subst hid; exact callFinish_rejected _ _ _ _ _ _ _ _ hst
  · rfl

/-- (4) an accepted value that alone exceeds `max_memory` is not held after the resume (the memory-aware store
    refuses it, and drops an entry of the key another caller may have stored meanwhile) -/
theorem resume_oversize_not_held (rs : List Nat) (a : ASys K V) (id : Nat) {p : PendingCall K V} {spec : FnSpec}
    (hp : a.pending.find? (fun p => p.id = id) = some p) (hs : fns[p.fn]? = some spec)
    (hst : shouldStore spec isOk (p.c.cacheIf p.c.key p.c.bodyVal) p.c.bodyVal = true)
    (hu : spec.useMem = true) (ho : oversize spec.cfg size p.c.bodyVal = true) :
    lookup p.c.key ((aStep fns tls size isOk rs a (.callResume id)).1.sys.getCache ⟨p.fn, none⟩).store = none := by
  rw [aStep_resume_some fns tls size isOk rs a id hp hs]
  simp only
  rw [getCache_setCache_same]
  exact callFinish_oversize spec (tls p.fn) size isOk rs _ p.c p.pre hst hu ho

/-- (4) a resume touches only the shared cache of its own function; registrations and clock stay -/
theorem resume_touches_only_own_cache (rs : List Nat) (a : ASys K V) (id : Nat) {p : PendingCall K V}
    {spec : FnSpec} (hp : a.pending.find? (fun p => p.id = id) = some p) (hs : fns[p.fn]? = some spec) :
    (∀ cid, cid ≠ ⟨p.fn, none⟩ →
      (aStep fns tls size isOk rs a (.callResume id)).1.sys.getCache cid = a.sys.getCache cid) ∧
    (aStep fns tls size isOk rs a (.callResume id)).1.sys.called = a.sys.called ∧
    (aStep fns tls size isOk rs a (.callResume id)).1.sys.now = a.sys.now ∧
    (aStep fns tls size isOk rs a (.callResume id)).1.pending = a.pending.filter (fun q => q.id ≠ id) := by
  rw [aStep_resume_some fns tls size isOk rs a id hp hs]
  refine ⟨?_, rfl, rfl, rfl⟩
  intro cid hc
  exact getCache_setCache_ne _ _ hc

end sys

/-! ## (5) The lock part: a suspended call holds nothing, the others complete meanwhile -/

section locks
open Cachelito.Conc Cachelito.AsyncLemmas.Locks

/-- **(5) at the await no cache lock is held.**  Every complete run of the lock skeleton of the lookup phase
    (`AsyncGlobalCache::get` of any async cache `c`, at hook level or with the DashMap shard guards shown)
    ends holding nothing. -/
theorem lookup_phase_holds_nothing (full : Bool) (c : Nat) {t : List Ev} (hr : Runs (Table.asyncGet full c) t) :
    heldAfterAll [] t = [] :=
  C17.suspended_holds_nothing (asyncGet_wf full c) hr

/-- (5) the finish phase (`insert` / `insert_with_memory`) is balanced as well: after the store nothing is held -/
theorem finish_phase_holds_nothing (full : Bool) (c : Nat) {t : List Ev}
    (hr : Runs (Table.asyncInsert full c) t ∨ Runs (Table.asyncInsertMem full c) t) :
    heldAfterAll [] t = [] := by
  rcases hr with hr | hr
  · exact C17.suspended_holds_nothing (asyncInsert_wf full c) hr
  · exact C17.suspended_holds_nothing (asyncInsertMem_wf full c) hr

/-- **(5) a suspended (or dropped) call holds no lock.**  In any state reachable by any interleaving, a thread
    that is parked right after the lookup phase of an async call (`ParkedAfterLookup`: it has completed some
    rank-respecting operations and then `AsyncGlobalCache::get`, and nothing of the store yet) holds no lock. -/
theorem suspended_call_holds_nothing (full : Bool) (paths : List (List Ev)) (s : Conc.State)
    (hreach : Reach (Conc.State.init paths) s) (i : ThreadId) (th : Conc.Thread) (hi : s[i]? = some th)
    (hp : ParkedAfterLookup full paths s i) : th.held = [] := by
  obtain ⟨th', before, c, pre, hi', hb, hpre, hpath⟩ := hp
  rw [hi] at hi'
  simp only [Option.some.injEq] at hi'
  subst hi'
  have hw : (Skel.seqs (before ++ [Table.asyncGet full c])).wf [] = true := by
    rw [wf_seqs]
    simp only [List.all_append, List.all_cons, List.all_nil, Bool.and_true, Bool.and_eq_true, List.all_eq_true]
    exact ⟨hb, asyncGet_wf full c⟩
  exact parked_holds_nothing hreach hi hpath (C17.suspended_holds_nothing hw hpre)

/-- **(5) the others are never blocked by suspended calls.**  Any number of threads running operations of
    cachelito's table (calls, invalidations, statistics … on any caches), any reachable state, any set `susp` of
    threads parked at the await of an async call and never scheduled (suspended, or dropped there): while
    some other thread is unfinished, some other thread can take its next step. -/
theorem others_progress_while_suspended (full : Bool) (syncs asyncs : List Nat) (progs : List (List Skel))
    (hops : ∀ ops ∈ progs, ∀ o ∈ ops, o ∈ (Table.opTableOf full syncs asyncs).map (·.2))
    (paths : List (List Ev)) (hrun : IsRunOf progs paths)
    (s : Conc.State) (hreach : Reach (Conc.State.init paths) s) (susp : ThreadId → Prop)
    (hsusp : ∀ i, susp i → i < s.length → ParkedAfterLookup full paths s i)
    (hun : ∃ (i : ThreadId) (th : Conc.Thread), s[i]? = some th ∧ ¬ susp i ∧ th.todo ≠ []) :
    ∃ i, ¬ susp i ∧ enabledB s i = true := by
  refine C17.progress_despite_suspended progs ?_ paths hrun s hreach susp ?_ hun
  · intro ops ho o hoo
    obtain ⟨p, hp, rfl⟩ := List.mem_map.1 (hops ops ho o hoo)
    exact C17.opTableOf_wf full syncs asyncs p hp
  · intro i th hi hs
    exact suspended_call_holds_nothing full paths s hreach i th hi
      (hsusp i hs (List.getElem?_eq_some_iff.1 hi).1)

/-- **(5) the others complete meanwhile.**  Same setting: there is a schedule of the OTHER threads only, every
    step of which is enabled, after which every other thread has completed all its operations, while the
    suspended calls stand exactly where they were (never scheduled, holding nothing). -/
theorem others_finish_while_suspended (full : Bool) (syncs asyncs : List Nat) (progs : List (List Skel))
    (hops : ∀ ops ∈ progs, ∀ o ∈ ops, o ∈ (Table.opTableOf full syncs asyncs).map (·.2))
    (paths : List (List Ev)) (hrun : IsRunOf progs paths)
    (s : Conc.State) (hreach : Reach (Conc.State.init paths) s) (susp : ThreadId → Prop)
    (hsusp : ∀ i, susp i → i < s.length → ParkedAfterLookup full paths s i) :
    ∃ (sched : List ThreadId) (s' : Conc.State), (∀ i ∈ sched, ¬ susp i) ∧ runSchedule sched s = some s' ∧
      (∀ (i : ThreadId) (th : Conc.Thread), s'[i]? = some th → ¬ susp i → th.todo = []) ∧
      (∀ i, susp i → s'[i]? = s[i]?) := by
  have hwf : ∀ ops ∈ progs, ∀ o ∈ ops, o.wf [] = true := by
    intro ops ho o hoo
    obtain ⟨p, hp, rfl⟩ := List.mem_map.1 (hops ops ho o hoo)
    exact C17.opTableOf_wf full syncs asyncs p hp
  refine others_finish ((allWf_of_isRunOf hwf hrun).reach hreach) susp ?_
  intro i th hi hs
  exact suspended_call_holds_nothing full paths s hreach i th hi
    (hsusp i hs (List.getElem?_eq_some_iff.1 hi).1)

/-- **(5) resumed later, the parked calls complete too.**  From any reachable state of such a system — in
    particular the one in which the others have finished and only the parked calls remain — there is a
    schedule, every step enabled, that finishes every thread: the store phase of a resumed call gets its locks. -/
theorem resumed_calls_finish (full : Bool) (syncs asyncs : List Nat) (progs : List (List Skel))
    (hops : ∀ ops ∈ progs, ∀ o ∈ ops, o ∈ (Table.opTableOf full syncs asyncs).map (·.2))
    (paths : List (List Ev)) (hrun : IsRunOf progs paths)
    (s : Conc.State) (hreach : Reach (Conc.State.init paths) s) :
    ∃ (sched : List ThreadId) (s' : Conc.State), runSchedule sched s = some s' ∧ allFinished s' = true := by
  have hwf : ∀ ops ∈ progs, ∀ o ∈ ops, o.wf [] = true := by
    intro ops ho o hoo
    obtain ⟨p, hp, rfl⟩ := List.mem_map.1 (hops ops ho o hoo)
    exact C17.opTableOf_wf full syncs asyncs p hp
  exact all_finish ((allWf_of_isRunOf hwf hrun).reach hreach)

end locks

/-! ## Non-vacuity

  One async function `f` (index 0): async flavour, LRU, `limit = 2`, tag `"t"`; `K = V = Nat`.
  Every check is by `decide` on the executable model. -/

section Examples

/-- a TLRU score algebra over `Nat` (unused by the LRU example) -/
def exTl : Nat → Tlru Nat := fun _ => ⟨fun a b => decide (a < b), fun _ h _ r => h * r⟩
/-- the universe of functions: one `#[cache_async(limit = 2, policy = "lru", tags = ["t"])]` -/
def exFns : List FnSpec :=
  [{ name := "f", isAsync := true, threadScope := false, cfg := ⟨.async, .lru, some 2, none, none⟩,
     useMem := false, isResult := false, hasCacheIf := false, hasInvalidateOn := false,
     tags := ["t"], events := [], deps := [] }]
/-- a call with key `k` whose body returns `v`; no user predicates -/
def exCall (k v : Nat) : CallIn Nat Nat := ⟨k, v, fun _ _ => true, fun _ _ => false⟩
/-- run a history (no random draws needed) -/
def exRun (a : ASys Nat Nat) (ops : List (AOp Nat Nat)) : ASys Nat Nat × List (AOut Nat Nat) :=
  aRun exFns exTl (fun _ => 0) (fun _ => true) a (ops.map (fun o => (o, [])))
/-- entries `(key, value)` of `f`'s cache, its order queue, the ids of the parked calls -/
def view (a : ASys Nat Nat) : List (Nat × Nat) × List Nat × List Nat :=
  (((a.sys.getCache ⟨0, none⟩).store.map (fun p => (p.1, p.2.val))), (a.sys.getCache ⟨0, none⟩).queue,
   a.pending.map (·.id))
/-- outputs, coded: `[0, v]` returned `v`; `[1]` suspended; `[2]` unit; `[3]` no such call;
    `[4, v]` a base call returned `v`; `[5, n]` an invalidation count; `[6]` other -/
def code : AOut Nat Nat → List Nat
  | .ret v _ => [0, v]
  | .suspended _ => [1]
  | .unit => [2]
  | .noSuchCall => [3]
  | .base (.ret v _) => [4, v]
  | .base (.count n) => [5, n]
  | .base _ => [6]
/-- `(hits, misses)` of `f`'s cache -/
def stats (a : ASys Nat Nat) : Nat × Nat := ((a.sys.getCache ⟨0, none⟩).hitStat, (a.sys.getCache ⟨0, none⟩).missStat)

/-- the hypotheses of (1), (4) are satisfiable: `f` exists, is not thread-scope, is async with `limit = 2` -/
example : exFns[0]?.map (·.threadScope) = some false ∧
    exFns[0]?.map (·.cfg) = some ⟨.async, .lru, some 2, none, none⟩ := by decide

/-- **Resume after interference.**  A call `f(1)` (body value 10) is begun: miss, parked.  Meanwhile another
    caller calls `f(1)` (its body gives 11): stored; `invalidate_by_tag "t"` clears the cache (count 1).  Then
    the parked call is resumed: it returns 10 and its value IS stored, the queue tracks it, nothing parked. -/
example :
    let ops : List (AOp Nat Nat) :=
      [.callBegin 7 0 (exCall 1 10), .base (.call 0 0 (exCall 1 11)), .base (.invalidateByTag "t"), .callResume 7]
    view (exRun ASys.init (ops.take 1)).1 = ([], [], [7]) ∧
    view (exRun ASys.init (ops.take 2)).1 = ([(1, 11)], [1], [7]) ∧
    view (exRun ASys.init (ops.take 3)).1 = ([], [], [7]) ∧
    view (exRun ASys.init ops).1 = ([(1, 10)], [1], []) ∧
    (exRun ASys.init ops).2.map code = [[1], [4, 11], [5, 1], [0, 10]] := by decide

/-- resume WITHOUT the invalidation: the late store replaces the other caller's entry (one entry, one queue slot) -/
example :
    let ops : List (AOp Nat Nat) :=
      [.callBegin 7 0 (exCall 1 10), .base (.call 0 0 (exCall 1 11)), .callResume 7]
    view (exRun ASys.init ops).1 = ([(1, 10)], [1], []) ∧
    (exRun ASys.init ops).2.map code = [[1], [4, 11], [0, 10]] := by decide

/-- **Drop after interference.**  Same history with `callDrop`: the final cache is exactly the cache of the
    history run from `lookupOnly` (no call at all beyond its lookup): empty after the invalidation; without the
    invalidation it holds the OTHER caller's value 11 and the dropped call's 10 is nowhere.  The lookup did
    happen: the statistics count two misses (the dropped call's and the other caller's). -/
example :
    let h : List (AOp Nat Nat) := [.base (.call 0 0 (exCall 1 11)), .base (.invalidateByTag "t")]
    let h' : List (AOp Nat Nat) := [.base (.call 0 0 (exCall 1 11))]
    let lo : ASys Nat Nat := ⟨lookupOnly exFns Sys.init 0 (exCall 1 10), []⟩
    view (exRun ASys.init (.callBegin 7 0 (exCall 1 10) :: h ++ [.callDrop 7])).1 = ([], [], []) ∧
    view (exRun lo h).1 = ([], [], []) ∧
    view (exRun ASys.init (.callBegin 7 0 (exCall 1 10) :: h' ++ [.callDrop 7])).1 = ([(1, 11)], [1], []) ∧
    view (exRun lo h').1 = ([(1, 11)], [1], []) ∧
    stats (exRun ASys.init (.callBegin 7 0 (exCall 1 10) :: h' ++ [.callDrop 7])).1 = (0, 2) ∧
    stats (exRun lo h').1 = (0, 2) ∧ stats (exRun ASys.init h').1 = (0, 1) ∧
    (exRun ASys.init (.callBegin 7 0 (exCall 1 10) :: h ++ [.callDrop 7, .callResume 7])).2.map code =
      [[1], [4, 11], [5, 1], [2], [3]] := by decide

/-- the histories above satisfy the side condition of (3): they do not name call 7 -/
example : ∀ x ∈ ([.base (.call 0 0 (exCall 1 11)), .base (.invalidateByTag "t"), .callBegin 8 0 (exCall 2 20),
    .callResume 8] : List (AOp Nat Nat)), mentions 7 x = false := by decide

/-- **Two overlapping parked calls for the same key, resumed in both orders**: the later resume wins, and in
    both orders there is exactly one entry and one queue slot for the key. -/
example :
    let b : List (AOp Nat Nat) := [.callBegin 1 0 (exCall 1 10), .callBegin 2 0 (exCall 1 20)]
    view (exRun ASys.init b).1 = ([], [], [2, 1]) ∧
    view (exRun ASys.init (b ++ [.callResume 1, .callResume 2])).1 = ([(1, 20)], [1], []) ∧
    (exRun ASys.init (b ++ [.callResume 1, .callResume 2])).2.map code = [[1], [1], [0, 10], [0, 20]] ∧
    view (exRun ASys.init (b ++ [.callResume 2, .callResume 1])).1 = ([(1, 10)], [1], []) ∧
    (exRun ASys.init (b ++ [.callResume 2, .callResume 1])).2.map code = [[1], [1], [0, 20], [0, 10]] ∧
    stats (exRun ASys.init (b ++ [.callResume 2, .callResume 1])).1 = (0, 2) := by decide

/-- one of the two dropped, the other resumed: only the resumed value is stored -/
example :
    let ops : List (AOp Nat Nat) :=
      [.callBegin 1 0 (exCall 1 10), .callBegin 2 0 (exCall 1 20), .callDrop 2, .callResume 1, .callResume 2]
    view (exRun ASys.init ops).1 = ([(1, 10)], [1], []) ∧
    (exRun ASys.init ops).2.map code = [[1], [1], [2], [0, 10], [3]] ∧
    completions exFns exTl (fun _ => 0) (fun _ => true) ASys.init (ops.map (fun o => (o, []))) =
      [(⟨0, none⟩, 1, 10)] := by decide

/-- **Late stores respect the limit** (`limit = 2`): three overlapping calls for three keys, resumed after each
    other — the third store evicts the least recently used entry. -/
example :
    let ops : List (AOp Nat Nat) :=
      [.callBegin 1 0 (exCall 1 10), .callBegin 2 0 (exCall 2 20), .callBegin 3 0 (exCall 3 30),
       .callResume 3, .callResume 1, .callResume 2]
    view (exRun ASys.init ops).1 = ([(1, 10), (2, 20)], [1, 2], []) := by decide

/-- a `callBegin` that hits is complete at once: value from the cache, nothing parked -/
example :
    let ops : List (AOp Nat Nat) := [.base (.call 0 0 (exCall 1 10)), .callBegin 5 0 (exCall 1 99)]
    view (exRun ASys.init ops).1 = ([(1, 10)], [1], []) ∧
    (exRun ASys.init ops).2.map code = [[4, 10], [0, 10]] ∧ stats (exRun ASys.init ops).1 = (1, 1) := by decide

/-- (1) on the example: begin + resume = the ordinary call, on the system part -/
example :
    let a := (exRun ASys.init [.callBegin 9 0 (exCall 4 40), .callResume 9]).1
    let b := (sysStep exFns exTl (fun _ => 0) (fun _ => true) [] Sys.init (.call 0 0 (exCall 4 40))).1
    view a = ([(4, 40)], [4], []) ∧ view ⟨b, []⟩ = ([(4, 40)], [4], []) ∧ a.sys.called = b.called := by decide

/-! Locks: thread 0 is an async call on cache 2 whose lookup purges an expired entry (`[O]`) and whose store
    takes the queue mutex again; thread 1 is `invalidate_cache` of that cache (`[Rc.r{ [O] }]`). -/

open Cachelito.Conc in
/-- lock events of the lookup phase (expired entry purged under the queue mutex) -/
def exPre : List Ev := [.acq (Table.O 2) .excl, .rel (Table.O 2)]
open Cachelito.Conc in
/-- lock events of the store phase -/
def exPost : List Ev := [.acq (Table.O 2) .excl, .rel (Table.O 2)]
open Cachelito.Conc in
/-- lock events of `invalidate_cache` on the async cache -/
def exInval : List Ev := [.acq Table.Rc .shared, .acq (Table.O 2) .excl, .rel (Table.O 2), .rel Table.Rc]
open Cachelito.Conc in
/-- the two thread programs -/
def exProgs : List (List Skel) :=
  [[Table.asyncGet false 2, Table.asyncInsert false 2], [Table.invalidateCache (Table.asyncClearCb false 2)]]
open Cachelito.Conc in
/-- the event lists the two threads perform -/
def exPaths : List (List Ev) := [exPre ++ exPost, exInval]

open Cachelito.Conc in
/-- the hypotheses of (5) hold: the programs are table entries, the event lists are runs of them -/
example : (∀ ops ∈ exProgs, ∀ o ∈ ops, o ∈ (Table.opTableOf false [0, 1] [2]).map (·.2)) ∧
    accepts (Table.asyncGet false 2) exPre = true ∧ accepts (Table.asyncInsert false 2) exPost = true := by decide

open Cachelito.Conc in
example : IsRunOf exProgs exPaths :=
  ⟨(accepts_iff _ _).1 (by decide), (accepts_iff _ _).1 (by decide), trivial⟩

open Cachelito.Conc Cachelito.AsyncLemmas.Locks in
/-- after its lookup phase (schedule `[0, 0]`) thread 0 is `ParkedAfterLookup` … -/
example : ParkedAfterLookup false exPaths [⟨[], exPost⟩, ⟨[], exInval⟩] 0 :=
  ⟨⟨[], exPost⟩, [], 2, exPre, rfl, by simp, (accepts_iff _ _).1 (by decide), rfl⟩

open Cachelito.Conc in
/-- … it holds nothing, the invalidation runs to completion while it stays parked (`[1, 1, 1, 1]`), and the
    resumed store then completes as well.  Contrast: parked in the MIDDLE of the lookup (holding the queue
    mutex — which the generated code never does across an await) it would block the invalidation. -/
example :
    runSchedule [0, 0] (Conc.State.init exPaths) = some [⟨[], exPost⟩, ⟨[], exInval⟩] ∧
    (runSchedule [0, 0, 1, 1, 1, 1] (Conc.State.init exPaths)).map (fun s => s.map (·.todo.length)) = some [2, 0] ∧
    (runSchedule [0, 0, 1, 1, 1, 1, 0, 0] (Conc.State.init exPaths)).map allFinished = some true ∧
    (runSchedule [0, 1] (Conc.State.init exPaths)).map (fun s => (enabledB s 1, enabledB s 0)) =
      some (false, true) := by decide

end Examples

end Cachelito.C20
