/-
  C09 — Err results are never cached; a later Ok is.

  Wrapper level (`Cachelito.callFn` = the code `#[cache]` / `#[cache_async]` generate), for a function
  whose return type is recognised as `Result` (`spec.isResult = true`), without `cache_if` and without
  `invalidate_on`.  Every statement holds for every flavour, policy, limit, TTL, `max_memory`
  (`spec.cfg` arbitrary), for both engine stores (`spec.useMem` arbitrary = with and without
  `max_memory`), every TLRU scorer, size function, `isOk` classifier and stream of random draws.
  Histories are arbitrary lists of calls (each with its own body outcome — an impure body) and clock ticks.

  Only (3) and (5c) use the absence of `invalidate_on` (with it, a hit may still re-run the body: C11);
  (1), (2), (4), (5a), (5b) hold with or without it.

  `spec.isResult` is what the macro derives from the SPELLING of the return type (`Result<…` or
  `std::result::Result<…`); for a `Result` spelled through an alias, `core::result::Result` or a leading
  `::` the macro sets `isResult = false` and the last theorem shows that an `Err` is then cached (known
  finding F7, not covered by C09).
-/
import Cachelito.Lemmas.Wrapper

set_option linter.unusedSectionVars false
set_option linter.unusedSimpArgs false
set_option linter.unusedVariables false

namespace Cachelito.C09
open Cachelito Cachelito.Wrap
variable {K V S : Type} [DecidableEq K]

/-- (1) **An Err is not stored.**  A call whose lookup misses and whose body returns `Err` leaves the cache
    exactly as its lookup left it, returns the body's value, and its trace is `bodyRun, returned`:
    the body ran and nothing was handed to the engine. -/
theorem err_not_stored (spec : FnSpec) (hR : spec.isResult = true) (hC : spec.hasCacheIf = false)
    (tl : Tlru S) (size : V → Nat) (isOk : V → Bool) (rs : List Nat)
    (s : State K V) (c : CallIn K V)
    (hmiss : (get spec.cfg s c.key).2 = none) (herr : isOk c.bodyVal = false) :
    callFn spec tl size isOk rs s c =
      ((get spec.cfg s c.key).1, c.bodyVal, [TraceEv.bodyRun, TraceEv.returned c.bodyVal false]) := by
  rw [callFn_body spec tl size isOk rs s c (runsBody_of_none spec s c hmiss),
    wouldStore_result_nopred spec isOk c hR hC, herr, checkPart_of_none spec s c hmiss,
    predPart_nopred spec c hC]
  simp

/-- (1, in the words of the property) after a failing call the state is the post-lookup state, the body
    ran, and no `stored` event occurred -/
theorem err_not_stored' (spec : FnSpec) (hR : spec.isResult = true) (hC : spec.hasCacheIf = false)
    (tl : Tlru S) (size : V → Nat) (isOk : V → Bool) (rs : List Nat)
    (s : State K V) (c : CallIn K V)
    (hmiss : (get spec.cfg s c.key).2 = none) (herr : isOk c.bodyVal = false) :
    (callFn spec tl size isOk rs s c).1 = (get spec.cfg s c.key).1 ∧
    TraceEv.bodyRun ∈ (callFn spec tl size isOk rs s c).2.2 ∧
    ∀ k v, TraceEv.stored k v ∉ (callFn spec tl size isOk rs s c).2.2 := by
  rw [err_not_stored spec hR hC tl size isOk rs s c hmiss herr]
  simp

/-- (2) **An Ok is stored.**  A call whose lookup misses and whose body returns `Ok` hands exactly
    `(key, value)` to the engine store the macro selected (`insert_result_with_memory` /
    `insert_result`, async: `insert_with_memory` / `insert`), applied to the post-lookup state; the trace
    is `bodyRun, stored key value, returned`. -/
theorem ok_stored (spec : FnSpec) (hR : spec.isResult = true) (hC : spec.hasCacheIf = false)
    (tl : Tlru S) (size : V → Nat) (isOk : V → Bool) (rs : List Nat)
    (s : State K V) (c : CallIn K V)
    (hmiss : (get spec.cfg s c.key).2 = none) (hok : isOk c.bodyVal = true) :
    callFn spec tl size isOk rs s c =
      ((if spec.useMem then insertMem spec.cfg tl size rs (get spec.cfg s c.key).1 c.key c.bodyVal
        else insert spec.cfg tl (rs.headD 0) (get spec.cfg s c.key).1 c.key c.bodyVal),
       c.bodyVal,
       [TraceEv.bodyRun, TraceEv.stored c.key c.bodyVal, TraceEv.returned c.bodyVal false]) := by
  rw [callFn_body spec tl size isOk rs s c (runsBody_of_none spec s c hmiss),
    wouldStore_result_nopred spec isOk c hR hC, hok, checkPart_of_none spec s c hmiss,
    predPart_nopred spec c hC]
  simp [storeOp]

/-- (3a) **A hit is served.**  A call whose lookup hits returns the cached value, leaves the post-lookup
    state, and its trace is just `returned (from cache)`: the body does not run. -/
theorem hit_served (spec : FnSpec) (hI : spec.hasInvalidateOn = false) (tl : Tlru S) (size : V → Nat)
    (isOk : V → Bool) (rs : List Nat) (s : State K V) (c : CallIn K V) (v : V)
    (hhit : (get spec.cfg s c.key).2 = some v) :
    callFn spec tl size isOk rs s c = ((get spec.cfg s c.key).1, v, [TraceEv.returned v true]) := by
  have hb : runsBody spec s c = false := by rw [runsBody_noinv spec s c hI, hhit]; rfl
  obtain ⟨cached, h1, h2⟩ := callFn_hit spec tl size isOk rs s c hb
  rw [hhit] at h1; cases h1
  rw [h2, checkPart_noinv spec s c hI]; rfl

/-- (3b) **The body runs iff the lookup missed.** -/
theorem body_runs_iff_miss (spec : FnSpec) (hI : spec.hasInvalidateOn = false) (tl : Tlru S) (size : V → Nat)
    (isOk : V → Bool) (rs : List Nat) (s : State K V) (c : CallIn K V) :
    TraceEv.bodyRun ∈ (callFn spec tl size isOk rs s c).2.2 ↔ (get spec.cfg s c.key).2 = none := by
  cases hg : (get spec.cfg s c.key).2 with
  | none =>
    rw [callFn_body spec tl size isOk rs s c (runsBody_of_none spec s c hg)]
    simp
  | some v =>
    rw [hit_served spec hI tl size isOk rs s c v hg]
    simp

/-- (4, one step) if every value held is `Ok`, the same holds after any call -/
theorem all_ok_step (spec : FnSpec) (hR : spec.isResult = true) (hC : spec.hasCacheIf = false)
    (tl : Tlru S) (size : V → Nat) (isOk : V → Bool) (rs : List Nat) (s : State K V) (c : CallIn K V)
    (h : ∀ k e, lookup k s.store = some e → isOk e.val = true) :
    ∀ k e, lookup k (callFn spec tl size isOk rs s c).1.store = some e → isOk e.val = true := by
  intro k
  apply callFn_heldSat spec tl size isOk rs s c k (fun v => isOk v = true)
  · intro _ hw; rwa [wouldStore_result_nopred spec isOk c hR hC] at hw
  · exact h k

/-- (4) **Err is never cached (recognised spellings).**  In every state reachable from the empty cache
    by calls (with arbitrary Ok/Err outcomes) and clock ticks, every stored value is `Ok`.
    `isResult = true` means the return type is spelled `Result<` or `std::result::Result<`; other
    spellings of a Result type are excluded (see `unrecognised_spelling_caches_err`). -/
theorem err_never_cached_recognised_spellings (spec : FnSpec) (hR : spec.isResult = true)
    (hC : spec.hasCacheIf = false) (tl : Tlru S) (size : V → Nat) (isOk : V → Bool)
    (h : List (WEv K V)) :
    ∀ k e, lookup k (runCalls spec tl size isOk (State.init : State K V) h).1.store = some e →
      isOk e.val = true := by
  intro k
  apply runCalls_heldSat spec tl size isOk k (fun v => isOk v = true) h
  · intro c _ _ hw; rwa [wouldStore_result_nopred spec isOk c hR hC] at hw
  · exact heldSat_init k _

/-- (4, consequence) **No call is ever served an Err from the cache**: after any history from the empty
    cache, a value a call returns from the cache is `Ok`. -/
theorem never_served_err (spec : FnSpec) (hR : spec.isResult = true) (hC : spec.hasCacheIf = false)
    (tl : Tlru S) (size : V → Nat) (isOk : V → Bool) (h : List (WEv K V))
    (c : CallIn K V) (rs : List Nat) (v : V)
    (hret : TraceEv.returned v true ∈
      (callFn spec tl size isOk rs (runCalls spec tl size isOk (State.init : State K V) h).1 c).2.2) :
    isOk v = true := by
  generalize hs : (runCalls spec tl size isOk (State.init : State K V) h).1 = s at hret
  have hall := err_never_cached_recognised_spellings spec hR hC tl size isOk h
  rw [hs] at hall
  cases hb : runsBody spec s c
  · obtain ⟨cached, h1, h2⟩ := callFn_hit spec tl size isOk rs s c hb
    rw [h2] at hret
    have hv : v = cached := by
      unfold checkPart at hret
      rw [h1] at hret
      by_cases hi : spec.hasInvalidateOn = true <;> simp [hi] at hret <;> exact hret
    subst hv
    obtain ⟨⟨e, he, hev, _⟩, _⟩ := get_some spec.cfg s c.key h1
    rw [← hev]; exact hall _ e he
  · rw [callFn_body spec tl size isOk rs s c hb] at hret
    exfalso
    unfold checkPart predPart at hret
    cases (get spec.cfg s c.key).2 <;> simp at hret <;> (repeat' split at hret) <;> simp at hret

/-- (5a) **While every outcome for `k` was Err, `k` is not cached.**  After any history from the empty
    cache in which every call for `k` had an `Err` outcome, `k` is not in the store. -/
theorem err_only_key_absent (spec : FnSpec) (hR : spec.isResult = true) (hC : spec.hasCacheIf = false)
    (tl : Tlru S) (size : V → Nat) (isOk : V → Bool) (k : K) (h : List (WEv K V))
    (herr : ∀ c ∈ callsOf h, c.key = k → isOk c.bodyVal = false) :
    lookup k (runCalls spec tl size isOk (State.init : State K V) h).1.store = none := by
  rw [← heldSat_false_iff]
  apply runCalls_heldSat spec tl size isOk k (fun _ => False) h
  · intro c hc hk hw
    rw [wouldStore_result_nopred spec isOk c hR hC, herr c hc hk] at hw
    exact Bool.false_ne_true hw
  · exact heldSat_init k _

/-- (5a, consequence) **Every call that follows only failures runs the body again**: after such a
    history a call for `k` executes the body and returns the body's value. -/
theorem err_only_runs_body (spec : FnSpec) (hR : spec.isResult = true) (hC : spec.hasCacheIf = false)
    (tl : Tlru S) (size : V → Nat) (isOk : V → Bool) (h : List (WEv K V))
    (c : CallIn K V) (rs : List Nat)
    (herr : ∀ c0 ∈ callsOf h, c0.key = c.key → isOk c0.bodyVal = false) :
    TraceEv.bodyRun ∈
      (callFn spec tl size isOk rs (runCalls spec tl size isOk (State.init : State K V) h).1 c).2.2 ∧
    (callFn spec tl size isOk rs (runCalls spec tl size isOk (State.init : State K V) h).1 c).2.1
      = c.bodyVal := by
  have habs := err_only_key_absent spec hR hC tl size isOk c.key h herr
  rw [callFn_body spec tl size isOk rs _ c (runsBody_of_absent spec _ c habs)]
  simp

/-- (5b) **The first Ok is stored.**  After a history in which every call for the key failed, a call whose
    body returns `Ok` runs the body and hands the value to the engine (trace `bodyRun, stored, returned`). -/
theorem first_ok_is_stored (spec : FnSpec) (hR : spec.isResult = true) (hC : spec.hasCacheIf = false)
    (tl : Tlru S) (size : V → Nat) (isOk : V → Bool)
    (h : List (WEv K V)) (c : CallIn K V) (rs : List Nat)
    (herr : ∀ c0 ∈ callsOf h, c0.key = c.key → isOk c0.bodyVal = false) (hok : isOk c.bodyVal = true) :
    (callFn spec tl size isOk rs (runCalls spec tl size isOk (State.init : State K V) h).1 c).2 =
      (c.bodyVal, [TraceEv.bodyRun, TraceEv.stored c.key c.bodyVal, TraceEv.returned c.bodyVal false]) := by
  have habs := err_only_key_absent spec hR hC tl size isOk c.key h herr
  rw [ok_stored spec hR hC tl size isOk rs _ c (get_of_absent spec.cfg _ c.key habs) hok]

/-- (5c) **…and then served.**  Without eviction pressure or expiry (`limit = none`, no effective memory
    bound, `ttl = none`): after failures `h1`, the first `Ok` call `c`, and ANY further history `h2`
    (calls for any keys with any outcomes, ticks), a call for the same key returns that `Ok` value from
    the cache and does not run the body. -/
theorem first_ok_then_served (spec : FnSpec) (hR : spec.isResult = true) (hC : spec.hasCacheIf = false)
    (hI : spec.hasInvalidateOn = false) (hnp : NoPressure spec) (tl : Tlru S) (size : V → Nat)
    (isOk : V → Bool) (h1 h2 : List (WEv K V)) (c : CallIn K V) (rs : List Nat)
    (herr : ∀ c0 ∈ callsOf h1, c0.key = c.key → isOk c0.bodyVal = false) (hok : isOk c.bodyVal = true)
    (c' : CallIn K V) (rs' : List Nat) (hk : c'.key = c.key) :
    (callFn spec tl size isOk rs'
        (runCalls spec tl size isOk (State.init : State K V) (h1 ++ WEv.call c rs :: h2)).1 c').2 =
      (c.bodyVal, [TraceEv.returned c.bodyVal true]) := by
  have habs := err_only_key_absent spec hR hC tl size isOk c.key h1 herr
  rw [runCalls_append]
  generalize (runCalls spec tl size isOk (State.init : State K V) h1).1 = s1 at habs
  simp only [runCalls]
  have hstore : ValAt c.key c.bodyVal (callFn spec tl size isOk rs s1 c).1 := by
    rw [ok_stored spec hR hC tl size isOk rs s1 c (get_of_absent spec.cfg s1 c.key habs) hok]
    refine ⟨⟨c.bodyVal, stamp spec.cfg (get spec.cfg s1 c.key).1.now, 0⟩, ?_, rfl⟩
    show lookup c.key (storeOp spec tl size rs _ c.key c.bodyVal).store = _
    rw [storeOp_noevict spec hnp.1, if_pos rfl]
  have hkeep : ∀ (c0 : CallIn K V), Keeps spec c.key c.bodyVal c0 := fun c0 _ => Or.inl hI
  have hlater := runCalls_valAt spec hnp tl size isOk c.key c.bodyVal h2 _ (fun c0 _ => hkeep c0) hstore
  rw [← hk] at hlater
  have := callFn_served spec hnp.2 tl size isOk rs' _ c' c.bodyVal (fun _ => Or.inl hI) hlater
  rw [this]; simp [hI]

/-- **Async `cache_if` caveat (outside C09, whose hypothesis excludes `cache_if`).**  In the async macro
    a configured `cache_if` REPLACES the `is_ok()` test: when the body runs, returns an `Err` and the
    predicate accepts it, the `Err` is handed to the engine, and (async engine, value not oversize) it is
    held afterwards. -/
theorem caveat_async_cache_if_stores_err (spec : FnSpec) (hA : spec.isAsync = true)
    (hC : spec.hasCacheIf = true) (tl : Tlru S) (size : V → Nat) (isOk : V → Bool) (rs : List Nat)
    (s : State K V) (c : CallIn K V) (hrun : runsBody spec s c = true)
    (herr : isOk c.bodyVal = false) (hacc : c.cacheIf c.key c.bodyVal = true) :
    TraceEv.stored c.key c.bodyVal ∈ (callFn spec tl size isOk rs s c).2.2 ∧
    (spec.cfg.flavour = .async → (spec.useMem = true → oversize spec.cfg size c.bodyVal = false) →
      ∃ e, lookup c.key (callFn spec tl size isOk rs s c).1.store = some e ∧ e.val = c.bodyVal) := by
  have hw : wouldStore spec isOk c = true := by
    unfold wouldStore shouldStore; simp [hA, hC, hacc]
  rw [callFn_body spec tl size isOk rs s c hrun]
  simp only [hw, if_true]
  refine ⟨by simp, ?_⟩
  intro hf hno
  exact ⟨_, storeOp_async_self spec hf tl size rs _ c.key c.bodyVal hno, rfl⟩

/-- **Known finding F7.**  If the return type is a `Result` that the macro does not recognise by its
    spelling (`isResult = false`) and no `cache_if` is given, every result — `Err` included — is handed
    to the engine. -/
theorem unrecognised_spelling_caches_err (spec : FnSpec) (hR : spec.isResult = false)
    (hC : spec.hasCacheIf = false) (tl : Tlru S) (size : V → Nat) (isOk : V → Bool) (rs : List Nat)
    (s : State K V) (c : CallIn K V) (hrun : runsBody spec s c = true) :
    TraceEv.stored c.key c.bodyVal ∈ (callFn spec tl size isOk rs s c).2.2 := by
  rw [callFn_body spec tl size isOk rs s c hrun, wouldStore_plain spec isOk c hR hC]
  simp

/-! ### Non-vacuity: concrete histories (`K = V = Nat`, even = Ok, odd = Err) -/

def exTl : Tlru Nat := ⟨fun a b => decide (a < b), fun _ h _ r => h * r⟩
def exOk (v : Nat) : Bool := v % 2 == 0
def mk (k v : Nat) : WEv Nat Nat := .call ⟨k, v, fun _ _ => true, fun _ _ => false⟩ []

/-- sync global, LFU, limit 2, plain store -/
def specG : FnSpec :=
  { name := "f", isAsync := false, threadScope := false, cfg := ⟨.global, .lfu, some 2, none, none⟩,
    useMem := false, isResult := true, hasCacheIf := false, hasInvalidateOn := false,
    tags := [], events := [], deps := [] }

/-- async, LRU, memory-aware store (max_memory 100), ttl 5 s -/
def specA : FnSpec :=
  { specG with isAsync := true, cfg := ⟨.async, .lru, none, some 100, some 5⟩, useMem := true }

/-- Err, Err, Ok, then a hit: the body runs on calls 1–3, call 3 stores, call 4 is served 4 from the cache;
    an unrelated key in between does not disturb it -/
example : (runCalls specG exTl id exOk (State.init : State Nat Nat)
      [mk 1 3, mk 1 5, mk 2 8, mk 1 4, mk 1 7]).2 =
    [(3, [.bodyRun, .returned 3 false]),
     (5, [.bodyRun, .returned 5 false]),
     (8, [.bodyRun, .stored 2 8, .returned 8 false]),
     (4, [.bodyRun, .stored 1 4, .returned 4 false]),
     (4, [.returned 4 true])] := by decide

example : (runCalls specA exTl id exOk (State.init : State Nat Nat)
      [mk 1 3, .tick 1000, mk 1 5, mk 1 4, .tick 1000, mk 1 7]).2 =
    [(3, [.bodyRun, .returned 3 false]),
     (5, [.bodyRun, .returned 5 false]),
     (4, [.bodyRun, .stored 1 4, .returned 4 false]),
     (4, [.returned 4 true])] := by decide

/-- the store after two failures is still empty; after the Ok it holds exactly that value -/
example : (runCalls specA exTl id exOk (State.init : State Nat Nat) [mk 1 3, mk 1 5]).1.store = [] := by decide
example : ((runCalls specA exTl id exOk (State.init : State Nat Nat) [mk 1 3, mk 1 5, mk 1 4]).1.store.map
    (fun p => (p.1, p.2.val))) = [(1, 4)] := by decide

/-- after expiry (ttl 5 s) the Ok is gone and an Err outcome is again not cached -/
example : (runCalls specA exTl id exOk (State.init : State Nat Nat)
      [mk 1 4, .tick 6000, mk 1 3, mk 1 5]).2 =
    [(4, [.bodyRun, .stored 1 4, .returned 4 false]),
     (3, [.bodyRun, .returned 3 false]),
     (5, [.bodyRun, .returned 5 false])] := by decide

/-- hypotheses of (5c) are satisfiable: an unbounded configuration -/
def specU : FnSpec := { specG with cfg := ⟨.threadLocal, .fifo, none, none, none⟩, threadScope := true }
example : NoPressure specU := ⟨⟨rfl, Or.inl rfl⟩, rfl⟩

/-- the async `cache_if` caveat is observable: an accepted Err (3) is stored and served -/
def specAC : FnSpec := { specA with hasCacheIf := true }
example : (runCalls specAC exTl id exOk (State.init : State Nat Nat) [mk 1 3, mk 1 4]).2 =
    [(3, [.bodyRun, .predCalled 1 3 true, .stored 1 3, .returned 3 false]),
     (3, [.returned 3 true])] := by decide

end Cachelito.C09
